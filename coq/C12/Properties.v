(* C12/Properties.v -- pinned statements of property C12 (JSON-LD serialisation round trip). *)
From Sophia.C12 Require Import Model Proofs Calls CallsProofs Back BackProofs RoundTripFacts RoundTripValues RoundTripDoc Wide WideProofs Labels LabelsProofs.

(* ---------- (1) the filter ---------- *)
Check (is_jsonld_spec : forall info q, is_jsonld info q = true <-> representable info q).
Check (process_filter : forall info o d, process info o d = process info o (filter (is_jsonld info) d)).
Check (serialise_filter : forall info o d, serialise info o d = serialise info o (filter (is_jsonld info) d)).

(* ---------- (2) suppressed nodes ---------- *)
Check (list_nodes_sound : forall info o d k pk,
  let s := process info o d in let D := filter (is_jsonld info) d in
  aget nkey_eqb (list_nodes info o s) k = Some pk ->
  is_blank info (snd k) = true
  /\ (exists pp, (exists q, In q D /\ qo q = snd k /\ skey q = pk /\ qp q = pp)
        /\ (forall q, In q D -> qo q = snd k -> skey q = pk /\ qp q = pp)
        /\ (mode10 o = true -> pp <> c_first))
  /\ fst pk = fst k
  /\ (forall q, In q D -> qs q = snd k -> qg q = fst k)
  /\ (forall q, In q D -> qg q <> Some (snd k))
  /\ (exists f r, In (mkQ (snd k) c_first f (fst k)) D /\ In (mkQ (snd k) c_rest r (fst k)) D
        /\ is_lit info r = false
        /\ (forall q, In q D -> qs q = snd k -> (qp q = c_first /\ qo q = f) \/ (qp q = c_rest /\ qo q = r))
        /\ (r = c_nil \/ aget nkey_eqb (list_nodes info o s) (fst k, r) = Some k))
  /\ (exists n, anchored n (list_nodes info o s) k = true)).
Check (cells_marked : forall info o d fuel k,
  let s := process info o d in
  is_marked (list_nodes info o s) k = true ->
  forall c, In c (cells s fuel k) -> is_marked (list_nodes info o s) c = true).
Check (compounds_sound : forall info o d k,
  let s := process info o d in let D := filter (is_jsonld info) d in
  In k (compounds info o s) ->
  compound o = true
  /\ is_blank info (snd k) = true
  /\ is_compound_literal info (get_node s k) = true
  /\ (exists pk pp, (exists q, In q D /\ qo q = snd k /\ skey q = pk /\ qp q = pp)
        /\ (forall q, In q D -> qo q = snd k -> skey q = pk /\ qp q = pp)
        /\ fst pk = fst k)
  /\ (forall q, In q D -> qs q = snd k ->
        qg q = fst k /\ is_lit info (qo q) = true
        /\ (qp q = c_value \/ qp q = c_direction \/ qp q = c_language)
        /\ forall q', In q' D -> qs q' = snd k -> qp q' = qp q -> qo q' = qo q)
  /\ (forall q, In q D -> qg q <> Some (snd k))).
(* the invariant of process_quads these rest on *)
Check (inv_process : forall info o d, inv info o (process info o d) (filter (is_jsonld info) d)).

(* ---------- (3) the @type shortcut ---------- *)
Check (type_shortcut_lossless : forall info o q,
  regen (skey q) (pkey_of info o q) (obj_of info q) = Some q).

(* ---------- (4) round trip ---------- *)
Check (roundtrip_partial : forall info o d base,
  list_nodes info o (process info o d) = [] -> compounds info o (process info o d) = [] ->
  forall q, In q (to_rdf base (serialise info o d)) <-> In q (filter (is_jsonld info) d)).
Check (roundtrip_no_lists : forall info o d base,
  (forall q, In q d -> ~ (qp q = c_rest /\ qo q = c_nil)) -> compound o = false ->
  forall q, In q (to_rdf base (serialise info o d)) <-> In q (filter (is_jsonld info) d)).
Check (roundtrip_doc_ok_sound : forall info d base doc, roundtrip_doc_ok info d base doc = true ->
  let r := witness base doc in
  (forall q, In q (map (rename_q r) (to_rdf base doc)) <-> In q (filter (is_jsonld info) d))
  /\ NoDup (map snd r) /\ NoDup (map fst r)
  /\ (forall p, In p r -> base <= fst p /\ kind info (snd p) = KBlank
                           /\ ~ In (snd p) (ids_of (to_rdf base doc)))
  /\ (forall x, In x (ids_of d) -> x < base)).
(* the full statement (not proved in general; evaluated on every correspondence case) *)
Check (roundtrip_full_statement : Prop).

(* ---------- witnesses ---------- *)
(* 1..8 = rdf:first rest nil type List value direction language; 11 :a  12 :p  13 _:b  14 "lit"
   15 :g2  16 _:c  17 :q  18 :s  19 "ltr" *)
Definition T : table :=
  [(1, I); (2, I); (3, I); (4, I); (5, I); (6, I); (7, I); (8, I);
   (11, I); (12, I); (13, B); (14, Lit true false false); (15, I); (16, B); (17, I); (18, I);
   (19, Lit true true true); (20, mkInfo KOther false false false)].
Definition O11 := mkOpts false false false.
Definition O11c := mkOpts false false true.

(* non-vacuity of the theorems: a well-formed list in a named graph is compacted, and round-trips *)
Definition d_list := [mkQ 18 12 13 (Some 15); mkQ 13 1 14 (Some 15); mkQ 13 2 16 (Some 15);
                      mkQ 16 1 11 (Some 15); mkQ 16 2 3 (Some 15); mkQ 20 12 11 None].
Example list_compacted :
  list_nodes (info_of T) O11 (process (info_of T) O11 d_list) = [((Some 15, 16), (Some 15, 13)); ((Some 15, 13), (Some 15, 18))]
  /\ serialise (info_of T) O11 d_list
     = [mkTop (mkJ 15 [] []) (Some [mkJ 18 [] [(12, [JList [13; 16] [JLit 14; JRef 11]])]])]
  /\ roundtrip_ok T O11 d_list 100 = true.
Proof. vm_compute. auto. Qed.
Example plain_roundtrip_nonvacuous :
  list_nodes (info_of T) O11 (process (info_of T) O11 [mkQ 18 4 11 None; mkQ 18 12 14 (Some 13)]) = []
  /\ roundtrip_ok T O11 [mkQ 18 4 11 None; mkQ 18 12 14 (Some 13)] 100 = true.
Proof. vm_compute. auto. Qed.

(* (a) DESIGN section 4 row 11: a list cell that is never an object made the original code panic *)
Definition d_a := [mkQ 13 1 14 None; mkQ 13 2 3 None].
Theorem prefix_a_refuted : prefix_a_panics (info_of T) O11 d_a = true /\ roundtrip_ok T O11 d_a 100 = true.
Proof. vm_compute. auto. Qed.

(* (b) row 12: a list cell of the default graph that is also a subject in graph :g2 -- the original
   code (list_node keyed by label) drops the :g2 quad *)
Definition d_b := [mkQ 13 1 14 None; mkQ 13 2 3 None; mkQ 18 12 13 None; mkQ 13 17 11 (Some 15)].
Theorem prefix_b_refuted :
  roundtrip_doc_ok (info_of T) d_b 100 (serialise_original (info_of T) O11 d_b) = false
  /\ roundtrip_ok T O11 d_b 100 = true.
Proof. vm_compute. auto. Qed.
(* keying list_node by (graph, label) alone is not enough: the list is compacted into fresh nodes
   while _:b is still used in :g2, so the link between the two graphs is lost *)
Theorem keyed_by_graph_only_refuted :
  let s := process (info_of T) O11 d_b in
  roundtrip_doc_ok (info_of T) d_b 100
    (document (info_of T) s (keep (mark_all_prefix (info_of T) O11 s false false)) []) = false.
Proof. vm_compute. auto. Qed.

(* (c) a list that is its own item (JSON-LD 1.1): every node was suppressed, the document was [] *)
Definition d_c := [mkQ 13 1 16 None; mkQ 13 2 3 None; mkQ 16 1 14 None; mkQ 16 2 13 None].
Theorem prefix_c_refuted :
  let s := process (info_of T) O11 d_c in
  document (info_of T) s (mark_all (info_of T) O11 s) [] = []
  /\ roundtrip_doc_ok (info_of T) d_c 100 (document (info_of T) s (mark_all (info_of T) O11 s) []) = false
  /\ roundtrip_ok T O11 d_c 100 = true.
Proof. vm_compute. auto. Qed.

(* (d) a cell typed rdf:List was compacted and its rdf:type quad lost *)
Definition d_d := [mkQ 13 1 14 None; mkQ 13 2 3 None; mkQ 13 4 5 None; mkQ 18 12 13 None].
Theorem prefix_d_refuted :
  let s := process (info_of T) O11 d_d in
  roundtrip_doc_ok (info_of T) d_d 100
    (document (info_of T) s (keep (mark_all_prefix (info_of T) O11 s true true)) []) = false
  /\ roundtrip_ok T O11 d_d 100 = true.
Proof. vm_compute. auto. Qed.

(* (e) a compound literal that nothing references was suppressed, hence dropped *)
Definition d_e := [mkQ 13 6 14 None; mkQ 13 7 19 None].
Theorem prefix_e_refuted :
  let s := process (info_of T) O11c d_e in
  roundtrip_doc_ok (info_of T) d_e 100
    (document (info_of T) s (list_nodes (info_of T) O11c s) (compounds_prefix (info_of T) O11c s)) = false
  /\ roundtrip_ok T O11c d_e 100 = true.
Proof. vm_compute. auto. Qed.

Print Assumptions is_jsonld_spec.
Print Assumptions process_filter.
Print Assumptions serialise_filter.
Print Assumptions list_nodes_sound.
Print Assumptions cells_marked.
Print Assumptions compounds_sound.
Print Assumptions inv_process.
Print Assumptions type_shortcut_lossless.
Print Assumptions roundtrip_partial.
Print Assumptions roundtrip_no_lists.
Print Assumptions roundtrip_doc_ok_sound.
Print Assumptions list_compacted.
Print Assumptions plain_roundtrip_nonvacuous.
Print Assumptions prefix_a_refuted.
Print Assumptions prefix_b_refuted.
Print Assumptions keyed_by_graph_only_refuted.
Print Assumptions prefix_c_refuted.
Print Assumptions prefix_d_refuted.
Print Assumptions prefix_e_refuted.

(* ---------- literal level ---------- *)
Check (i18n_shortcut_lossless : forall wf suffix, i18n_back (i18n_value wf suffix) = suffix).
Example i18n_shortcut_used : i18n_value (fun _ => true) [101; 110; 95; 108; 116; 114] = VDir (Some [101; 110]) [108; 116; 114]
  /\ i18n_value (fun _ => true) [95; 114; 116; 108] = VDir None [114; 116; 108]
  /\ i18n_value (fun _ => true) [69; 78; 95; 108; 116; 114] = VTyped [69; 78; 95; 108; 116; 114].
Proof. vm_compute. auto. Qed.
Check (anchored_len : forall l m, (length m <= l)%nat -> forall n x, anchored n m x = true -> anchored l m x = true).
Print Assumptions i18n_shortcut_lossless.
Print Assumptions prefix_f_refuted.
Print Assumptions i18n_shortcut_used.
Print Assumptions anchored_len.

(* ---------- (5) the serializer object: error channel, several calls on one serializer ---------- *)
Check (serialise_result_some : forall info o bad d,
  (forall q, In q d -> is_jsonld info q = true -> bad (qo q) = false) ->
  serialise_result info o bad d = Some (serialise info o d)).
Check (serialise_result_none : forall info o bad d,
  serialise_result info o bad d = None <->
  exists q, In q d /\ is_jsonld info q = true /\ is_lit info (qo q) = true /\ bad (qo q) = true).
Check (serialise_result_filter : forall info o bad d,
  serialise_result info o bad d = serialise_result info o bad (filter (is_jsonld info) d)).
Check (calls_independent : forall info o bad ds k d,
  nth_error ds k = Some d -> nth_error (calls info o bad ds) k = Some (serialise_result info o bad d)).
Check (calls_app : forall info o bad a b, calls info o bad (a ++ b) = calls info o bad a ++ calls info o bad b).
Check (appended_app : forall r1 r2, appended (r1 ++ r2) = appended r1 ++ appended r2).
Check (appended_all_ok : forall info o bad ds,
  (forall d q, In d ds -> In q d -> is_jsonld info q = true -> bad (qo q) = false) ->
  appended (calls info o bad ds) = map (serialise info o) ds).
Check (replaced_snoc : forall rs r,
  replaced (rs ++ [r]) = match r with Some doc => Some doc | None => replaced rs end).
(* three calls on one serializer, the second with an ill-formed rdf:JSON literal (14): a writer holds documents 1 and 3,
   a jsonifier document 3 *)
Example calls_example :
  let ds := [[mkQ 18 12 11 None]; [mkQ 18 12 14 None; mkQ 20 12 14 None]; []] in
  appended (calls (info_of T) O11 (bad_of [14]) ds) = [[mkTop (mkJ 18 [] [(12, [JRef 11])]) None]; []]
  /\ replaced (calls (info_of T) O11 (bad_of [14]) ds) = Some []
  /\ calls_ok T O11 [14] ds [[[mkTop (mkJ 18 [] [(12, [JRef 11])]) None]; []]] = true
  /\ jsonifier_ok T O11 [14] ds (Some []) = true.
Proof. vm_compute. auto. Qed.
Print Assumptions serialise_result_some.
Print Assumptions serialise_result_none.
Print Assumptions serialise_result_filter.
Print Assumptions calls_independent.
Print Assumptions calls_app.
Print Assumptions appended_app.
Print Assumptions appended_all_ok.
Print Assumptions replaced_snoc.
Print Assumptions calls_example.

(* ---------- (6) THE GENERAL ROUND TRIP (lists of any nesting, shared or not, in any number of graphs; compound
   literals; cyclic and malformed chains; labels reused across graphs) ---------- *)
(* (6a) for EVERY document: the reference reader and the witness walk in lockstep *)
Check (reader_lock : forall base doc, (forall x, In x (doc_vis doc) -> x < base) ->
  let r := witness base doc in
  map (rename_q r) (to_rdf base doc) = doc_back doc
  /\ map snd r = doc_ghosts doc
  /\ NoDup (map fst r)
  /\ (forall p, In p r -> base <= fst p)
  /\ (forall x, In x (ids_of (to_rdf base doc)) -> In x (doc_vis doc) \/ In x reader_consts \/ base <= x)).
(* (6b) the emitted document: what is read back is exactly the expressible part of the input; every suppressed node
   is hidden exactly once; nothing that is shown is suppressed anywhere *)
Check (back_sound : forall info o d, wf_info info -> forall y,
  In y (doc_back (serialise info o d)) -> In y (filter (is_jsonld info) d)).
Check (back_complete : forall info o d, wf_info info -> forall q,
  In q (filter (is_jsonld info) d) -> In q (doc_back (serialise info o d))).
Check (ghosts_nodup : forall info o d, wf_info info -> NoDup (doc_ghosts (serialise info o d))).
Check (ghost_ghostly : forall info o d, wf_info info -> forall b,
  In b (doc_ghosts (serialise info o d)) -> ghostly info o d b).
Check (vis_ok : forall info o d, wf_info info -> forall id,
  In id (doc_vis (serialise info o d)) -> In id (ids_of d) /\ ~ ghostly info o d id).
(* the fuel of the model's recursions is sufficient: the marks are pairwise different node keys, and `cells` does not
   depend on its fuel beyond the height bound *)
Check (L_le_nodes : forall info o d,
  (length (list_nodes info o (process info o d)) <= length (nodes (process info o d)))%nat).
Check (cells_stable : forall info o d k pk,
  aget nkey_eqb (list_nodes info o (process info o d)) k = Some pk ->
  forall F F', (Bnd info o d < F + hgt info o d k)%nat -> (Bnd info o d < F' + hgt info o d k)%nat ->
  cells (process info o d) F k = cells (process info o d) F' k).
Check (value_props : forall info o d, wf_info info -> forall x a p f,
  valq info d x a p -> fuel_ok info o d f x ->
  vprops info o d (fst a) x
    (convert info (process info o d) (list_nodes info o (process info o d)) (compounds info o (process info o d)) f x)).
(* the value vectors of the engine never hold the same object twice *)
Check (pat_nd_process : forall info o d k p, NoDup (pat (nodes (process info o d)) k p)).
(* (6c) the theorem *)
Check (roundtrip_general : forall info o d base, wf_info info -> (forall x, In x (ids_of d) -> x < base) ->
  let docu := serialise info o d in
  let r := witness base docu in
  (forall q, In q (map (rename_q r) (to_rdf base docu)) <-> In q (filter (is_jsonld info) d))
  /\ NoDup (map snd r) /\ NoDup (map fst r)
  /\ (forall p, In p r -> base <= fst p /\ kind info (snd p) = KBlank
                           /\ In (snd p) (ids_of d) /\ ~ In (snd p) (ids_of (to_rdf base docu)))).
Check (roundtrip_isomorphic : forall info o d base, wf_info info -> (forall x, In x (ids_of d) -> x < base) ->
  let back := to_rdf base (serialise info o d) in
  exists f : N -> N,
    (forall x y, In x (ids_of back) -> In y (ids_of back) -> f x = f y -> x = y)
    /\ (forall x, x < base -> f x = x)
    /\ (forall x, f x <> x -> base <= x /\ kind info (f x) = KBlank /\ In (f x) (ids_of d))
    /\ (forall q, In q (map (fun q => mkQ (f (qs q)) (qp q) (f (qo q)) (option_map f (qg q))) back)
                   <-> In q (filter (is_jsonld info) d))).
(* the statement that Proofs.v left open *)
Check (roundtrip_full : roundtrip_full_statement).
Check (roundtrip_full : forall info o d base, wf_info info -> (forall x, In x (ids_of d) -> x < base) ->
  roundtrip_doc_ok info d base (serialise info o d) = true).

(* non-vacuity: a dataset with a nested list in a named graph, a cell label reused as a subject in another graph (not
   compacted there), a compound literal as a list item, and a list that is its own item (not compacted).
   21 _:d  22 _:e  23 _:f (compound literal)  24 "x"  25 _:h  26 _:i *)
Definition T2 : table := T ++ [(21, B); (22, B); (23, B); (24, Lit true false false); (25, B); (26, B)].
Definition d_big :=
  [ mkQ 18 12 13 (Some 15); mkQ 13 1 21 (Some 15); mkQ 13 2 16 (Some 15);      (* :s :p ( (..) .. ) in :g2 *)
    mkQ 21 1 14 (Some 15); mkQ 21 2 3 (Some 15);                               (* the nested list ("lit") *)
    mkQ 16 1 23 (Some 15); mkQ 16 2 3 (Some 15);                               (* second cell: a compound literal *)
    mkQ 23 6 24 (Some 15); mkQ 23 7 19 (Some 15);                              (* _:f rdf:value "x"; rdf:direction "ltr" *)
    mkQ 22 1 14 None; mkQ 22 2 3 None; mkQ 11 12 22 None; mkQ 22 17 11 (Some 15); (* _:e: a list cell, also a subject in :g2 *)
    mkQ 25 1 26 None; mkQ 25 2 3 None; mkQ 26 1 14 None; mkQ 26 2 25 None ].   (* a list that is its own item *)
Example wf_info_T2 : wf_info (info_of T2).
Proof. intros c Hc. simpl in Hc. repeat (destruct Hc as [<-|Hc]; [reflexivity|]). destruct Hc. Qed.
Example d_big_compacted :
  serialise (info_of T2) O11c d_big
  = [ mkTop (mkJ 15 [] [])
        (Some [ mkJ 18 [] [(12, [JList [13; 16] [JList [21] [JLit 14]; JComp 23 24 19 None]])];
                mkJ 22 [] [(17, [JRef 11])] ]);
      mkTop (mkJ 22 [] [(1, [JLit 14]); (2, [JList [] []])]) None;
      mkTop (mkJ 11 [] [(12, [JRef 22])]) None;
      mkTop (mkJ 25 [] [(1, [JRef 26]); (2, [JList [] []])]) None;
      mkTop (mkJ 26 [] [(1, [JLit 14]); (2, [JRef 25])]) None ]
  /\ witness 100 (serialise (info_of T2) O11c d_big) = [(103, 13); (100, 21); (102, 16); (101, 23)]
  /\ (forall x, In x (ids_of d_big) -> x < 100).
Proof.
  split; [vm_compute; reflexivity|]. split; [vm_compute; reflexivity|].
  intros x Hx. vm_compute in Hx. repeat (destruct Hx as [<-|Hx]; [reflexivity|]). destruct Hx.
Qed.
Print Assumptions reader_lock.
Print Assumptions back_sound.
Print Assumptions back_complete.
Print Assumptions ghosts_nodup.
Print Assumptions ghost_ghostly.
Print Assumptions vis_ok.
Print Assumptions L_le_nodes.
Print Assumptions cells_stable.
Print Assumptions value_props.
Print Assumptions pat_nd_process.
Print Assumptions roundtrip_general.
Print Assumptions roundtrip_isomorphic.
Print Assumptions roundtrip_full.
Print Assumptions wf_info_T2.
Print Assumptions d_big_compacted.

(* ---------- (9) the directed streams: identifiers under the options, parser entry points, sizes (Wide.v) ---------- *)
(* identifiers: what is written for an IRI is read back as that IRI whatever base / compactToRelative are; a string of keyword form is not *)
Check (scheme_not_keyword : forall s, has_scheme s = true -> keyword_form s = false).
Check (id_roundtrip : forall base ctr i, has_scheme i = true -> expand_id (id_written base ctr i) = EIri i).
Check (ids_ok_sound : forall base ctr input observed, ids_ok base ctr input observed = true ->
  forall s, In s observed -> In s input /\ expand_id s = EIri s).
Check (relative_writer_refuted :
  has_scheme ex_at_type = true /\ expand_id (id_written_relative ex_dir ex_at_type) = EIgnored
  /\ expand_id (id_written (Some (ex_dir ++ [100])) true ex_at_type) = EIri ex_at_type).
(* entry points: every reader gives the parser the same text, and the bytes of any text are accepted whole *)
Check (chunks_concat : forall p l, read_to_end (chunks_of p l) = l).
Check (parse_entry_spec : forall p l, parse_entry (chunks_of p l) = if utf8_valid l then Some l else None).
Check (entry_independent : forall p q l, parse_entry (chunks_of p l) = parse_entry (chunks_of q l)).
Check (chunkwise_refuted : exists p l, parse_entry (chunks_of p l) = Some l /\ parse_chunkwise (chunks_of p l) = None).
Check (encode_valid : forall s, forallb scalar s = true -> utf8_valid (utf8_encode s) = true).
Check (entry_accepts_text : forall p s, forallb scalar s = true ->
  parse_entry (chunks_of p (utf8_encode s)) = Some (utf8_encode s)).
Check (entry_ok_spec : forall doc obs, entry_ok doc obs = true -> forall p a, In (p, a) obs -> a = utf8_valid doc).
(* sizes: values that differ by text, language tag, datatype or kind are all kept, whatever their number *)
Check (push_all_distinct : forall xs, distinctb xs = true -> push_all xs = xs).
Check (push_all_complete : forall xs x, In x xs -> existsb (rdfobject_eqb x) (push_all xs) = true).
Check (text_dedup_refuted : exists xs, distinctb xs = true /\ push_all xs = xs /\ fold_left push_if_new_text xs [] <> xs).
Check (values_ok_distinct : forall xs, distinctb xs = true -> values_ok xs (N.of_nat (length xs)) = true).
(* non-vacuity: 40 values then the lookalikes "chat"@en, "chat"@fr, "chat", <chat>: 44 values; the euro sign is 3 well-formed bytes *)
Example lookalikes_after_40 :
  let chat := [99; 104; 97; 116] in let xs_string := [120; 115] in
  let xs := map (fun i => TypedLiteral [118; N.of_nat i] xs_string) (seq 0 40)
            ++ [LangString chat [101; 110]; LangString chat [102; 114]; TypedLiteral chat xs_string; Node 0 chat] in
  distinctb xs = true /\ values_ok xs 44 = true /\ length (fold_left push_if_new_text xs []) = 41%nat.
Proof. vm_compute. repeat split. Qed.
Example euro_bytes : utf8_encode [8364] = [226; 130; 172] /\ scalar 8364 = true
  /\ entry_ok (expand_segs [([226; 130; 172], 3000)]) [(Every 8192, true); (Every 1, true); (At [4097], true)] = true
  /\ entry_ok [226; 130] [(At [], false); (Every 1, false)] = true.
Proof. vm_compute. repeat split. Qed.
Print Assumptions scheme_not_keyword.
Print Assumptions id_roundtrip.
Print Assumptions ids_ok_sound.
Print Assumptions relative_writer_refuted.
Print Assumptions chunks_concat.
Print Assumptions parse_entry_spec.
Print Assumptions entry_independent.
Print Assumptions chunkwise_refuted.
Print Assumptions encode_valid.
Print Assumptions entry_accepts_text.
Print Assumptions entry_ok_spec.
Print Assumptions push_all_distinct.
Print Assumptions push_all_complete.
Print Assumptions text_dedup_refuted.
Print Assumptions values_ok_distinct.
Print Assumptions lookalikes_after_40.
Print Assumptions euro_bytes.

(* ---------- (10) blank node labels (Labels.v): the identifier of a blank node is "_:" + its label, character for character ---------- *)
(* distinct labels, however alike, have distinct identifiers, which JSON-LD reads as blank node identifiers carrying that label *)
Check (bnode_written_injective : forall a b, bnode_written a = bnode_written b -> a = b).
Check (label_of_spec : forall s l, label_of s = Some l <-> s = bnode_written l).
Check (written_is_blank : forall l, expand_id (bnode_written l) = EBlank (bnode_written l)).
Check (written_distinct : forall a b, a <> b -> str_eqb (bnode_written a) (bnode_written b) = false).
(* the reader (rdf-types' blank node identifiers) takes back exactly the labels of BnodeId that have no '.' (KNOWN for "_:a.b") *)
Check (dotless_label_read_back : forall l, bnode_id_ok l = true -> has_dot l = false -> read_as_blank l = true).
Check (dotted_label_not_read_back : forall l, bnode_id_ok l = true -> has_dot l = true -> read_as_blank l = false).
Check (read_back_iff_dotless : forall l, bnode_id_ok l = true -> read_as_blank l = negb (has_dot l)).
Check (dot_label_refuted : exists l, bnode_id_ok l = true /\ read_as_blank l = false).
(* writers that clean the label (replace, drop, fold the case, cut) merge distinct blank nodes *)
Check (clean_writer_refuted : exists a b, a <> b /\ bnode_id_ok a = true /\ bnode_id_ok b = true
  /\ bnode_written_clean a = bnode_written_clean b).
Check (clean_writer_refuted_middle_dot : exists a b, a <> b /\ bnode_id_ok a = true /\ bnode_id_ok b = true
  /\ bnode_written_clean a = bnode_written_clean b).
Check (drop_writer_refuted : exists a b, a <> b /\ bnode_id_ok a = true /\ bnode_id_ok b = true
  /\ bnode_written_drop a = bnode_written_drop b).
Check (lower_writer_refuted : exists a b, a <> b /\ bnode_id_ok a = true /\ bnode_id_ok b = true
  /\ bnode_written_lower a = bnode_written_lower b).
Check (cut_writer_refuted : forall n, exists a b, a <> b /\ bnode_id_ok a = true /\ bnode_id_ok b = true
  /\ bnode_written_cut n a = bnode_written_cut n b).
(* the harness-facing checker *)
Check (labels_ok_sound : forall all input observed, labels_ok all input observed = true ->
  forall s, In s observed -> exists l, In l input /\ s = bnode_written l /\ label_of s = Some l).
Check (labels_ok_complete : forall input observed, labels_ok true input observed = true ->
  (forall l, In l input -> In (bnode_written l) observed)
  /\ NoDup input /\ NoDup observed /\ length observed = length input).
Check (labels_ok_no_merge : forall input observed, labels_ok true input observed = true ->
  forall a b, In a input -> In b input -> a <> b ->
  exists ia ib, In ia observed /\ In ib observed /\ ia <> ib /\ label_of ia = Some a /\ label_of ib = Some b).
(* non-vacuity: the labels e-acute, e-grave, a-middle-dot-b, a_b, a.b, U+10000, 0 are labels; their identifiers are accepted as written
   and refused when two of them are merged into "_:_" or "_:a_b"; a.b is the only one not read back; "", "-a", "a.", "a..b", ":a" are no labels *)
Example accented_labels :
  let ls := [[233]; [232]; [97; 183; 98]; [97; 95; 98]; [97; 46; 98]; [65536]; [48]] in
  forallb bnode_id_ok ls = true
  /\ labels_ok true ls (map bnode_written ls) = true
  /\ labels_ok true ls (map bnode_written_clean ls) = false
  /\ labels_ok false ls (map bnode_written_clean ls) = false
  /\ labels_ok false [[233]; [232]] [[95; 58; 95]] = false
  /\ labels_ok false [[97; 183; 98]; [97; 95; 98]] [[95; 58; 97; 95; 98]] = true
  /\ labels_ok true [[97; 183; 98]; [97; 95; 98]] [[95; 58; 97; 95; 98]] = false
  /\ map read_as_blank ls = [true; true; true; true; false; true; true]
  /\ map bnode_id_ok [[]; [45; 97]; [97; 46]; [97; 46; 46; 98]; [58; 97]; [183; 97]; [97; 32; 98]] = [false; false; false; false; false; false; false]
  /\ label_ok [97; 46; 98] true false = true /\ label_ok [233] true true = true /\ label_ok [97; 46] false false = true.
Proof. vm_compute. repeat split. Qed.
Print Assumptions bnode_written_injective.
Print Assumptions label_of_spec.
Print Assumptions written_is_blank.
Print Assumptions written_distinct.
Print Assumptions dotless_label_read_back.
Print Assumptions dotted_label_not_read_back.
Print Assumptions read_back_iff_dotless.
Print Assumptions dot_label_refuted.
Print Assumptions clean_writer_refuted.
Print Assumptions clean_writer_refuted_middle_dot.
Print Assumptions drop_writer_refuted.
Print Assumptions lower_writer_refuted.
Print Assumptions cut_writer_refuted.
Print Assumptions labels_ok_sound.
Print Assumptions labels_ok_complete.
Print Assumptions labels_ok_no_merge.
Print Assumptions accented_labels.
