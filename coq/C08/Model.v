(* C08/Model.v -- harness-facing checkers: the regenerated validator regexes, run by the verified
   derivative matcher, against BnodeId::new / VarName::new / LanguageTag::new (val3_ok); the byte -> text layer
   of the parser entry points against String::from_utf8 and the JSON-LD parser's UTF-8 error (utf8_ok, Utf8.v);
   every way of driving a parser's source, again after Err / Ok / exhaustion, against what the required method
   try_for_some_item gives on a fresh source (hist_ok, Source.v); (round 7) the rendered error messages of the error
   stream against str::is_char_boundary and the coverage of every cut offset by the four shifts of the long token
   (msg_ok, family_covers, Messages.v); the accessors of the literals the parsers yield against the raw literal
   (lit_ok, Literal.v). *)
From Sophia.Common Require Export Prelude.
From Sophia.C08 Require Export Regex.
From Sophia.gen Require Export LabelSrc.
From Sophia.C08 Require Export Utf8.
From Sophia.C08 Require Export Source.
From Sophia.C08 Require Export Messages.
From Sophia.C08 Require Export Literal.

Definition val3_ok (s : str) (bnode var tag : bool) : bool :=
  Bool.eqb (matchb bnode_id_regex s) bnode && Bool.eqb (matchb varname_regex s) var
  && Bool.eqb (matchb lang_tag_regex s) tag.
