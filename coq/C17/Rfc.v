(* C17/Rfc.v -- the oxiri resolver model against RFC 3986 section 5.2: on bases with an authority
   and a path free of dot segments, and references without scheme and authority, both give the same
   result; hence relativize is also a right inverse of the RFC resolver on that class. *)
From Sophia.C17 Require Import Model Proofs.
Local Open Scope nat_scope.

(* ================= remove_dot_segments, one rule at a time ================= *)
(* [rds_ok inp out res]: with enough fuel the loop started on (inp, out) returns res *)
Definition rds_ok (inp out res : str) : Prop := forall f, length inp < f -> rds f inp out = res.

Lemma rds_nil out : rds_ok [] out out.
Proof. intros f Hf. destruct f; [simpl in Hf; lia|]. reflexivity. Qed.

Definition plain_seg (s : str) : Prop := no_slash s /\ is_dot_seg s = false.
Definition slash_or_end (Y : str) : Prop := Y = [] \/ exists Y', Y = c_slash :: Y'.

(* what rules A-D test, on the text after the leading '/' *)
Lemma plain_tests seg Y : plain_seg seg -> slash_or_end Y ->
  starts_with [c_dot; c_slash] (seg ++ Y) = false /\ str_eqb (seg ++ Y) [c_dot] = false
  /\ starts_with [c_dot; c_dot; c_slash] (seg ++ Y) = false /\ str_eqb (seg ++ Y) [c_dot; c_dot] = false.
Proof.
  intros [Hns Hd] HY.
  assert (Hin : forall x, In x seg -> x <> c_slash).
  { intros x Hx ->. unfold no_slash in Hns. rewrite forallb_forall in Hns. specialize (Hns _ Hx). discriminate Hns. }
  assert (Hd1 : seg <> [c_dot]) by (intros ->; discriminate Hd).
  assert (Hd2 : seg <> [c_dot; c_dot]) by (intros ->; discriminate Hd).
  assert (HY' : forall x t, Y = x :: t -> x = c_slash).
  { intros x t ->. destruct HY as [HY|[Y' HY]]; [discriminate|]. injection HY as -> _. reflexivity. }
  pose proof dot_ne_slash as Hds.
  repeat split.
  - destruct (starts_with [c_dot; c_slash] (seg ++ Y)) eqn:E; [exfalso|reflexivity].
    apply starts_with_strip in E as [r E]. apply strip_prefix_some in E.
    destruct seg as [|a [|b seg']]; simpl in E.
    + apply HY' in E. auto.
    + injection E as -> E. auto.
    + injection E as _ -> _. apply (Hin c_slash); simpl; auto.
  - destruct (str_eqb (seg ++ Y) [c_dot]) eqn:E; [exfalso|reflexivity]. apply str_eqb_eq in E.
    destruct seg as [|a [|b seg']]; simpl in E.
    + apply HY' in E. auto.
    + injection E as -> E. auto.
    + discriminate E.
  - destruct (starts_with [c_dot; c_dot; c_slash] (seg ++ Y)) eqn:E; [exfalso|reflexivity].
    apply starts_with_strip in E as [r E]. apply strip_prefix_some in E.
    destruct seg as [|a [|b [|c seg']]]; simpl in E.
    + apply HY' in E. auto.
    + injection E as -> E. apply HY' in E. auto.
    + injection E as -> -> E. auto.
    + injection E as _ _ -> _. apply (Hin c_slash); simpl; auto.
  - destruct (str_eqb (seg ++ Y) [c_dot; c_dot]) eqn:E; [exfalso|reflexivity]. apply str_eqb_eq in E.
    destruct seg as [|a [|b [|c seg']]]; simpl in E.
    + apply HY' in E. auto.
    + injection E as -> E. apply HY' in E. auto.
    + injection E as -> -> E. auto.
    + discriminate E.
Qed.

Lemma find_slash_seg seg Y : no_slash seg -> slash_or_end Y -> find_or_len is_slash (seg ++ Y) = length seg.
Proof.
  intros Hns [->|[Y' ->]].
  - rewrite app_nil_r. apply find_or_len_all. exact Hns.
  - apply find_or_len_app; [exact Hns|reflexivity].
Qed.

Lemma rds_S f inp out : rds (S f) inp out =
  match inp with
  | [] => out
  | _ =>
    if starts_with [c_dot; c_dot; c_slash] inp then rds f (skipn 3 inp) out
    else if starts_with [c_dot; c_slash] inp then rds f (skipn 2 inp) out
    else if starts_with [c_slash; c_dot; c_slash] inp then rds f (skipn 2 inp) out
    else if str_eqb inp [c_slash; c_dot] then rds f [c_slash] out
    else if starts_with [c_slash; c_dot; c_dot; c_slash] inp then rds f (skipn 3 inp) (rfc_remove_last out)
    else if str_eqb inp [c_slash; c_dot; c_dot] then rds f [c_slash] (rfc_remove_last out)
    else if str_eqb inp [c_dot] || str_eqb inp [c_dot; c_dot] then rds f [] out
    else
      let '(lead, rest) := match inp with
                           | c :: t => if N.eqb c c_slash then ([c], t) else ([], inp)
                           | [] => ([], []) end in
      let k := find_or_len is_slash rest in
      rds f (skipn k rest) (out ++ lead ++ firstn k rest)
  end.
Proof. reflexivity. Qed.

(* the tests of rules A-D on an input that starts with '/' *)
Ltac slash_tests X :=
  change (starts_with [c_dot; c_dot; c_slash] (c_slash :: X)) with false;
  change (starts_with [c_dot; c_slash] (c_slash :: X)) with false;
  change (starts_with [c_slash; c_dot; c_slash] (c_slash :: X)) with (starts_with [c_dot; c_slash] X);
  change (str_eqb (c_slash :: X) [c_slash; c_dot]) with (str_eqb X [c_dot]);
  change (starts_with [c_slash; c_dot; c_dot; c_slash] (c_slash :: X)) with (starts_with [c_dot; c_dot; c_slash] X);
  change (str_eqb (c_slash :: X) [c_slash; c_dot; c_dot]) with (str_eqb X [c_dot; c_dot]);
  change (str_eqb (c_slash :: X) [c_dot]) with false;
  change (str_eqb (c_slash :: X) [c_dot; c_dot]) with false.

(* rule E on "/seg" *)
Lemma rds_E seg Y out res : plain_seg seg -> slash_or_end Y ->
  rds_ok Y (out ++ c_slash :: seg) res -> rds_ok (c_slash :: seg ++ Y) out res.
Proof.
  intros Hp HY H f Hf. destruct f as [|f]; [simpl in Hf; lia|].
  destruct (plain_tests seg Y Hp HY) as (T1 & T2 & T3 & T4).
  rewrite rds_S. slash_tests (seg ++ Y). rewrite T1, T2, T3, T4. cbv beta iota.
  rewrite N.eqb_refl. cbv beta iota zeta.
  rewrite (find_slash_seg seg Y (proj1 Hp) HY), firstn_app_len.
  assert (E : skipn (length seg) (seg ++ Y) = Y) by (rewrite skipn_app, skipn_all, Nat.sub_diag; reflexivity).
  rewrite E. cbn [app]. apply H. simpl in Hf. rewrite app_length in Hf. lia.
Qed.

(* rules B and C *)
Lemma rds_B X out res : rds_ok (c_slash :: X) out res -> rds_ok (c_slash :: c_dot :: c_slash :: X) out res.
Proof.
  intros H f Hf. destruct f as [|f]; [simpl in Hf; lia|].
  rewrite rds_S. slash_tests (c_dot :: c_slash :: X).
  change (starts_with [c_dot; c_slash] (c_dot :: c_slash :: X)) with true. cbv beta iota.
  apply H. simpl in *. lia.
Qed.
Lemma rds_B_end out res : rds_ok [c_slash] out res -> rds_ok [c_slash; c_dot] out res.
Proof.
  intros H f Hf. destruct f as [|f]; [simpl in Hf; lia|]. rewrite rds_S. apply H. simpl in *. lia.
Qed.
Lemma rds_C X out res : rds_ok (c_slash :: X) (rfc_remove_last out) res ->
  rds_ok (c_slash :: c_dot :: c_dot :: c_slash :: X) out res.
Proof.
  intros H f Hf. destruct f as [|f]; [simpl in Hf; lia|].
  rewrite rds_S. slash_tests (c_dot :: c_dot :: c_slash :: X).
  change (starts_with [c_dot; c_slash] (c_dot :: c_dot :: c_slash :: X)) with false.
  change (str_eqb (c_dot :: c_dot :: c_slash :: X) [c_dot]) with false.
  change (starts_with [c_dot; c_dot; c_slash] (c_dot :: c_dot :: c_slash :: X)) with true. cbv beta iota.
  apply H. simpl in *. lia.
Qed.
Lemma rds_C_end out res : rds_ok [c_slash] (rfc_remove_last out) res -> rds_ok [c_slash; c_dot; c_dot] out res.
Proof.
  intros H f Hf. destruct f as [|f]; [simpl in Hf; lia|]. rewrite rds_S. apply H. simpl in *. lia.
Qed.

(* ================= parse_path::<true> (oxiri) computes remove_dot_segments (RFC) ================= *)
Lemma rls_rfc out : rls true (rev out) = c_slash :: rev (rfc_remove_last out).
Proof.
  unfold rfc_remove_last. destruct (rfind c_slash out) as [i|] eqn:E.
  - destruct (rls_some true out i E) as [H _]. exact H.
  - rewrite rls_none by exact E. reflexivity.
Qed.

Lemma pp_dot_end R rest : rest_like rest ->
  pp_rm true (c_slash :: R) (c_dot :: rest) = Some (rev (c_slash :: R) ++ rest).
Proof.
  intros Hr. cbn [pp_rm]. change (N.eqb c_dot c_slash) with false. change (is_qh c_dot) with false. cbv iota.
  destruct Hr as [->|Hr].
  - cbn [pp_rm]. unfold dot_fix. cbn [strip_prefix]. rewrite !N.eqb_refl. change (N.eqb c_dot c_slash) with false.
    cbv iota. rewrite app_nil_r. reflexivity.
  - destruct rest as [|c t]; [discriminate|]. cbn [hd_is] in Hr. cbn [pp_rm].
    rewrite (is_qh_not_slash _ Hr), Hr. unfold dot_fix. cbn [strip_prefix]. rewrite !N.eqb_refl.
    change (N.eqb c_dot c_slash) with false. cbv iota. reflexivity.
Qed.

Lemma pp_dotdot_end R rest : rest_like rest ->
  pp_rm true (c_slash :: R) (c_dot :: c_dot :: rest) = Some (rev (rls true R) ++ rest).
Proof.
  intros Hr. cbn [pp_rm]. change (N.eqb c_dot c_slash) with false. change (is_qh c_dot) with false. cbv iota.
  destruct Hr as [->|Hr].
  - cbn [pp_rm]. unfold dot_fix. cbn [strip_prefix]. rewrite !N.eqb_refl. rewrite app_nil_r. reflexivity.
  - destruct rest as [|c t]; [discriminate|]. cbn [hd_is] in Hr. cbn [pp_rm].
    rewrite (is_qh_not_slash _ Hr), Hr. unfold dot_fix. cbn [strip_prefix]. rewrite !N.eqb_refl. reflexivity.
Qed.

Lemma pp_dot_slash R inp : pp_rm true (c_slash :: R) (c_dot :: c_slash :: inp) = pp_rm true (c_slash :: R) inp.
Proof.
  change (c_dot :: c_slash :: inp) with ([c_dot; c_slash] ++ inp).
  rewrite pp_rm_curdir by (right; eexists; reflexivity). reflexivity.
Qed.

Lemma pp_dotdot_slash R inp :
  pp_rm true (c_slash :: R) (c_dot :: c_dot :: c_slash :: inp) = pp_rm true (rls true R) inp.
Proof. change (c_dot :: c_dot :: c_slash :: inp) with (dotdot_slash ++ inp). rewrite pp_rm_updir. reflexivity. Qed.

Lemma plain_nil : plain_seg []. Proof. split; reflexivity. Qed.

Lemma agree_segs rest : rest_like rest -> forall segs out, segs <> [] -> Forall no_slash segs ->
  forallb (fun c => negb (is_qh c)) (join_slash segs) = true ->
  exists res, rds_ok (c_slash :: join_slash segs) out res
              /\ pp_rm true (c_slash :: rev out) (join_slash segs ++ rest) = Some (res ++ rest).
Proof.
  intros Hrest. induction segs as [|s segs IH]; intros out Hne HF Hq; [congruence|].
  inversion HF as [|? ? Hs HF']; subst.
  destruct segs as [|s2 tl].
  - (* the last segment *)
    cbn [join_slash] in *. destruct (is_dot_seg s) eqn:Ed.
    + apply is_dot_seg_iff in Ed as [->| ->].
      * exists (out ++ [c_slash]). split.
        -- apply rds_B_end. apply (rds_E [] [] out _ plain_nil (or_introl eq_refl)). apply rds_nil.
        -- cbn [app]. rewrite pp_dot_end by exact Hrest. cbn [rev]. rewrite rev_involutive. reflexivity.
      * exists (rfc_remove_last out ++ [c_slash]). split.
        -- apply rds_C_end. apply (rds_E [] [] _ _ plain_nil (or_introl eq_refl)). apply rds_nil.
        -- cbn [app]. rewrite pp_dotdot_end by exact Hrest. rewrite rls_rfc. cbn [rev]. rewrite rev_involutive. reflexivity.
    + exists (out ++ c_slash :: s). split.
      * rewrite <- (app_nil_r s) at 1. apply rds_E; [split; assumption|left; reflexivity|apply rds_nil].
      * rewrite pp_rm_push by (apply no_slash_qh_delim; assumption).
        rewrite pp_rm_finish; [|exact Hrest|].
        -- cbn [two_slash_err negb andb]. rewrite rev_app_distr, rev_involutive. cbn [rev].
           rewrite rev_involutive, <- !app_assoc. reflexivity.
        -- apply dot_fix_nondot; [apply no_slash_rev; exact Hs|rewrite is_dot_seg_rev; exact Ed|right; eexists; reflexivity].
  - change (join_slash (s :: s2 :: tl)) with (s ++ c_slash :: join_slash (s2 :: tl)) in *.
    rewrite forallb_app in Hq. apply andb_true_iff in Hq as [Hq1 Hq2].
    cbn [forallb] in Hq2. apply andb_true_iff in Hq2 as [_ Hq2].
    destruct (is_dot_seg s) eqn:Ed.
    + apply is_dot_seg_iff in Ed as [->| ->].
      * destruct (IH out ltac:(discriminate) HF' Hq2) as (res & R1 & R2). exists res. split.
        -- apply rds_B. exact R1.
        -- cbn [app]. rewrite pp_dot_slash. exact R2.
      * destruct (IH (rfc_remove_last out) ltac:(discriminate) HF' Hq2) as (res & R1 & R2). exists res. split.
        -- apply rds_C. exact R1.
        -- cbn [app]. rewrite pp_dotdot_slash, rls_rfc. exact R2.
    + destruct (IH (out ++ c_slash :: s) ltac:(discriminate) HF' Hq2) as (res & R1 & R2). exists res. split.
      * apply rds_E; [split; assumption|right; eexists; reflexivity|exact R1].
      * rewrite <- app_assoc. rewrite pp_rm_push by (apply no_slash_qh_delim; assumption).
        cbn [app pp_rm]. rewrite N.eqb_refl.
        rewrite dot_fix_nondot; [|apply no_slash_rev; exact Hs|rewrite is_dot_seg_rev; exact Ed|right; eexists; reflexivity].
        replace (c_slash :: rev s ++ c_slash :: rev out) with (c_slash :: rev (out ++ c_slash :: s)); [exact R2|].
        rewrite rev_app_distr. cbn [rev]. rewrite <- app_assoc. reflexivity.
Qed.

(* any path text X (no '?', '#'): oxiri after the directory out ++ "/" = RFC on "/" ++ X from out *)
Lemma agree_path X rest out : rest_like rest -> forallb (fun c => negb (is_qh c)) X = true ->
  exists res, rds_ok (c_slash :: X) out res /\ pp_rm true (c_slash :: rev out) (X ++ rest) = Some (res ++ rest).
Proof.
  intros Hr Hq. rewrite <- (split_join X) in Hq |- *.
  apply agree_segs; auto using split_nonempty, split_no_slash.
Qed.

(* ================= the directory part of a base path free of dot segments ================= *)
Definition slashcat (pieces : list str) : str := concat (map (cons c_slash) pieces).

Lemma rds_plain_prefix : forall pieces Y acc res, Forall plain_seg pieces -> slash_or_end Y ->
  rds_ok Y (acc ++ slashcat pieces) res -> rds_ok (slashcat pieces ++ Y) acc res.
Proof.
  induction pieces as [|s ps IH]; intros Y acc res HF HY H.
  - unfold slashcat in *. cbn [map concat app] in *. rewrite app_nil_r in H. exact H.
  - inversion HF as [|? ? Hs HF']; subst.
    change (slashcat (s :: ps)) with ((c_slash :: s) ++ slashcat ps) in *.
    rewrite <- app_assoc. cbn [app]. apply rds_E; [exact Hs| |].
    + destruct ps as [|s2 ps']; [exact HY|]. right. unfold slashcat. cbn [map concat app]. eexists. reflexivity.
    + apply IH; [exact HF'|exact HY|]. rewrite <- app_assoc. exact H.
Qed.

Lemma slashcat_join segs : segs <> [] -> c_slash :: join_slash segs = slashcat segs.
Proof.
  induction segs as [|s segs IH]; [congruence|]. intros _. destruct segs as [|s2 tl].
  - unfold slashcat. cbn [join_slash map concat]. rewrite app_nil_r. reflexivity.
  - change (join_slash (s :: s2 :: tl)) with (s ++ c_slash :: join_slash (s2 :: tl)).
    rewrite IH by discriminate. unfold slashcat. cbn [map concat app]. reflexivity.
Qed.

Lemma split_app a t : split_on c_slash (a ++ c_slash :: t) = split_on c_slash a ++ split_on c_slash t.
Proof.
  induction a as [|x a IH]; cbn [app split_on].
  - rewrite N.eqb_refl. reflexivity.
  - rewrite IH. destruct (N.eqb x c_slash); [reflexivity|].
    pose proof (split_nonempty a). destruct (split_on c_slash a); [congruence|reflexivity].
Qed.

Lemma has_dot_seg_app a t : has_dot_seg (a ++ c_slash :: t) = has_dot_seg a || has_dot_seg t.
Proof. unfold has_dot_seg. rewrite split_app, existsb_app. reflexivity. Qed.

Lemma rooted_slashcat s : (s = [] \/ hd_is is_slash s = true) -> has_dot_seg s = false ->
  exists pieces, Forall plain_seg pieces /\ s = slashcat pieces.
Proof.
  intros [->|H] Hd.
  - exists []. split; [constructor|reflexivity].
  - destruct s as [|c s']; [discriminate|]. cbn [hd_is] in H. unfold is_slash in H. apply N.eqb_eq in H. subst c.
    exists (split_on c_slash s'). split.
    + unfold has_dot_seg in Hd. cbn [split_on] in Hd. rewrite N.eqb_refl in Hd. cbn [existsb] in Hd.
      apply has_dot_seg_false in Hd. exact Hd.
    + rewrite <- slashcat_join by apply split_nonempty. rewrite split_join. reflexivity.
Qed.

(* ================= parsing (appendix B) and recomposition (5.3) ================= *)
Definition qf_text (q f : option str) : str :=
  (match q with Some q => c_qm :: q | None => [] end) ++ (match f with Some f => c_hash :: f | None => [] end).

Definition tail_of (s3 : str) : option str * option str :=
  let '(q, s4) := match s3 with
                  | c :: rest => if N.eqb c c_qm then
                                   let k := find_or_len (N.eqb c_hash) rest in (Some (firstn k rest), skipn k rest)
                                 else (None, s3)
                  | [] => (None, s3) end in
  (q, match s4 with _ :: rest => Some rest | [] => None end).

Lemma recompose_eq sch au path q f :
  recompose (mkparts sch au path q f) =
  (match sch with Some s => s ++ [c_colon] | None => [] end)
  ++ (match au with Some a => [c_slash; c_slash] ++ a | None => [] end) ++ path ++ qf_text q f.
Proof. reflexivity. Qed.

Lemma tail_text s3 : rest_like s3 -> qf_text (fst (tail_of s3)) (snd (tail_of s3)) = s3.
Proof.
  intros Hr. destruct s3 as [|c rest]; [reflexivity|]. unfold tail_of.
  destruct (N.eqb_spec c c_qm) as [->|Hn].
  - cbv zeta. cbn [fst snd]. unfold qf_text.
    pose proof (firstn_skipn (find_or_len (N.eqb c_hash) rest) rest) as E.
    destruct (find_or_len_rest (N.eqb c_hash) rest) as [H|H].
    + rewrite H in *. rewrite app_nil_r in *. rewrite E. reflexivity.
    + destruct (skipn (find_or_len (N.eqb c_hash) rest) rest) as [|c' t]; [discriminate|].
      cbn [hd_is] in H. apply N.eqb_eq in H. subst c'. cbn [app]. f_equal. exact E.
  - destruct Hr as [Hr|Hr]; [discriminate|]. cbn [hd_is] in Hr. unfold is_qh in Hr.
    apply orb_true_iff in Hr as [Hr|Hr]; apply N.eqb_eq in Hr; subst c; [congruence|]. reflexivity.
Qed.

Lemma parse_rel r : scheme_len r = None -> starts_with [c_slash; c_slash] r = false ->
  parse_ref r = mkparts None None (firstn (find_or_len is_qh r) r)
                  (fst (tail_of (skipn (find_or_len is_qh r) r))) (snd (tail_of (skipn (find_or_len is_qh r) r))).
Proof.
  intros H1 H2. unfold parse_ref. rewrite H1.
  assert (H3 : strip_prefix [c_slash; c_slash] r = None).
  { destruct (strip_prefix [c_slash; c_slash] r) eqn:E; [|reflexivity].
    assert (starts_with [c_slash; c_slash] r = true) by (apply starts_with_strip; eauto). congruence. }
  rewrite H3. cbv zeta. unfold tail_of.
  destruct (skipn (find_or_len is_qh r) r) as [|c rest]; [reflexivity|].
  destruct (N.eqb c c_qm); reflexivity.
Qed.

Lemma positions_auth_inv b p : positions_of b = Some p -> scheme_end p < authority_end p ->
  exists k rest0, scheme_len b = Some k /\ scheme_end p = S k
    /\ skipn (S k) b = c_slash :: c_slash :: rest0
    /\ authority_end p = S k + 2 + find_or_len is_delim rest0
    /\ path_end p = authority_end p + find_or_len is_qh (skipn (authority_end p) b).
Proof.
  unfold positions_of. destruct (scheme_len b) as [k|] eqn:Ek; [|discriminate].
  destruct (strip_prefix [c_slash; c_slash] (skipn (S k) b)) as [rest0|] eqn:Es.
  - intros [= <-] _. apply strip_prefix_some in Es. exists k, rest0. cbn [scheme_end authority_end path_end].
    repeat split; auto.
  - intros [= <-]. cbn [scheme_end authority_end]. lia.
Qed.

Lemma parse_base b p : positions_of b = Some p -> scheme_end p < authority_end p ->
  exists sch au,
    parse_ref b = mkparts (Some sch) (Some au) (ox_path b p)
                    (fst (tail_of (skipn (path_end p) b))) (snd (tail_of (skipn (path_end p) b)))
    /\ (sch ++ [c_colon]) ++ [c_slash; c_slash] ++ au = firstn (authority_end p) b.
Proof.
  intros Hp Hlt. pose proof (positions_colon _ _ Hp) as Hcol.
  destruct (positions_auth_inv _ _ Hp Hlt) as (k & rest0 & Ek & Ese & Es & Eae & Epe).
  rewrite Ese in Hcol. replace (S k - 1) with k in Hcol by lia.
  set (ka := find_or_len is_delim rest0) in *.
  assert (Hk : k < length b) by (apply nth_error_Some; congruence).
  assert (Hb : b = firstn k b ++ c_colon :: c_slash :: c_slash :: rest0).
  { rewrite <- (firstn_skipn k b) at 1. f_equal.
    rewrite nth_error_skipn in Hcol. destruct (skipn k b) as [|c t] eqn:E; [discriminate|].
    cbn [hd_error] in Hcol. injection Hcol as ->. f_equal.
    assert (E2 : skipn (S k) b = t).
    { replace (S k) with (k + 1) by lia. rewrite skipn_add, E. reflexivity. }
    rewrite <- E2. exact Es. }
  assert (Hs2 : skipn (authority_end p) b = skipn ka rest0).
  { rewrite Eae. replace (S k + 2 + ka) with (S k + (2 + ka)) by lia. rewrite skipn_add, Es. reflexivity. }
  exists (firstn k b), (firstn ka rest0). split.
  - assert (Hpath : ox_path b p = firstn (find_or_len is_qh (skipn ka rest0)) (skipn ka rest0)).
    { unfold ox_path, slice. rewrite Hs2. f_equal. rewrite Epe, Hs2. lia. }
    assert (Hs3 : skipn (path_end p) b = skipn (find_or_len is_qh (skipn ka rest0)) (skipn ka rest0)).
    { rewrite Epe, skipn_add, Hs2. reflexivity. }
    rewrite Hpath, Hs3.
    unfold parse_ref. rewrite Ek, Es. cbn [strip_prefix]. rewrite !N.eqb_refl. cbv zeta. fold ka.
    unfold tail_of.
    destruct (skipn (find_or_len is_qh (skipn ka rest0)) (skipn ka rest0)) as [|c rest]; [reflexivity|].
    destruct (N.eqb c c_qm); reflexivity.
  - rewrite Hb at 2. assert (L : length (firstn k b) = k) by (rewrite firstn_length; lia).
    rewrite Eae. replace (S k + 2 + ka) with (length (firstn k b) + (3 + ka)) by lia.
    rewrite firstn_app_2. cbn [Nat.add firstn]. rewrite <- app_assoc. reflexivity.
Qed.

Lemma base_query_text b p : pos_ok b p ->
  firstn (query_end p) b = firstn (path_end p) b ++ qf_text (fst (tail_of (skipn (path_end p) b))) None.
Proof.
  intros Hok. rewrite (po_qe _ _ Hok). unfold tail_of, qf_text.
  destruct (skipn (path_end p) b) as [|c rest] eqn:E; [rewrite app_nil_r; reflexivity|].
  destruct (N.eqb c c_qm) eqn:Ec.
  - apply N.eqb_eq in Ec. subst c. cbv zeta. cbn [fst]. rewrite app_nil_r.
    replace (path_end p + 1 + find_or_len (N.eqb c_hash) rest) with (path_end p + S (find_or_len (N.eqb c_hash) rest)) by lia.
    rewrite firstn_add, E. reflexivity.
  - cbn [fst]. rewrite app_nil_r. reflexivity.
Qed.

Lemma firstn_path b p : pos_ok b p -> firstn (path_end p) b = firstn (authority_end p) b ++ ox_path b p.
Proof.
  intros Hok. pose proof (po_ae_pe _ _ Hok).
  replace (path_end p) with (authority_end p + (path_end p - authority_end p)) at 1 by lia.
  rewrite firstn_add. reflexivity.
Qed.

(* ================= oxiri = RFC 3986 5.2.2 on the class ================= *)
Lemma recompose_path sch au pre res q f rest :
  (sch ++ [c_colon]) ++ [c_slash; c_slash] ++ au = pre -> qf_text q f = rest ->
  recompose (mkparts (Some sch) (Some au) res q f) = pre ++ res ++ rest.
Proof. intros <- <-. rewrite recompose_eq. rewrite !app_assoc. reflexivity. Qed.

Lemma rds_ok_run inp res : rds_ok inp [] res -> remove_dot_segments inp = res.
Proof. intros H. unfold remove_dot_segments. apply H. lia. Qed.

Theorem oxiri_agrees_with_rfc b p r :
  positions_of b = Some p -> scheme_end p < authority_end p -> has_dot_seg (ox_path b p) = false ->
  scheme_len r = None -> hd_is (N.eqb c_colon) r = false -> starts_with [c_slash; c_slash] r = false ->
  resolve b r = Some (resolve_rfc b r).
Proof.
  intros Hpos Hlt Hdot Hsch Hcol Hss.
  pose proof (positions_ok _ _ Hpos) as Hok.
  destruct (parse_base b p Hpos Hlt) as (sch & au & HB & Hpre).
  unfold resolve_rfc. rewrite HB, (parse_rel r Hsch Hss). cbn [p_scheme p_auth p_path p_query p_frag].
  unfold resolve. rewrite Hpos, Hcol, Hsch.
  assert (Hha : (scheme_end p <? authority_end p) = true) by (apply Nat.ltb_lt; exact Hlt). rewrite Hha.
  destruct (suffix_parts r) as (Hr & Hnq & Hrest).
  set (path := firstn (find_or_len is_qh r) r) in *. set (rest := skipn (find_or_len is_qh r) r) in *.
  pose proof (tail_text rest Hrest) as Htail.
  destruct r as [|c r'].
  { (* empty reference *)
    subst path rest. cbn [firstn skipn find_or_len find_if length tail_of fst snd].
    f_equal. symmetry. rewrite (base_query_text _ _ Hok), (firstn_path _ _ Hok), <- app_assoc.
    apply recompose_path; [exact Hpre|reflexivity]. }
  destruct (N.eqb_spec c c_slash) as [->|Hns].
  { (* absolute-path reference *)
    assert (Hh : hd_is is_slash r' = false).
    { destruct r' as [|y t]; [reflexivity|]. cbn [starts_with hd_is] in *. rewrite N.eqb_refl in Hss.
      cbn [andb] in Hss. rewrite andb_true_r in Hss. unfold is_slash. rewrite N.eqb_sym. exact Hss. }
    rewrite Hh.
    assert (Ep : path = c_slash :: firstn (find_or_len is_qh r') r'
                 /\ rest = skipn (find_or_len is_qh r') r').
    { subst path rest. rewrite find_or_len_cons. change (is_qh c_slash) with false. cbv iota. split; reflexivity. }
    destruct Ep as [Ep Er]. destruct (suffix_parts r') as (Hr' & Hnq' & Hrest').
    rewrite <- Er in Hr', Hrest'.
    destruct (agree_path _ rest [] Hrest' Hnq') as (res & R1 & R2).
    rewrite Ep. cbn [hd_is]. rewrite N.eqb_refl.
    rewrite (rds_ok_run _ _ R1). rewrite Hr' at 1. cbn [rev] in R2. rewrite R2. cbn [option_map]. f_equal.
    symmetry. apply recompose_path; [exact Hpre|exact Htail]. }
  destruct (N.eqb_spec c c_qm) as [->|Hnq1].
  { (* query reference *)
    subst path rest. rewrite find_or_len_cons in *. change (is_qh c_qm) with true in *. cbv iota in *.
    cbn [firstn skipn] in *. f_equal.
    assert (Eq : exists q, fst (tail_of (c_qm :: r')) = Some q).
    { unfold tail_of. rewrite N.eqb_refl. cbv zeta. cbn [fst]. eauto. }
    destruct Eq as [q Eq]. rewrite Eq in *. symmetry.
    rewrite (firstn_path _ _ Hok), <- app_assoc. apply recompose_path; [exact Hpre|exact Htail]. }
  destruct (N.eqb_spec c c_hash) as [->|Hnh].
  { (* fragment reference *)
    subst path rest. rewrite find_or_len_cons in *. change (is_qh c_hash) with true in *. cbv iota in *.
    cbn [firstn skipn] in *. f_equal.
    assert (Eq : tail_of (c_hash :: r') = (None, Some r')) by reflexivity.
    rewrite Eq in *. cbn [fst snd] in *. symmetry.
    rewrite (base_query_text _ _ Hok), (firstn_path _ _ Hok), <- !app_assoc.
    apply recompose_path; [exact Hpre|]. unfold qf_text. rewrite app_nil_r. reflexivity. }
  (* relative-path reference *)
  assert (Hcq : is_qh c = false).
  { unfold is_qh. apply N.eqb_neq in Hnq1, Hnh. rewrite Hnq1, Hnh. reflexivity. }
  assert (Ep : exists X, path = c :: X).
  { subst path. rewrite find_or_len_cons, Hcq. cbn [firstn]. eauto. }
  destruct Ep as [X Ep]. rewrite Ep. cbv iota.
  apply N.eqb_neq in Hns. rewrite Hns. rewrite <- Ep.
  assert (Hagree : exists res, remove_dot_segments (rfc_merge (mkparts (Some sch) (Some au) (ox_path b p)
                      (fst (tail_of (skipn (path_end p) b))) (snd (tail_of (skipn (path_end p) b)))) path) = res
                   /\ pp_rm true (rls true (rev (ox_path b p))) (path ++ rest) = Some (res ++ rest)).
  { unfold rfc_merge. cbn [p_auth p_path].
    destruct (ox_path b p) as [|x P'] eqn:EP.
    - destruct (agree_path path rest [] Hrest Hnq) as (res & R1 & R2). exists res. split.
      + apply rds_ok_run. exact R1.
      + exact R2.
    - rewrite <- EP in *. set (P := ox_path b p) in *.
      assert (Hroot : hd_is is_slash P = true).
      { destruct (po_auth_root _ _ Hok Hlt) as [E|E]; [fold P in E; rewrite EP in E; discriminate|exact E]. }
      destruct (rfind c_slash P) as [i|] eqn:F.
      2:{ apply rfind_none in F. rewrite EP in F, Hroot. unfold no_slash in F. cbn [forallb hd_is] in *.
          rewrite Hroot in F. discriminate. }
      destruct (rfind_decomp _ _ F) as (a & t & E & La & Ht & F1 & F2).
      assert (Hda : has_dot_seg a = false).
      { rewrite E, has_dot_seg_app in Hdot. apply orb_false_iff in Hdot. tauto. }
      assert (Hra : a = [] \/ hd_is is_slash a = true).
      { destruct a as [|y a']; [left; reflexivity|right]. rewrite E in Hroot. exact Hroot. }
      destruct (rooted_slashcat a Hra Hda) as (pieces & HF & Ea).
      destruct (agree_path path rest a Hrest Hnq) as (res & R1 & R2). exists res. split.
      + rewrite EP. rewrite <- EP. rewrite F2, <- app_assoc. cbn [app].
        apply rds_ok_run. rewrite Ea. apply rds_plain_prefix; [exact HF|right; eexists; reflexivity|].
        cbn [app]. rewrite <- Ea. exact R1.
      + destruct (rls_some true P i F) as [E1 _]. rewrite E1, F1. exact R2. }
  destruct Hagree as (res & R1 & R2). rewrite R1. rewrite Hr at 1. rewrite R2. cbn [option_map]. f_equal.
  symmetry. apply recompose_path; [exact Hpre|exact Htail].
Qed.

(* ================= the references produced by relativize carry neither scheme nor authority ================= *)
Lemma relativize_ref_kind b n i r : relativize b n i = Ret (Some r) ->
  scheme_len r = None /\ hd_is (N.eqb c_colon) r = false /\ starts_with [c_slash; c_slash] r = false.
Proof.
  unfold relativize. destruct (new b n) as [z|] eqn:Hnew; [|discriminate].
  unfold relativize_z. set (l := lcp (z_base z) i).
  destruct (if z_query_end z <=? l then rest_is (N.eqb c_hash) i (z_query_end z) else Some false)
    as [[|]|] eqn:EA; [| |discriminate].
  { destruct (Nat.leb_spec (z_query_end z) l) as [HA|HA]; [|discriminate].
    unfold emit_from. destruct (slice_from i (z_query_end z)) as [f|] eqn:ES; [|discriminate].
    intros [= <-]. cbn [app]. unfold rest_is in EA.
    destruct (Nat.eqb_spec (length i) (z_query_end z)) as [E|E].
    - apply slice_from_some in ES as [-> _]. rewrite <- E, skipn_all. repeat split; reflexivity.
    - rewrite ES in EA. cbn [option_map] in EA. injection EA as EA.
      destruct f as [|c t]; [discriminate|]. cbn [hd_is] in EA. apply N.eqb_eq in EA. subst c. repeat split; reflexivity. }
  destruct (if z_path_end z <=? l then option_map (hd_is (N.eqb c_qm)) (slice_from i (z_path_end z)) else Some false)
    as [[|]|] eqn:EB; [| |discriminate].
  { destruct (Nat.leb_spec (z_path_end z) l) as [HB|HB]; [|discriminate].
    unfold emit_from. destruct (slice_from i (z_path_end z)) as [f|] eqn:ES; [|discriminate].
    intros [= <-]. cbn [app]. cbn [option_map] in EB. injection EB as EB.
    destruct f as [|c t]; [discriminate|]. cbn [hd_is] in EB. apply N.eqb_eq in EB. subst c. repeat split; reflexivity. }
  destruct (z_pseudoroot z <=? l); [|discriminate].
  destruct (find_cut l (z_slashes z) 0 (z_pseudoroot z)) as [nb cut].
  destruct (slice_from i cut) as [suffix|]; [|discriminate].
  destruct (suffix_parts suffix) as (Hsuf & Hnq & Hrest).
  set (path := firstn (find_or_len is_qh suffix) suffix) in *.
  set (rest := skipn (find_or_len is_qh suffix) suffix) in *.
  destruct (has_dot_seg path); [discriminate|].
  destruct (hd_is is_slash path) eqn:Hsl.
  { destruct (Nat.eqb cut (z_path_begin z)); [|discriminate].
    destruct (starts_with [c_slash; c_slash] path) eqn:Hss; [discriminate|].
    cbn [andb negb]. intros [= <-].
    destruct path as [|x path'] eqn:Epath; [discriminate|].
    cbn [hd_is] in Hsl. unfold is_slash in Hsl. apply N.eqb_eq in Hsl. subst x.
    rewrite Hsuf. cbn [app]. repeat split; try reflexivity.
    destruct path' as [|y t].
    - cbn [app starts_with]. rewrite N.eqb_refl. cbn [andb].
      destruct Hrest as [->|Hr]; [reflexivity|]. destruct rest as [|y t]; [reflexivity|].
      cbn [hd_is] in Hr. rewrite N.eqb_sym, (is_qh_not_slash _ Hr). reflexivity.
    - exact Hss. }
  destruct (z_has_authority z && Nat.eqb (z_path_begin z) (z_path_end z)); [discriminate|].
  destruct nb as [|nb'].
  - cbn [Nat.ltb Nat.leb].
    destruct (match path with [] => true | _ :: _ => false end || has_colon (first_seg path)) eqn:Hds.
    + intros [= <-]. repeat split; reflexivity.
    + intros [= <-]. apply orb_false_iff in Hds as [Hne Hcol].
      destruct path as [|x path'] eqn:Epath; [discriminate|].
      cbn [hd_is] in Hsl. rewrite first_seg_cons in Hcol by exact Hsl.
      unfold has_colon in Hcol. cbn [existsb] in Hcol. apply orb_false_iff in Hcol as [Hx Hcol].
      split; [|split].
      * destruct (scheme_len suffix) as [k|] eqn:E; [|reflexivity].
        apply scheme_len_colon in E. fold path in E. rewrite Epath in E.
        rewrite first_seg_cons in E by exact Hsl. unfold has_colon in E. cbn [existsb] in E.
        rewrite Hx, Hcol in E. discriminate.
      * rewrite Hsuf. cbn [app hd_is]. exact Hx.
      * rewrite Hsuf. cbn [app starts_with]. unfold is_slash in Hsl. rewrite N.eqb_sym, Hsl. reflexivity.
  - cbn [Nat.ltb Nat.leb]. intros [= <-]. repeat split; reflexivity.
Qed.

(* relativize is a right inverse of the RFC 3986 resolver as well, for bases with an authority and
   a path free of dot segments *)
Theorem relativize_sound_rfc_partial b n i r p :
  relativize b n i = Ret (Some r) ->
  positions_of b = Some p -> scheme_end p < authority_end p -> has_dot_seg (ox_path b p) = false ->
  resolve_rfc b r = i.
Proof.
  intros H Hp Hlt Hd. destruct (relativize_sound _ _ _ _ H) as [Hs _].
  destruct (relativize_ref_kind _ _ _ _ H) as (K1 & K2 & K3).
  rewrite (oxiri_agrees_with_rfc b p r Hp Hlt Hd K1 K2 K3) in Hs. congruence.
Qed.

(* the statement without the restriction on the base: FALSE, because oxiri (hence relativize, which is
   its inverse) never normalises the dot segments of the base and handles "too many .." on rootless
   bases differently from RFC 3986 *)
Definition relativize_sound_rfc : Prop :=
  forall b n i r, relativize b n i = Ret (Some r) -> resolve_rfc b r = i.

(* base <http://a/b/../c/d>, IRI <http://a/b/../c/x>: "x"; RFC gives <http://a/c/x> *)
Example relativize_sound_rfc_refuted_dot_base : ~ relativize_sound_rfc.
Proof.
  intros H.
  specialize (H [104; 116; 116; 112; 58; 47; 47; 97; 47; 98; 47; 46; 46; 47; 99; 47; 100]%N 0
                [104; 116; 116; 112; 58; 47; 47; 97; 47; 98; 47; 46; 46; 47; 99; 47; 120]%N [120]%N eq_refl).
  vm_compute in H. discriminate H.
Qed.
(* base <s:a/b>, IRI <s:x>, one "../": "../x"; RFC gives <s:/x>, oxiri <s:x> *)
Example relativize_sound_rfc_refuted_rootless : ~ relativize_sound_rfc.
Proof.
  intros H.
  specialize (H [115; 58; 97; 47; 98]%N 1 [115; 58; 120]%N [46; 46; 47; 120]%N eq_refl).
  vm_compute in H. discriminate H.
Qed.
(* where the oxiri model and RFC 3986 differ: a reference with a scheme keeps its dot segments *)
Example oxiri_differs_scheme_ref :
  resolve [104; 116; 116; 112; 58; 47; 47; 97; 47; 98]%N [115; 58; 120; 47; 46; 46; 47; 121]%N
    = Some [115; 58; 120; 47; 46; 46; 47; 121]%N
  /\ resolve_rfc [104; 116; 116; 112; 58; 47; 47; 97; 47; 98]%N [115; 58; 120; 47; 46; 46; 47; 121]%N
    = [115; 58; 47; 121]%N.
Proof. split; vm_compute; reflexivity. Qed.
