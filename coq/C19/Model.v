(* C19/Model.v -- LocalLoader::get (resource/src/loader/_local.rs), std::path::Path::components
   and PathBuf::join on Unix, and a lexical, symlink-free model of path resolution by the OS.
   Definitions only. *)
From Sophia.Common Require Export Prelude.

Definition c_slash : N := 47.
Definition c_hash : N := 35.
Definition c_dot : N := 46.

(* str::split(c): at least one piece *)
Fixpoint split_on (c : N) (s : str) : list str :=
  match s with
  | [] => [[]]
  | x :: s' =>
      if N.eqb x c then [] :: split_on c s'
      else match split_on c s' with
           | [] => [[x]]              (* unreachable *)
           | p :: ps => (x :: p) :: ps
           end
  end.

Fixpoint strip_prefix (p s : str) : option str :=
  match p, s with
  | [], _ => Some s
  | x :: p', y :: s' => if N.eqb x y then strip_prefix p' s' else None
  | _ :: _, [] => None
  end.

Fixpoint ends_with (suf s : str) : bool :=
  str_eqb suf s || match s with [] => false | _ :: s' => ends_with suf s' end.

(* std::path::Component on Unix *)
Inductive comp := CRoot | CCur | CParent | CNormal (s : str).

Definition is_abs (p : str) : bool := match p with x :: _ => N.eqb x c_slash | [] => false end.

(* Path::components: a leading "/" gives RootDir; empty segments and "." are dropped, except a
   "." that is the very first segment of a relative path (CurDir); ".." is ParentDir *)
Definition comp_of_seg (first_rel : bool) (seg : str) : list comp :=
  match seg with
  | [] => []
  | _ => if str_eqb seg [c_dot] then (if first_rel then [CCur] else [])
         else if str_eqb seg [c_dot; c_dot] then [CParent]
         else [CNormal seg]
  end.
Definition components (p : str) : list comp :=
  let segs := split_on c_slash p in
  (if is_abs p then [CRoot] else []) ++
  match segs with
  | [] => []
  | s0 :: rest => comp_of_seg (negb (is_abs p)) s0 ++ flat_map (comp_of_seg false) rest
  end.

Definition comp_safe (c : comp) : bool :=
  match c with CNormal _ | CCur => true | _ => false end.

(* the OS resolving dir.join(sub) without symlinks: RootDir restarts from "/", ".." pops *)
Fixpoint resolve (base : list str) (cs : list comp) : list str :=
  match cs with
  | [] => base
  | CRoot :: r => resolve [] r
  | CCur :: r => resolve base r
  | CParent :: r => resolve (removelast base) r
  | CNormal s :: r => resolve (base ++ [s]) r
  end.

(* file system: absolute paths (component lists) that exist, and whether each is a regular file *)
Definition fsys := list (list str * bool).
Definition path_eqb (a b : list str) : bool := list_eqb str_eqb a b.
Fixpoint lookup (fs : fsys) (p : list str) : option bool :=
  match fs with
  | [] => None
  | (q, isfile) :: r => if path_eqb p q then Some isfile else lookup r p
  end.

Inductive rd := RFound | RNotFound | RIoErr.
(* open + read: every proper prefix must be a directory; a trailing "/" or "/." demands a directory *)
Fixpoint walk (fs : fsys) (done : list str) (todo : list str) (must_dir : bool) : rd :=
  match todo with
  | [] => match lookup fs done with
          | Some true => if must_dir then RIoErr else RFound
          | Some false => RIoErr           (* EISDIR *)
          | None => match done with [] => RIoErr | _ => RNotFound end   (* "/" always exists *)
          end
  | s :: r => match (match done with [] => Some false | _ => lookup fs done end) with
              | Some false => walk fs (done ++ [s]) r must_dir
              | Some true => RIoErr        (* ENOTDIR *)
              | None => RNotFound
              end
  end.

Definition trailing_dir (sub : str) : bool :=
  match rev (split_on c_slash sub) with
  | last :: _ :: _ => str_eqb last [] || str_eqb last [c_dot]
  | [last] => str_eqb last [c_dot]      (* sub = "." *)
  | [] => false
  end.

Inductive outcome :=
| Found (path : list str) (ctype : N)
| NotFound | Unsupported | IoError.

Definition s_ttl : str := [46;116;116;108].
Definition s_nt : str := [46;110;116].
Definition s_jsonld : str := [46;106;115;111;110;108;100].
Definition s_rdf : str := [46;114;100;102].
Definition ctype (iri : str) : N :=
  if ends_with s_ttl iri then 1 else if ends_with s_nt iri then 2
  else if ends_with s_jsonld iri then 3 else if ends_with s_rdf iri then 4 else 0.

(* position-independent reading of `iri.as_bytes()[iri.rfind(['.','/']).unwrap_or(0)] != b'.'` *)
Fixpoint last_dot_or_slash (s : str) (acc : option N) : option N :=
  match s with
  | [] => acc
  | x :: s' => last_dot_or_slash s' (if N.eqb x c_dot || N.eqb x c_slash then Some x else acc)
  end.
Definition no_ext (iri : str) : bool :=
  match last_dot_or_slash iri None with
  | Some c => negb (N.eqb c c_dot)
  | None => match iri with x :: _ => negb (N.eqb x c_dot) | [] => true end
  end.

Definition cache := (str * list str)%type.    (* namespace IRI (ends with "/"), directory *)

Section Get.
Variable fs : fsys.
Variable exts : list str.     (* ".ttl", ".nt", ... re-generated from the source *)

(* the paths handed to std::fs::read, in order, and the result; [guard] = the post-fix check *)
Fixpoint find_cache (caches : list cache) (iri : str) : option (list str * str) :=
  match caches with
  | [] => None
  | (ns, dir) :: r => match strip_prefix ns iri with Some sub => Some (dir, sub) | None => find_cache r iri end
  end.

Definition get1 (guard : bool) (caches : list cache) (iri : str) : list (list str) * outcome * bool :=
  (* returns (paths opened, outcome, was-NotFound-from-read) *)
  match find_cache caches iri with
  | None => ([], Unsupported, false)
  | Some (dir, sub) =>
      let cs := components sub in
      if guard && negb (forallb comp_safe cs) then ([], Unsupported, false)
      else
        let p := resolve dir cs in
        (* walk from the root when the remainder was absolute (join replaced the directory) *)
        match walk fs [] p (trailing_dir sub) with
        | RFound => ([p], Found p (ctype iri), false)
        | RIoErr => ([p], IoError, false)
        | RNotFound => ([p], NotFound, true)
        end
  end.

Fixpoint try_exts (guard : bool) (caches : list cache) (iri : str) (es : list str) (opened : list (list str))
  : list (list str) * outcome :=
  match es with
  | [] => (opened, NotFound)
  | e :: r =>
      let '(o, res, _) := get1 guard caches (iri ++ e) in
      match res with
      | Found _ _ => (opened ++ o, res)
      | _ => try_exts guard caches iri r (opened ++ o)
      end
  end.

Definition get (guard : bool) (caches : list cache) (iri0 : str) : list (list str) * outcome :=
  let iri := hd [] (split_on c_hash iri0) in
  let '(o, res, nf) := get1 guard caches iri in
  if nf && no_ext iri then try_exts guard caches iri exts o else (o, res).
End Get.

(* a path stays under a directory *)
Fixpoint path_prefix (d p : list str) : bool :=
  match d, p with
  | [], _ => true
  | x :: d', y :: p' => str_eqb x y && path_prefix d' p'
  | _ :: _, [] => false
  end.

Definition outcome_code (o : outcome) : N * list str * N :=
  match o with
  | Found p c => (0, p, c) | NotFound => (1, [], 0) | Unsupported => (2, [], 0) | IoError => (3, [], 0)
  end.
Definition get_ok fs exts caches iri (code : N) (path : list str) (ct : N) : bool :=
  let '(c, p, t) := outcome_code (snd (get fs exts true caches iri)) in
  N.eqb c code && path_eqb p path && N.eqb t ct.
