(* C04/PrefixIncl.v -- the regular expression PN_PREFIX of api/src/prefix/_regex.rs (behind is_valid_prefix, hence behind
   the checked constructor Prefix::new and the serde Deserialize impl of Prefix), REGENERATED from the source on every
   run (gen/RegexTurtle.v, `pn_prefix_re`), denotes EXACTLY the production [167s] PN_PREFIX of the Turtle grammar as
   transcribed by hand in TermGrammar.v: both inclusions are decided by RelationAlgebra's `ka` on the atom level for
   every Kleene algebra and transported to the matcher (same route as Incl.v).  A change of the regular expression
   that adds or removes a word breaks one of the two proofs, and `ka` prints a distinguishing word. *)
From RelationAlgebra Require Import lattice monoid kleene kat_tac lang.
From Coq Require Import NArith List.
Import ListNotations.
From Sophia.C04 Require Import Regex Grammar TermGrammar Eval Lang.

Section s.
  Context `{L : monoid.laws} `{Hl : BKA ≪ l} (n : ob X) (f : N -> X n n).
  Lemma pn_prefix_sub_ka : eval n f (abstract pn_prefix_re) ≦ eval n f (abstract PN_PREFIX).
  Proof. apply leq_iff_cup. vm_compute. ka. Qed.
  Lemma pn_prefix_sup_ka : eval n f (abstract PN_PREFIX) ≦ eval n f (abstract pn_prefix_re).
  Proof. apply leq_iff_cup. vm_compute. ka. Qed.
End s.

Ltac by_ka lem :=
  apply ka_incl_matchb; [vm_compute; reflexivity | vm_compute; reflexivity | let f := fresh "f" in intro f; exact (lem _ _ (lang_laws N) _ lang_tt f)].

Theorem pn_prefix_re_incl : forall w, matchb pn_prefix_re w = true -> matchb PN_PREFIX w = true.
Proof. by_ka @pn_prefix_sub_ka. Qed.
Theorem pn_prefix_re_complete : forall w, matchb PN_PREFIX w = true -> matchb pn_prefix_re w = true.
Proof. by_ka @pn_prefix_sup_ka. Qed.

(* the two matchers agree on every word *)
Theorem pn_prefix_re_exact : forall w, matchb pn_prefix_re w = matchb PN_PREFIX w.
Proof.
  intro w. destruct (matchb pn_prefix_re w) eqn:A.
  - symmetry. apply pn_prefix_re_incl. exact A.
  - destruct (matchb PN_PREFIX w) eqn:B; [|reflexivity].
    apply pn_prefix_re_complete in B. rewrite A in B. discriminate B.
Qed.
