(* C14/Rounding.v -- IEEE-754 round-to-nearest, ties-to-even, of a rational into a binary format
   with [prec] bits of precision, least exponent [emin] (of the unit in the last place: gradual
   underflow) and overflow to infinity at 2^emax; executable, producing the model's [fl] values.
   binary64 = (53, -1074, 1024), binary32 = (24, -149, 128).

   These are the conversions  integer/decimal -> f64/f32  that the operator '<' of the model
   (Model.v: num_partial_cmp, parameters c64 c32) can be instantiated with:
     - `isize as f64`, `isize as f32`: the hardware conversion, round-to-nearest-even;
     - num-bigint 0.4.8 BigUint::to_f64 / to_f32 (biguint/convert.rs): the 64 leading bits with a
       sticky last bit (round-to-odd), `as f64`, times 2^k: the correctly rounded value;
     - bigdecimal 0.4.10 BigDecimal::to_f64 (impl_num.rs) is NOT this function for every input:
       its transcription is in Engine.v.
   Definitions only; the theorems are in RoundingProofs.v. *)
From Coq Require Import QArith Qround.
From Sophia.C14 Require Import Model.
Local Close Scope N_scope.
Local Open Scope Z_scope.

Definition pow2 (e : Z) : Q := Qpower (2 # 1) e.

(* nearest integer, ties to even *)
Definition rnd_even (y : Q) : Z :=
  let m := Qfloor y in
  match Qcompare (y - inject_Z m) (1 # 2) with
  | Lt => m
  | Gt => m + 1
  | Eq => if Z.even m then m else m + 1
  end.

(* floor (log2 x) for 0 < x: the difference of the bit lengths is exact or one too large *)
Definition Qlog2 (x : Q) : Z :=
  let l0 := Z.log2 (Qnum x) - Z.log2 (Zpos (Qden x)) in
  if Qle_bool (pow2 l0) x then l0 else l0 - 1.

Section Format.
Variables prec emin emax : Z.

(* exponent of the unit in the last place of the binade of x *)
Definition cexp (x : Q) : Z := Z.max emin (Qlog2 x - (prec - 1)).
(* 0 < x: integer significand and exponent of the rounded magnitude (the significand may be
   2^prec: the next binade) *)
Definition round_mag (x : Q) : Z * Z :=
  let e := cexp x in (rnd_even (x * pow2 (- e)), e).
Definition pack (neg : bool) (me : Z * Z) : fl :=
  let (m, e) := me in
  if Qle_bool (pow2 emax) (inject_Z m * pow2 e) then FInf neg else FFin neg (Z.to_N m) e.
(* the sign of the operand is kept when a negative number rounds to zero *)
Definition round_q (x : Q) : fl :=
  match Qnum x with
  | Z0 => FFin false 0 0
  | Zpos _ => pack false (round_mag x)
  | Zneg _ => pack true (round_mag (- x))
  end.
Definition conv_round (n : num) : fl :=
  match num_q n with Some x => round_q x | None => FNaN end.

(* the numbers of the format (by value: any representation) *)
Definition in_format (f : fl) : Prop :=
  match f with
  | FFin s m e => exists (m' : N) (e' : Z),
      Z.of_N m' < 2 ^ prec /\ emin <= e' /\ e' + prec <= emax
      /\ Qeq (q_of_fin s m e) (q_of_fin s m' e')
  | _ => True
  end.
(* ... and the canonical representations that the harness prints *)
Definition in_format_b (f : fl) : bool :=
  match f with
  | FFin _ m e => (Z.of_N m <? 2 ^ prec) && (emin <=? e) && (e + prec <=? emax)
  | _ => true
  end.
End Format.

Definition round64 : Q -> fl := round_q 53 (-1074) 1024.
Definition round32 : Q -> fl := round_q 24 (-149) 128.
Definition c64_round : num -> fl := conv_round 53 (-1074) 1024.
Definition c32_round : num -> fl := conv_round 24 (-149) 128.
Definition f64 : fl -> Prop := in_format 53 (-1074) 1024.
Definition f32 : fl -> Prop := in_format 24 (-149) 128.
Definition f64_b : fl -> bool := in_format_b 53 (-1074) 1024.
Definition f32_b : fl -> bool := in_format_b 24 (-149) 128.

(* ---------- harness-facing checkers ---------- *)
(* same float: same class, same sign (also of zero), same value *)
Definition fl_same (a b : fl) : bool :=
  match a, b with
  | FNaN, FNaN => true
  | FInf s, FInf t => Bool.eqb s t
  | FFin s m e, FFin t m' e' =>
      Bool.eqb s t && match Qcompare (q_of_fin s m e) (q_of_fin t m' e') with Eq => true | _ => false end
  | _, _ => false
  end.
