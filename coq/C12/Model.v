(* C12/Model.v -- executable model of sophia_jsonld's serializer engine
   (jsonld/src/serializer/engine.rs with the proposed patches C12-a .. C12-f applied,
   jsonld/src/util_traits.rs, the relevant part of options.rs) and of the reference reader
   ("Deserialize JSON-LD to RDF", JSON-LD 1.1 API section 8, restricted to the expanded /
   flattened documents the engine emits).  Definitions only.

   Terms are interned by the harness: a term is an identifier (N) and a table gives its kind
   and, for literals, the three facts the engine looks at when it recognises compound literals.
   Hash maps are association lists in insertion order; the vector index `inode` of the engine
   is represented by the pair (graph key, node id) it stands for (`gs_id[inode]`), which is a
   bijection by construction of `Engine::index`.  The conversion literal <-> value object is
   abstract here ([JLit l]); it is exercised by the Rust oracle. *)
From Sophia.Common Require Export Prelude.

(* ---------- identifiers fixed by the harness ---------- *)
Definition c_first : N := 1.       (* rdf:first *)
Definition c_rest : N := 2.        (* rdf:rest *)
Definition c_nil : N := 3.         (* rdf:nil *)
Definition c_type : N := 4.        (* rdf:type *)
Definition c_List : N := 5.        (* rdf:List (only used by the pre-fix variant) *)
Definition c_value : N := 6.       (* rdf:value *)
Definition c_direction : N := 7.   (* rdf:direction *)
Definition c_language : N := 8.    (* rdf:language *)

Inductive tkind := KIri | KBlank | KLit | KOther.   (* KOther: quoted triple, variable *)
Record tinfo := mkInfo {
  ti_kind : tkind;
  ti_plain : bool;    (* literal whose datatype is xsd:string *)
  ti_dir : bool;      (* ... and whose lexical form is "ltr" or "rtl" *)
  ti_lang : bool      (* ... and whose lexical form is a well-formed lower-case language tag *)
}.
Definition other_info := mkInfo KOther false false false.

Record quad := mkQ { qs : N; qp : N; qo : N; qg : option N }.

Record opts := mkOpts {
  mode10 : bool;         (* processing mode json-ld-1.0 *)
  use_rdf_type : bool;
  compound : bool        (* rdf_direction = Some(CompoundLiteral) *)
}.

(* ---------- generic association lists (HashMap with the entry API) ---------- *)
Section Alist.
  Context {K V : Type} (eqb : K -> K -> bool).
  Fixpoint aget (l : list (K * V)) (k : K) : option V :=
    match l with
    | [] => None
    | (k', v) :: r => if eqb k k' then Some v else aget r k
    end.
  (* entry(k).and_modify(..).or_insert(..) / index-then-update: f receives the old value *)
  Fixpoint aupd (l : list (K * V)) (k : K) (f : option V -> V) : list (K * V) :=
    match l with
    | [] => [(k, f None)]
    | (k', v) :: r => if eqb k k' then (k', f (Some v)) :: r else (k', v) :: aupd r k f
    end.
End Alist.

Definition gkey := option N.                 (* None is the default graph, key " " *)
Definition nkey := (gkey * N)%type.          (* gs_id[inode] *)
Inductive pkey := PType | PGraph | PIri (p : N).   (* "@type", "@graph", a predicate IRI *)
Inductive robj := OLit (l : N) | ONode (k : nkey). (* RdfObject (both literal variants) / Node *)
Definition props := list (pkey * list robj).

Definition gkey_eqb (a b : gkey) : bool := opt_eqb N.eqb a b.
Definition nkey_eqb (a b : nkey) : bool := gkey_eqb (fst a) (fst b) && (snd a =? snd b).
Definition pkey_eqb (a b : pkey) : bool :=
  match a, b with
  | PType, PType | PGraph, PGraph => true
  | PIri x, PIri y => x =? y
  | _, _ => false
  end.
Definition robj_eqb (a b : robj) : bool :=
  match a, b with
  | OLit x, OLit y => x =? y
  | ONode x, ONode y => nkey_eqb x y
  | _, _ => false
  end.
Definition parent := (nkey * N)%type.        (* (iparent, predicate id) *)
Definition parent_eqb (a b : parent) : bool := nkey_eqb (fst a) (fst b) && (snd a =? snd b).

Record st := mkSt {
  nodes : list (nkey * props);               (* index + gs_id + node *)
  uparent : list (N * option parent);        (* unique_parent, keyed by blank node id *)
  seeds : list nkey;                         (* list_seeds *)
  cands : list nkey                          (* compound_literals (candidates) *)
}.
Definition st0 := mkSt [] [] [] [].

Section Engine.
Variable info : N -> tinfo.
Variable o : opts.

Definition kind (t : N) : tkind := ti_kind (info t).
Definition is_iri (t : N) : bool := match kind t with KIri => true | _ => false end.
Definition is_blank (t : N) : bool := match kind t with KBlank => true | _ => false end.
Definition is_lit (t : N) : bool := match kind t with KLit => true | _ => false end.
(* util_traits.rs *)
Definition is_subject (t : N) : bool := is_iri t || is_blank t.
Definition is_object (t : N) : bool := is_iri t || is_blank t || is_lit t.
Definition is_jsonld (q : quad) : bool :=
  is_subject (qs q) && is_iri (qp q) && is_object (qo q)
  && match qg q with None => true | Some g => is_subject g end.

(* VecUtil::push_if_new, HashMapUtil::push_if_new *)
Definition vec_push_if_new (v : list robj) (x : robj) : list robj :=
  if existsb (robj_eqb x) v then v else v ++ [x].
Definition nkey_push_if_new (v : list nkey) (x : nkey) : list nkey :=
  if existsb (nkey_eqb x) v then v else v ++ [x].
Definition props_push (ps : props) (p : pkey) (x : robj) : props :=
  aupd pkey_eqb ps p (fun ov => vec_push_if_new (match ov with Some v => v | None => [] end) x).

(* Engine::index : or_insert an empty node *)
Definition index (ns : list (nkey * props)) (k : nkey) : list (nkey * props) :=
  aupd nkey_eqb ns k (fun ov => match ov with Some ps => ps | None => [] end).
(* self.node[i].push_if_new(p, x) *)
Definition node_push (ns : list (nkey * props)) (k : nkey) (p : pkey) (x : robj) :=
  aupd nkey_eqb ns k (fun ov => props_push (match ov with Some ps => ps | None => [] end) p x).

Definition skey (q : quad) : nkey := (qg q, qs q).
(* make_rdf_object *)
Definition obj_of (q : quad) : robj := if is_lit (qo q) then OLit (qo q) else ONode (qg q, qo q).
(* the key under which the object is stored *)
Definition pkey_of (q : quad) : pkey :=
  if (qp q =? c_type) && is_iri (qo q) && negb (use_rdf_type o) then PType else PIri (qp q).

Definition up_update (u : list (N * option parent)) (b : N) (par : parent) :=
  aupd N.eqb u b (fun ov =>
    match ov with
    | None => Some par
    | Some (Some p) => if parent_eqb p par then Some p else None
    | Some None => None
    end).

(* the closure of process_quads, for one quad *)
Definition process_quad (s : st) (q : quad) : st :=
  if negb (is_jsonld q) then s else
  let ns1 := index (nodes s) (skey q) in
  let ns2 := match qg q with
             | Some g => node_push (index ns1 (None, g)) (None, g) PGraph (ONode (skey q))
             | None => ns1
             end in
  let ns3 := if is_lit (qo q) then ns2 else index ns2 (qg q, qo q) in
  let ns4 := node_push ns3 (skey q) (pkey_of q) (obj_of q) in
  let is_seed := is_blank (qs q) && (qp q =? c_rest) && (qo q =? c_nil) in
  let seeds' := if is_seed then nkey_push_if_new (seeds s) (skey q) else seeds s in
  let cands' := if is_blank (qs q) && negb is_seed && compound o && (qp q =? c_direction)
                then nkey_push_if_new (cands s) (skey q) else cands s in
  let up' := if is_blank (qo q) then up_update (uparent s) (qo q) (skey q, qp q) else uparent s in
  mkSt ns4 up' seeds' cands'.

Definition process (d : list quad) : st := fold_left process_quad d st0.

(* ---------- into_json ---------- *)
Section Render.
Variable s : st.

Definition get_node (k : nkey) : props :=
  match aget nkey_eqb (nodes s) k with Some ps => ps | None => [] end.
Definition get_prop (ps : props) (p : pkey) : option (list robj) := aget pkey_eqb ps p.

(* bnode_graphs[id]: number of graphs in which the id has an index (graph names are indexed
   in the default graph) *)
Definition ngraphs (id : N) : nat := length (filter (fun e => snd (fst e) =? id) (nodes s)).

(* is_list_node (patch d: exactly rdf:first and rdf:rest) *)
Definition is_list_node (ps : props) : bool :=
  (length ps =? 2)%nat
  && match get_prop ps (PIri c_first) with Some [_] => true | _ => false end
  && match get_prop ps (PIri c_rest) with Some [ONode _] => true | _ => false end.

Definition marks := list (nkey * nkey).      (* list_node: inode -> iparent *)
Definition mark_insert (m : marks) (k pk : nkey) : marks := aupd nkey_eqb m k (fun _ => pk).

(* mark_list_node; the recursion climbs rdf:rest arcs, so it is bounded by the number of nodes *)
Fixpoint mark (fuel : nat) (m : marks) (k : nkey) : marks :=
  match fuel with
  | O => m
  | S f =>
    match aget N.eqb (uparent s) (snd k) with
    | Some (Some (pk, pp)) =>
        if mode10 o && (pp =? c_first) then m
        else if gkey_eqb (fst pk) (fst k) && (ngraphs (snd k) =? 1)%nat then
          if is_list_node (get_node k) then
            let m' := mark_insert m k pk in
            if is_blank (snd pk) && (pp =? c_rest) then mark f m' pk else m'
          else m
        else m
    | _ => m
    end
  end.
Definition mark_all : marks :=
  fold_left (mark (S (length (nodes s)))) (seeds s) [].

(* unmark_unanchored_list_nodes (patch c): follow the parents until a node that is not a list
   node; a walk longer than the number of list nodes is looping *)
Fixpoint anchored (fuel : nat) (m : marks) (k : nkey) : bool :=
  match aget nkey_eqb m k with
  | None => true
  | Some p => match fuel with O => false | S f => anchored f m p end
  end.
Definition list_nodes : marks :=
  let m := mark_all in filter (fun e => anchored (length m) m (fst e)) m.

(* is_compound_literal (patch e) *)
Definition one_lit (test : tinfo -> bool) (ov : option (list robj)) : bool :=
  match ov with Some [OLit l] => test (info l) | _ => false end.
Definition is_compound_literal (ps : props) : bool :=
  (2 <=? length ps)%nat && (length ps <=? 3)%nat
  && one_lit ti_dir (get_prop ps (PIri c_direction))
  && one_lit ti_plain (get_prop ps (PIri c_value))
  && ((length ps =? 2)%nat || one_lit ti_lang (get_prop ps (PIri c_language))).
(* is_referenced_once (patch e) *)
Definition referenced_once (k : nkey) : bool :=
  (ngraphs (snd k) =? 1)%nat
  && match aget N.eqb (uparent s) (snd k) with
     | Some (Some (pk, _)) => gkey_eqb (fst pk) (fst k)
     | _ => false
     end.
Definition compounds : list nkey :=
  if compound o then filter (fun k => is_compound_literal (get_node k) && referenced_once k) (cands s)
  else [].

(* ---------- the emitted document, as a tree ---------- *)
Inductive jval :=
| JRef (id : N)                              (* {"@id": id} *)
| JLit (l : N)                               (* the value object of literal l *)
| JList (cs : list N) (items : list jval)    (* {"@list": [...]} *)
| JComp (b : N) (v d : N) (l : option N).    (* {"@value": v, "@direction": d, "@language": l} *)
(* [cs] (the suppressed cells the items come from) and [b] (the suppressed compound-literal node)
   are ghost annotations: they are not part of the document, are ignored by [jval_eqb] and by the
   reference reader, and are only read by [witness], which proposes the renaming of fresh nodes *)
Record jnode := mkJ { j_id : N; j_types : list N; j_props : list (N * list jval) }.
Record jtop := mkTop { j_node : jnode; j_graph : option (list jnode) }.

Variable L : marks.        (* list_nodes *)
Variable C : list nkey.    (* compounds *)
Definition is_marked (k : nkey) : bool := match aget nkey_eqb L k with Some _ => true | None => false end.
Definition is_comp (k : nkey) : bool := existsb (nkey_eqb k) C.

Definition first_val (ps : props) : robj :=      (* map[RDF_FIRST][0]; a missing entry panics *)
  match get_prop ps (PIri c_first) with Some (x :: _) => x | _ => OLit 0 end.
Definition rest_val (ps : props) : robj :=
  match get_prop ps (PIri c_rest) with Some (x :: _) => x | _ => OLit 0 end.
Definition lit_val (ov : option (list robj)) : N :=   (* node[KEY][0].as_str() of a literal *)
  match ov with Some (OLit l :: _) => l | _ => 0 end.

(* populate_list: the cells, then their items *)
Fixpoint cells (fuel : nat) (k : nkey) : list nkey :=
  match fuel with
  | O => []
  | S f => k :: match rest_val (get_node k) with
                | ONode k' => if snd k' =? c_nil then [] else cells f k'
                | OLit _ => []
                end
  end.

(* convert_rdf_object *)
Fixpoint convert (fuel : nat) (x : robj) : jval :=
  match x with
  | OLit l => JLit l
  | ONode k =>
      if snd k =? c_nil then JList [] []
      else if negb (is_blank (snd k)) then JRef (snd k)
      else if is_marked k then
        match fuel with
        | O => JList [] []
        | S f => let cs := cells (S (length (nodes s))) k in
                 JList (map snd cs) (map (fun c => convert f (first_val (get_node c))) cs)
        end
      else if is_comp k then
        let ps := get_node k in
        JComp (snd k) (lit_val (get_prop ps (PIri c_value))) (lit_val (get_prop ps (PIri c_direction)))
              (match get_prop ps (PIri c_language) with Some _ as ov => Some (lit_val ov) | None => None end)
      else JRef (snd k)
  end.
Definition conv := convert (S (length (nodes s))).

(* make_node_object *)
Definition node_types (ps : props) : list N :=
  match get_prop ps PType with
  | Some v => flat_map (fun x => match x with ONode k => [snd k] | OLit _ => [] end) v
  | None => []
  end.
Definition node_props (ps : props) : list (N * list jval) :=
  flat_map (fun e => match fst e with PIri p => [(p, map conv (snd e))] | _ => [] end) ps.
Definition make_node (k : nkey) (ps : props) : jnode := mkJ (snd k) (node_types ps) (node_props ps).

(* jsonify *)
Definition suppressed (k : nkey) : bool := is_marked k || is_comp k.
Definition jsonify_inner (k : nkey) : option jnode :=
  let ps := get_node k in
  match ps with
  | [] => None
  | _ => if suppressed k then None else Some (make_node k ps)
  end.
Definition opt_list {A} (x : option A) : list A := match x with Some a => [a] | None => [] end.
Definition jsonify_root (e : nkey * props) : option jtop :=
  let (k, ps) := e in
  match ps with
  | [] => None
  | _ =>
    match fst k with
    | Some _ => None
    | None =>
      if suppressed k then None else
      Some (mkTop (make_node k ps)
                  (match get_prop ps PGraph with
                   | Some v => Some (flat_map (fun x => match x with
                                                        | ONode k2 => opt_list (jsonify_inner k2)
                                                        | OLit _ => [] end) v)
                   | None => None
                   end))
    end
  end.
Definition document : list jtop := flat_map (fun e => opt_list (jsonify_root e)) (nodes s).
End Render.

Definition serialise (d : list quad) : list jtop :=
  let s := process d in document s (list_nodes s) (compounds s).

(* ---------- reference reader: Deserialize JSON-LD to RDF on the emitted tree ---------- *)
(* fresh blank nodes are numbered from a base above every identifier of the input *)
Section ToRdf.
Variable g : option N.
(* returns (term, triples generated in graph g, next fresh identifier) *)
Fixpoint val_to_rdf (fresh : N) (v : jval) : N * list quad * N :=
  match v with
  | JRef id => (id, [], fresh)
  | JLit l => (l, [], fresh)
  | JComp _ v d l =>
      (fresh,
       mkQ fresh c_value v g
       :: match l with Some l' => [mkQ fresh c_language l' g] | None => [] end
       ++ [mkQ fresh c_direction d g],
       fresh + 1)
  | JList _ items =>
      (* convert the items, then chain them from the last to the first *)
      let fix go (fr : N) (l : list jval) : N * list quad * N :=
        match l with
        | [] => (c_nil, [], fr)
        | x :: r =>
            let '(t, q1, fr1) := val_to_rdf fr x in
            let '(tl, q2, fr2) := go fr1 r in
            (fr2, mkQ fr2 c_first t g :: mkQ fr2 c_rest tl g :: q1 ++ q2, fr2 + 1)
        end in
      go fresh items
  end.
Fixpoint vals_to_rdf (fresh : N) (s p : N) (vs : list jval) : list quad * N :=
  match vs with
  | [] => ([], fresh)
  | v :: r =>
      let '(t, q1, fr1) := val_to_rdf fresh v in
      let '(q2, fr2) := vals_to_rdf fr1 s p r in
      (mkQ s p t g :: q1 ++ q2, fr2)
  end.
Fixpoint props_to_rdf (fresh : N) (s : N) (ps : list (N * list jval)) : list quad * N :=
  match ps with
  | [] => ([], fresh)
  | (p, vs) :: r =>
      let '(q1, fr1) := vals_to_rdf fresh s p vs in
      let '(q2, fr2) := props_to_rdf fr1 s r in
      (q1 ++ q2, fr2)
  end.
Definition node_to_rdf (fresh : N) (n : jnode) : list quad * N :=
  let '(q, fr) := props_to_rdf fresh (j_id n) (j_props n) in
  (map (fun t => mkQ (j_id n) c_type t g) (j_types n) ++ q, fr).
Fixpoint nodes_to_rdf (fresh : N) (ns : list jnode) : list quad * N :=
  match ns with
  | [] => ([], fresh)
  | n :: r =>
      let '(q1, fr1) := node_to_rdf fresh n in
      let '(q2, fr2) := nodes_to_rdf fr1 r in
      (q1 ++ q2, fr2)
  end.
End ToRdf.
Fixpoint tops_to_rdf (fresh : N) (ts : list jtop) : list quad * N :=
  match ts with
  | [] => ([], fresh)
  | t :: r =>
      let '(q1, fr1) := node_to_rdf None fresh (j_node t) in
      let '(q2, fr2) := match j_graph t with
                        | Some ns => nodes_to_rdf (Some (j_id (j_node t))) fr1 ns
                        | None => ([], fr1)
                        end in
      let '(q3, fr3) := tops_to_rdf fr2 r in
      (q1 ++ q2 ++ q3, fr3)
  end.
Definition to_rdf (base : N) (doc : list jtop) : list quad := fst (tops_to_rdf base doc).

(* the renaming fresh identifier -> suppressed node, read off the ghost annotations by a traversal
   that allocates exactly like the reference reader *)
Fixpoint val_wit (fresh : N) (v : jval) : list (N * N) * N :=
  match v with
  | JRef _ | JLit _ => ([], fresh)
  | JComp b _ _ _ => ([(fresh, b)], fresh + 1)
  | JList cs items =>
      let fix go (fr : N) (cs : list N) (l : list jval) : list (N * N) * N :=
        match l with
        | [] => ([], fr)
        | x :: r =>
            let '(w1, fr1) := val_wit fr x in
            let '(w2, fr2) := go fr1 (tl cs) r in
            ((fr2, hd 0 cs) :: w1 ++ w2, fr2 + 1)
        end in
      go fresh cs items
  end.
Fixpoint vals_wit (fresh : N) (vs : list jval) : list (N * N) * N :=
  match vs with
  | [] => ([], fresh)
  | v :: r => let '(w1, fr1) := val_wit fresh v in let '(w2, fr2) := vals_wit fr1 r in (w1 ++ w2, fr2)
  end.
Fixpoint props_wit (fresh : N) (ps : list (N * list jval)) : list (N * N) * N :=
  match ps with
  | [] => ([], fresh)
  | (_, vs) :: r => let '(w1, fr1) := vals_wit fresh vs in let '(w2, fr2) := props_wit fr1 r in (w1 ++ w2, fr2)
  end.
Fixpoint nodes_wit (fresh : N) (ns : list jnode) : list (N * N) * N :=
  match ns with
  | [] => ([], fresh)
  | n :: r => let '(w1, fr1) := props_wit fresh (j_props n) in let '(w2, fr2) := nodes_wit fr1 r in (w1 ++ w2, fr2)
  end.
Fixpoint tops_wit (fresh : N) (ts : list jtop) : list (N * N) * N :=
  match ts with
  | [] => ([], fresh)
  | t :: r =>
      let '(w1, fr1) := props_wit fresh (j_props (j_node t)) in
      let '(w2, fr2) := match j_graph t with Some ns => nodes_wit fr1 ns | None => ([], fr1) end in
      let '(w3, fr3) := tops_wit fr2 r in
      (w1 ++ w2 ++ w3, fr3)
  end.
Definition witness (base : N) (doc : list jtop) : list (N * N) := fst (tops_wit base doc).

End Engine.

(* ---------- pre-fix variants (for the refutations) ---------- *)
(* (a) `self.unique_parent[s_id]` panics when a seed was never an object *)
Definition prefix_a_panics (info : N -> tinfo) (o : opts) (d : list quad) : bool :=
  let s := process info o d in
  existsb (fun k => match aget N.eqb (uparent s) (snd k) with None => true | Some _ => false end) (seeds s).

Section Prefix.
Variable info : N -> tinfo.
Variable o : opts.
Variable s : st.
(* (d) the original is_list_node: "possibly a rdf:List" *)
Definition is_list_node_prefix (ps : props) : bool :=
  (2 <=? length ps)%nat && (length ps <=? 3)%nat
  && match get_prop ps (PIri c_first) with Some [_] => true | _ => false end
  && match get_prop ps (PIri c_rest) with Some [ONode _] => true | _ => false end
  && ((length ps =? 2)%nat
      || match get_prop ps PType with Some [ONode k] => snd k =? c_List | _ => false end).
(* mark_list_node with the single-graph test (b) and the rdf:List exclusion (d) switchable *)
Fixpoint mark_prefix (single typed : bool) (fuel : nat) (m : marks) (k : nkey) : marks :=
  match fuel with
  | O => m
  | S f =>
    match aget N.eqb (uparent s) (snd k) with
    | Some (Some (pk, pp)) =>
        if mode10 o && (pp =? c_first) then m
        else if gkey_eqb (fst pk) (fst k) && (if single then (ngraphs s (snd k) =? 1)%nat else true) then
          if (if typed then is_list_node_prefix (get_node s k) else is_list_node (get_node s k)) then
            let m' := mark_insert m k pk in
            if is_blank info (snd pk) && (pp =? c_rest) then mark_prefix single typed f m' pk else m'
          else m
        else m
    | _ => m
    end
  end.
Definition mark_all_prefix (single typed : bool) : marks :=
  fold_left (mark_prefix single typed (S (length (nodes s)))) (seeds s) [].
(* (b) the original `list_node` was keyed by the blank node label alone: a label marked in one
   graph is a list node in every graph (and as a graph name) *)
Definition by_label (m : marks) : marks :=
  m ++ flat_map (fun e => let k := fst e in
                          if existsb (fun e' => snd (fst e') =? snd k) m
                             && negb (existsb (fun e' => nkey_eqb (fst e') k) m)
                          then [(k, k)] else []) (nodes s).
(* (c) no removal of unanchored list nodes: the marks are used as they are *)
(* (e) the original is_compound_literal, and no reference check *)
Definition is_compound_literal_prefix (ps : props) : bool :=
  (2 <=? length ps)%nat && (length ps <=? 3)%nat
  && one_lit info (fun _ => true) (get_prop ps (PIri c_direction))
  && one_lit info (fun _ => true) (get_prop ps (PIri c_value))
  && ((length ps =? 2)%nat || one_lit info (fun _ => true) (get_prop ps (PIri c_language))).
Definition compounds_prefix : list nkey :=
  if compound o then filter (fun k => is_compound_literal_prefix (get_node s k)) (cands s) else [].
End Prefix.
(* the document of the original code (when it does not panic) *)
Definition serialise_original (info : N -> tinfo) (o : opts) (d : list quad) : list jtop :=
  let s := process info o d in
  document info s (by_label s (mark_all_prefix info o s false true)) (compounds_prefix info o s).

(* ---------- comparison of documents up to the order of keys, nodes and values ---------- *)
Fixpoint jval_eqb (a b : jval) : bool :=
  match a, b with
  | JRef x, JRef y => x =? y
  | JLit x, JLit y => x =? y
  | JComp _ v d l, JComp _ v' d' l' => (v =? v') && (d =? d') && opt_eqb N.eqb l l'
  | JList _ x, JList _ y =>
      (fix go (x y : list jval) : bool :=
         match x, y with
         | [], [] => true
         | a :: x', b :: y' => jval_eqb a b && go x' y'
         | _, _ => false
         end) x y
  | _, _ => false
  end.
(* multiset equality for a boolean equivalence *)
Fixpoint remove_first {A} (eqb : A -> A -> bool) (x : A) (l : list A) : option (list A) :=
  match l with
  | [] => None
  | y :: r => if eqb x y then Some r
              else match remove_first eqb x r with Some r' => Some (y :: r') | None => None end
  end.
Fixpoint perm_eqb {A} (eqb : A -> A -> bool) (a b : list A) : bool :=
  match a with
  | [] => match b with [] => true | _ => false end
  | x :: a' => match remove_first eqb x b with Some b' => perm_eqb eqb a' b' | None => false end
  end.
Definition prop_eqb (a b : N * list jval) : bool := (fst a =? fst b) && perm_eqb jval_eqb (snd a) (snd b).
Definition jnode_eqb (a b : jnode) : bool :=
  (j_id a =? j_id b) && perm_eqb N.eqb (j_types a) (j_types b) && perm_eqb prop_eqb (j_props a) (j_props b).
Definition jtop_eqb (a b : jtop) : bool :=
  jnode_eqb (j_node a) (j_node b)
  && match j_graph a, j_graph b with
     | None, None => true
     | Some x, Some y => perm_eqb jnode_eqb x y
     | _, _ => false
     end.
Definition doc_eqb (a b : list jtop) : bool := perm_eqb jtop_eqb a b.

(* ---------- harness-facing checkers ---------- *)
Definition table := list (N * tinfo).
Definition info_of (t : table) (x : N) : tinfo :=
  match aget N.eqb t x with Some i => i | None => other_info end.
Definition I := mkInfo KIri false false false.
Definition B := mkInfo KBlank false false false.
Definition Lit (plain dir lang : bool) := mkInfo KLit plain dir lang.

(* the implementation's document equals the model's *)
Definition c12_ok (t : table) (o : opts) (d : list quad) (observed : list jtop) : bool :=
  doc_eqb (serialise (info_of t) o d) observed.

(* translation validation of the round trip on the model's own document: reading it back with
   the reference reader gives the expressible part of the input, up to the renaming [witness] of
   the fresh blank nodes (which is checked to be injective, defined on fresh identifiers only and
   onto blank nodes of the input) *)
Definition quad_eqb (a b : quad) : bool :=
  (qs a =? qs b) && (qp a =? qp b) && (qo a =? qo b) && opt_eqb N.eqb (qg a) (qg b).
Definition rename (r : list (N * N)) (x : N) : N := match aget N.eqb r x with Some y => y | None => x end.
Definition rename_q (r : list (N * N)) (q : quad) : quad :=
  mkQ (rename r (qs q)) (qp q) (rename r (qo q)) (option_map (rename r) (qg q)).
Definition subset_q (a b : list quad) : bool := forallb (fun q => existsb (quad_eqb q) b) a.
Fixpoint nodupb (l : list N) : bool :=
  match l with [] => true | x :: r => negb (existsb (N.eqb x) r) && nodupb r end.
Definition ids_of (d : list quad) : list N :=
  flat_map (fun q => qs q :: qp q :: qo q :: match qg q with Some g => [g] | None => [] end) d.
Definition roundtrip_doc_ok (info : N -> tinfo) (d : list quad) (base : N) (doc : list jtop) : bool :=
  let expected := filter (is_jsonld info) d in
  let r := witness base doc in
  let back := map (rename_q r) (to_rdf base doc) in
  subset_q back expected && subset_q expected back
  (* r is injective, defined on fresh identifiers only, onto blank nodes of the input *)
  && nodupb (map snd r) && nodupb (map fst r)
  && forallb (fun p => (base <=? fst p) && match ti_kind (info (snd p)) with KBlank => true | _ => false end) r
  && forallb (fun x => x <? base) (ids_of d)
  (* and no suppressed node is still mentioned by the document *)
  && forallb (fun b => negb (existsb (N.eqb b) (ids_of (to_rdf base doc)))) (map snd r).
Definition roundtrip_ok (t : table) (o : opts) (d : list quad) (base : N) : bool :=
  roundtrip_doc_ok (info_of t) d base (serialise (info_of t) o d).

(* ---------- literal level: the i18n-datatype shortcut of convert_rdf_object (patch f) ---------- *)
(* dt_str[NS_18N.len()..].splitn(2, '_') *)
Fixpoint split_us (s : str) : str * option str :=
  match s with
  | [] => ([], None)
  | c :: r => if c =? 95 then ([], Some r) else let (a, b) := split_us r in (c :: a, b)
  end.
Definition is_direction (s : str) : bool := str_eqb s [108; 116; 114] || str_eqb s [114; 116; 108].
Definition no_upper (s : str) : bool := forallb (fun c => negb ((65 <=? c) && (c <=? 90))) s.
(* the value object emitted for a literal whose datatype is i18n#suffix, rdf_direction = i18n-datatype:
   either "@type": the datatype, or "@language" (optional) and "@direction" *)
Inductive vobj := VTyped (suffix : str) | VDir (lang : option str) (dir : str).
(* wf_tag stands for LanguageTag::new(tag).is_ok() *)
Definition i18n_value (wf_tag : str -> bool) (suffix : str) : vobj :=
  let (tag, od) := split_us suffix in
  let dir := match od with Some d => d | None => [] end in
  if is_direction dir && match tag with [] => true | _ => wf_tag tag && no_upper tag end
  then VDir (match tag with [] => None | _ => Some tag end) dir
  else VTyped suffix.
(* reference reader (Object to RDF conversion, steps 13.1-13.2): the datatype suffix read back *)
Definition i18n_back (v : vobj) : str :=
  match v with
  | VTyped s => s
  | VDir l d => lower (match l with Some t => t | None => [] end) ++ 95 :: d
  end.
(* the original code: no validity test; an empty tag or direction is left out *)
Definition i18n_value_original (suffix : str) : vobj :=
  let (tag, od) := split_us suffix in
  VDir (match tag with [] => None | _ => Some tag end) (match od with Some d => d | None => [] end).
(* reading it back gives an i18n datatype only when there is a valid direction *)
Definition i18n_back_original (v : vobj) : option str :=
  match v with
  | VTyped s => Some s
  | VDir l d => if is_direction d then Some (i18n_back v) else None
  end.
Definition vobj_eqb (a b : vobj) : bool :=
  match a, b with
  | VTyped x, VTyped y => str_eqb x y
  | VDir l d, VDir l' d' => opt_eqb str_eqb l l' && str_eqb d d'
  | _, _ => false
  end.
(* harness: the tag part's well-formedness is reported by sophia's own LanguageTag::new *)
Definition i18n_ok (wf : bool) (suffix : str) (observed : vobj) : bool :=
  vobj_eqb (i18n_value (fun _ => wf) suffix) observed.
