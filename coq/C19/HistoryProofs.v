(* C19/HistoryProofs.v -- each loader value answers from its own configuration only. *)
From Sophia.C19 Require Import Model Proofs Config ConfigProofs History.

Lemma nth_set_nth_same {A} (l : list A) : forall n x d, (n < length l)%nat -> nth n (set_nth l n x) d = x.
Proof.
  induction l as [|y l IH]; intros [|n] x d H; simpl in *; try lia; auto. apply IH. lia.
Qed.
Lemma nth_set_nth_other {A} (l : list A) : forall n m x d, n <> m -> nth m (set_nth l n x) d = nth m l d.
Proof.
  induction l as [|y l IH]; intros [|n] [|m] x d H; simpl; auto; try congruence.
Qed.
Lemma length_set_nth {A} (l : list A) : forall n x, length (set_nth l n x) = length l.
Proof. induction l as [|y l IH]; intros [|n] x; simpl; auto. Qed.
Lemma Forall_set_nth {A} (P : A -> Prop) (l : list A) : forall n x,
  P x -> Forall P l -> Forall P (set_nth l n x).
Proof.
  induction l as [|y l IH]; intros [|n] x Hx Hl; simpl; auto; inversion Hl; subst; constructor; auto.
Qed.
Lemma cfg_of_P (P : list cache -> Prop) st i : P [] -> Forall P st -> P (cfg_of st i).
Proof.
  intros H0 Hst. unfold cfg_of. destruct (nth_in_or_default (N.to_nat i) st []) as [Hin|Hd]; [|rewrite Hd; exact H0].
  rewrite Forall_forall in Hst. apply Hst. exact Hin.
Qed.

Section S.
Variable fs : fsys.
Variable exts : list str.

(* ---------- frame: an operation only ever modifies its own target ---------- *)
Theorem hstep_frame st op j :
  (N.to_nat j < length st)%nat -> target op <> Some j ->
  cfg_of (fst (hstep fs exts st op)) j = cfg_of st j.
Proof.
  intros Hj Ht. unfold cfg_of. destruct op as [l|i|i ns t|i iri|i]; simpl in *.
  - destruct (new_loader fs l); simpl; apply app_nth1; exact Hj.
  - apply app_nth1; exact Hj.
  - destruct (add fs (cfg_of st i) ns t) as [cs r]. simpl. unfold set_cfg.
    apply nth_set_nth_other. intros E. apply Ht. f_equal. apply N2Nat.inj. exact E.
  - reflexivity.
  - unfold set_cfg. apply nth_set_nth_other. intros E. apply Ht. f_equal. apply N2Nat.inj. exact E.
Qed.

Theorem hstep_length st op : (length st <= length (fst (hstep fs exts st op)))%nat.
Proof.
  destruct op as [l|i|i ns t|i iri|i]; simpl.
  - destruct (new_loader fs l); simpl; rewrite app_length; simpl; lia.
  - rewrite app_length; simpl; lia.
  - destruct (add fs (cfg_of st i) ns t) as [cs r]. simpl. unfold set_cfg. rewrite length_set_nth. lia.
  - lia.
  - unfold set_cfg. rewrite length_set_nth. lia.
Qed.

(* a whole history that never targets loader j leaves it as it was, whatever was cloned from it,
   added to the clones or requested through any loader in between *)
Theorem history_frame ops : forall st j,
  (N.to_nat j < length st)%nat -> Forall (fun op => target op <> Some j) ops ->
  cfg_of (state_after fs exts st ops) j = cfg_of st j.
Proof.
  induction ops as [|op ops IH]; intros st j Hj Hf; simpl; [reflexivity|].
  inversion Hf; subst. rewrite IH; auto.
  - apply hstep_frame; auto.
  - pose proof (hstep_length st op). lia.
Qed.

(* clone, then add to the clone: the clone starts as a copy, the add lands in the clone and the
   original keeps its configuration *)
Theorem clone_then_add_independent st i ns t :
  (N.to_nat i < length st)%nat ->
  let k := N.of_nat (length st) in
  let st1 := fst (hstep fs exts st (HClone i)) in
  let st2 := fst (hstep fs exts st1 (HAdd k ns t)) in
  cfg_of st1 k = cfg_of st i /\
  cfg_of st2 i = cfg_of st i /\
  cfg_of st2 k = fst (add fs (cfg_of st i) ns t).
Proof.
  intros Hi k st1 st2.
  assert (Hk : cfg_of st1 k = cfg_of st i).
  { unfold st1, cfg_of at 1, k. simpl. rewrite Nat2N.id. rewrite app_nth2 by lia.
    rewrite Nat.sub_diag. reflexivity. }
  split; [exact Hk|]. unfold st2. simpl. rewrite Hk.
  destruct (add fs (cfg_of st i) ns t) as [cs r] eqn:E. simpl. split.
  - unfold set_cfg, cfg_of at 1. rewrite nth_set_nth_other.
    + unfold st1. simpl. apply app_nth1. exact Hi.
    + unfold k. rewrite Nat2N.id. lia.
  - unfold set_cfg, cfg_of at 1. apply nth_set_nth_same. unfold st1, k. simpl.
    rewrite Nat2N.id, app_length. simpl. lia.
Qed.

(* ---------- requests are pure: they leave every loader unchanged ---------- *)
Theorem gets_are_pure ops : forall st,
  state_after fs exts st ops = state_after fs exts st (filter (fun op => negb (is_get op)) ops).
Proof.
  induction ops as [|op ops IH]; intros st; simpl; [reflexivity|].
  destruct op; simpl; try apply IH.
Qed.

(* the k-th observation, when it is a request, is the answer of `get` on the configuration the
   requested loader value has at that moment *)
Theorem get_observation ops : forall st k i iri,
  nth_error ops k = Some (HGet i iri) ->
  nth_error (run_hist fs exts st ops) k
  = Some (obs_of (snd (get fs exts true (cfg_of (state_after fs exts st (firstn k ops)) i) iri))).
Proof.
  induction ops as [|op ops IH]; intros st [|k] i iri H; simpl in *; try discriminate.
  - inversion H; subst. reflexivity.
  - apply IH. exact H.
Qed.

(* ... and that configuration is determined by the configuring operations alone: no request made
   before, through this loader or another one, has any influence on the answer *)
Theorem get_history_free ops st k i iri :
  nth_error ops k = Some (HGet i iri) ->
  nth_error (run_hist fs exts st ops) k
  = Some (obs_of (snd (get fs exts true
        (cfg_of (state_after fs exts st (filter (fun op => negb (is_get op)) (firstn k ops))) i) iri))).
Proof. intros H. rewrite <- gets_are_pure. apply get_observation. exact H. Qed.

(* ---------- every loader value of a history is a run_adds configuration ---------- *)
Lemma run_adds_snoc l ns t :
  run_adds fs [] (l ++ [(ns, t)]) = fst (add fs (run_adds fs [] l) ns t).
Proof. unfold run_adds. rewrite fold_left_app. reflexivity. Qed.

Lemma reachable_nil : reachable fs [].
Proof. exists []. reflexivity. Qed.

Theorem hstep_reachable st op :
  Forall (reachable fs) st -> Forall (reachable fs) (fst (hstep fs exts st op)).
Proof.
  intros Hst. destruct op as [l|i|i ns t|i iri|i]; simpl.
  - destruct (new_loader fs l) as [e|cs] eqn:E; simpl; apply Forall_app; split; auto; constructor; auto.
    + apply reachable_nil.
    + exists l. symmetry. apply new_equals_adds. exact E.
  - apply Forall_app; split; auto. constructor; auto. apply cfg_of_P; auto. apply reachable_nil.
  - destruct (add fs (cfg_of st i) ns t) as [cs r] eqn:E. simpl. apply Forall_set_nth; auto.
    assert (Hr : reachable fs (cfg_of st i)) by (apply cfg_of_P; auto; apply reachable_nil).
    destruct Hr as [l Hl]. exists (l ++ [(ns, t)]). rewrite run_adds_snoc, <- Hl, E. reflexivity.
  - exact Hst.
  - apply Forall_set_nth; auto. apply reachable_nil.
Qed.

Theorem history_reachable ops : forall st,
  Forall (reachable fs) st -> Forall (reachable fs) (state_after fs exts st ops).
Proof.
  induction ops as [|op ops IH]; intros st H; simpl; auto. apply IH. apply hstep_reachable. exact H.
Qed.

(* hence the invariant of Config.v holds for every loader value at every moment *)
Theorem history_wf ops i :
  Forall (wf_cache fs) (cfg_of (state_after fs exts [] ops) i).
Proof.
  apply cfg_of_P; [constructor|].
  eapply Forall_impl; [|apply history_reachable; constructor].
  intros cs [l ->]. apply run_adds_wf. constructor.
Qed.

(* ---------- confinement inside histories ---------- *)
Lemma obs_of_found o p ct : obs_of o = OGot 0 p ct -> o = Found p ct.
Proof. destruct o; unfold obs_of; simpl; intros H; inversion H; reflexivity. Qed.

(* whatever happened before and through whichever loader value, a file is only ever returned from
   under a directory that THE REQUESTED loader value maps to a namespace prefixing the IRI *)
Theorem history_found_confined ops st k i iri p ct :
  nth_error ops k = Some (HGet i iri) ->
  nth_error (run_hist fs exts st ops) k = Some (OGot 0 p ct) ->
  confined_any exts (cfg_of (state_after fs exts st (firstn k ops)) i) (hd [] (split_on c_hash iri)) p.
Proof.
  intros Hop Hob. rewrite (get_observation ops st k i iri Hop) in Hob.
  inversion Hob as [E]. apply obs_of_found in E. eapply found_confined. exact E.
Qed.

(* a loader value that no namespace was ever successfully added to refuses everything *)
Theorem empty_loader_refuses iri : snd (get fs exts true [] iri) = Unsupported.
Proof.
  unfold get. simpl. reflexivity.
Qed.
End S.

(* ---------- the checker accepts exactly the model's observations ---------- *)
Lemma hobs_eqb_spec a b : hobs_eqb a b = true <-> a = b.
Proof.
  destruct a, b; simpl; try (split; congruence).
  - rewrite N.eqb_eq. split; congruence.
  - rewrite !andb_true_iff, !N.eqb_eq. unfold path_eqb.
    rewrite (list_eqb_spec str_eqb str_eqb_eq). split; [intros [[-> ->] ->]; reflexivity|].
    intros E; inversion E; auto.
Qed.
Theorem hist_ok_spec fs exts ops obs : hist_ok fs exts ops obs = true <-> run_hist fs exts [] ops = obs.
Proof. unfold hist_ok. apply list_eqb_spec. exact hobs_eqb_spec. Qed.

(* non-vacuity: a loader is cloned, the clone gets one more mapping and serves a file from it; the
   original, asked for the same IRI before and after, refuses; a third value cloned from the clone
   serves it as well; after the clone is dropped and replaced, it refuses too *)
Definition hx_fs : fsys :=
  [([[114]], false); ([[114]; [112]], false); ([[114]; [112]; [120]], true);
   ([[114]; [113]], false); ([[114]; [113]; [121]], true)].
Definition hx_ns1 : str := [104;58;47;47;112;47].      (* "h://p/" *)
Definition hx_ns2 : str := [104;58;47;47;113;47].      (* "h://q/" *)
Definition hx_d1 : str := [47;114;47;112].             (* "/r/p" *)
Definition hx_d2 : str := [47;114;47;113].             (* "/r/q" *)
Example history_example :
  run_hist hx_fs [] []
    [HNew [(hx_ns1, hx_d1)]; HClone 0; HGet 0 (hx_ns2 ++ [121]); HAdd 1 hx_ns2 hx_d2;
     HGet 1 (hx_ns2 ++ [121]); HGet 0 (hx_ns2 ++ [121]); HGet 0 (hx_ns1 ++ [120]); HClone 1;
     HReset 1; HGet 1 (hx_ns2 ++ [121]); HGet 2 (hx_ns2 ++ [121]); HAdd 0 (removelast hx_ns2) hx_d2;
     HNew [(hx_ns1, [114])]; HGet 3 (hx_ns1 ++ [120])]
  = [OCode 0; ONone; OGot 2 [] 0; OCode 0;
     OGot 0 [[114]; [113]; [121]] 0; OGot 2 [] 0; OGot 0 [[114]; [112]; [120]] 0; ONone;
     ONone; OGot 2 [] 0; OGot 0 [[114]; [113]; [121]] 0; OCode 1;
     OCode 2; OGot 2 [] 0].
Proof. vm_compute. reflexivity. Qed.
