(* C16/VecStoreProofs.v -- the Vec-backed stores: erasure, constant depth whatever the number of
   statements and of copies, and what each mutation does to the number of copies of a statement. *)
From Sophia.C16 Require Import Model Proofs VecStore.

(* ------------------------------------------------------------------------------------------ *)
(** * Lists                                                                                    *)
(* ------------------------------------------------------------------------------------------ *)
Lemma cnt_app x : forall a b, cnt x (a ++ b) = (cnt x a + cnt x b)%nat.
Proof.
  induction a as [|y a IH]; intros b; [reflexivity|].
  cbn [app cnt]. rewrite IH. destruct (N.eqb x y); reflexivity.
Qed.
Lemma cnt_single x y : cnt x [y] = if N.eqb x y then 1%nat else 0%nat.
Proof. cbn [cnt]. destruct (N.eqb x y); reflexivity. Qed.
Lemma cnt_filter (m : vq -> bool) x : forall v, cnt x (filter m v) = if m x then cnt x v else 0%nat.
Proof.
  induction v as [|y v IH]; [destruct (m x); reflexivity|].
  cbn [filter cnt]. destruct (N.eqb x y) eqn:E.
  - apply N.eqb_eq in E. subst y. destruct (m x) eqn:M.
    + cbn [cnt]. rewrite N.eqb_refl, IH. reflexivity.
    + exact IH.
  - destruct (m y).
    + cbn [cnt]. rewrite E. exact IH.
    + exact IH.
Qed.

Lemma swap_remove_snoc front l i :
  swap_remove (front ++ [l]) i =
  if Nat.eqb i (length front) then front else firstn i front ++ l :: skipn (S i) front.
Proof. unfold swap_remove. rewrite rev_app_distr. cbn [rev app]. rewrite rev_involutive. reflexivity. Qed.

Lemma snoc_cases (v : vstore) : v = [] \/ exists front l, v = front ++ [l].
Proof. destruct v as [|a v] using rev_ind; [left; reflexivity | right; eauto]. Qed.

Lemma split_at (front : vstore) i y : nth_error front i = Some y ->
  front = firstn i front ++ y :: skipn (S i) front.
Proof.
  revert i. induction front as [|a f IH]; intros [|i] H; cbn in H; try discriminate.
  - injection H as ->. reflexivity.
  - cbn [firstn skipn app]. f_equal. apply IH. exact H.
Qed.

(* swap_remove(i) takes away exactly the element at index i *)
Lemma swap_remove_cnt v i y : nth_error v i = Some y -> forall x,
  (cnt x (swap_remove v i) + (if N.eqb x y then 1 else 0) = cnt x v)%nat.
Proof.
  intros H x. destruct (snoc_cases v) as [->|(front & l & ->)]; [destruct i; discriminate|].
  rewrite swap_remove_snoc, cnt_app, cnt_single.
  destruct (Nat.eqb i (length front)) eqn:E.
  - apply Nat.eqb_eq in E. subst i. rewrite nth_error_app2 in H by lia.
    rewrite Nat.sub_diag in H. injection H as <-. reflexivity.
  - apply Nat.eqb_neq in E. destruct (Nat.lt_ge_cases i (length front)) as [L|L].
    + rewrite nth_error_app1 in H by exact L.
      rewrite (split_at front i y H) at 3.
      rewrite !cnt_app. cbn [cnt]. destruct (N.eqb x l), (N.eqb x y); lia.
    + rewrite nth_error_app2 in H by lia.
      destruct (i - length front)%nat as [|k] eqn:K; [lia|]. destruct k; discriminate.
Qed.
Lemma swap_remove_length v i : (i < length v)%nat -> length (swap_remove v i) = pred (length v).
Proof.
  intros L. destruct (snoc_cases v) as [->|(front & l & ->)]; [cbn in L; lia|].
  rewrite swap_remove_snoc, app_length in *. cbn [length] in *.
  destruct (Nat.eqb i (length front)) eqn:E; [lia|]. apply Nat.eqb_neq in E.
  rewrite app_length. cbn [length]. rewrite firstn_length, skipn_length. lia.
Qed.
Lemma swap_remove_prefix v i : (i < length v)%nat -> firstn i (swap_remove v i) = firstn i v.
Proof.
  intros L. destruct (snoc_cases v) as [->|(front & l & ->)]; [cbn in L; lia|].
  rewrite swap_remove_snoc. rewrite app_length in L. cbn [length] in L.
  destruct (Nat.eqb i (length front)) eqn:E.
  - apply Nat.eqb_eq in E. subst i. rewrite firstn_app, Nat.sub_diag, firstn_all. cbn [firstn].
    rewrite app_nil_r. reflexivity.
  - apply Nat.eqb_neq in E. assert (Li : (i < length front)%nat) by lia.
    rewrite !firstn_app. rewrite firstn_length, Nat.min_l by lia. rewrite Nat.sub_diag.
    replace (i - length front)%nat with O by lia. cbn [firstn]. rewrite !app_nil_r.
    rewrite firstn_firstn, Nat.min_id. reflexivity.
Qed.
Lemma firstn_S_nth (v : vstore) : forall i x, nth_error v i = Some x -> firstn (S i) v = firstn i v ++ [x].
Proof.
  induction v as [|a v IH]; intros [|i] x H; cbn in H; try discriminate.
  - injection H as ->. reflexivity.
  - cbn [firstn app]. f_equal. apply IH. exact H.
Qed.

(* ------------------------------------------------------------------------------------------ *)
(** * Erasure                                                                                  *)
(* ------------------------------------------------------------------------------------------ *)
Lemma matched_res q x : res (matched_c q x) = N.eqb q x. Proof. reflexivity. Qed.
Lemma matched_depth q x : depth (matched_c q x) = 2%nat. Proof. reflexivity. Qed.

Lemma position_body_res q : forall v i, res (position_body q v i) = position_p q v i.
Proof.
  induction v as [|x v IH]; intros i; [reflexivity|].
  cbn [position_body position_p]. rewrite res_bind, res_call, matched_res.
  destruct (N.eqb q x); [reflexivity | apply IH].
Qed.
Lemma position_body_depth q : forall v i, (depth (position_body q v i) <= 3)%nat.
Proof.
  induction v as [|x v IH]; intros i; [cbn; lia|].
  cbn [position_body]. rewrite depth_bind, depth_call, matched_depth, res_call, matched_res.
  destruct (N.eqb q x); [rewrite depth_ret; lia | specialize (IH (S i)); lia].
Qed.
Lemma position_res q v : res (position_c q v) = position_p q v O.
Proof. unfold position_c. rewrite res_call. apply position_body_res. Qed.
Lemma position_depth q v : (depth (position_c q v) <= 4)%nat.
Proof. unfold position_c. rewrite depth_call. pose proof (position_body_depth q v O). lia. Qed.

Lemma gspo_remove_res q v : res (gspo_remove_c q v) = gspo_remove_p q v.
Proof.
  unfold gspo_remove_c, gspo_remove_p. rewrite res_call, res_bind, position_res.
  destruct (position_p q v O); reflexivity.
Qed.
Lemma gspo_remove_depth q v : (depth (gspo_remove_c q v) <= 5)%nat.
Proof.
  unfold gspo_remove_c. rewrite depth_call, depth_bind. pose proof (position_depth q v).
  destruct (res (position_c q v)); [rewrite depth_bind, depth_leaf, depth_ret | rewrite depth_ret]; lia.
Qed.

Lemma spog_loop_res q : forall fuel v i, res (spog_loop fuel q v i) = spog_loop_p fuel q v i.
Proof.
  induction fuel as [|f IH]; intros v i; [reflexivity|].
  cbn [spog_loop spog_loop_p]. destruct (nth_error v i) as [x|]; [|reflexivity].
  rewrite res_bind, matched_res. destruct (N.eqb q x).
  - rewrite res_bind, res_leaf. apply IH.
  - apply IH.
Qed.
Lemma spog_loop_depth q : forall fuel v i, (depth (spog_loop fuel q v i) <= 2)%nat.
Proof.
  induction fuel as [|f IH]; intros v i; [cbn; lia|].
  cbn [spog_loop]. destruct (nth_error v i) as [x|]; [|cbn; lia].
  rewrite depth_bind, matched_depth, matched_res. destruct (N.eqb q x).
  - rewrite depth_bind, depth_leaf, res_leaf. specialize (IH (swap_remove v i) i). lia.
  - specialize (IH v (S i)). lia.
Qed.
Lemma spog_remove_res q v : res (spog_remove_c q v) = spog_remove_p q v.
Proof. unfold spog_remove_c, spog_remove_p. rewrite res_call, res_bind, spog_loop_res. reflexivity. Qed.
Lemma spog_remove_depth q v : (depth (spog_remove_c q v) <= 3)%nat.
Proof.
  unfold spog_remove_c. rewrite depth_call, depth_bind, depth_ret.
  pose proof (spog_loop_depth q (length v) v O). lia.
Qed.

Lemma remove_res g q v : res (remove_c g q v) = remove_p g q v.
Proof. destruct g; [apply gspo_remove_res | apply spog_remove_res]. Qed.
Lemma remove_depth g q v : (depth (remove_c g q v) <= 5)%nat.
Proof. destruct g; cbn [remove_c]; [apply gspo_remove_depth | pose proof (spog_remove_depth q v); lia]. Qed.

Lemma remove_all_body_res g : forall src v c, res (remove_all_body g src v c) = remove_all_p g src v c.
Proof.
  induction src as [|q r IH]; intros v c; [reflexivity|].
  cbn [remove_all_body remove_all_p]. rewrite res_bind. unfold remove_quad_c. rewrite !res_call, remove_res.
  destruct (remove_p g q v) as [b v']. apply IH.
Qed.
Lemma remove_all_body_depth g : forall src v c, (depth (remove_all_body g src v c) <= 7)%nat.
Proof.
  induction src as [|q r IH]; intros v c; [cbn; lia|].
  cbn [remove_all_body]. rewrite depth_bind. unfold remove_quad_c at 1. rewrite !depth_call.
  pose proof (remove_depth g q v).
  destruct (res (call (remove_quad_c g q v))) as [b v']. specialize (IH v' (if b then (c + 1)%N else c)). lia.
Qed.
Lemma remove_all_res g src v : res (remove_all_c g src v) = remove_all_p g src v 0.
Proof. unfold remove_all_c. rewrite !res_call. apply remove_all_body_res. Qed.
Lemma remove_all_depth g src v : (depth (remove_all_c g src v) <= 9)%nat.
Proof. unfold remove_all_c. rewrite !depth_call. pose proof (remove_all_body_depth g src v 0). lia. Qed.

Lemma collect_body_res m : forall v, res (collect_body m v) = filter m v.
Proof.
  induction v as [|x v IH]; [reflexivity|].
  cbn [collect_body filter]. rewrite !res_bind, res_call, res_leaf, IH. destruct (m x); reflexivity.
Qed.
Lemma collect_body_depth m : forall v, (depth (collect_body m v) <= 2)%nat.
Proof.
  induction v as [|x v IH]; [cbn; lia|].
  cbn [collect_body]. rewrite !depth_bind, depth_call, depth_leaf, depth_ret. lia.
Qed.
Lemma collect_res m v : res (collect_c m v) = filter m v.
Proof. unfold collect_c. rewrite !res_call. apply collect_body_res. Qed.
Lemma collect_depth m v : (depth (collect_c m v) <= 4)%nat.
Proof. unfold collect_c. rewrite !depth_call. pose proof (collect_body_depth m v). lia. Qed.

Lemma remove_matching_res g m v : res (remove_matching_c g m v) = remove_matching_p g m v.
Proof. unfold remove_matching_c, remove_matching_p. rewrite res_call, res_bind, collect_res. apply remove_all_res. Qed.
Lemma remove_matching_depth g m v : (depth (remove_matching_c g m v) <= 10)%nat.
Proof.
  unfold remove_matching_c. rewrite depth_call, depth_bind.
  pose proof (collect_depth m v). pose proof (remove_all_depth g (res (collect_c m v)) v). lia.
Qed.
Lemma retain_matching_res g m v : res (retain_matching_c g m v) = retain_matching_p g m v.
Proof.
  unfold retain_matching_c, retain_matching_p. rewrite res_call, res_bind, collect_res, res_bind, remove_all_res.
  destruct (remove_all_p g (filter (fun x => negb (m x)) v) v 0). reflexivity.
Qed.
Lemma retain_matching_depth g m v : (depth (retain_matching_c g m v) <= 10)%nat.
Proof.
  unfold retain_matching_c. rewrite depth_call, depth_bind, depth_bind.
  pose proof (collect_depth (fun x => negb (m x)) v).
  pose proof (remove_all_depth g (res (collect_c (fun x => negb (m x)) v)) v).
  destruct (res (remove_all_c g (res (collect_c (fun x => negb (m x)) v)) v)). rewrite depth_ret. lia.
Qed.
Lemma contains_res q v : res (contains_c q v) = contains_p q v.
Proof. unfold contains_c, contains_p. rewrite res_call, res_bind, position_res. reflexivity. Qed.
Lemma contains_depth q v : (depth (contains_c q v) <= 5)%nat.
Proof. unfold contains_c. rewrite depth_call, depth_bind, depth_ret. pose proof (position_depth q v). lia. Qed.

Lemma vstep_res g o v : res (vstep_c g o v) = vstep_p g o v.
Proof.
  destruct o; cbn [vstep_c vstep_p].
  - reflexivity.
  - rewrite res_bind, remove_res. destruct (remove_p g q v). reflexivity.
  - rewrite res_bind. unfold remove_quad_c. rewrite res_call, remove_res. destruct (remove_p g q v). reflexivity.
  - apply remove_all_res.
  - apply remove_matching_res.
  - apply retain_matching_res.
  - rewrite res_bind, contains_res. reflexivity.
Qed.
Lemma vstep_depth g o v : (depth (vstep_c g o v) <= 10)%nat.
Proof.
  destruct o; cbn [vstep_c].
  - cbn. lia.
  - rewrite depth_bind. pose proof (remove_depth g q v). destruct (res (remove_c g q v)). rewrite depth_ret. lia.
  - rewrite depth_bind. unfold remove_quad_c at 1. rewrite depth_call. pose proof (remove_depth g q v).
    destruct (res (remove_quad_c g q v)). rewrite depth_ret. lia.
  - pose proof (remove_all_depth g src v). lia.
  - apply remove_matching_depth.
  - apply retain_matching_depth.
  - rewrite depth_bind, depth_ret. pose proof (contains_depth q v). lia.
Qed.

(* ------------------------------------------------------------------------------------------ *)
(** * Pinned: erasure and depth of whole histories                                             *)
(* ------------------------------------------------------------------------------------------ *)
Theorem vec_history_erasure g : forall ops v, res (vrun_c g ops v) = vrun_p g ops v.
Proof.
  induction ops as [|o r IH]; intros v; [reflexivity|].
  cbn [vrun_c vrun_p]. rewrite res_bind, vstep_res. destruct (vstep_p g o v) as [x v'].
  rewrite res_bind, IH. reflexivity.
Qed.
(* whatever the operations, the number of statements held and the number of copies of any of them *)
Theorem vec_history_depth g : forall ops v, (depth (vrun_c g ops v) <= 10)%nat.
Proof.
  induction ops as [|o r IH]; intros v; [cbn; lia|].
  cbn [vrun_c]. rewrite depth_bind. pose proof (vstep_depth g o v).
  destruct (res (vstep_c g o v)) as [x v']. rewrite depth_bind, depth_ret. specialize (IH v'). lia.
Qed.

(* ------------------------------------------------------------------------------------------ *)
(** * What the mutations do to the number of copies                                            *)
(* ------------------------------------------------------------------------------------------ *)
Lemma position_some q : forall v k i, position_p q v k = Some i ->
  exists j, i = (k + j)%nat /\ nth_error v j = Some q.
Proof.
  induction v as [|x v IH]; intros k i H; [discriminate|].
  cbn [position_p] in H. destruct (N.eqb q x) eqn:E.
  - injection H as <-. apply N.eqb_eq in E. subst x. exists O. split; [lia | reflexivity].
  - destruct (IH _ _ H) as (j & -> & Hj). exists (S j). split; [lia | exact Hj].
Qed.
Lemma position_none q : forall v k, position_p q v k = None -> cnt q v = O.
Proof.
  induction v as [|x v IH]; intros k H; [reflexivity|].
  cbn [position_p] in H. cbn [cnt]. destruct (N.eqb q x); [discriminate | eapply IH; exact H].
Qed.

(* Vec<Gspo<T>>::remove takes away ONE copy, and tells whether there was one *)
Theorem gspo_remove_spec q v :
  fst (gspo_remove_p q v) = negb (Nat.eqb (cnt q v) 0) /\
  forall x, cnt x (snd (gspo_remove_p q v)) = if N.eqb x q then pred (cnt q v) else cnt x v.
Proof.
  unfold gspo_remove_p. destruct (position_p q v O) as [i|] eqn:P.
  - destruct (position_some _ _ _ _ P) as (j & -> & Hj). cbn [Nat.add fst snd].
    pose proof (swap_remove_cnt v j q Hj) as S. split.
    + specialize (S q). rewrite N.eqb_refl in S. destruct (cnt q v); [lia | reflexivity].
    + intros x. specialize (S x). destruct (N.eqb x q) eqn:E.
      * apply N.eqb_eq in E. subst x. lia.
      * lia.
  - pose proof (position_none _ _ _ P) as Z. cbn [fst snd]. rewrite Z. split; [reflexivity|].
    intros x. destruct (N.eqb x q) eqn:E; [apply N.eqb_eq in E; subst x; rewrite Z|]; reflexivity.
Qed.

Lemma spog_loop_spec q : forall fuel v i,
  (length v - i <= fuel)%nat -> cnt q (firstn i v) = O ->
  forall x, cnt x (spog_loop_p fuel q v i) = if N.eqb x q then O else cnt x v.
Proof.
  assert (Done : forall v i, nth_error v i = None -> cnt q (firstn i v) = O ->
                 forall x, cnt x v = if N.eqb x q then O else cnt x v).
  { intros v i N Z x. apply nth_error_None in N. rewrite firstn_all2 in Z by exact N.
    destruct (N.eqb x q) eqn:E; [apply N.eqb_eq in E; subst x; exact Z | reflexivity]. }
  induction fuel as [|f IH]; intros v i L Z x.
  - cbn [spog_loop_p]. apply (Done v i); [apply nth_error_None; lia | exact Z].
  - cbn [spog_loop_p]. destruct (nth_error v i) as [y|] eqn:N; [|apply (Done v i N Z)].
    assert (Li : (i < length v)%nat) by (apply nth_error_Some; rewrite N; discriminate).
    destruct (N.eqb q y) eqn:E.
    + apply N.eqb_eq in E. subst y.
      rewrite IH.
      * pose proof (swap_remove_cnt v i q N x) as S. destruct (N.eqb x q); [reflexivity | lia].
      * rewrite swap_remove_length by exact Li. lia.
      * rewrite swap_remove_prefix by exact Li. exact Z.
    + apply IH; [lia|]. rewrite (firstn_S_nth v i y N), cnt_app, Z, cnt_single, E. reflexivity.
Qed.
(* Vec<Spog<T>>::remove and Vec<[T; 3]>::remove take away EVERY copy (and always answer true) *)
Theorem spog_remove_spec q v :
  fst (spog_remove_p q v) = true /\
  forall x, cnt x (snd (spog_remove_p q v)) = if N.eqb x q then O else cnt x v.
Proof.
  split; [reflexivity|]. intros x. unfold spog_remove_p. cbn [snd].
  apply spog_loop_spec; [lia | reflexivity].
Qed.

(* remove_all: one copy per occurrence in the source / every copy of whatever the source names *)
Lemma remove_all_gspo_cnt : forall src v c x,
  cnt x (snd (remove_all_p true src v c)) = (cnt x v - cnt x src)%nat.
Proof.
  induction src as [|q r IH]; intros v c x; [cbn; lia|].
  cbn [remove_all_p remove_p]. destruct (gspo_remove_spec q v) as [_ S].
  destruct (gspo_remove_p q v) as [b v']. cbn [snd] in S. rewrite IH, S. cbn [cnt].
  destruct (N.eqb x q) eqn:E; [apply N.eqb_eq in E; subst x|]; lia.
Qed.
Lemma remove_all_spog_cnt : forall src v c x,
  cnt x (snd (remove_all_p false src v c)) = if Nat.eqb (cnt x src) 0 then cnt x v else O.
Proof.
  induction src as [|q r IH]; intros v c x; [reflexivity|].
  cbn [remove_all_p remove_p]. destruct (spog_remove_spec q v) as [_ S].
  destruct (spog_remove_p q v) as [b v']. cbn [snd] in S. rewrite IH, S. cbn [cnt].
  destruct (N.eqb x q) eqn:E; [|reflexivity]. destruct (Nat.eqb (cnt x r) 0); reflexivity.
Qed.
(* remove_matching leaves no statement that the matcher accepts, whatever the number of copies,
   and does not touch the others; retain_matching is its mirror image: both flavours *)
Theorem remove_matching_spec g m v x :
  cnt x (snd (remove_matching_p g m v)) = if m x then O else cnt x v.
Proof.
  unfold remove_matching_p. destruct g.
  - rewrite remove_all_gspo_cnt, cnt_filter. destruct (m x); lia.
  - rewrite remove_all_spog_cnt, cnt_filter. destruct (m x); [|reflexivity].
    destruct (cnt x v); reflexivity.
Qed.
Theorem retain_matching_spec g m v x :
  cnt x (snd (retain_matching_p g m v)) = if m x then cnt x v else O.
Proof.
  unfold retain_matching_p. cbn [snd].
  pose proof (remove_matching_spec g (fun y => negb (m y)) v x) as H. unfold remove_matching_p in H.
  rewrite H. destruct (m x); reflexivity.
Qed.

(* ------------------------------------------------------------------------------------------ *)
(** * The frame count sees a removal written as one self-call per copy                         *)
(* ------------------------------------------------------------------------------------------ *)
Lemma swap_remove_repeat q k : swap_remove (repeat q (S k)) 0 = repeat q k.
Proof.
  change (repeat q (S k)) with (q :: repeat q k). rewrite repeat_cons, swap_remove_snoc, repeat_length.
  destruct k; [reflexivity|]. cbn [Nat.eqb firstn app skipn repeat]. reflexivity.
Qed.
Lemma every_copy_rec_depth q : forall k fuel, (k < fuel)%nat ->
  (k < depth (every_copy_rec_c fuel q (repeat q k) 0))%nat.
Proof.
  induction k as [|k IH]; intros fuel L; (destruct fuel as [|f]; [lia|]).
  - cbn [every_copy_rec_c]. rewrite depth_call. lia.
  - cbn [every_copy_rec_c]. rewrite depth_call, depth_bind.
    assert (P : res (position_c q (skipn 0 (repeat q (S k)))) = Some O).
    { rewrite position_res. cbn [skipn repeat position_p]. rewrite N.eqb_refl. reflexivity. }
    rewrite P. rewrite depth_bind, res_leaf. cbn [Nat.add]. rewrite swap_remove_repeat.
    specialize (IH f ltac:(lia)).
    rewrite depth_bind.
    destruct (res (every_copy_rec_c f q (repeat q k) 0)) as [b v'']. lia.
Qed.
Theorem every_copy_rec_refuted : forall c : nat, exists q v,
  (depth (every_copy_rec_c (S (length v)) q v 0) > c)%nat.
Proof.
  intros c. exists 7%N, (repeat 7%N c). rewrite repeat_length.
  exact (every_copy_rec_depth 7%N c (S c) (Nat.lt_succ_diag_r c)).
Qed.
