(* C15/ParserProofs.v -- the line-oriented Rio source delivers exactly the statements of the lines
   before the first fault, reports the fault on the right side, and leaves the reader exactly
   behind the line that was being read (nothing after it is parsed).  For EVERY line reader. *)
From Sophia.Common Require Import Prelude Term.
From Sophia.C03 Require Import Model.
From Sophia.C15 Require Import Generic GenericProofs ParserSource.

(* ---------- lines ---------- *)
Lemma cut_line_line l r : no_lf l = true -> cut_line (l ++ 10 :: r) = (l, r).
Proof.
  induction l as [|c l IH]; simpl; intros H; [reflexivity|].
  apply andb_true_iff in H as [H1 H2]. destruct (c =? 10); [discriminate|].
  rewrite IH by exact H2. reflexivity.
Qed.

Lemma cut_line_last l : no_lf l = true -> cut_line l = (l, []).
Proof.
  induction l as [|c l IH]; simpl; intros H; [reflexivity|].
  apply andb_true_iff in H as [H1 H2]. destruct (c =? 10); [discriminate|].
  rewrite IH by exact H2. reflexivity.
Qed.

Lemma cut_line_le t : (length (snd (cut_line t)) <= length t)%nat.
Proof.
  induction t as [|c t IH]; simpl; [lia|].
  destruct (c =? 10); simpl; [lia|].
  destruct (cut_line t) as [l r]. simpl in *. lia.
Qed.

Lemma cut_line_shorter t : t <> [] -> (length (snd (cut_line t)) < length t)%nat.
Proof.
  destruct t as [|c t]; [congruence|]. intros _. simpl.
  destruct (c =? 10); simpl; [lia|].
  pose proof (cut_line_le t) as H. destruct (cut_line t) as [l r]. simpl in *. lia.
Qed.

(* every text is a list of LF-terminated LF-free lines followed by an LF-free rest *)
Theorem split_doc_spec t :
  let '(ls, tl) := split_doc t in
  t = unlines ls ++ tl /\ forallb no_lf ls = true /\ no_lf tl = true.
Proof.
  induction t as [|c t IH]; simpl; [auto|].
  destruct (split_doc t) as [ls tl]. destruct IH as (H1 & H2 & H3).
  destruct (c =? 10) eqn:E.
  - apply N.eqb_eq in E. subst c. simpl. rewrite H2. repeat split; auto. congruence.
  - destruct ls as [|l ls'].
    + simpl in *. rewrite E. simpl. repeat split; auto. congruence.
    + simpl in *. rewrite E. simpl. apply andb_true_iff in H2 as [H2 H4].
      rewrite H2, H4. repeat split; auto. rewrite H1. reflexivity.
Qed.

Lemma unlines_app a b : unlines (a ++ b) = unlines a ++ unlines b.
Proof. unfold unlines. apply flat_map_app. Qed.

Lemma unlines_length ls : (length ls <= length (unlines ls))%nat.
Proof.
  induction ls as [|l ls IH]; simpl; [lia|]. rewrite !app_length. simpl. lia.
Qed.

Section Rio.
Context {A : Type}.
Variable parse_line : list N -> option (option A).
Notation stmts := (stmts parse_line).
Notation lines_ok := (lines_ok parse_line).

Lemma stmts_app a b : stmts (a ++ b) = stmts a ++ stmts b.
Proof. unfold ParserSource.stmts. apply flat_map_app. Qed.
Lemma lines_ok_app a b : lines_ok (a ++ b) = lines_ok a && lines_ok b.
Proof. unfold ParserSource.lines_ok. apply forallb_app. Qed.

(* either every line is readable or there is a first one that is not *)
Theorem lines_first_bad ls :
  lines_ok ls = true \/
  exists pre bad post, ls = pre ++ bad :: post /\ lines_ok pre = true /\ parse_line bad = None.
Proof.
  induction ls as [|l ls IH]; [left; reflexivity|].
  destruct (parse_line l) as [r|] eqn:E.
  - destruct IH as [IH|(pre & bad & post & H1 & H2 & H3)].
    + left. simpl. rewrite E. exact IH.
    + right. exists (l :: pre), bad, post. simpl. rewrite E. subst. auto.
  - right. exists [], l, ls. auto.
Qed.

Section Consumer.
Context {EK St : Type}.
Implicit Types (chain : list (gadapter A)) (f : gsink A EK St).

(* one call of try_for_some_item on a reader that is not at the end: exactly one line is read *)
Lemma rio_some_line t n l rest (g : gsink A EK St) k :
  t <> [] -> cut_line t = (l, rest) ->
  rio_try_for_some parse_line (t, n) g k =
  match parse_line l with
  | Some (Some x) =>
      let '(k', oe) := g x k in
      ((rest, n + 1), k', match oe with Some e => GSinkError e | None => GMore end)
  | Some None => ((rest, n + 1), k, GMore)
  | None => ((rest, n + 1), k, GSourceError n)
  end.
Proof.
  intros Ht Hc. unfold rio_try_for_some, p_is_end, p_parse_step, p_parse_line. simpl.
  destruct t as [|c t]; [congruence|]. rewrite Hc.
  destruct (parse_line l) as [[x|]|]; auto.
  destruct (g x k) as [k' [e|]]; auto.
Qed.

Lemma rio_some_end n (g : gsink A EK St) k :
  rio_try_for_some parse_line ([], n) g k = (([], n), k, GDone).
Proof. reflexivity. Qed.

(* the loop never runs out of fuel when fuel > length of the unread input *)
Theorem rio_never_out_of_fuel chain f : forall fuel s k,
  (length (fst s) < fuel)%nat ->
  snd (rio_try_for_each parse_line fuel s chain f k) <> GMore.
Proof.
  induction fuel as [|m IH]; intros [t n] k H; [inversion H|].
  simpl in H. cbn [rio_try_for_each].
  destruct t as [|c t].
  - rewrite rio_some_end. simpl. discriminate.
  - destruct (cut_line (c :: t)) as [l rest] eqn:E.
    rewrite (rio_some_line (c :: t) n l rest) by (auto; congruence).
    assert (Hl : (length rest < m)%nat).
    { pose proof (cut_line_shorter (c :: t)) as Hs. rewrite E in Hs. simpl in Hs.
      assert (c :: t <> []) by congruence. specialize (Hs H0). simpl in H. lia. }
    destruct (parse_line l) as [[x|]|].
    + destruct (gwrap chain f x k) as [k' [e|]]; simpl; [discriminate|]. apply IH. simpl. exact Hl.
    + apply IH. simpl. exact Hl.
    + simpl. discriminate.
Qed.

(* the readable lines `pre`, consumed by a consumer that survives the image of their statements *)
Lemma rio_prefix chain f pre : forall fuel t n k k',
  forallb no_lf pre = true -> lines_ok pre = true ->
  gfeed f (gfm chain (stmts pre)) k = (k', None) ->
  (length pre <= fuel)%nat ->
  rio_try_for_each parse_line fuel (unlines pre ++ t, n) chain f k
  = rio_try_for_each parse_line (fuel - length pre) (t, n + N.of_nat (length pre)) chain f k'.
Proof.
  induction pre as [|l pre IH]; intros fuel t n k k' Hn Hok Hf Hfuel.
  - simpl in *. inversion Hf. rewrite Nat.sub_0_r, N.add_0_r. reflexivity.
  - destruct fuel as [|m]; [simpl in Hfuel; lia|].
    simpl in Hn, Hok. apply andb_true_iff in Hn as [Hn1 Hn2]. apply andb_true_iff in Hok as [Hok1 Hok2].
    cbn [rio_try_for_each].
    assert (Hc : cut_line (unlines (l :: pre) ++ t) = (l, unlines pre ++ t)).
    { simpl. rewrite <- !app_assoc. simpl. apply cut_line_line. exact Hn1. }
    rewrite (rio_some_line _ n l (unlines pre ++ t)); auto.
    2:{ simpl. rewrite <- !app_assoc. destruct l; simpl; congruence. }
    assert (Hnn : n + 1 + N.of_nat (length pre) = n + N.of_nat (length (l :: pre))).
    { simpl length. lia. }
    change (stmts (l :: pre)) with ((match parse_line l with Some (Some x) => [x] | _ => [] end) ++ stmts pre) in Hf.
    destruct (parse_line l) as [[x|]|]; [| |discriminate].
    + rewrite gfm_app in Hf. apply gfeed_app_inv in Hf as (k1 & H1 & H2).
      rewrite gwrap_through. unfold gfm in H1. simpl in H1.
      destruct (gthrough chain x) as [y|]; simpl in H1.
      * destruct (f y k) as [k0 [e|]]; [discriminate|]. inversion H1; subst k0.
        rewrite (IH m t (n + 1) k1 k') by (auto; simpl in Hfuel; lia).
        rewrite Hnn. reflexivity.
      * inversion H1; subst k1.
        rewrite (IH m t (n + 1) k k') by (auto; simpl in Hfuel; lia).
        rewrite Hnn. reflexivity.
    + simpl in Hf. rewrite (IH m t (n + 1) k k') by (auto; simpl in Hfuel; lia).
      rewrite Hnn. reflexivity.
Qed.

(* (a) the first unreadable line: the consumer got the image of the statements before it, the
   error is a SourceError carrying that line's number, the reader is just behind that line *)
Theorem parser_source_fault chain f pre t bad post fuel n k k' :
  forallb no_lf pre = true -> lines_ok pre = true ->
  t <> [] -> cut_line t = (bad, post) -> parse_line bad = None ->
  gfeed f (gfm chain (stmts pre)) k = (k', None) ->
  (length pre < fuel)%nat ->
  rio_try_for_each parse_line fuel (unlines pre ++ t, n) chain f k
  = ((post, n + N.of_nat (length pre) + 1), k', GSourceError (n + N.of_nat (length pre))).
Proof.
  intros Hn Hok Ht Hc Hb Hf Hfuel.
  rewrite (rio_prefix chain f pre fuel t n k k') by (auto; lia).
  destruct (fuel - length pre)%nat as [|m] eqn:E; [lia|].
  cbn [rio_try_for_each]. rewrite (rio_some_line t _ bad post) by auto. rewrite Hb. reflexivity.
Qed.

(* (b) the consumer fails on the image y of the statement of line l: it has received the image
   of the statements before it and then y, the error is a SinkError carrying the consumer's value,
   and the reader is just behind line l: `post` is untouched, whatever it contains *)
Theorem parser_sink_fault chain f pre t l post x y e fuel n k k1 k2 :
  forallb no_lf pre = true -> lines_ok pre = true ->
  t <> [] -> cut_line t = (l, post) -> parse_line l = Some (Some x) ->
  gthrough chain x = Some y ->
  gfeed f (gfm chain (stmts pre)) k = (k1, None) ->
  f y k1 = (k2, Some e) ->
  (length pre < fuel)%nat ->
  rio_try_for_each parse_line fuel (unlines pre ++ t, n) chain f k
  = ((post, n + N.of_nat (length pre) + 1), k2, GSinkError e).
Proof.
  intros Hn Hok Ht Hc Hl Hx Hf Hy Hfuel.
  rewrite (rio_prefix chain f pre fuel t n k k1) by (auto; lia).
  destruct (fuel - length pre)%nat as [|m] eqn:E; [lia|].
  cbn [rio_try_for_each]. rewrite (rio_some_line t _ l post) by auto. rewrite Hl.
  rewrite gwrap_through, Hx, Hy. reflexivity.
Qed.

(* (c) no fault on either side: the image of all statements, Ok, and the reader is at the end *)
Theorem parser_no_fault chain f ls tail fuel n k k' :
  forallb no_lf ls = true -> no_lf tail = true -> lines_ok (all_lines ls tail) = true ->
  gfeed f (gfm chain (stmts (all_lines ls tail))) k = (k', None) ->
  (length (all_lines ls tail) < fuel)%nat ->
  rio_try_for_each parse_line fuel (unlines ls ++ tail, n) chain f k
  = (([], n + N.of_nat (length (all_lines ls tail))), k', GDone).
Proof.
  intros Hn Ht Hok Hf Hfuel. unfold all_lines in *.
  rewrite lines_ok_app in Hok. apply andb_true_iff in Hok as [Hok1 Hok2].
  rewrite stmts_app, gfm_app in Hf. apply gfeed_app_inv in Hf as (k1 & H1 & H2).
  rewrite app_length in *.
  rewrite (rio_prefix chain f ls fuel tail n k k1) by (auto; lia).
  destruct (fuel - length ls)%nat as [|m] eqn:E; [lia|].
  destruct tail as [|c tl].
  - simpl in H2. inversion H2; subst k'. cbn [rio_try_for_each]. rewrite rio_some_end.
    simpl length. rewrite Nat.add_0_r. reflexivity.
  - cbn [rio_try_for_each].
    rewrite (rio_some_line (c :: tl) _ (c :: tl) []); [| congruence | apply cut_line_last; exact Ht].
    simpl in Hok2, H2. simpl length in *.
    assert (Hnn : n + N.of_nat (length ls) + 1 = n + N.of_nat (length ls + 1)) by lia.
    destruct (parse_line (c :: tl)) as [[x|]|]; [| |discriminate].
    + rewrite gwrap_through. unfold gfm in H2. simpl in H2.
      destruct (gthrough chain x) as [y|]; simpl in H2.
      * destruct (f y k1) as [k0 [e|]]; [discriminate|]. inversion H2; subst.
        destruct m as [|m']; [lia|]. cbn [rio_try_for_each]. rewrite rio_some_end. rewrite Hnn. reflexivity.
      * inversion H2; subst.
        destruct m as [|m']; [lia|]. cbn [rio_try_for_each]. rewrite rio_some_end. rewrite Hnn. reflexivity.
    + simpl in H2. inversion H2; subst.
      destruct m as [|m']; [lia|]. cbn [rio_try_for_each]. rewrite rio_some_end. rewrite Hnn. reflexivity.
Qed.
(* ---------- refinement: the line parser IS an abstract source of C15 (one step per line) ---------- *)
Lemma abs_lines_length n ls : length (abs_lines parse_line n ls) = length ls.
Proof. revert n; induction ls as [|l ls IH]; intros n; simpl; auto. Qed.

Lemma gtry_rest_le chain f : forall (src : gsource A N) k,
  (length (fst (fst (gtry_for_each src chain f k))) <= length src)%nat.
Proof.
  induction src as [|[items oe] rest IH]; intros k; simpl; [lia|].
  destruct (gfeed (gwrap chain f) items k) as [k' [e|]]; simpl; [lia|].
  destruct oe; simpl; [lia|]. specialize (IH k'). lia.
Qed.

(* for EVERY text, chain, consumer and consumer state (no hypothesis on faults): same consumer
   state, same outcome, and the reader has consumed exactly as many lines as the abstract source
   has made steps *)
Theorem rio_refines chain f ls : forall tail fuel n k,
  forallb no_lf ls = true -> no_lf tail = true ->
  (S (length (all_lines ls tail)) < fuel)%nat ->
  let '(rest, k', o) := gtry_for_each (abs_lines parse_line n (all_lines ls tail)) chain f k in
  let m := (length (all_lines ls tail) - length rest)%nat in
  rio_try_for_each parse_line fuel (unlines ls ++ tail, n) chain f k
  = ((drop_lines m ls tail, n + N.of_nat m), k', o).
Proof.
  induction ls as [|l ls IH]; intros tail fuel n k Hn Ht Hfuel.
  - unfold all_lines in *. simpl app in *. destruct tail as [|c tl].
    + simpl. destruct fuel as [|fu]; [lia|]. cbn [rio_try_for_each]. rewrite rio_some_end.
      unfold drop_lines. simpl. rewrite N.add_0_r. reflexivity.
    + simpl in Hfuel. destruct fuel as [|[|fu]]; try lia.
      cbn [abs_lines gtry_for_each]. unfold line_step. cbn [rio_try_for_each].
      rewrite (rio_some_line (c :: tl) n (c :: tl) []); [| congruence | apply cut_line_last; exact Ht].
      destruct (parse_line (c :: tl)) as [[x|]|]; simpl gfeed.
      * destruct (gwrap chain f x k) as [k' [e|]]; simpl; reflexivity.
      * simpl. reflexivity.
      * simpl. reflexivity.
  - simpl in Hn. apply andb_true_iff in Hn as [Hn1 Hn2].
    assert (Hall : all_lines (l :: ls) tail = l :: all_lines ls tail) by reflexivity.
    rewrite Hall in *. simpl length in Hfuel. destruct fuel as [|fu]; [lia|].
    cbn [abs_lines gtry_for_each]. cbn [rio_try_for_each].
    assert (Hc : cut_line (unlines (l :: ls) ++ tail) = (l, unlines ls ++ tail)).
    { simpl. rewrite <- !app_assoc. simpl. apply cut_line_line. exact Hn1. }
    rewrite (rio_some_line _ n l (unlines ls ++ tail)); auto.
    2:{ simpl. rewrite <- !app_assoc. destruct l; simpl; congruence. }
    specialize (IH tail fu (n + 1)).
    assert (Hstop : forall e : goutcome N EK, forall k0 : St,
      ((unlines ls ++ tail, n + 1), k0, e)
      = ((drop_lines (length (l :: all_lines ls tail) - length (abs_lines parse_line (n + 1) (all_lines ls tail))) (l :: ls) tail,
          n + N.of_nat (length (l :: all_lines ls tail) - length (abs_lines parse_line (n + 1) (all_lines ls tail)))), k0, e)).
    { intros e k0. rewrite abs_lines_length. simpl length.
      replace (S (length (all_lines ls tail)) - length (all_lines ls tail))%nat with 1%nat by lia.
      unfold drop_lines. simpl. reflexivity. }
    assert (Hcont : forall k0,
      let '(rest, k', o) := gtry_for_each (abs_lines parse_line (n + 1) (all_lines ls tail)) chain f k0 in
      let m := (length (l :: all_lines ls tail) - length rest)%nat in
      rio_try_for_each parse_line fu (unlines ls ++ tail, n + 1) chain f k0
      = ((drop_lines m (l :: ls) tail, n + N.of_nat m), k', o)).
    { intros k0. specialize (IH k0 Hn2 Ht ltac:(lia)).
      pose proof (gtry_rest_le chain f (abs_lines parse_line (n + 1) (all_lines ls tail)) k0) as Hle.
      rewrite abs_lines_length in Hle.
      destruct (gtry_for_each (abs_lines parse_line (n + 1) (all_lines ls tail)) chain f k0) as [[rest k'] o].
      simpl in Hle. cbv zeta in IH |- *. rewrite IH. simpl length.
      replace (S (length (all_lines ls tail)) - length rest)%nat
        with (S (length (all_lines ls tail) - length rest)) by lia.
      set (m := (length (all_lines ls tail) - length rest)%nat).
      unfold drop_lines. simpl. f_equal. f_equal. f_equal. lia. }
    unfold line_step. destruct (parse_line l) as [[x|]|]; simpl gfeed.
    + destruct (gwrap chain f x k) as [k0 [e|]].
      * apply Hstop.
      * apply Hcont.
    + apply Hcont.
    + apply Hstop.
Qed.
End Consumer.

(* ---------- whole documents: the reader starts on a synthetic LF, i.e. on an empty line 0 ---------- *)
Section Doc.
Context {EK St : Type}.
Implicit Types (chain : list (gadapter A)) (f : gsink A EK St).
Hypothesis parse_blank : parse_line [] = Some None.

Lemma init_text doc : fst (p_init doc) = unlines [[]] ++ doc.
Proof. reflexivity. Qed.

(* (a) for a document: the first unreadable line is line number k = length pre + 1 *)
Theorem doc_source_fault chain f pre t bad post doc k k' :
  doc = unlines pre ++ t ->
  forallb no_lf pre = true -> lines_ok pre = true ->
  t <> [] -> cut_line t = (bad, post) -> parse_line bad = None ->
  gfeed f (gfm chain (stmts pre)) k = (k', None) ->
  rio_run parse_line doc chain f k
  = ((post, N.of_nat (length pre) + 2), k', GSourceError (N.of_nat (length pre) + 1)).
Proof.
  intros Hd Hn Hok Ht Hc Hb Hf. unfold rio_run, p_init.
  change (10 :: doc) with (unlines [[]] ++ doc). rewrite Hd, app_assoc, <- unlines_app.
  rewrite (parser_source_fault chain f ([[]] ++ pre) t bad post _ 0 k k'); auto.
  - simpl length. f_equal; [f_equal; f_equal; lia | f_equal; lia].
  - simpl. rewrite parse_blank. exact Hok.
  - simpl. rewrite parse_blank. exact Hf.
  - rewrite !app_length. pose proof (unlines_length pre). simpl. lia.
Qed.

(* (b) for a document *)
Theorem doc_sink_fault chain f pre t l post x y e doc k k1 k2 :
  doc = unlines pre ++ t ->
  forallb no_lf pre = true -> lines_ok pre = true ->
  t <> [] -> cut_line t = (l, post) -> parse_line l = Some (Some x) ->
  gthrough chain x = Some y ->
  gfeed f (gfm chain (stmts pre)) k = (k1, None) ->
  f y k1 = (k2, Some e) ->
  rio_run parse_line doc chain f k = ((post, N.of_nat (length pre) + 2), k2, GSinkError e).
Proof.
  intros Hd Hn Hok Ht Hc Hl Hx Hf Hy. unfold rio_run, p_init.
  change (10 :: doc) with (unlines [[]] ++ doc). rewrite Hd, app_assoc, <- unlines_app.
  rewrite (parser_sink_fault chain f ([[]] ++ pre) t l post x y e _ 0 k k1 k2); auto.
  - simpl length. f_equal. f_equal. f_equal. lia.
  - simpl. rewrite parse_blank. exact Hok.
  - simpl. rewrite parse_blank. exact Hf.
  - rewrite !app_length. pose proof (unlines_length pre). simpl. lia.
Qed.

(* (c) for a document *)
Theorem doc_no_fault chain f ls tail doc k k' :
  doc = unlines ls ++ tail ->
  forallb no_lf ls = true -> no_lf tail = true -> lines_ok (all_lines ls tail) = true ->
  gfeed f (gfm chain (stmts (all_lines ls tail))) k = (k', None) ->
  rio_run parse_line doc chain f k
  = (([], N.of_nat (length (all_lines ls tail)) + 1), k', GDone).
Proof.
  intros Hd Hn Ht Hok Hf. unfold rio_run, p_init.
  change (10 :: doc) with (unlines [[]] ++ doc). rewrite Hd, app_assoc, <- unlines_app.
  rewrite (parser_no_fault chain f ([[]] ++ ls) tail _ 0 k k'); auto.
  - f_equal. f_equal. unfold all_lines. simpl length. f_equal. lia.
  - unfold all_lines in *. simpl. rewrite parse_blank. exact Hok.
  - unfold all_lines in *. simpl. rewrite parse_blank. exact Hf.
  - unfold all_lines. rewrite !app_length. pose proof (unlines_length ls).
    simpl. destruct tail; simpl; lia.
Qed.
End Doc.
End Rio.

(* ---------- the concrete readers ---------- *)
Lemma nq_blank : nq_parse_line [] = Some None.
Proof. reflexivity. Qed.
Lemma nt_blank : nt_parse_line [] = Some None.
Proof. reflexivity. Qed.
Lemma line_reader_blank nq : line_reader nq [] = Some None.
Proof. destruct nq; reflexivity. Qed.

(* exact equality of statements is decided by quad_eqx (used by the insert_all count) *)
Lemma term_eqx_eq a : forall b, term_eqx a b = true <-> a = b.
Proof.
  induction a as [s|s|l d|l t|s IHs p IHp o IHo|s]; intros [s2|s2|l2 d2|l2 t2|s2 p2 o2|s2]; simpl;
    try (split; congruence).
  - rewrite str_eqb_eq. split; congruence.
  - rewrite str_eqb_eq. split; congruence.
  - rewrite andb_true_iff, !str_eqb_eq. split; [intros [-> ->]; auto | intros E; inversion E; auto].
  - rewrite andb_true_iff, !str_eqb_eq. split; [intros [-> ->]; auto | intros E; inversion E; auto].
  - rewrite !andb_true_iff, IHs, IHp, IHo.
    split; [intros [[-> ->] ->]; auto | intros E; inversion E; auto].
  - rewrite str_eqb_eq. split; congruence.
Qed.

Lemma quad_eqx_eq (a b : quad) : quad_eqx a b = true <-> a = b.
Proof.
  destruct a as [[[s1 p1] o1] g1], b as [[[s2 p2] o2] g2]. simpl.
  rewrite !andb_true_iff, !term_eqx_eq.
  destruct g1 as [g1|], g2 as [g2|]; simpl; try rewrite term_eqx_eq;
    (split; [intros [[[-> ->] ->] H]; try subst; try discriminate; auto | intros E; inversion E; auto]).
Qed.
