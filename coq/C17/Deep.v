(* C17/Deep.v -- round 8: the number of parent-directory steps a reference NEEDS, stated on the text
   of the base alone (no loop, no fuel, no limit): the '/' of the base's path that lie at or after the
   end of the longest common prefix with the IRI, the one that starts the path excepted (it is the
   root, not a directory one can climb out of).  Relativizer::new collects these slashes with a loop
   bounded by parents + 1 (a u8 in the code, widened before the addition); whatever the limit and the
   depth of the base, a limit below the number of needed steps must give nothing.   Definitions only. *)
From Sophia.C17 Require Import Model.
Local Open Scope nat_scope.

(* number of '/' of s standing at an index >= lo and > 0, the head of s having index idx *)
Fixpoint count_slashes_from (s : str) (idx lo : nat) : nat :=
  match s with
  | [] => 0
  | c :: s' => (if is_slash c && (lo <=? idx) && (0 <? idx) then 1 else 0) + count_slashes_from s' (S idx) lo
  end.

(* the directories of the base's path that the IRI is not inside of *)
Definition steps_needed (b i : str) : nat :=
  match positions_of b with
  | Some p => count_slashes_from (ox_path b p) 0 (lcp b i - authority_end p)
  | None => 0
  end.

(* harness-facing: with a limit below the needed number of steps the observed answer is "nothing" (code 0) *)
Definition reach_ok (b i : str) (parents : N) (code : N) : bool :=
  if N.to_nat parents <? steps_needed b i then N.eqb code 0%N else true.

(* ---------- Relativizer VALUES with a history.  #[derive(Clone)]: clone copies the seven fields;
   clone_from is the provided method of the trait Clone: *self = source.clone().  A value is obtained
   by new, by cloning a value, or by re-targeting a value in place from another one. ---------- *)
Definition clone_z (z : relz) : relz :=
  mkrelz (z_base z) (z_query_end z) (z_path_end z) (z_slashes z) (z_pseudoroot z) (z_path_begin z) (z_has_authority z).
Definition clone_from_z (self source : relz) : relz := clone_z source.

Inductive hist :=
| HNew (b : str) (parents : nat)          (* Relativizer::new(BaseIri::new(b)?, parents) *)
| HClone (h : hist)                       (* h.clone() *)
| HCloneFrom (self source : hist).        (* self.clone_from(&source); the value is self afterwards *)

Fixpoint state (h : hist) : option relz :=
  match h with
  | HNew b n => new b n
  | HClone h' => option_map clone_z (state h')
  | HCloneFrom s src => match state s, state src with
                        | Some zs, Some z => Some (clone_from_z zs z)
                        | _, _ => None
                        end
  end.
(* the (base, limit) a value with this history ought to stand for: those of the LAST source *)
Fixpoint origin (h : hist) : str * nat :=
  match h with
  | HNew b n => (b, n)
  | HClone h' => origin h'
  | HCloneFrom _ src => origin src
  end.
(* every `new` of the history succeeded (all the bases are absolute IRIs) *)
Fixpoint hist_valid (h : hist) : bool :=
  match h with
  | HNew b _ => abs_iri b
  | HClone h' => hist_valid h'
  | HCloneFrom s src => hist_valid s && hist_valid src
  end.
Definition relativize_hist (h : hist) (iri : str) : res :=
  match state h with Some z => relativize_z z iri | None => Ret None end.
(* harness-facing: the answer of a value with history h (code / out as in relativize_ok) *)
Definition history_ok (h : hist) (iri : str) (code : N) (out : str) : bool :=
  hist_valid h &&
  let '(c, o) := res_code (relativize_hist h iri) in (N.eqb c code) && str_eqb o out.
