//! C13: SPARQL evaluation (sophia_sparql::SparqlWrapper over a sophia_inmem dataset) against
//! (a) the Coq model coq/C13 (the algebra the engine really evaluates is read back from the Debug
//!     rendering of the parsed query, i.e. spargebra's own translation), and
//! (b) an independent oracle: the SPARQL 1.1 section 18 semantics written directly in Rust.
use sophia_api::prelude::*;
use sophia_api::sparql::{Query, SparqlDataset, SparqlResult};
use sophia_api::term::TermKind;
use sophia_inmem::dataset::LightDataset;
use sophia_sparql::*;
use std::collections::{BTreeMap, BTreeSet, HashSet};
use verif_harness::*;

// ------------------------------------------------------------------------------------------
// terms (language tags lower-cased: the canonical form shared with the Coq model)
// ------------------------------------------------------------------------------------------
#[derive(Clone, PartialEq, Eq, PartialOrd, Ord, Debug, Hash)]
enum T {
    Iri(String),
    Bn(String),
    Lit(String, String),
    Lang(String, String),
    Tr(Box<[T; 3]>),
}
const XI: &str = "http://www.w3.org/2001/XMLSchema#integer";
const XS: &str = "http://www.w3.org/2001/XMLSchema#string";
const XB: &str = "http://www.w3.org/2001/XMLSchema#boolean";
const XD: &str = "http://www.w3.org/2001/XMLSchema#decimal";
const XF: &str = "http://www.w3.org/2001/XMLSchema#double";
fn ti(s: &str) -> T { T::Iri(s.into()) }
fn tint(s: &str) -> T { T::Lit(s.into(), XI.into()) }
fn tstr(s: &str) -> T { T::Lit(s.into(), XS.into()) }
fn ttr(s: T, p: T, o: T) -> T { T::Tr(Box::new([s, p, o])) }
impl T {
    /// sophia term; `upper` spells language tags in upper case (Term::eq ignores their case)
    fn to_st(&self, upper: bool) -> ST {
        match self {
            T::Iri(s) => iri(s),
            T::Bn(s) => bnode(s),
            T::Lit(l, d) => lit_dt(l, d),
            T::Lang(l, t) => lit_lang(l, &if upper { t.to_uppercase() } else { t.clone() }),
            T::Tr(b) => triple(b[0].to_st(upper), b[1].to_st(upper), b[2].to_st(upper)),
        }
    }
    fn from_term<X: Term>(t: X) -> T {
        match t.kind() {
            TermKind::Iri => T::Iri(t.iri().unwrap().as_str().to_string()),
            TermKind::BlankNode => T::Bn(t.bnode_id().unwrap().as_str().to_string()),
            TermKind::Literal => match t.language_tag() {
                Some(tag) => T::Lang(t.lexical_form().unwrap().to_string(), tag.as_str().to_ascii_lowercase()),
                None => T::Lit(t.lexical_form().unwrap().to_string(), t.datatype().unwrap().as_str().to_string()),
            },
            TermKind::Triple => { let [s, p, o] = t.triple().unwrap(); ttr(T::from_term(s), T::from_term(p), T::from_term(o)) }
            TermKind::Variable => T::Iri(format!("?var:{}", t.variable().unwrap().as_str())),
        }
    }
    fn coq(&self) -> String {
        match self {
            T::Iri(s) => format!("(Iri {})", coq_str(s)),
            T::Bn(s) => format!("(Bnode {})", coq_str(s)),
            T::Lit(l, d) => format!("(LitDt {} {})", coq_str(l), coq_str(d)),
            T::Lang(l, t) => format!("(LitLang {} {})", coq_str(l), coq_str(t)),
            T::Tr(b) => format!("(Triple {} {} {})", b[0].coq(), b[1].coq(), b[2].coq()),
        }
    }
    fn sparql(&self, upper: bool) -> String {
        match self {
            T::Iri(s) => format!("<{s}>"),
            T::Bn(s) => format!("_:{s}"),
            T::Lit(l, d) => format!("{l:?}^^<{d}>"),
            T::Lang(l, t) => format!("{l:?}@{}", if upper { t.to_uppercase() } else { t.clone() }),
            T::Tr(b) => format!("<< {} {} {} >>", b[0].sparql(upper), b[1].sparql(upper), b[2].sparql(upper)),
        }
    }
    /// a data term used inside a query: the blank nodes of the data cannot be named there
    fn sparql_q(&self, upper: bool) -> String { if has_bnode(self) { "<tag:a>".into() } else { self.sparql(upper) } }
    fn is_literal(&self) -> bool { matches!(self, T::Lit(..) | T::Lang(..)) }
}
fn has_bnode(t: &T) -> bool { match t { T::Bn(_) => true, T::Tr(b) => b.iter().any(has_bnode), _ => false } }
type Quad4 = (T, T, T, Option<T>);

// ------------------------------------------------------------------------------------------
// generic reader of Rust's derived Debug output
// ------------------------------------------------------------------------------------------
#[derive(Clone, Debug)]
enum Dbg {
    Node(String, Vec<(String, Dbg)>),
    List(Vec<Dbg>),
    Str(String),
    Num(String),
}
struct P<'a> { s: &'a [char], i: usize }
impl<'a> P<'a> {
    fn ws(&mut self) { while self.i < self.s.len() && self.s[self.i].is_whitespace() { self.i += 1 } }
    fn peek(&mut self) -> Option<char> { self.ws(); self.s.get(self.i).copied() }
    fn eat(&mut self, c: char) -> bool { if self.peek() == Some(c) { self.i += 1; true } else { false } }
    fn value(&mut self) -> Result<Dbg, String> {
        match self.peek().ok_or("eof")? {
            '"' => {
                self.i += 1;
                let mut o = String::new();
                loop {
                    let c = *self.s.get(self.i).ok_or("eof in string")?;
                    self.i += 1;
                    match c {
                        '"' => break,
                        '\\' => {
                            let e = *self.s.get(self.i).ok_or("eof in escape")?;
                            self.i += 1;
                            match e {
                                'n' => o.push('\n'), 'r' => o.push('\r'), 't' => o.push('\t'), '0' => o.push('\0'),
                                'u' => {
                                    if self.s.get(self.i) != Some(&'{') { return Err("bad \\u".into()) }
                                    self.i += 1;
                                    let mut h = String::new();
                                    while self.s[self.i] != '}' { h.push(self.s[self.i]); self.i += 1 }
                                    self.i += 1;
                                    o.push(char::from_u32(u32::from_str_radix(&h, 16).map_err(|e| e.to_string())?).ok_or("bad char")?);
                                }
                                c => o.push(c),
                            }
                        }
                        c => o.push(c),
                    }
                }
                Ok(Dbg::Str(o))
            }
            '[' => { self.i += 1; let mut v = vec![]; while !self.eat(']') { v.push(self.value()?); self.eat(','); } Ok(Dbg::List(v)) }
            '(' => { self.i += 1; let mut v = vec![]; while !self.eat(')') { v.push(self.value()?); self.eat(','); } Ok(Dbg::List(v)) }
            c if c.is_ascii_digit() || c == '-' => {
                let st = self.i; self.i += 1;
                while self.i < self.s.len() && (self.s[self.i].is_ascii_alphanumeric() || self.s[self.i] == '.' || self.s[self.i] == '_') { self.i += 1 }
                Ok(Dbg::Num(self.s[st..self.i].iter().collect()))
            }
            c if c.is_alphabetic() || c == '_' => {
                let st = self.i;
                while self.i < self.s.len() && (self.s[self.i].is_alphanumeric() || self.s[self.i] == '_') { self.i += 1 }
                let name: String = self.s[st..self.i].iter().collect();
                let mut fields = vec![];
                if self.eat('{') {
                    while !self.eat('}') {
                        self.ws();
                        let st = self.i;
                        while self.s[self.i].is_alphanumeric() || self.s[self.i] == '_' { self.i += 1 }
                        let f: String = self.s[st..self.i].iter().collect();
                        if !self.eat(':') { return Err(format!("expected ':' after field {f}")) }
                        fields.push((f, self.value()?));
                        self.eat(',');
                    }
                } else if self.eat('(') {
                    let mut k = 0;
                    while !self.eat(')') { fields.push((k.to_string(), self.value()?)); k += 1; self.eat(','); }
                }
                Ok(Dbg::Node(name, fields))
            }
            c => Err(format!("unexpected {c:?} at {}", self.i)),
        }
    }
}
fn parse_dbg_prefix(s: &str) -> Result<Dbg, String> {
    let cs: Vec<char> = s.chars().collect();
    let mut p = P { s: &cs, i: 0 };
    p.value()
}
fn parse_dbg(s: &str) -> Result<Dbg, String> {
    let cs: Vec<char> = s.chars().collect();
    let mut p = P { s: &cs, i: 0 };
    let v = p.value()?;
    p.ws();
    if p.i != cs.len() { return Err(format!("trailing input at {}", p.i)) }
    Ok(v)
}
impl Dbg {
    fn name(&self) -> &str { match self { Dbg::Node(n, _) => n, _ => "" } }
    fn f(&self, k: &str) -> Result<&Dbg, String> {
        match self { Dbg::Node(n, fs) => fs.iter().find(|(x, _)| x == k).map(|(_, v)| v).ok_or(format!("no field {k} in {n}")), _ => Err(format!("not a node (field {k})")) }
    }
    fn s(&self) -> Result<String, String> { match self { Dbg::Str(s) => Ok(s.clone()), _ => Err(format!("not a string: {self:?}")) } }
    fn list(&self) -> Result<&Vec<Dbg>, String> { match self { Dbg::List(l) => Ok(l), _ => Err(format!("not a list: {self:?}")) } }
    fn usize(&self) -> Result<usize, String> { match self { Dbg::Num(s) => s.parse().map_err(|_| "bad number".to_string()), _ => Err("not a number".into()) } }
}

// ------------------------------------------------------------------------------------------
// the algebra, read back from spargebra's Debug output
// ------------------------------------------------------------------------------------------
#[derive(Clone, Debug, PartialEq)]
enum TP { Const(T), Var(String), Bn(String), Trip(Box<[TP; 3]>) }
#[derive(Clone, Debug)]
enum NP { Const(String), Var(String), /// a graph name that is not an IRI: only produced by the oracle's substitution (18.6)
    Term(T) }
#[derive(Clone, Debug)]
enum Ex {
    Var(String), Const(T), Bound(String), Not(Box<Ex>), Or(Box<Ex>, Box<Ex>), And(Box<Ex>, Box<Ex>),
    Bin(&'static str, Box<Ex>, Box<Ex>), // Equal SameTerm Greater GreaterOrEqual Less LessOrEqual Add Subtract Multiply
    Un(&'static str, Box<Ex>),            // UnaryPlus UnaryMinus Abs
    Exists(Box<Pat>),
    /// BNODE() / BNODE(e): a blank node that is fresh for EVERY evaluation (17.4.2.9), i.e. for every solution
    Fresh(Option<Box<Ex>>),
    /// TRIPLE(s, p, o), IF(c, t, e), COALESCE(..), isBlank(e): the forms through which a fresh blank node is carried or tested
    Tri(Box<Ex>, Box<Ex>, Box<Ex>), If(Box<Ex>, Box<Ex>, Box<Ex>), Coalesce(Vec<Ex>), IsBlank(Box<Ex>),
    Other(String),
}
impl Ex {
    /// the immediate sub-expressions (EXISTS groups are not expressions)
    fn kids(&self) -> Vec<&Ex> {
        match self {
            Ex::Var(_) | Ex::Const(_) | Ex::Bound(_) | Ex::Exists(_) | Ex::Other(_) | Ex::Fresh(None) => vec![],
            Ex::Not(a) | Ex::Un(_, a) | Ex::IsBlank(a) | Ex::Fresh(Some(a)) => vec![a],
            Ex::Or(a, b) | Ex::And(a, b) | Ex::Bin(_, a, b) => vec![a, b],
            Ex::Tri(a, b, c) | Ex::If(a, b, c) => vec![a, b, c],
            Ex::Coalesce(v) => v.iter().collect(),
        }
    }
    fn has_fresh(&self) -> bool { matches!(self, Ex::Fresh(_)) || self.kids().iter().any(|k| k.has_fresh()) }
}
#[derive(Clone, Debug)]
enum Pat {
    Bgp(Vec<[TP; 3]>), Filter(Ex, Box<Pat>), Union(Box<Pat>, Box<Pat>), Graph(NP, Box<Pat>),
    Extend(Box<Pat>, String, Ex), OrderBy(Box<Pat>, Vec<Ex>), Project(Box<Pat>, Vec<String>),
    Distinct(Box<Pat>), Slice(Box<Pat>, usize, Option<usize>), Unsup(&'static str),
}
#[derive(Clone, Debug)]
enum Qy { Select(bool, Pat), Ask(bool, Pat), Construct, Describe }

fn rd_literal(d: &Dbg) -> Result<T, String> {
    // Literal(String("x")) | Literal(LanguageTaggedString { value, language }) | Literal(TypedLiteral { value, datatype: NamedNode { iri } })
    let inner = d.f("0")?;
    match inner.name() {
        "String" => Ok(tstr(&inner.f("0")?.s()?)),
        "LanguageTaggedString" => Ok(T::Lang(inner.f("value")?.s()?, inner.f("language")?.s()?.to_ascii_lowercase())),
        "TypedLiteral" => Ok(T::Lit(inner.f("value")?.s()?, inner.f("datatype")?.f("iri")?.s()?)),
        n => Err(format!("unknown literal content {n}")),
    }
}
fn rd_bnode(d: &Dbg) -> Result<String, String> {
    // BlankNode(Named("x")) | BlankNode(Anonymous { id, str: IdStr([bytes]) })
    let inner = d.f("0")?;
    match inner.name() {
        "Named" => inner.f("0")?.s(),
        "Anonymous" => {
            let bytes = inner.f("str")?.f("0")?.list()?;
            let mut o = String::new();
            for b in bytes { let v = b.usize()?; if v == 0 { break } o.push(v as u8 as char); }
            Ok(o)
        }
        n => Err(format!("unknown blank node content {n}")),
    }
}
fn rd_tp(d: &Dbg) -> Result<TP, String> {
    let a = d.f("0")?;
    match d.name() {
        "NamedNode" => Ok(TP::Const(T::Iri(a.f("iri")?.s()?))),
        "Literal" => Ok(TP::Const(rd_literal(a)?)),
        "BlankNode" => Ok(TP::Bn(rd_bnode(a)?)),
        "Variable" => Ok(TP::Var(a.f("name")?.s()?)),
        "Triple" => Ok(TP::Trip(Box::new(rd_triple(a)?))),
        n => Err(format!("unknown term pattern {n}")),
    }
}
fn rd_triple(d: &Dbg) -> Result<[TP; 3], String> { Ok([rd_tp(d.f("subject")?)?, rd_tp(d.f("predicate")?)?, rd_tp(d.f("object")?)?]) }
fn rd_ex(d: &Dbg) -> Result<Ex, String> {
    let bx = |k: &str| -> Result<Box<Ex>, String> { Ok(Box::new(rd_ex(d.f(k)?)?)) };
    Ok(match d.name() {
        "NamedNode" => Ex::Const(T::Iri(d.f("0")?.f("iri")?.s()?)),
        "Literal" => Ex::Const(rd_literal(d.f("0")?)?),
        "Variable" => Ex::Var(d.f("0")?.f("name")?.s()?),
        "Bound" => Ex::Bound(d.f("0")?.f("name")?.s()?),
        "Not" => Ex::Not(bx("0")?),
        "Or" => Ex::Or(bx("0")?, bx("1")?),
        "And" => Ex::And(bx("0")?, bx("1")?),
        "Equal" => Ex::Bin("Equal", bx("0")?, bx("1")?),
        "SameTerm" => Ex::Bin("SameTerm", bx("0")?, bx("1")?),
        "Greater" => Ex::Bin("Greater", bx("0")?, bx("1")?),
        "GreaterOrEqual" => Ex::Bin("GreaterOrEqual", bx("0")?, bx("1")?),
        "Less" => Ex::Bin("Less", bx("0")?, bx("1")?),
        "LessOrEqual" => Ex::Bin("LessOrEqual", bx("0")?, bx("1")?),
        "Add" => Ex::Bin("Add", bx("0")?, bx("1")?),
        "Subtract" => Ex::Bin("Subtract", bx("0")?, bx("1")?),
        "Multiply" => Ex::Bin("Multiply", bx("0")?, bx("1")?),
        "UnaryPlus" => Ex::Un("UnaryPlus", bx("0")?),
        "UnaryMinus" => Ex::Un("UnaryMinus", bx("0")?),
        "Exists" => Ex::Exists(Box::new(rd_pat(d.f("0")?)?)),
        "FunctionCall" if d.f("0")?.name() == "Abs" => {
            let args = d.f("1")?.list()?;
            if args.len() != 1 { return Err("Abs arity".into()) }
            Ex::Un("Abs", Box::new(rd_ex(&args[0])?))
        }
        "FunctionCall" if d.f("0")?.name() == "BNode" => {
            let args = d.f("1")?.list()?;
            match args.len() { 0 => Ex::Fresh(None), 1 => Ex::Fresh(Some(Box::new(rd_ex(&args[0])?))), _ => return Err("BNode arity".into()) }
        }
        "FunctionCall" if d.f("0")?.name() == "IsBlank" => {
            let args = d.f("1")?.list()?;
            if args.len() != 1 { return Err("IsBlank arity".into()) }
            Ex::IsBlank(Box::new(rd_ex(&args[0])?))
        }
        "FunctionCall" if d.f("0")?.name() == "Triple" => {
            let args = d.f("1")?.list()?;
            if args.len() != 3 { return Err("Triple arity".into()) }
            Ex::Tri(Box::new(rd_ex(&args[0])?), Box::new(rd_ex(&args[1])?), Box::new(rd_ex(&args[2])?))
        }
        "If" => Ex::If(bx("0")?, bx("1")?, bx("2")?),
        "Coalesce" => Ex::Coalesce(d.f("0")?.list()?.iter().map(rd_ex).collect::<Result<_, _>>()?),
        n => Ex::Other(n.to_string()),
    })
}
fn rd_np(d: &Dbg) -> Result<NP, String> {
    match d.name() {
        "NamedNode" => Ok(NP::Const(d.f("0")?.f("iri")?.s()?)),
        "Variable" => Ok(NP::Var(d.f("0")?.f("name")?.s()?)),
        n => Err(format!("unknown named node pattern {n}")),
    }
}
fn rd_pat(d: &Dbg) -> Result<Pat, String> {
    let inner = || -> Result<Box<Pat>, String> { Ok(Box::new(rd_pat(d.f("inner")?)?)) };
    Ok(match d.name() {
        "Bgp" => Pat::Bgp(d.f("patterns")?.list()?.iter().map(rd_triple).collect::<Result<_, _>>()?),
        "Filter" => Pat::Filter(rd_ex(d.f("expr")?)?, inner()?),
        "Union" => Pat::Union(Box::new(rd_pat(d.f("left")?)?), Box::new(rd_pat(d.f("right")?)?)),
        "Graph" => Pat::Graph(rd_np(d.f("name")?)?, inner()?),
        "Extend" => Pat::Extend(inner()?, d.f("variable")?.f("name")?.s()?, rd_ex(d.f("expression")?)?),
        "OrderBy" => Pat::OrderBy(inner()?, d.f("expression")?.list()?.iter().map(|e| rd_ex(e.f("0")?)).collect::<Result<_, _>>()?),
        "Project" => Pat::Project(inner()?, d.f("variables")?.list()?.iter().map(|v| v.f("name")?.s()).collect::<Result<_, _>>()?),
        "Distinct" => Pat::Distinct(inner()?),
        "Slice" => Pat::Slice(inner()?, d.f("start")?.usize()?, match d.f("length")?.name() { "None" => None, _ => Some(d.f("length")?.f("0")?.usize()?) }),
        "Path" => Pat::Unsup("UPath"), "Join" => Pat::Unsup("UJoin"), "LeftJoin" => Pat::Unsup("ULeftJoin"),
        "Minus" => Pat::Unsup("UMinus"), "Values" => Pat::Unsup("UValues"), "Reduced" => Pat::Unsup("UReduced"),
        "Group" => Pat::Unsup("UGroup"), "Service" => Pat::Unsup("UService"),
        n => return Err(format!("unknown graph pattern {n}")),
    })
}
fn rd_query(dbg: &str) -> Result<Qy, String> {
    // SparqlQuery { algebra: <Query>, _phantom: PhantomData<..> }
    // (whatever other private fields the wrapper has, before or after, are none of the harness's business)
    let st = dbg.find("algebra: ").ok_or("no algebra")? + 9;
    let d = parse_dbg_prefix(&dbg[st..])?;
    let has_ds = |d: &Dbg| -> Result<bool, String> { Ok(d.f("dataset")?.name() != "None") };
    Ok(match d.name() {
        "Select" => Qy::Select(has_ds(&d)?, rd_pat(d.f("pattern")?)?),
        "Ask" => Qy::Ask(has_ds(&d)?, rd_pat(d.f("pattern")?)?),
        "Construct" => Qy::Construct,
        "Describe" => Qy::Describe,
        n => return Err(format!("unknown query form {n}")),
    })
}

// ---------- Coq rendering ----------
fn c_tp(t: &TP) -> String {
    match t {
        TP::Const(t) => format!("(PConst {})", t.coq()),
        TP::Var(v) => format!("(PAtom (AV {}))", coq_str(v)),
        TP::Bn(b) => format!("(PAtom (AB {}))", coq_str(b)),
        TP::Trip(b) => format!("(PTrip {} {} {})", c_tp(&b[0]), c_tp(&b[1]), c_tp(&b[2])),
    }
}
fn c_ex(e: &Ex) -> Option<String> {
    Some(match e {
        Ex::Var(v) => format!("(CVar {})", coq_str(v)),
        Ex::Const(t) => format!("(CConst {})", t.coq()),
        Ex::Bound(v) => format!("(CBound {})", coq_str(v)),
        Ex::Not(a) => format!("(CNot {})", c_ex(a)?),
        Ex::Or(a, b) => format!("(COr {} {})", c_ex(a)?, c_ex(b)?),
        Ex::And(a, b) => format!("(CAnd {} {})", c_ex(a)?, c_ex(b)?),
        Ex::Bin(op, a, b) => format!("(C{op} {} {})", c_ex(a)?, c_ex(b)?),
        Ex::Un(op, a) => format!("(C{op} {})", c_ex(a)?),
        // BNODE() / BNODE("constant") standing alone: the model, whose expressions are functions of the solution, runs with ONE
        // placeholder node in its stead and is compared with the engine's rows under the same masking (see `maskable`);
        // that the engine's nodes are fresh is checked next to it by Fresh.fresh_ok
        Ex::Fresh(None) if MASK_FRESH.with(|f| f.get()) => format!("(CConst {})", T::Bn(MASK.into()).coq()),
        Ex::Fresh(Some(a)) if MASK_FRESH.with(|f| f.get()) && matches!(&**a, Ex::Const(t) if plain_string(t).is_some()) => format!("(CConst {})", T::Bn(MASK.into()).coq()),
        Ex::Exists(_) | Ex::Other(_) | Ex::Fresh(_) | Ex::Tri(..) | Ex::If(..) | Ex::Coalesce(_) | Ex::IsBlank(_) => return None,
    })
}
const MASK: &str = "\u{1}";
thread_local! { static MASK_FRESH: std::cell::Cell<bool> = std::cell::Cell::new(false); }
fn c_pat(p: &Pat) -> Option<String> {
    Some(match p {
        Pat::Bgp(ps) => format!("(Bgp {})", coq_list(ps.iter().map(|t| format!("({}, {}, {})", c_tp(&t[0]), c_tp(&t[1]), c_tp(&t[2]))))),
        Pat::Filter(e, i) => format!("(cFilter {} {})", c_ex(e)?, c_pat(i)?),
        Pat::Union(l, r) => format!("(Union {} {})", c_pat(l)?, c_pat(r)?),
        Pat::Graph(NP::Const(i), p) => format!("(Graph (NConst {}) {})", coq_str(i), c_pat(p)?),
        Pat::Graph(NP::Var(v), p) => format!("(Graph (NVar {}) {})", coq_str(v), c_pat(p)?),
        Pat::Graph(NP::Term(_), _) => return None,
        Pat::Extend(i, v, e) => format!("(cExtend {} {} {})", c_pat(i)?, coq_str(v), c_ex(e)?),
        Pat::OrderBy(i, es) => format!("(cOrderBy {} {}%nat)", c_pat(i)?, es.len()),
        Pat::Project(i, vs) => format!("(Project {} {})", c_pat(i)?, coq_list(vs.iter().map(|v| coq_str(v)))),
        Pat::Distinct(i) => format!("(Distinct {})", c_pat(i)?),
        Pat::Slice(i, s, l) => format!("(Slice {} {s}%nat {})", c_pat(i)?, coq_opt(l.map(|n| format!("{n}%nat")))),
        Pat::Unsup(k) => format!("(Unsup {k})"),
    })
}
fn c_query(q: &Qy) -> Option<String> {
    let ds = |b: &bool| if *b { "(Some ([], Some []))" } else { "None" };
    Some(match q {
        Qy::Select(d, p) => format!("(QSelect {} {})", ds(d), c_pat(p)?),
        Qy::Ask(d, p) => format!("(QAsk {} {})", ds(d), c_pat(p)?),
        Qy::Construct => "QConstruct".into(),
        Qy::Describe => "QDescribe".into(),
    })
}

// ---------- the same for queries with EXISTS: coq/C13/Exists.v (wexpr / wpat, mutually recursive) ----------
fn w_ex(e: &Ex) -> Option<String> {
    Some(match e {
        Ex::Var(v) => format!("(WVar {})", coq_str(v)),
        Ex::Const(t) => format!("(WConst {})", t.coq()),
        Ex::Bound(v) => format!("(WBound {})", coq_str(v)),
        Ex::Not(a) => format!("(WNot {})", w_ex(a)?),
        Ex::Or(a, b) => format!("(WOr {} {})", w_ex(a)?, w_ex(b)?),
        Ex::And(a, b) => format!("(WAnd {} {})", w_ex(a)?, w_ex(b)?),
        Ex::Bin(op, a, b) => format!("(W{op} {} {})", w_ex(a)?, w_ex(b)?),
        Ex::Un(op, a) => format!("(W{op} {})", w_ex(a)?),
        Ex::Exists(p) => format!("(WExists {})", w_pat(p)?),
        Ex::Other(_) | Ex::Fresh(_) | Ex::Tri(..) | Ex::If(..) | Ex::Coalesce(_) | Ex::IsBlank(_) => return None,
    })
}
fn w_pat(p: &Pat) -> Option<String> {
    Some(match p {
        Pat::Bgp(ps) => format!("(WBgp {})", coq_list(ps.iter().map(|t| format!("({}, {}, {})", c_tp(&t[0]), c_tp(&t[1]), c_tp(&t[2]))))),
        Pat::Filter(e, i) => format!("(WFilter {} {})", w_ex(e)?, w_pat(i)?),
        Pat::Union(l, r) => format!("(WUnion {} {})", w_pat(l)?, w_pat(r)?),
        Pat::Graph(NP::Const(i), p) => format!("(WGraph (NConst {}) {})", coq_str(i), w_pat(p)?),
        Pat::Graph(NP::Var(v), p) => format!("(WGraph (NVar {}) {})", coq_str(v), w_pat(p)?),
        Pat::Graph(NP::Term(_), _) => return None,
        Pat::Extend(i, v, e) => format!("(WExtend {} {} {})", w_pat(i)?, coq_str(v), w_ex(e)?),
        Pat::OrderBy(i, es) => format!("(WOrderBy {} {}%nat)", w_pat(i)?, es.len()),
        Pat::Project(i, vs) => format!("(WProject {} {})", w_pat(i)?, coq_list(vs.iter().map(|v| coq_str(v)))),
        Pat::Distinct(i) => format!("(WDistinct {})", w_pat(i)?),
        Pat::Slice(i, s, l) => format!("(WSlice {} {s}%nat {})", w_pat(i)?, coq_opt(l.map(|n| format!("{n}%nat")))),
        Pat::Unsup(k) => format!("(WUnsup {k})"),
    })
}
fn w_query(q: &Qy) -> Option<String> {
    let ds = |b: &bool| if *b { "(Some ([], Some []))" } else { "None" };
    match q {
        Qy::Select(d, p) => Some(format!("(WSelect {} {})", ds(d), w_pat(p)?)),
        Qy::Ask(d, p) => Some(format!("(WAsk {} {})", ds(d), w_pat(p)?)),
        _ => None,
    }
}

// ------------------------------------------------------------------------------------------
// ORACLE: SPARQL 1.1 section 18, nested loops (independent of the Coq model and of the engine)
// ------------------------------------------------------------------------------------------
type Mu = BTreeMap<String, T>;
struct Ds { quads: Vec<Quad4> }
impl Ds {
    fn graph(&self, g: &Option<T>) -> Vec<[T; 3]> { self.quads.iter().filter(|q| &q.3 == g).map(|q| [q.0.clone(), q.1.clone(), q.2.clone()]).collect() }
    fn names(&self) -> BTreeSet<T> { self.quads.iter().filter_map(|q| q.3.clone()).collect() }
}
#[derive(Debug, Clone, PartialEq)]
enum OErr { Unsupported, Undetermined(String) }

fn has_slice(p: &Pat) -> bool {
    match p {
        Pat::Slice(..) => true,
        Pat::Bgp(_) | Pat::Unsup(_) => false,
        Pat::Union(l, r) => has_slice(l) || has_slice(r),
        Pat::Filter(_, i) | Pat::Graph(_, i) | Pat::Extend(i, _, _) | Pat::OrderBy(i, _) | Pat::Project(i, _) | Pat::Distinct(i) => has_slice(i),
    }
}
fn has_order(p: &Pat) -> bool {
    match p {
        Pat::OrderBy(..) => true,
        Pat::Bgp(_) | Pat::Unsup(_) => false,
        Pat::Union(l, r) => has_order(l) || has_order(r),
        Pat::Filter(_, i) | Pat::Graph(_, i) | Pat::Extend(i, _, _) | Pat::Slice(i, _, _) | Pat::Project(i, _) | Pat::Distinct(i) => has_order(i),
    }
}
/// an ORDER BY beneath an OFFSET / LIMIT: which rows the window keeps depends on the order the engine's sort produced
fn order_under_slice(p: &Pat) -> bool {
    match p {
        Pat::Slice(i, _, _) => has_order(i),
        Pat::Bgp(_) | Pat::Unsup(_) => false,
        Pat::Union(l, r) => order_under_slice(l) || order_under_slice(r),
        Pat::Filter(_, i) | Pat::Graph(_, i) | Pat::Extend(i, _, _) | Pat::OrderBy(i, _) | Pat::Project(i, _) | Pat::Distinct(i) => order_under_slice(i),
    }
}
/// How the engine's rows are compared with the model's (Eval.query_ok's `in_order`).  The model reproduces the engine's
/// iteration order exactly EXCEPT at ORDER BY, which it models by the identity permutation (the order is property C14):
///  * no OFFSET / LIMIT: as multisets (the order is irrelevant to C13);
///  * OFFSET / LIMIT and no ORDER BY: row by row, in order (that the same window was cut implies the same order below it);
///  * OFFSET / LIMIT with ORDER BY only above or beside them: every window is still cut out of an unsorted sequence, which
///    the model reproduces, and the engine then SORTS where the model does not: as multisets;
///  * ORDER BY beneath an OFFSET / LIMIT: None, the model cannot tell which rows the window keeps.
fn compare_in_order(p: &Pat) -> Option<bool> {
    if order_under_slice(p) { None } else { Some(has_slice(p) && !has_order(p)) }
}
fn ex_unsupported(e: &Ex) -> bool {
    match e {
        Ex::Exists(p) => pat_unsupported(p),
        Ex::Not(a) | Ex::Un(_, a) => ex_unsupported(a),
        Ex::Or(a, b) | Ex::And(a, b) | Ex::Bin(_, a, b) => ex_unsupported(a) || ex_unsupported(b),
        _ => e.kids().iter().any(|k| ex_unsupported(k)),
    }
}
/// an operator outside the supported fragment occurs somewhere in the query
fn pat_unsupported(p: &Pat) -> bool {
    match p {
        Pat::Unsup(_) => true,
        Pat::Bgp(_) => false,
        Pat::Union(l, r) => pat_unsupported(l) || pat_unsupported(r),
        Pat::Filter(e, i) => ex_unsupported(e) || pat_unsupported(i),
        Pat::Extend(i, _, e) => ex_unsupported(e) || pat_unsupported(i),
        Pat::OrderBy(i, es) => es.iter().any(ex_unsupported) || pat_unsupported(i),
        Pat::Graph(_, i) | Pat::Project(i, _) | Pat::Distinct(i) | Pat::Slice(i, _, _) => pat_unsupported(i),
    }
}
/// match one term pattern against a term, extending the variable and blank node assignments
fn unify(p: &TP, t: &T, mu: &mut Mu, sigma: &mut Mu) -> bool { unify_at(p, t, mu, sigma, 0) }
thread_local! {
    /// measuring device (never used for a verdict): a WRONG reading in which a quoted-triple pattern that is nested inside
    /// another one and is not ground accepts any term; a case whose answer changes under it is one in which the data holds
    /// a term that only the INNER pattern tells apart (a false candidate)
    static INNER_PATTERNS_ACCEPT_ANYTHING: std::cell::Cell<bool> = std::cell::Cell::new(false);
}
fn unify_at(p: &TP, t: &T, mu: &mut Mu, sigma: &mut Mu, depth: usize) -> bool {
    match p {
        TP::Const(c) => c == t,
        TP::Var(v) => match mu.get(v) { Some(x) => x == t, None => { mu.insert(v.clone(), t.clone()); true } },
        TP::Bn(b) => match sigma.get(b) { Some(x) => x == t, None => { sigma.insert(b.clone(), t.clone()); true } },
        TP::Trip(_) if depth >= 1 && INNER_PATTERNS_ACCEPT_ANYTHING.with(|f| f.get()) && !tp_ground(p) => true,
        TP::Trip(ps) => match t { T::Tr(ts) => (0..3).all(|i| unify_at(&ps[i], &ts[i], mu, sigma, depth + 1)), _ => false },
    }
}
fn bgp_solutions(ps: &[[TP; 3]], g: &[[T; 3]]) -> Vec<Mu> {
    // one entry per (mu, sigma): blank node placeholders are existential variables local to the BGP
    let mut cur: Vec<(Mu, Mu)> = vec![(Mu::new(), Mu::new())];
    for tp in ps {
        let mut next = vec![];
        for (mu, sigma) in &cur {
            for t in g {
                let (mut m, mut s) = (mu.clone(), sigma.clone());
                if (0..3).all(|i| unify(&tp[i], &t[i], &mut m, &mut s)) { next.push((m, s)); }
            }
        }
        cur = next;
    }
    cur.into_iter().map(|(m, _)| m).collect()
}
#[derive(Clone, Debug, PartialEq)]
enum Nv { Int(i128), Real(f64) }
fn numeric(t: &T) -> Option<Nv> {
    if let T::Lit(lex, dt) = t {
        let body = lex.strip_prefix(['+', '-']).unwrap_or(lex);
        if dt == XI { if !body.is_empty() && body.bytes().all(|b| b.is_ascii_digit()) { return lex.parse::<i128>().ok().map(Nv::Int) } return None }
        if dt == XD || dt == XF || dt == "http://www.w3.org/2001/XMLSchema#float" {
            return match lex.as_str() { "INF" => Some(Nv::Real(f64::INFINITY)), "-INF" => Some(Nv::Real(f64::NEG_INFINITY)), "NaN" => Some(Nv::Real(f64::NAN)), _ => lex.parse::<f64>().ok().map(Nv::Real) };
        }
    }
    None
}
fn nv_cmp(a: &Nv, b: &Nv) -> Option<std::cmp::Ordering> {
    match (a, b) { (Nv::Int(x), Nv::Int(y)) => Some(x.cmp(y)), _ => { let f = |n: &Nv| match n { Nv::Int(x) => *x as f64, Nv::Real(x) => *x }; f(a).partial_cmp(&f(b)) } }
}
fn boolean(t: &T) -> Option<Option<bool>> { if let T::Lit(lex, dt) = t { if dt == XB { return Some(match lex.as_str() { "true" | "1" => Some(true), "false" | "0" => Some(false), _ => None }) } } None }
fn plain_string(t: &T) -> Option<&str> { if let T::Lit(lex, dt) = t { if dt == XS { return Some(lex) } } None }
fn tbool(b: bool) -> T { T::Lit(if b { "true" } else { "false" }.into(), XB.into()) }
/// effective boolean value (17.2.2); Err = type error
fn ebv(t: &T) -> Result<bool, ()> {
    if let Some(b) = boolean(t) { return Ok(b.unwrap_or(false)) }
    if let Some(s) = plain_string(t) { return Ok(!s.is_empty()) }
    if let T::Lang(s, _) = t { return Ok(!s.is_empty()) }
    if let T::Lit(_, dt) = t { if dt == XI || dt == XD || dt == XF || dt == "http://www.w3.org/2001/XMLSchema#float" { return Ok(match numeric(t) { Some(Nv::Int(x)) => x != 0, Some(Nv::Real(x)) => x != 0.0 && !x.is_nan(), None => false }) } }
    Err(())
}
thread_local! { static EXOTIC_OPERAND: std::cell::Cell<bool> = std::cell::Cell::new(false); }
/// a literal whose value class the small expression transcription coq/C13/Eval.v does not model (decimal, float, double,
/// dateTime, ill-formed integer): expressions over such operands are the business of the expression layer (c13e)
fn exotic(t: &T) -> bool {
    match t { T::Lit(lex, dt) => dt == XD || dt == XF || dt == "http://www.w3.org/2001/XMLSchema#float" || dt == "http://www.w3.org/2001/XMLSchema#dateTime" || (dt == XI && numeric(t).is_none() && !lex.is_empty()) || (dt == XI && lex.is_empty()) || (dt == XB && !matches!(lex.as_str(), "true" | "false" | "1" | "0")), _ => false }
}
/// Ok(Ok(term)) value, Ok(Err(())) SPARQL evaluation error, Err(..) the oracle cannot decide
fn ev(e: &Ex, mu: &Mu, ds: &Ds, g: &Option<T>) -> Result<Result<T, ()>, OErr> {
    macro_rules! tryv { ($x:expr) => { match ev($x, mu, ds, g)? { Ok(v) => v, Err(()) => return Ok(Err(())) } } }
    let ebv_of = |e: &Ex| -> Result<Result<bool, ()>, OErr> { Ok(match ev(e, mu, ds, g)? { Ok(v) => ebv(&v), Err(()) => Err(()) }) };
    Ok(match e {
        Ex::Var(v) => { if let Some(t) = mu.get(v) { if exotic(t) { EXOTIC_OPERAND.with(|f| f.set(true)); } } mu.get(v).cloned().ok_or(()) }
        Ex::Const(t) => { if exotic(t) { EXOTIC_OPERAND.with(|f| f.set(true)); } Ok(t.clone()) }
        Ex::Bound(v) => Ok(tbool(mu.contains_key(v))),
        Ex::Not(a) => ebv_of(a)?.map(|b| tbool(!b)),
        Ex::Or(a, b) => match (ebv_of(a)?, ebv_of(b)?) { (Ok(true), _) | (_, Ok(true)) => Ok(tbool(true)), (Ok(false), Ok(false)) => Ok(tbool(false)), _ => Err(()) },
        Ex::And(a, b) => match (ebv_of(a)?, ebv_of(b)?) { (Ok(false), _) | (_, Ok(false)) => Ok(tbool(false)), (Ok(true), Ok(true)) => Ok(tbool(true)), _ => Err(()) },
        Ex::Bin(op, a, b) => {
            let (x, y) = (tryv!(a), tryv!(b));
            match *op {
                "SameTerm" => Ok(tbool(x == y)),
                "Equal" => {
                    if let (Some(n), Some(m)) = (numeric(&x), numeric(&y)) { Ok(tbool(nv_cmp(&n, &m) == Some(std::cmp::Ordering::Equal))) }
                    else if let (Some(s), Some(t)) = (plain_string(&x), plain_string(&y)) { Ok(tbool(s == t)) }
                    else if let (Some(Some(p)), Some(Some(q))) = (boolean(&x), boolean(&y)) { Ok(tbool(p == q)) }
                    // rdf:langString is a datatype the engine supports: its values are (string, lower-cased tag) pairs, so two
                    // language-tagged strings are equal or DIFFERENT, never an error (the error of RDFterm-equal is for literals
                    // of unsupported datatypes, 17.4.1.7 note); same reading as coq/C13/Eval.v (SStr _ (Some _))
                    else if let (T::Lang(s1, t1), T::Lang(s2, t2)) = (&x, &y) { Ok(tbool(s1 == s2 && t1.eq_ignore_ascii_case(t2))) }
                    else if x == y { Ok(tbool(true)) }
                    else if x.is_literal() && y.is_literal() { Err(()) }
                    else { Ok(tbool(false)) }
                }
                "Greater" | "GreaterOrEqual" | "Less" | "LessOrEqual" => {
                    let ord = if let (Some(n), Some(m)) = (numeric(&x), numeric(&y)) { nv_cmp(&n, &m) }
                        else if let (Some(s), Some(t)) = (plain_string(&x), plain_string(&y)) { Some(Ord::cmp(s, t)) }
                        else if let (Some(Some(p)), Some(Some(q))) = (boolean(&x), boolean(&y)) { Some(Ord::cmp(&p, &q)) }
                        else if matches!((&x, &y), (T::Lang(..), T::Lang(..))) { return Err(OErr::Undetermined("order of language-tagged strings".into())) }
                        else if x == y && x.is_literal() { return Err(OErr::Undetermined("order of a valueless literal with itself (operator extension, 17.3.1)".into())) }
                        else { None };
                    match ord { None => Err(()), Some(o) => Ok(tbool(match *op { "Greater" => o.is_gt(), "GreaterOrEqual" => o.is_ge(), "Less" => o.is_lt(), _ => o.is_le() })) }
                }
                "Add" | "Subtract" | "Multiply" => match (numeric(&x), numeric(&y)) {
                    (Some(Nv::Int(n)), Some(Nv::Int(m))) => {
                        let r = match *op { "Add" => n.checked_add(m), "Subtract" => n.checked_sub(m), _ => n.checked_mul(m) };
                        Ok(tint(&r.ok_or(OErr::Undetermined("i128 overflow in the oracle".into()))?.to_string()))
                    }
                    (Some(_), Some(_)) => return Err(OErr::Undetermined("non-integer arithmetic".into())),
                    _ => Err(()),
                },
                o => return Err(OErr::Undetermined(format!("operator {o}"))),
            }
        }
        Ex::Un(op, a) => {
            let x = tryv!(a);
            match numeric(&x) {
                Some(Nv::Int(n)) => Ok(tint(&match *op { "UnaryPlus" => n, "UnaryMinus" => -n, _ => n.abs() }.to_string())),
                Some(_) => return Err(OErr::Undetermined("non-integer arithmetic".into())),
                None => Err(()),
            }
        }
        // 18.6 Exists: true iff eval(D(G), substitute(P, mu)) is non-empty, G the ACTIVE graph.  For patterns made of
        // BGPs, UNION and GRAPH only, substitution = keeping the solutions of P that are compatible with mu (first reading,
        // kept from the first version of this oracle); in general (FILTER, BIND, nested EXISTS, GRAPH ?g inside the group,
        // all of which may mention variables of mu that occur in no triple pattern) the substitution is carried out
        Ex::Exists(p) => {
            fn simple(p: &Pat) -> bool { match p { Pat::Bgp(_) => true, Pat::Union(l, r) => simple(l) && simple(r), Pat::Graph(_, i) => simple(i), _ => false } }
            // the shape of the known finding EXISTS-SUBSELECT-DROPS-OUTER, met with a solution that binds the dropped variable
            if let Some(vs) = subselect_chain(p) { let mut reads = BTreeSet::new(); chain_reads(p, &mut reads); if reads.iter().any(|v| mu.contains_key(v) && !vs.contains(v)) { SUBSELECT_DROPS_OUTER.with(|f| f.set(true)) } }
            let by_substitution = || -> Result<bool, OErr> {
                let q = if ENGINE_PROJECT_READING.with(|f| f.get()) && subselect_chain(p).is_some() { subst_chain_dropping(p, mu)? } else { subst_pat(p, mu)? };
                Ok(!eval(&q, ds, g)?.is_empty())
            };
            if simple(p) {
                let sols = eval(p, ds, g)?;
                let compatible = sols.iter().any(|nu| nu.iter().all(|(v, t)| mu.get(v).map_or(true, |x| x == t)));
                if by_substitution()? != compatible { return Err(OErr::Undetermined("ORACLE-SELF-CHECK: the two readings of EXISTS differ".into())) }
                Ok(tbool(compatible))
            } else { Ok(tbool(by_substitution()?)) }
        }
        // 17.4.2.9: a blank node that is distinct from every blank node of the dataset and from every blank node created by
        // another call for this or for ANOTHER solution; the argument must be a simple literal / xsd:string.  (With the same
        // string in the same solution the Recommendation gives the same node -- known finding FUNC-BNODE-ARG-IGNORED; the
        // generator never writes the same argument twice in a query)
        Ex::Fresh(arg) => {
            if let Some(a) = arg { let x = tryv!(a); if plain_string(&x).is_none() { return Ok(Err(())) } }
            let k = FRESH_COUNTER.with(|c| { c.set(c.get() + 1); c.get() });
            Ok(T::Bn(format!("{MASK}f{k}")))
        }
        Ex::Tri(a, b, c) => {
            let (s, p, o) = (tryv!(a), tryv!(b), tryv!(c));
            // RDF 1.2: subject an IRI or a blank node, predicate an IRI
            if !matches!(s, T::Iri(_) | T::Bn(_)) || !matches!(p, T::Iri(_)) { return Ok(Err(())) }
            Ok(ttr(s, p, o))
        }
        Ex::If(c, t, f) => match ebv_of(c)? { Ok(true) => ev(t, mu, ds, g)?, Ok(false) => ev(f, mu, ds, g)?, Err(()) => Err(()) },
        Ex::Coalesce(es) => { let mut out = Err(()); for x in es { if let Ok(v) = ev(x, mu, ds, g)? { out = Ok(v); break } } out }
        Ex::IsBlank(a) => { let x = tryv!(a); Ok(tbool(matches!(x, T::Bn(_)))) }
        Ex::Other(n) => return Err(OErr::Undetermined(format!("expression {n}"))),
    })
}
thread_local! { static FRESH_COUNTER: std::cell::Cell<usize> = std::cell::Cell::new(0); }
/// substitute(pattern, mu) of 18.6: every variable of dom(mu) is replaced by its value EVERYWHERE in the pattern -- triple
/// patterns (also inside quoted triple patterns), the name of GRAPH, FILTER / BIND / ORDER BY expressions, nested EXISTS.
/// Left undetermined: BIND to a variable of dom(mu) (BIND(e AS <constant>) is not a pattern) and sub-selects that HIDE a
/// variable of dom(mu) (the Recommendation's substitute ignores the scope of projected-away variables; errata query-20 ff.);
/// a sub-select in which every variable of dom(mu) that occurs is projected is decided (see the Project arm)
fn subst_tp(p: &TP, mu: &Mu) -> TP {
    match p {
        TP::Var(v) => match mu.get(v) { Some(t) => TP::Const(t.clone()), None => p.clone() },
        TP::Trip(b) => TP::Trip(Box::new([subst_tp(&b[0], mu), subst_tp(&b[1], mu), subst_tp(&b[2], mu)])),
        _ => p.clone(),
    }
}
thread_local! { static BGP_ONLY_SUBSTITUTION: std::cell::Cell<bool> = std::cell::Cell::new(false); }
fn subst_ex(e: &Ex, mu: &Mu) -> Result<Ex, OErr> {
    // measuring device (never used for a verdict): a WRONG reading of 18.6 that substitutes in triple patterns only;
    // a case whose answer changes under it is one that depends on outer variables reaching FILTER / BIND / nested EXISTS
    if BGP_ONLY_SUBSTITUTION.with(|f| f.get()) { return Ok(e.clone()) }
    let b = |x: &Ex| -> Result<Box<Ex>, OErr> { Ok(Box::new(subst_ex(x, mu)?)) };
    Ok(match e {
        Ex::Var(v) => match mu.get(v) { Some(t) => Ex::Const(t.clone()), None => e.clone() },
        // BOUND(?v) with ?v replaced by an RDF term: true (the variable IS bound in the solution the group is tested for)
        Ex::Bound(v) => if mu.contains_key(v) { Ex::Const(tbool(true)) } else { e.clone() },
        Ex::Const(_) | Ex::Other(_) => e.clone(),
        Ex::Not(a) => Ex::Not(b(a)?), Ex::Or(x, y) => Ex::Or(b(x)?, b(y)?), Ex::And(x, y) => Ex::And(b(x)?, b(y)?),
        Ex::Bin(op, x, y) => Ex::Bin(*op, b(x)?, b(y)?), Ex::Un(op, x) => Ex::Un(*op, b(x)?),
        Ex::Exists(p) => Ex::Exists(Box::new(subst_pat(p, mu)?)),
        Ex::Fresh(None) => e.clone(), Ex::Fresh(Some(a)) => Ex::Fresh(Some(b(a)?)), Ex::IsBlank(a) => Ex::IsBlank(b(a)?),
        Ex::Tri(x, y, z) => Ex::Tri(b(x)?, b(y)?, b(z)?), Ex::If(x, y, z) => Ex::If(b(x)?, b(y)?, b(z)?),
        Ex::Coalesce(es) => Ex::Coalesce(es.iter().map(|x| subst_ex(x, mu)).collect::<Result<_, _>>()?),
    })
}
fn subst_pat(p: &Pat, mu: &Mu) -> Result<Pat, OErr> {
    let bp = |x: &Pat| -> Result<Box<Pat>, OErr> { Ok(Box::new(subst_pat(x, mu)?)) };
    Ok(match p {
        Pat::Bgp(ps) => Pat::Bgp(ps.iter().map(|t| [subst_tp(&t[0], mu), subst_tp(&t[1], mu), subst_tp(&t[2], mu)]).collect()),
        Pat::Filter(e, i) => Pat::Filter(subst_ex(e, mu)?, bp(i)?),
        Pat::Union(l, r) => Pat::Union(bp(l)?, bp(r)?),
        Pat::Graph(NP::Var(v), i) => match mu.get(v) { Some(T::Iri(n)) => Pat::Graph(NP::Const(n.clone()), bp(i)?), Some(t) => Pat::Graph(NP::Term(t.clone()), bp(i)?), None => Pat::Graph(NP::Var(v.clone()), bp(i)?) },
        Pat::Graph(n, i) => Pat::Graph(n.clone(), bp(i)?),
        Pat::Extend(i, v, e) => { if mu.contains_key(v) { return Err(OErr::Undetermined("EXISTS: BIND inside the group to a variable bound outside".into())) } Pat::Extend(bp(i)?, v.clone(), subst_ex(e, mu)?) }
        Pat::OrderBy(i, es) => Pat::OrderBy(bp(i)?, es.iter().map(|e| subst_ex(e, mu)).collect::<Result<_, _>>()?),
        Pat::Distinct(i) => Pat::Distinct(bp(i)?),
        Pat::Slice(i, s, l) => Pat::Slice(bp(i)?, *s, *l),
        // A sub-select.  The variables of its body that its projection hides are local to it (18.2.1), while substitute, read
        // to the letter, would replace them too (errata query-20 ff.): undetermined as soon as a variable of dom(mu) occurs
        // inside the sub-select without being projected.  Otherwise every variable of dom(mu) that occurs inside is projected,
        // i.e. it IS the outer variable, and is replaced in the body; the projection keeps its names (no solution of the
        // substituted body binds a replaced variable, so projecting on it changes nothing).  In particular a sub-select
        // that mentions no variable of dom(mu) is left as it is, and the operators of the group around it are substituted.
        Pat::Project(i, vs) => {
            let mut inside = BTreeSet::new(); pat_all_vars(i, &mut inside);
            if inside.iter().any(|v| mu.contains_key(v) && !vs.contains(v)) { return Err(OErr::Undetermined("EXISTS over a sub-select that hides a variable bound outside".into())) }
            Pat::Project(bp(i)?, vs.clone())
        }
        Pat::Unsup(k) => Pat::Unsup(*k),
    })
}
/// every variable that occurs anywhere in a pattern / an expression (nested EXISTS groups and sub-selects included)
fn ex_all_vars(e: &Ex, out: &mut BTreeSet<String>) {
    match e { Ex::Var(v) | Ex::Bound(v) => { out.insert(v.clone()); } Ex::Not(a) | Ex::Un(_, a) => ex_all_vars(a, out), Ex::Or(a, b) | Ex::And(a, b) | Ex::Bin(_, a, b) => { ex_all_vars(a, out); ex_all_vars(b, out) }
        Ex::Exists(p) => pat_all_vars(p, out), Ex::Const(_) | Ex::Other(_) => {}
        Ex::Fresh(_) | Ex::Tri(..) | Ex::If(..) | Ex::Coalesce(_) | Ex::IsBlank(_) => e.kids().iter().for_each(|k| ex_all_vars(k, out)) }
}
fn pat_all_vars(p: &Pat, out: &mut BTreeSet<String>) {
    match p {
        Pat::Bgp(ps) => ps.iter().for_each(|t| t.iter().for_each(|x| tp_vars(x, out))),
        Pat::Filter(e, i) => { ex_all_vars(e, out); pat_all_vars(i, out) }
        Pat::Union(l, r) => { pat_all_vars(l, out); pat_all_vars(r, out) }
        Pat::Graph(n, i) => { if let NP::Var(v) = n { out.insert(v.clone()); } pat_all_vars(i, out) }
        Pat::Extend(i, v, e) => { out.insert(v.clone()); ex_all_vars(e, out); pat_all_vars(i, out) }
        Pat::OrderBy(i, es) => { es.iter().for_each(|e| ex_all_vars(e, out)); pat_all_vars(i, out) }
        Pat::Project(i, vs) => { out.extend(vs.iter().cloned()); pat_all_vars(i, out) }
        Pat::Distinct(i) | Pat::Slice(i, _, _) => pat_all_vars(i, out),
        Pat::Unsup(_) => {}
    }
}
// ---------- the known finding EXISTS-SUBSELECT-DROPS-OUTER ----------
// exec.rs evaluates EXISTS by handing the outer solution down as initial binding; `project` then retains the projected
// variables only, the pre-bound ones included, so the FILTER / BIND of the group ABOVE a sub-select read the outer variables
// the sub-select does not project as unbound.  18.6 replaces them by their values everywhere in the group.
thread_local! {
    /// set by the oracle when it evaluates an EXISTS of exactly that shape for a solution that binds such a variable
    static SUBSELECT_DROPS_OUTER: std::cell::Cell<bool> = std::cell::Cell::new(false);
    /// measuring device (never used for a verdict): evaluate groups of that shape the way the engine does; a failure carries
    /// the tag only when this reading reproduces the engine's answer
    static ENGINE_PROJECT_READING: std::cell::Cell<bool> = std::cell::Cell::new(false);
}
/// the group is a chain of FILTER / BIND / GRAPH / DISTINCT / ORDER BY / OFFSET-LIMIT over ONE sub-select: its projection
fn subselect_chain(p: &Pat) -> Option<&Vec<String>> {
    match p { Pat::Project(_, vs) => Some(vs), Pat::Filter(_, i) | Pat::Extend(i, _, _) | Pat::Graph(_, i) | Pat::Distinct(i) | Pat::OrderBy(i, _) | Pat::Slice(i, _, _) => subselect_chain(i), _ => None }
}
/// the variables read by the FILTER / BIND expressions of the chain above the sub-select (outside nested EXISTS groups)
fn chain_reads(p: &Pat, out: &mut BTreeSet<String>) {
    match p { Pat::Filter(e, i) | Pat::Extend(i, _, e) => { ex_vars(e, out); chain_reads(i, out) } Pat::Graph(_, i) | Pat::Distinct(i) | Pat::OrderBy(i, _) | Pat::Slice(i, _, _) => chain_reads(i, out), _ => {} }
}
/// the engine's reading of such a group: the sub-select itself sees all of mu, the expressions above it only what it projects
fn subst_chain_dropping(p: &Pat, mu: &Mu) -> Result<Pat, OErr> {
    let vs = subselect_chain(p).expect("a chain over a sub-select");
    let kept: Mu = mu.iter().filter(|(k, _)| vs.contains(k)).map(|(k, v)| (k.clone(), v.clone())).collect();
    fn go(p: &Pat, mu: &Mu, kept: &Mu) -> Result<Pat, OErr> {
        let bp = |x: &Pat| -> Result<Box<Pat>, OErr> { Ok(Box::new(go(x, mu, kept)?)) };
        Ok(match p {
            Pat::Project(..) => subst_pat(p, mu)?,
            Pat::Filter(e, i) => Pat::Filter(subst_ex(e, kept)?, bp(i)?),
            Pat::Extend(i, v, e) => { if mu.contains_key(v) { return Err(OErr::Undetermined("EXISTS: BIND inside the group to a variable bound outside".into())) } Pat::Extend(bp(i)?, v.clone(), subst_ex(e, kept)?) }
            Pat::Graph(NP::Var(v), i) => match mu.get(v) { Some(T::Iri(n)) => Pat::Graph(NP::Const(n.clone()), bp(i)?), Some(t) => Pat::Graph(NP::Term(t.clone()), bp(i)?), None => Pat::Graph(NP::Var(v.clone()), bp(i)?) },
            Pat::Graph(n, i) => Pat::Graph(n.clone(), bp(i)?),
            Pat::OrderBy(i, es) => Pat::OrderBy(bp(i)?, es.iter().map(|e| subst_ex(e, kept)).collect::<Result<_, _>>()?),
            Pat::Distinct(i) => Pat::Distinct(bp(i)?),
            Pat::Slice(i, s, l) => Pat::Slice(bp(i)?, *s, *l),
            Pat::Bgp(_) | Pat::Union(..) | Pat::Unsup(_) => unreachable!("not a chain over a sub-select"),
        })
    }
    go(p, mu, &kept)
}
/// eval(D(G), pattern) as a multiset
fn eval(p: &Pat, ds: &Ds, g: &Option<T>) -> Result<Vec<Mu>, OErr> {
    Ok(match p {
        Pat::Bgp(ps) => bgp_solutions(ps, &ds.graph(g)),
        Pat::Filter(e, i) => {
            let mut out = vec![];
            for mu in eval(i, ds, g)? { if let Ok(v) = ev(e, &mu, ds, g)? { if ebv(&v) == Ok(true) { out.push(mu) } } }
            out
        }
        Pat::Union(l, r) => { let mut a = eval(l, ds, g)?; a.extend(eval(r, ds, g)?); a }
        Pat::Graph(NP::Const(i), inner) => { let n = ti(i); if ds.names().contains(&n) { eval(inner, ds, &Some(n))? } else { vec![] } }
        Pat::Graph(NP::Term(n), inner) => { if ds.names().contains(n) { eval(inner, ds, &Some(n.clone()))? } else { vec![] } }
        Pat::Graph(NP::Var(v), inner) => {
            let mut out = vec![];
            for n in ds.names() {
                for mut mu in eval(inner, ds, &Some(n.clone()))? {
                    match mu.get(v) { Some(x) if *x != n => continue, Some(_) => {}, None => { mu.insert(v.clone(), n.clone()); } }
                    out.push(mu);
                }
            }
            out
        }
        Pat::Extend(i, v, e) => {
            let mut out = vec![];
            for mut mu in eval(i, ds, g)? {
                if mu.contains_key(v) { return Err(OErr::Undetermined("Extend on a bound variable".into())) }
                if let Ok(t) = ev(e, &mu, ds, g)? { mu.insert(v.clone(), t); }
                out.push(mu);
            }
            out
        }
        Pat::OrderBy(i, _) => eval(i, ds, g)?,
        Pat::Project(i, vs) => eval(i, ds, g)?.into_iter().map(|mu| mu.into_iter().filter(|(k, _)| vs.contains(k)).collect()).collect(),
        Pat::Distinct(i) => { let mut seen = BTreeSet::new(); eval(i, ds, g)?.into_iter().filter(|mu| seen.insert(mu.clone())).collect() }
        // 18.5 Slice(ToList(M), start, length) below other operators: ToList may pick ANY order of the multiset, so the window
        // is determined only when it keeps everything, nothing, or when all the solutions are the same mapping
        Pat::Slice(i, s, l) => {
            let inner = eval(i, ds, g)?;
            let rest = inner.len().saturating_sub(*s);
            let take = l.map_or(rest, |l| l.min(rest));
            if take == 0 { vec![] }
            else if take == inner.len() { inner }
            else if inner.iter().all(|m| *m == inner[0]) { inner[..take].to_vec() }
            else { return Err(OErr::Undetermined("nested OFFSET/LIMIT cutting a window out of different solutions".into())) }
        }
        Pat::Unsup(_) => return Err(OErr::Unsupported),
    })
}
/// the outermost Slice is applied by the caller to whatever order the engine chose
fn eval_top(p: &Pat, ds: &Ds) -> Result<(Vec<Mu>, Option<(usize, Option<usize>)>), OErr> {
    match p {
        Pat::Slice(i, s, l) => Ok((eval(i, ds, &None)?, Some((*s, *l)))),
        _ => Ok((eval(p, ds, &None)?, None)),
    }
}

// ------------------------------------------------------------------------------------------
// running the engine
// ------------------------------------------------------------------------------------------
#[derive(Debug, Clone)]
enum Obs { Rows(Vec<String>, Vec<Vec<Option<T>>>), Bool(bool), Err(String), Panic(String), Parse(String) }

/// One prepared query executed first on `decoy`, then on `d`: the observation of the SECOND execution.
fn run_engine_reused(decoy: &LightDataset, d: &LightDataset, q: &str) -> Option<Obs> {
    let parsed = SparqlQuery::<LightDataset>::parse(q).ok()?;
    let exec = |d: &LightDataset| std::panic::catch_unwind(std::panic::AssertUnwindSafe(|| {
        match SparqlWrapper(d).query(&parsed) {
            Err(e) => Obs::Err(e.to_string()),
            Ok(SparqlResult::Boolean(b)) => Obs::Bool(b),
            Ok(SparqlResult::Bindings(b)) => {
                let vars: Vec<String> = b.variables().iter().map(|s| s.to_string()).collect();
                let mut rows = vec![];
                for row in b {
                    match row { Ok(r) => rows.push(r.iter().map(|t| t.as_ref().map(|t| T::from_term(t.borrow_term()))).collect()), Err(e) => return Obs::Err(format!("row error: {e}")) }
                }
                Obs::Rows(vars, rows)
            }
            Ok(_) => Obs::Err("unexpected result kind".into()),
        }
    }));
    let _ = exec(decoy);
    Some(match exec(d) { Ok(o) => o, Err(p) => Obs::Panic(p.downcast_ref::<String>().cloned().or(p.downcast_ref::<&str>().map(|s| s.to_string())).unwrap_or_default()) })
}
/// observations compared as multisets of rows (the engine promises no order without ORDER BY)
fn obs_key(o: &Obs) -> String {
    match o {
        Obs::Rows(v, rows) => { let mut r: Vec<String> = rows.iter().map(|x| format!("{x:?}")).collect(); r.sort(); format!("rows {v:?} {r:?}") }
        o => format!("{o:?}"),
    }
}
fn run_engine(d: &LightDataset, q: &str) -> (Obs, Option<String>) {
    let parsed = match SparqlQuery::<LightDataset>::parse(q) { Ok(p) => p, Err(e) => return (Obs::Parse(e.to_string()), None) };
    let dbg = format!("{parsed:?}");
    let r = std::panic::catch_unwind(std::panic::AssertUnwindSafe(|| {
        match SparqlWrapper(d).query(&parsed) {
            Err(e) => Obs::Err(e.to_string()),
            Ok(SparqlResult::Boolean(b)) => Obs::Bool(b),
            Ok(SparqlResult::Bindings(b)) => {
                let vars: Vec<String> = b.variables().iter().map(|s| s.to_string()).collect();
                let mut rows = vec![];
                for row in b {
                    match row { Ok(r) => rows.push(r.iter().map(|t| t.as_ref().map(|t| T::from_term(t.borrow_term()))).collect()), Err(e) => return Obs::Err(format!("row error: {e}")) }
                }
                Obs::Rows(vars, rows)
            }
            Ok(_) => Obs::Err("unexpected result kind".into()),
        }
    }));
    (match r { Ok(o) => o, Err(p) => Obs::Panic(p.downcast_ref::<String>().cloned().or(p.downcast_ref::<&str>().map(|s| s.to_string())).unwrap_or_default()) }, Some(dbg))
}

// ------------------------------------------------------------------------------------------
// generators
// ------------------------------------------------------------------------------------------
const INTS: &[&str] = &["0", "1", "2", "3", "5", "+5", "007", "-4", "9223372036854775807", "-9223372036854775808", "99999999999999999999", "-99999999999999999999", "abc"];
fn resources() -> Vec<T> {
    vec![ti("tag:a"), ti("tag:b"), ti("tag:c"), ti("tag:d"), T::Bn("x1".into()), T::Bn("x2".into()),
         ttr(ti("tag:a"), ti("tag:p"), ti("tag:b")), ttr(ti("tag:b"), ti("tag:q"), tint("1")), ttr(T::Bn("x1".into()), ti("tag:p"), ttr(ti("tag:a"), ti("tag:p"), ti("tag:b")))]
}
fn anys() -> Vec<T> {
    vec![T::Lit("1.5".into(), XD.into()), T::Lit("2.0E0".into(), XF.into()), T::Lit("NaN".into(), XF.into()), T::Lit("1".into(), "http://www.w3.org/2001/XMLSchema#float".into()),
         T::Lit("2020-01-01T00:00:00Z".into(), "http://www.w3.org/2001/XMLSchema#dateTime".into()), T::Lit("x".into(), "tag:dt".into()),
         T::Lit("true".into(), XB.into()), T::Lit("maybe".into(), XB.into()), T::Lit("1".into(), XB.into()), T::Lang("lit".into(), "en".into()), T::Lang("lit".into(), "fr-be".into()),
         T::Lang("".into(), "en".into()), tint("1"), tstr("a"), ti("tag:a"), T::Bn("x1".into())]
}
fn gen_object(r: &mut Rng, pred: &str) -> T {
    match pred {
        "tag:n" => tint(r.ps(INTS)),
        "tag:s" => tstr(r.ps(&["a", "b", "", "lit"])),
        "tag:v" => r.pick(&anys()).clone(),
        _ => r.pick(&resources()).clone(),
    }
}
const PREDS: &[&str] = &["tag:p", "tag:p", "tag:q", "tag:n", "tag:n", "tag:s", "tag:v"];
fn gen_dataset(r: &mut Rng) -> Vec<Quad4> {
    let res = resources();
    let pool: Vec<[T; 3]> = (0..r.range(6, 16)).map(|_| { let p = r.ps(PREDS); [r.pick(&res).clone(), ti(p), gen_object(r, p)] }).collect();
    let mut quads: Vec<Quad4> = vec![];
    let names = [ti("tag:g1"), ti("tag:g2"), T::Bn("g3".into())];
    let ngraphs = *r.pick(&[0usize, 0, 1, 2, 2, 3]);
    for t in &pool { if r.chance(3, 5) { quads.push((t[0].clone(), t[1].clone(), t[2].clone(), None)); } }
    for g in names.iter().take(ngraphs) {
        for _ in 0..r.range(1, 6) { let t = r.pick(&pool); quads.push((t[0].clone(), t[1].clone(), t[2].clone(), Some(g.clone()))); }
    }
    let mut seen = HashSet::new();
    quads.retain(|q| seen.insert(q.clone()));
    quads
}
fn build(quads: &[Quad4], r: &mut Rng) -> LightDataset {
    let mut d = LightDataset::new();
    for (s, p, o, g) in quads {
        let up = r.chance(1, 2);
        let g: Option<ST> = g.as_ref().map(|g| g.to_st(up));
        d.insert(&s.to_st(up), &p.to_st(up), &o.to_st(up), g.as_ref()).unwrap();
    }
    d
}

// ---------- datasets of the streams `nested-*`: quoted triples of depth 2 and 3 and their one-place variants ----------
fn tdepth(t: &T) -> usize { match t { T::Tr(b) => 1 + b.iter().map(tdepth).max().unwrap_or(0), _ => 0 } }
fn tpdepth(p: &TP) -> usize { match p { TP::Trip(b) => 1 + b.iter().map(tpdepth).max().unwrap_or(0), TP::Const(t) => tdepth(t), _ => 0 } }
fn tp_ground(p: &TP) -> bool { match p { TP::Const(_) => true, TP::Trip(b) => b.iter().all(tp_ground), _ => false } }
/// an atom (never a quoted triple) for position `pos` of a triple whose predicate is `pred` (the sorts of `gen_object`)
fn atom_at(r: &mut Rng, pos: usize, pred: &str) -> T {
    let res = [ti("tag:a"), ti("tag:b"), ti("tag:c"), ti("tag:d"), T::Bn("x1".into()), T::Bn("x2".into())];
    if pos == 0 { return r.pick(&res).clone() }
    match pred { "tag:n" => tint(r.ps(&["0", "1", "2", "5", "007", "-4"])), "tag:s" => tstr(r.ps(&["a", "b", "", "lit"])), "tag:v" => r.pick(&anys()).clone(), _ => r.pick(&res).clone() }
}
fn resource_pred(p: &str) -> bool { matches!(p, "tag:p" | "tag:q" | "tag:v") }
/// a quoted triple of depth exactly `depth` >= 1; the nesting goes through the subject, the object, or both
fn gen_deep(r: &mut Rng, depth: usize) -> T {
    if depth <= 1 { let p = r.ps(&["tag:p", "tag:p", "tag:q", "tag:n", "tag:s", "tag:v"]); let s = atom_at(r, 0, p); let o = atom_at(r, 2, p); return ttr(s, ti(p), o) }
    let through_object = r.chance(1, 2);
    let p = if through_object { r.ps(&["tag:p", "tag:q", "tag:q", "tag:v"]) } else { r.ps(&["tag:p", "tag:q", "tag:q", "tag:n", "tag:s", "tag:v"]) };
    let (s, o);
    if through_object { o = gen_deep(r, depth - 1); s = if r.chance(1, 4) { let d = r.range(1, depth - 1); gen_deep(r, d) } else { atom_at(r, 0, p) }; }
    else { s = gen_deep(r, depth - 1); o = if resource_pred(p) && r.chance(1, 4) { let d = r.range(1, depth - 1); gen_deep(r, d) } else { atom_at(r, 2, p) }; }
    ttr(s, ti(p), o)
}
fn term_at<'a>(t: &'a T, path: &[usize]) -> &'a T { match (path.split_first(), t) { (Some((i, rest)), T::Tr(b)) => term_at(&b[*i], rest), _ => t } }
fn replace_at(t: &T, path: &[usize], new: &T) -> T {
    match (path.split_first(), t) { (Some((i, rest)), T::Tr(b)) => { let mut c = (**b).clone(); c[*i] = replace_at(&b[*i], rest, new); T::Tr(Box::new(c)) } _ => new.clone() }
}
fn all_paths(t: &T, here: &mut Vec<usize>, out: &mut Vec<Vec<usize>>) {
    out.push(here.clone());
    if let T::Tr(b) = t { for i in 0..3 { here.push(i); all_paths(&b[i], here, out); here.pop(); } }
}
/// The terms obtained from the quoted triple `t` by ONE change at ONE place (any depth): another constant where there is
/// an atom or a predicate; a quoted triple where there is an atom; an atom, or one of its own components, where there is a
/// quoted triple.  These are the terms a quoted-triple pattern generalised from `t` must tell apart from `t`.
fn one_place_variants(t: &T, r: &mut Rng) -> Vec<T> {
    let (mut paths, mut out) = (vec![], vec![]);
    all_paths(t, &mut vec![], &mut paths);
    for path in paths {
        let sub = term_at(t, &path);
        let Some((&pos, up)) = path.split_last() else {
            // the whole term: an atom, or one of its components, instead of the quoted triple
            out.push(atom_at(r, 0, "tag:p"));
            if let T::Tr(b) = t { if !b[0].is_literal() { out.push(b[0].clone()) } }
            continue
        };
        let pred = match term_at(t, up) { T::Tr(b) => match &b[1] { T::Iri(p) => p.clone(), _ => "tag:v".to_string() }, _ => unreachable!() };
        if pos == 1 { if pred != "tag:v" { let other: Vec<&str> = ["tag:p", "tag:q", "tag:n", "tag:s"].into_iter().filter(|x| *x != pred).collect(); let o: &str = other[r.below(other.len())]; out.push(replace_at(t, &path, &ti(o))); } continue }
        match sub {
            T::Tr(b) => {
                out.push(replace_at(t, &path, &atom_at(r, pos, if pos == 0 { "tag:p" } else { pred.as_str() })));
                let comp = if pos == 0 || r.chance(1, 2) { &b[0] } else { &b[2] };
                if pos == 2 || !comp.is_literal() { out.push(replace_at(t, &path, comp)); }
                // a quoted triple of another depth
                let d = tdepth(sub); out.push(replace_at(t, &path, &gen_deep(r, if d > 1 { d - 1 } else { 2 })));
            }
            _ => {
                for _ in 0..6 { let a = atom_at(r, pos, &pred); if a != *sub { out.push(replace_at(t, &path, &a)); break } }
                if pos == 0 || resource_pred(&pred) { out.push(replace_at(t, &path, &gen_deep(r, 1))); }
            }
        }
    }
    let mut seen = HashSet::new();
    out.retain(|m| m != t && seen.insert(m.clone()));
    out
}
/// 2..3 families (a quoted triple of depth 2 or 3 and a sample of its one-place variants), each member the subject and / or
/// the object of a triple of its own (`<< .. >> <tag:q> <tag:zN>`, `<tag:zN> <tag:p> << .. >>`) in the default graph and / or
/// in named graphs; some of the quoted triples (of every depth) are asserted as well, so that their components can be bound
/// by an ordinary triple pattern
fn gen_nested_dataset(r: &mut Rng) -> Vec<Quad4> {
    let names = [ti("tag:g1"), ti("tag:g2"), T::Bn("g3".into())];
    let ngraphs = *r.pick(&[1usize, 2, 2, 3]);
    let mut quads: Vec<Quad4> = vec![];
    let mut z = 0;
    let place = |r: &mut Rng| -> Option<T> { if r.chance(1, 2) { None } else { Some(names[r.below(ngraphs)].clone()) } };
    for _ in 0..r.range(2, 3) {
        let depth = *r.pick(&[2usize, 2, 3]);
        let t = gen_deep(r, depth);
        let mut family = one_place_variants(&t, r);
        for i in (1..family.len()).rev() { let j = r.below(i + 1); family.swap(i, j); }
        family.truncate(r.range(6, 9));
        family.insert(0, t.clone());
        for m in &family {
            z += 1; let zn = ti(&format!("tag:z{z}"));
            let side = if m.is_literal() { 2 } else { r.below(3) };
            for g in if r.chance(1, 5) { vec![None, Some(names[r.below(ngraphs)].clone())] } else { vec![place(r)] } {
                if side != 2 { quads.push((m.clone(), ti("tag:q"), zn.clone(), g.clone())); }
                if side != 0 { quads.push((zn.clone(), ti("tag:p"), m.clone(), g.clone())); }
            }
        }
        // asserted quoted triples
        let (mut paths, mut here) = (vec![], vec![]); all_paths(&t, &mut here, &mut paths);
        for path in paths { if let T::Tr(b) = term_at(&t, &path) { if r.chance(3, 5) { quads.push((b[0].clone(), b[1].clone(), b[2].clone(), place(r))); } } }
    }
    for _ in 0..r.range(2, 5) { let p = r.ps(&["tag:p", "tag:q", "tag:n"]); quads.push((atom_at(r, 0, p), ti(p), atom_at(r, 2, p), place(r))); }
    let mut seen = HashSet::new();
    quads.retain(|q| seen.insert(q.clone()));
    quads
}
/// the hand-written dataset of the directed `nested` queries: B2 = << << a p b >> q c >> and B3 = << d p B2 >> with their
/// one-place variants, as subjects (`.. <tag:q> <tag:zN>`) and objects (`<tag:zN> <tag:p> ..`), in the default graph and in
/// two named graphs
fn directed_nested_dataset() -> Vec<Quad4> {
    let i = ti;
    let apb = || ttr(i("tag:a"), i("tag:p"), i("tag:b"));
    let b2 = |inner: T| ttr(inner, i("tag:q"), i("tag:c"));
    let members: Vec<T> = vec![
        b2(apb()),                                                          // z1  B2
        b2(ttr(i("tag:a"), i("tag:q"), i("tag:b"))),                        // z2  inner predicate differs
        b2(ttr(i("tag:a"), i("tag:p"), i("tag:c"))),                        // z3  inner object differs
        b2(ttr(i("tag:d"), i("tag:p"), i("tag:b"))),                        // z4  inner subject differs
        b2(i("tag:a")),                                                     // z5  an atom where B2 has a quoted triple
        ttr(apb(), i("tag:q"), i("tag:d")),                                 // z6  outer object differs
        ttr(apb(), i("tag:p"), i("tag:c")),                                 // z7  outer predicate differs
        ttr(apb(), i("tag:q"), apb()),                                      // z8  a quoted triple where B2 has an atom
        apb(),                                                              // z9  depth 1
        b2(ttr(T::Bn("x1".into()), i("tag:p"), i("tag:b"))),                // z10 a blank node inside
        b2(ttr(i("tag:a"), i("tag:p"), tint("1"))),                         // z11 a literal inside
        ttr(i("tag:d"), i("tag:p"), b2(apb())),                             // z12 B3
        ttr(i("tag:d"), i("tag:p"), b2(ttr(i("tag:a"), i("tag:p"), i("tag:c")))),   // z13 innermost object differs
        ttr(i("tag:d"), i("tag:p"), b2(ttr(i("tag:a"), i("tag:q"), i("tag:b")))),   // z14 innermost predicate differs
        ttr(i("tag:d"), i("tag:p"), b2(i("tag:a"))),                        // z15 an atom at depth 3
        ttr(i("tag:d"), i("tag:p"), apb()),                                 // z16 depth 2 where B3 has depth 3
        ttr(i("tag:d"), i("tag:p"), i("tag:a")),                            // z17 depth 1 where B3 has depth 3
        ttr(i("tag:c"), i("tag:p"), b2(apb())),                             // z18 outer subject differs
        ttr(b2(apb()), i("tag:p"), b2(apb())),                              // z19 nesting on both sides
        ttr(i("tag:d"), i("tag:p"), ttr(apb(), i("tag:q"), ttr(i("tag:c"), i("tag:p"), i("tag:c")))),   // z20 a quoted triple at depth 3 where B3 has an atom
    ];
    let (g1, g2) = (Some(i("tag:g1")), Some(i("tag:g2")));
    let mut quads: Vec<Quad4> = vec![];
    for (k, m) in members.iter().enumerate() {
        let zn = i(&format!("tag:z{}", k + 1));
        quads.push((m.clone(), i("tag:q"), zn.clone(), None));
        quads.push((zn.clone(), i("tag:p"), m.clone(), None));
        if k % 2 == 0 { quads.push((m.clone(), i("tag:q"), zn.clone(), g1.clone())); }
        if k % 3 == 0 { quads.push((zn.clone(), i("tag:p"), m.clone(), g2.clone())); }
    }
    for (s, p, o) in [("tag:a", "tag:p", "tag:b"), ("tag:a", "tag:p", "tag:c"), ("tag:d", "tag:p", "tag:b"), ("tag:a", "tag:q", "tag:b")] { quads.push((i(s), i(p), i(o), None)); }
    quads.push((i("tag:a"), i("tag:p"), i("tag:b"), g1.clone()));
    quads.push((i("tag:a"), i("tag:p"), i("tag:c"), g2.clone()));
    quads
}
/// directed `nested` queries (all on the dataset above): quoted-triple patterns of depth 2 and 3, in subject and in object
/// position, whose inner patterns mix constants, fresh / repeated / already bound variables and blank node placeholders;
/// in a BGP, inside GRAPH, inside [NOT] EXISTS; SELECT and ASK
fn directed_nested() -> Vec<(&'static str, String)> {
    let mut out: Vec<(&'static str, String)> = vec![];
    // inner patterns for << INNER <tag:q> ?o >> (depth 2) -- each also used at depth 3, in both positions and in the wrappers
    let inners = [
        "<< ?a ?b ?c >>", "<< ?a <tag:p> ?c >>", "<< ?a <tag:q> ?c >>", "<< <tag:a> ?b ?c >>", "<< ?a ?b <tag:b> >>", "<< <tag:a> <tag:p> ?c >>", "<< ?a <tag:p> <tag:b> >>",
        "<< <tag:d> ?b <tag:b> >>", "<< ?a ?b ?a >>", "<< ?a ?b ?o >>", "<< _:i <tag:p> _:j >>", "<< [] ?b [] >>", "<< _:i ?b _:i >>", "<< ?a <tag:p> 1 >>", "<< ?a <tag:p> \"1\" >>",
        "<< <tag:a> <tag:p> <tag:b> >>", "<< <tag:a> <tag:p> <tag:zz> >>", "<< << ?a ?b ?c >> ?e ?f >>",
    ];
    for inner in inners {
        out.push(("nested-depth2-subject", format!("SELECT * {{ << {inner} <tag:q> ?o >> <tag:q> ?z }}")));
        out.push(("nested-depth2-object", format!("SELECT * {{ ?z <tag:p> << {inner} ?q ?o >> }}")));
        out.push(("nested-depth3-object", format!("SELECT * {{ ?z <tag:p> << <tag:d> <tag:p> << {inner} <tag:q> ?o >> >> }}")));
        out.push(("nested-depth3-subject", format!("SELECT ?z {{ << ?d ?p2 << {inner} ?q <tag:c> >> >> <tag:q> ?z }}")));
    }
    for inner in &inners[..10] {
        out.push(("nested-in-graph", format!("SELECT * {{ GRAPH <tag:g1> {{ << {inner} <tag:q> ?o >> <tag:q> ?z }} }}")));
        out.push(("nested-in-graph", format!("SELECT * {{ GRAPH ?g {{ ?z <tag:p> << {inner} ?q ?o >> }} }}")));
        out.push(("nested-in-graph", format!("SELECT * {{ GRAPH ?g {{ ?z <tag:p> << <tag:d> <tag:p> << {inner} <tag:q> ?o >> >> }} }}")));
        out.push(("nested-in-exists", format!("SELECT * {{ ?s <tag:q> ?z FILTER EXISTS {{ << {inner} <tag:q> ?o >> <tag:q> ?z }} }}")));
        out.push(("nested-in-exists", format!("SELECT * {{ ?z <tag:p> ?t FILTER NOT EXISTS {{ ?z <tag:p> << {inner} ?q ?o >> }} }}")));
        out.push(("nested-in-exists", format!("SELECT * {{ ?a <tag:p> ?c FILTER EXISTS {{ ?z <tag:p> << <tag:d> <tag:p> << {inner} <tag:q> ?o >> >> }} }}")));
        out.push(("nested-in-exists", format!("SELECT * {{ GRAPH ?g {{ ?s <tag:q> ?z FILTER EXISTS {{ << {inner} <tag:q> ?o >> <tag:q> ?z }} }} }}")));
        out.push(("nested-in-graph", format!("SELECT * {{ GRAPH ?g {{ << ?d ?p2 << {inner} ?q <tag:c> >> >> <tag:q> ?z }} }}")));
        out.push(("nested-in-exists", format!("SELECT * {{ ?s <tag:q> ?z FILTER EXISTS {{ << ?d ?p2 << {inner} ?q <tag:c> >> >> <tag:q> ?z }} }}")));
        out.push(("nested-ask", format!("ASK {{ << {inner} <tag:q> <tag:c> >> <tag:q> <tag:z5> }}")));
        out.push(("nested-ask", format!("ASK {{ << {inner} <tag:q> <tag:c> >> <tag:q> <tag:z1> }}")));
        out.push(("nested-ask", format!("ASK {{ <tag:z17> <tag:p> << <tag:d> <tag:p> {inner} >> }}")));
    }
    for q in [
        // variables bound earlier (by an ordinary triple pattern, by another quoted-triple pattern), in both orders
        "SELECT * { ?a <tag:p> ?c . << << ?a <tag:p> ?c >> <tag:q> ?o >> <tag:q> ?z }",
        "SELECT * { << << ?a <tag:p> ?c >> <tag:q> ?o >> <tag:q> ?z . ?a <tag:p> ?c }",
        "SELECT * { ?a <tag:q> ?c . << << ?a <tag:p> ?c >> <tag:q> ?o >> <tag:q> ?z }",
        "SELECT * { ?a <tag:p> ?x . ?z <tag:p> << ?d <tag:p> << << ?a ?b ?x >> <tag:q> ?o >> >> }",
        "SELECT * { ?a ?b ?c . ?z <tag:p> << << ?a ?b ?c >> <tag:q> << ?a ?b ?c >> >> }",
        "SELECT * { << ?i <tag:q> ?o >> <tag:q> ?z . ?y <tag:p> << <tag:d> <tag:p> << ?i <tag:q> ?o >> >> }",
        "SELECT * { << ?i <tag:q> ?o >> <tag:q> ?z . ?y <tag:p> << <tag:d> <tag:p> << ?i <tag:q> ?o2 >> >> . ?y <tag:p> << ?d ?p << << ?a <tag:p> ?c >> ?q ?o >> >> }",
        "SELECT * { << << ?a <tag:p> ?c >> <tag:q> ?o >> <tag:q> ?z . << << ?a <tag:q> ?c >> <tag:q> ?o >> <tag:q> ?y }",
        "SELECT * { _:s <tag:q> ?z . ?y <tag:p> << <tag:d> <tag:p> _:s >> }",
        "SELECT * { << _:i <tag:q> <tag:c> >> <tag:q> ?z . << _:i <tag:q> << ?a ?b ?c >> >> <tag:q> ?y }",
        // the whole quoted triple bound first: the nested pattern is then ground (collapsed), partially bound, or unbound
        "SELECT * { ?z <tag:p> ?t . ?t <tag:q> ?y }",
        "SELECT * { ?z <tag:p> << ?d ?p ?t >> . ?t <tag:q> ?y }",
        "SELECT * { ?t <tag:q> ?y . ?z <tag:p> << ?d ?p ?t >> }",
        "SELECT * { ?z <tag:p> << ?d <tag:p> << ?i ?q ?o >> >> . << ?i ?q ?o >> <tag:q> ?y }",
        "SELECT DISTINCT ?a ?c { { ?z <tag:p> << << ?a <tag:p> ?c >> ?q ?o >> } UNION { << << ?a <tag:q> ?c >> ?q ?o >> <tag:q> ?z } }",
        "SELECT * { { SELECT ?a ?c { ?a <tag:p> ?c } } FILTER EXISTS { << << ?a <tag:p> ?c >> <tag:q> ?o >> <tag:q> ?z } }",
        "SELECT * { ?a <tag:p> ?c FILTER NOT EXISTS { ?z <tag:p> << ?d ?p << << ?a <tag:p> ?c >> ?q ?o >> >> } }",
        "SELECT * { ?a <tag:p> ?c FILTER EXISTS { GRAPH ?g { << << ?a <tag:p> ?c >> <tag:q> ?o >> <tag:q> ?z } } }",
        "SELECT * { ?a <tag:p> ?c BIND(EXISTS { << << ?a <tag:p> ?c >> <tag:q> ?o >> <tag:q> ?z } AS ?e) }",
        "SELECT * { << << ?a ?b ?c >> ?p ?o >> <tag:q> ?z FILTER(sameTerm(?a, <tag:a>)) }",
        "SELECT * { << << ?a ?b ?c >> ?p ?o >> <tag:q> ?z } OFFSET 1 LIMIT 3",
        "ASK { << << ?a ?b ?c >> ?p ?o >> <tag:q> <tag:z9> }",
        "ASK { << << ?a <tag:p> ?c >> ?p ?o >> <tag:q> <tag:z2> }",
        "ASK { <tag:z16> <tag:p> << ?d ?p << << ?a ?b ?c >> ?q ?o >> >> }",
        "ASK { <tag:z14> <tag:p> << ?d ?p << << ?a <tag:p> ?c >> ?q ?o >> >> }",
        "ASK { <tag:z13> <tag:p> << ?d ?p << << ?a <tag:p> ?c >> ?q ?o >> >> }",
    ] { out.push(("nested-joins", q.to_string())); }
    out
}

/// Sorts of variables (which expression forms may use them, see Eval.v): a variable is "unsafe" as
/// soon as one occurrence is the object of a triple pattern whose predicate is tag:v or a variable
/// (it may then hold a decimal, a double, a dateTime, a language-tagged string, ...): such variables
/// only occur in BOUND, sameTerm and comparisons with an IRI or a string constant.
/// Triple patterns are mostly obtained by generalising triples of the dataset (so that there are
/// solutions); `wit` remembers which term each variable stood for, to build joins on purpose.
struct Gen<'a> { r: &'a mut Rng, quads: &'a [Quad4], unsafe_vars: BTreeSet<String>, upper: bool, wit: Vec<(String, T)>, bn: usize, bnwit: Vec<(String, T)>, fresh: usize,
    /// the streams `nested-*`: triple patterns keep the quoted-triple structure of the data down to depth 3 (see `nested_term`)
    nested: bool }
const VARS: &[&str] = &["s", "o", "x", "y", "z", "g", "w", "p", "q"];
fn safe_pred(p: &str) -> bool { matches!(p, "tag:p" | "tag:q" | "tag:s" | "tag:n") }
impl<'a> Gen<'a> {
    fn var(&mut self) -> String { if !self.wit.is_empty() && self.r.chance(4, 5) { self.r.pick(&self.wit).0.clone() } else { self.r.ps(VARS).to_string() } }
    fn var_for(&mut self, t: &T) -> String {
        let same: Vec<String> = self.wit.iter().filter(|(_, x)| x == t).map(|(v, _)| v.clone()).collect();
        if !same.is_empty() && self.r.chance(7, 10) { return self.r.pick(&same).clone() }
        let unused: Vec<&str> = VARS.iter().copied().filter(|v| !self.wit.iter().any(|(w, _)| w == v)).collect();
        let v = if unused.is_empty() || self.r.chance(1, 12) { self.r.ps(VARS).to_string() } else { self.r.pick(&unused).to_string() };
        self.wit.push((v.clone(), t.clone()));
        v
    }
    /// generalise the term `t` (at position `pos` of a triple whose predicate is `pred`)
    fn gen_term(&mut self, t: &T, pos: usize, pred_safe: bool, depth: usize) -> String {
        let k = self.r.below(100);
        let mut as_var = |me: &mut Self| { let v = me.var_for(t); if pos == 2 && !pred_safe { me.unsafe_vars.insert(v.clone()); } format!("?{v}") };
        if pos == 1 { return if k < 85 { t.sparql(self.upper) } else { let v = self.var_for(t); format!("?{v}") } }
        if k < 45 { return as_var(self) }
        if k < 72 && !has_bnode(t) { return t.sparql(self.upper) }
        if k < 84 {
            if self.r.chance(1, 4) { return "[]".into() }
            let same: Vec<String> = self.bnwit.iter().filter(|(_, x)| x == t).map(|(v, _)| v.clone()).collect();
            if !same.is_empty() && self.r.chance(2, 3) { return format!("_:{}", self.r.pick(&same)) }
            self.bn += 1; let l = format!("b{}", self.bn); self.bnwit.push((l.clone(), t.clone()));
            return format!("_:{l}")
        }
        if let T::Tr(b) = t { if depth < 2 {
            let ps = match &b[1] { T::Iri(p) => safe_pred(p), _ => false };
            let p = self.gen_term(&b[1], 1, true, depth + 1);
            let inner_safe = ps && !p.starts_with('?');
            let s = self.gen_term(&b[0], 0, true, depth + 1);
            let o = self.gen_term(&b[2], 2, inner_safe, depth + 1);
            return format!("<< {s} {p} {o} >>")
        } }
        as_var(self)
    }
    fn triple_pat(&mut self, graph: &Option<T>) -> String {
        let cands: Vec<&Quad4> = self.quads.iter().filter(|q| &q.3 == graph).collect();
        if cands.is_empty() || self.r.chance(1, 10) {
            // a pattern that is not derived from the data
            let (s, o) = (self.var(), self.var());
            let p = self.r.ps(PREDS);
            if !safe_pred(p) { self.unsafe_vars.insert(o.clone()); }
            return format!("?{s} <{p}> ?{o}")
        }
        if self.nested { return self.nested_triple_pat(&cands) }
        let q = (*self.r.pick(&cands)).clone();
        let ps = match &q.1 { T::Iri(p) => safe_pred(p), _ => false };
        let p = self.gen_term(&q.1, 1, true, 0);
        let pred_safe = ps && !p.starts_with('?');
        let s = self.gen_term(&q.0, 0, true, 0);
        let o = self.gen_term(&q.2, 2, pred_safe, 0);
        format!("{s} {p} {o}")
    }
    /// (streams `nested-*`) a triple pattern generalised from a quad whose subject or object is, mostly, a quoted triple of
    /// depth 2 or 3
    fn nested_triple_pat(&mut self, cands: &[&Quad4]) -> String {
        let deep: Vec<&Quad4> = cands.iter().copied().filter(|q| tdepth(&q.0).max(tdepth(&q.2)) >= 2).collect();
        let q = if !deep.is_empty() && self.r.chance(4, 5) { (*self.r.pick(&deep)).clone() } else { (*self.r.pick(cands)).clone() };
        let ps = match &q.1 { T::Iri(p) => safe_pred(p), _ => false };
        let p = if self.r.chance(9, 10) { q.1.sparql(self.upper) } else { let v = self.var_for(&q.1); format!("?{v}") };
        let pred_safe = ps && !p.starts_with('?');
        // the side that is written first gets the first occurrence of a repeated variable / blank node label
        if self.r.chance(1, 2) { let s = self.nested_term(&q.0, 0, true, 0); let o = self.nested_term(&q.2, 2, pred_safe, 0); format!("{s} {p} {o}") }
        else { let o = self.nested_term(&q.2, 2, pred_safe, 0); let s = self.nested_term(&q.0, 0, true, 0); format!("{s} {p} {o}") }
    }
    /// (streams `nested-*`) generalise the term `t` KEEPING its quoted-triple structure down to depth 3: a quoted triple mostly
    /// becomes a quoted-triple pattern whose components are generalised in turn, so that the inner patterns are NOT ground;
    /// the leaves are constants (now and then one that is not the data's), fresh / repeated / already bound variables (the
    /// witness table `wit` is shared by the whole query, so a variable bound by an earlier triple pattern or by the group
    /// around an EXISTS comes back), blank node placeholders (`[]`, fresh and repeated labels) -- and now and then a
    /// quoted-triple pattern where the data has an atom
    fn nested_term(&mut self, t: &T, pos: usize, pred_safe: bool, depth: usize) -> String {
        let as_var = |me: &mut Self| { let v = me.var_for(t); if pos == 2 && !pred_safe { me.unsafe_vars.insert(v.clone()); } format!("?{v}") };
        if pos == 1 {
            let k = self.r.below(100);
            return if k < 66 { t.sparql(self.upper) } else if k < 74 { format!("<{}>", self.r.ps(&["tag:p", "tag:q", "tag:n"])) } else { let v = self.var_for(t); format!("?{v}") }
        }
        if let T::Tr(b) = t {
            let k = self.r.below(100);
            if depth < 3 && k < 82 {
                let ps = match &b[1] { T::Iri(p) => safe_pred(p), _ => false };
                let p = self.nested_term(&b[1], 1, true, depth + 1);
                let inner_safe = ps && !p.starts_with('?');
                let (s, o) = if self.r.chance(1, 2) { let s = self.nested_term(&b[0], 0, true, depth + 1); let o = self.nested_term(&b[2], 2, inner_safe, depth + 1); (s, o) }
                             else { let o = self.nested_term(&b[2], 2, inner_safe, depth + 1); let s = self.nested_term(&b[0], 0, true, depth + 1); (s, o) };
                return format!("<< {s} {p} {o} >>")
            }
            if k < 88 && !has_bnode(t) { return t.sparql(self.upper) }      // a ground quoted-triple pattern
        }
        let k = self.r.below(100);
        if k < 32 { return as_var(self) }
        if k < 58 && !has_bnode(t) && !matches!(t, T::Tr(_)) { return t.sparql(self.upper) }
        if k < 64 { return format!("<{}>", self.r.ps(&["tag:a", "tag:b", "tag:c", "tag:d", "tag:zz"])) }      // a constant that need not be the data's
        if k < 70 && depth < 3 && (pos == 0 || pred_safe) {                     // a quoted-triple pattern where the data has (mostly) an atom
            let (a, c) = (self.var(), self.var());
            return format!("<< ?{a} {} ?{c} >>", self.r.ps(&["<tag:p>", "<tag:q>", "?p"]))
        }
        if k < 88 {
            if self.r.chance(1, 5) { return "[]".into() }
            let same: Vec<String> = self.bnwit.iter().filter(|(_, x)| x == t).map(|(v, _)| v.clone()).collect();
            if !same.is_empty() && self.r.chance(2, 3) { return format!("_:{}", self.r.pick(&same)) }
            if !self.bnwit.is_empty() && self.r.chance(1, 8) { return format!("_:{}", self.r.pick(&self.bnwit).0) }      // a label repeated over (mostly) different terms
            self.bn += 1; let l = format!("b{}", self.bn); self.bnwit.push((l.clone(), t.clone()));
            return format!("_:{l}")
        }
        as_var(self)
    }
    /// the stream `nested-bgp`: a BGP of 1..3 such triple patterns -- alone, inside GRAPH (constant or variable name), inside
    /// [NOT] EXISTS under a BGP that binds some of its variables, in a UNION, in a sub-select, under FILTER / BIND
    fn nested_query(&mut self) -> String {
        let names: Vec<T> = self.quads.iter().filter_map(|q| q.3.clone()).collect::<BTreeSet<_>>().into_iter().collect();
        let graph: Option<T> = if !names.is_empty() && self.r.chance(2, 5) { Some(self.r.pick(&names).clone()) } else { None };
        let mut bgp = |me: &mut Self, sizes: &[usize]| -> String { let n = *me.r.pick(sizes); me.bnwit.clear(); (0..n).map(|_| me.triple_pat(&graph)).collect::<Vec<_>>().join(" . ") };
        let first = bgp(self, &[1, 1, 1, 2, 2, 3]);
        let mut body = match self.r.below(12) {
            0..=4 => first,
            5 | 6 | 7 => { let inner = bgp(self, &[1, 1, 2]); format!("{first} FILTER {}EXISTS {{ {inner} }}", self.r.ps(&["", "", "NOT "])) }
            8 => { let second = bgp(self, &[1, 1, 2]); format!("{{ {first} }} UNION {{ {second} }}") }
            9 => format!("{{ SELECT {}* WHERE {{ {first} }} }}", self.r.ps(&["", "DISTINCT "])),
            10 => { let (v, w) = (self.var(), self.var()); match self.r.below(3) { 0 => format!("{first} FILTER(BOUND(?{v}))"), 1 => format!("{first} FILTER({}sameTerm(?{v}, ?{w}))", self.r.ps(&["", "!"])), _ => format!("{first} FILTER(!BOUND(?{v}) || sameTerm(?{w}, ?{w}))") } }
            _ => { let v = self.var(); self.fresh += 1; format!("{first} BIND(?{v} AS ?k{})", self.fresh) }
        };
        if let Some(n) = &graph { body = if has_bnode(n) || self.r.chance(1, 2) { let v = if self.r.chance(1, 2) { "g".to_string() } else { self.var_for(n) }; format!("GRAPH ?{v} {{ {body} }}") } else { format!("GRAPH {} {{ {body} }}", n.sparql(false)) } }
        if self.r.chance(1, 6) { return format!("ASK {{ {body} }}") }
        let proj = if self.r.chance(2, 3) { "*".to_string() } else { (0..self.r.range(1, 3)).map(|_| format!("?{}", self.var())).collect::<BTreeSet<_>>().into_iter().collect::<Vec<_>>().join(" ") };
        format!("SELECT {}{proj} WHERE {{ {body} }}", if self.r.chance(1, 5) { "DISTINCT " } else { "" })
    }
    fn bgp(&mut self, graph: &Option<T>) -> String {
        let n = *self.r.pick(&[0usize, 1, 1, 1, 2, 2, 2, 3, 4]);
        self.bnwit.clear();
        (0..n).map(|_| self.triple_pat(graph)).collect::<Vec<_>>().join(" . ")
    }
    fn int_const(&mut self) -> String { self.r.ps(&["0", "1", "2", "3", "5", "-4", "9223372036854775807", "99999999999999999999"]).to_string() }
    /// an expression over variable `v` (and constants), by the sort of `v`
    fn atom_expr(&mut self, v: &str) -> String {
        let safe = !self.unsafe_vars.contains(v);
        let k = self.r.below(100);
        if k < 4 { return format!("?{v}") }            // effective boolean value of whatever ?v is bound to (type error for IRIs etc.)
        if k < 12 { return format!("BOUND(?{v})") }
        if k < 18 { return format!("!BOUND(?{v})") }
        if k < 30 {
            let t = match self.wit.iter().find(|(w, _)| w == v) { Some((_, t)) if self.r.chance(1, 2) => t.clone(), _ => self.r.pick(&resources()).clone() };
            if !has_bnode(&t) && !matches!(t, T::Tr(_)) { return format!("sameTerm(?{v}, {})", t.sparql(self.upper)) }
        }
        if k < 38 { return format!("?{v} = <{}>", self.r.ps(&["tag:a", "tag:b", "tag:g1", "tag:p"])) }
        if k < 46 { return format!("?{v} {} \"{}\"", self.r.ps(&["=", "!=", "<", ">="]), self.r.ps(&["a", "b", ""])) }
        if !safe { return format!("sameTerm(?{v}, ?{})", self.var()) }
        let op = self.r.ps(&["<", "<=", ">", ">=", "=", "!="]);
        if k < 75 { return format!("?{v} {op} {}", self.int_const()) }
        if k < 85 { let w = self.var(); if !self.unsafe_vars.contains(&w) { return format!("?{v} {op} ?{w}") } }
        if k < 91 { return format!("{} {op} {}", self.arith(v), self.int_const()) }
        if k < 97 { // computed operands on both sides: integers that leave the isize range and come back
            let w = self.var(); let rhs = if self.unsafe_vars.contains(&w) || self.r.chance(1, 2) { self.int_const() } else if self.r.chance(1, 2) { format!("?{w}") } else { self.round_trip(&w) };
            let lhs = self.round_trip(v);
            return if self.r.chance(1, 2) { format!("{lhs} {op} {rhs}") } else { format!("{rhs} {op} {lhs}") }
        }
        format!("?{v} {op} {}", self.int_const())
    }
    /// an arithmetic expression over ?v whose intermediate results leave the isize range and whose value is back inside
    /// it whenever ?v is an ordinary integer (the value is ?v, -?v, |?v|, 0 or ?v + small)
    fn round_trip(&mut self, v: &str) -> String {
        let big = self.r.ps(&["9223372036854775807", "9223372036854775808", "18446744073709551616", "99999999999999999999", "1000000000000000000000000000000"]);
        match self.r.below(9) {
            0 => format!("((?{v} + {big}) - {big})"), 1 => format!("((?{v} - {big}) + {big})"), 2 => format!("(({big} + ?{v}) - {big})"),
            3 => format!("(({big} * 0) + ?{v})"), 4 => format!("(-((-?{v}) - {big}) - {big})"), 5 => format!("(ABS(?{v} - {big}) - {big})"),
            6 => format!("(({big} - ?{v}) - {big})"), 7 => format!("(({big} + {}) - {big})", self.r.ps(&["0", "1", "3", "5", "-4"])),
            _ => format!("(-(-(?{v} - 9223372036854775807 - 2)) + 9223372036854775807 + 2)"),
        }
    }
    fn arith(&mut self, v: &str) -> String {
        match self.r.below(6) { 0 => format!("?{v} + {}", self.int_const()), 1 => format!("?{v} - {}", self.int_const()), 2 => format!("?{v} * {}", self.r.ps(&["0", "2", "-1"])),
            3 => format!("-?{v}"), 4 => format!("ABS(?{v})"), _ => format!("+?{v}") }
    }
    /// the variables the query mentions so far (those of the enclosing groups, seen from inside an EXISTS group)
    fn known_vars(&self) -> Vec<String> { self.wit.iter().map(|(v, _)| v.clone()).collect::<BTreeSet<_>>().into_iter().collect() }
    /// a variable of the ENCLOSING group (mostly bound there; sometimes one that is bound nowhere)
    fn outer_var(&mut self, outer: &[String]) -> String {
        // mostly a variable that stands for a term of the data (so that the solution it was generalised from binds it)
        let witnessed: Vec<String> = self.wit.iter().filter(|(v, t)| *t != ti("tag:none") && outer.contains(v)).map(|(v, _)| v.clone()).collect();
        if !witnessed.is_empty() && self.r.chance(3, 4) { return self.r.pick(&witnessed).clone() }
        if outer.is_empty() || self.r.chance(1, 8) { self.r.ps(VARS).to_string() } else { self.r.pick(outer).clone() }
    }
    /// an expression that refers to the outer variable `ov` (and possibly to variables of the group it is written in);
    /// about half of them are true in the solution the query was generalised from
    fn correlated_expr(&mut self, ov: &str, outer: &[String]) -> String {
        let witness = self.wit.iter().find(|(w, t)| w == ov && !has_bnode(t) && !matches!(t, T::Tr(_)) && *t != ti("tag:none")).map(|(_, t)| t.clone());
        match self.r.below(16) {
            0 | 1 | 2 => self.atom_expr(ov),
            3 => { let w = self.var(); let op = self.r.ps(&["<", "<=", ">", ">=", "=", "!="]); if self.r.chance(1, 2) { format!("?{w} {op} ?{ov}") } else { format!("?{ov} {op} ?{w}") } }
            4 => { let w = self.var(); format!("{}sameTerm(?{ov}, ?{w})", self.r.ps(&["", "!"])) }
            5 => { let o2 = self.outer_var(outer); let (a, b) = (self.atom_expr(ov), self.atom_expr(&o2)); format!("({a}) {} ({b})", self.r.ps(&["||", "&&"])) }
            6 | 7 => format!("{}BOUND(?{ov})", self.r.ps(&["", "", "!"])),
            8 => format!("{}(?{ov}, ?{ov})", self.r.ps(&["sameTerm", "!sameTerm"])),
            9 if !self.unsafe_vars.contains(ov) => format!("?{ov} {} ?{ov}", self.r.ps(&["=", "<=", "!=", "<"])),
            _ => match witness { Some(t) => { let t = t.sparql(self.upper); match self.r.below(5) { 0 | 1 => format!("?{ov} = {t}"), 2 => format!("sameTerm(?{ov}, {t})"), 3 => format!("?{ov} != {t}"), _ => format!("!sameTerm(?{ov}, {t})") } }
                                 None => format!("?{ov} {} {}", self.r.ps(&["=", "!=", "<", ">="]), self.int_const()) },
        }
    }
    /// The body of an EXISTS group, evaluated on `graph`.  Besides its triple patterns (which share variables with the
    /// enclosing group through `wit`) it has FILTERs, BINDs, nested EXISTS and GRAPH that refer to variables of the
    /// ENCLOSING groups which need not occur in any triple pattern of the group: 18.6 substitutes them everywhere.
    /// Never an operator outside the supported fragment (no join of groups): a group is `bgp [BIND] [FILTER]*`,
    /// `GRAPH n { group }`, `{ group } UNION { group }`, each possibly followed by FILTERs.
    fn exists_group(&mut self, depth: usize, graph: &Option<T>) -> String {
        let outer = self.known_vars();
        let ov = self.outer_var(&outer);
        if self.r.chance(1, 2) {
            // a FOCUSED group: a few triple patterns generalised from the data (sharing variables with the enclosing group, so
            // that the solution the query was generalised from satisfies them) and ONE operator that reads an outer variable
            // and is true in that solution -- the answer then depends on the outer variable reaching that operator
            let witness = self.wit.iter().find(|(w, t)| *w == ov && !has_bnode(t) && !matches!(t, T::Tr(_)) && *t != ti("tag:none")).map(|(_, t)| t.sparql(self.upper));
            let truth = |me: &mut Self, v: &str| -> String { match (&witness, me.r.below(6)) {
                (Some(t), 0 | 1) => format!("?{v} = {t}"), (Some(t), 2) => format!("sameTerm(?{v}, {t})"), (_, 3) => format!("BOUND(?{v})"), (_, 4) => format!("sameTerm(?{v}, ?{v})"),
                (Some(t), _) => format!("!(?{v} != {t})"), (None, _) => format!("BOUND(?{v}) || !BOUND(?{v})") } };
            let n = *self.r.pick(&[0usize, 1, 1, 1, 2]);
            self.bnwit.clear();
            let bgp = (0..n).map(|_| self.triple_pat(graph)).collect::<Vec<_>>().join(" . ");
            return match self.r.below(if depth < 2 { 7 } else { 5 }) {
                0 | 1 | 2 => { let t = truth(self, &ov); format!("{bgp} FILTER({t})") }
                3 => { self.fresh += 1; let k = format!("ek{}", self.fresh); if self.unsafe_vars.contains(&ov) { self.unsafe_vars.insert(k.clone()); } let t = truth(self, &k); format!("{bgp} BIND(?{ov} AS ?{k}) FILTER({t})") }
                4 => { self.fresh += 1; let k = format!("ek{}", self.fresh); let t = truth(self, &ov); format!("{bgp} BIND({t} AS ?{k}) FILTER(?{k})") }
                5 => { let t = truth(self, &ov); let inner = if self.r.chance(1, 2) { self.triple_pat(graph) } else { String::new() }; format!("{bgp} FILTER EXISTS {{ {inner} FILTER({t}) }}") }
                _ => { let t = truth(self, &ov); format!("{bgp} FILTER NOT EXISTS {{ FILTER(!({t})) }}") }
            };
        }
        let names: Vec<T> = self.quads.iter().filter_map(|q| q.3.clone()).collect::<BTreeSet<_>>().into_iter().collect();
        let k = self.r.below(100);
        let mut body = if depth >= 2 || k < 55 {
            // triple patterns: none (the group is then decided by the outer variables alone), or a few
            if self.r.chance(1, 6) { String::new() } else {
                let n = *self.r.pick(&[1usize, 1, 1, 2, 2, 3]);
                self.bnwit.clear();
                (0..n).map(|_| if self.r.chance(1, 5) { let (p, w) = (self.r.ps(&["tag:p", "tag:q", "tag:n", "tag:s"]), self.var());
                        if self.r.chance(1, 2) { format!("?{ov} <{p}> ?{w}") } else { format!("?{w} <{p}> ?{ov}") } } else { self.triple_pat(graph) }).collect::<Vec<_>>().join(" . ")
            }
        } else if k < 75 {
            match self.r.below(8) {
                // the name of the graph is an outer variable (bound outside to a graph name, to something else, or unbound)
                0 | 1 => { let inner_graph = match self.wit.iter().find(|(w, _)| *w == ov) { Some((_, t)) if names.contains(t) => Some(t.clone()), _ => Some(ti("tag:g1")) }; format!("GRAPH ?{ov} {{ {} }}", self.exists_group(depth + 1, &inner_graph)) }
                2 | 3 if !names.is_empty() => { let n = self.r.pick(&names).clone(); let v = self.var_for(&n); format!("GRAPH ?{v} {{ {} }}", self.exists_group(depth + 1, &Some(n))) }
                4 | 5 => { let n = if names.is_empty() || self.r.chance(1, 4) { ti(self.r.ps(&["tag:g1", "tag:g2", "tag:absent"])) } else { self.r.pick(&names).clone() };
                           let n = if has_bnode(&n) { ti("tag:g1") } else { n }; format!("GRAPH {} {{ {} }}", n.sparql(false), self.exists_group(depth + 1, &Some(n.clone()))) }
                _ => format!("GRAPH ?exg {{ {} }}", self.exists_group(depth + 1, &Some(ti("tag:g1")))),
            }
        } else if k < 90 { format!("{{ {} }} UNION {{ {} }}", self.exists_group(depth + 1, graph), self.exists_group(depth + 1, graph)) }
        else { format!("{{ {} }}", self.exists_group(depth + 1, graph)) };
        // BIND over an outer variable, to a fresh variable, then tested
        if self.r.chance(1, 4) {
            self.fresh += 1; let t = format!("ek{}", self.fresh);
            let safe = !self.unsafe_vars.contains(&ov);
            let e = match self.r.below(5) { 0 | 1 if safe => self.arith(&ov), 2 => format!("?{ov}"), 3 => format!("BOUND(?{ov})"), _ => if safe { format!("?{ov} < {}", self.int_const()) } else { format!("sameTerm(?{ov}, ?{})", self.var()) } };
            if e == format!("?{ov}") && !safe { self.unsafe_vars.insert(t.clone()); }
            body = format!("{body} BIND({e} AS ?{t})");
            if self.r.chance(3, 4) { let f = self.atom_expr(&t); body = format!("{body} FILTER({f})"); }
        }
        if self.r.chance(3, 5) { let e = self.correlated_expr(&ov, &outer); body = format!("{body} FILTER({e})"); }
        // a nested EXISTS: its group sees the variables of BOTH enclosing groups
        if depth < 2 && self.r.chance(1, 4) { let inner = self.exists_group(depth + 1, graph); body = format!("{body} FILTER {}EXISTS {{ {inner} }}", self.r.ps(&["", "NOT "])); }
        if self.r.chance(1, 8) { let o2 = self.outer_var(&outer); let e = self.correlated_expr(&o2, &outer); body = format!("{body} FILTER({e})"); }
        body
    }
    fn filter_expr(&mut self, graph: &Option<T>) -> String {
        let v = self.var();
        if self.r.chance(1, 6) { // EXISTS / NOT EXISTS over a GROUP (FILTER, BIND, nested EXISTS, GRAPH inside), alone or under a connective
            let g = self.exists_group(0, graph);
            let e = format!("{}EXISTS {{ {g} }}", self.r.ps(&["", "NOT "]));
            return match self.r.below(6) { 0 => { let a = self.atom_expr(&v); format!("({a}) {} {e}", self.r.ps(&["||", "&&"])) } 1 => format!("!({e})"), _ => e };
        }
        match self.r.below(10) {
            0 => { let w = self.var(); format!("BOUND(?{v}) {} {}BOUND(?{w})", self.r.ps(&["||", "&&"]), self.r.ps(&["", "!"])) }
            1 => format!("!({})", self.atom_expr(&v)),
            // operands that may raise a type error (IRI < number, unbound variable): section 17.2 three-valued logic
            2 | 3 => { let w = self.var(); let (a, b) = (self.atom_expr(&v), self.atom_expr(&w)); format!("({a}) {} ({b})", self.r.ps(&["||", "&&"])) }
            4 => { // EXISTS / NOT EXISTS over a small pattern mentioning the variable; the ACTIVE graph matters
                let pat = match self.r.below(7) {
                    0 => format!("?{v} <tag:p> ?ex1"), 1 => format!("?ex1 ?ex2 ?{v}"), 2 => format!("<tag:a> <tag:p> ?{v}"), 3 => format!("?{v} ?ex1 ?ex2 . ?ex2 <tag:p> ?ex3"),
                    4 => format!("GRAPH <tag:g1> {{ ?{v} ?ex1 ?ex2 }}"), 5 => format!("GRAPH ?exg {{ ?{v} <tag:p> ?ex2 }}"), _ => format!("{{ ?{v} <tag:p> ?ex1 }} UNION {{ ?ex1 <tag:q> ?{v} }}") };
                format!("{}EXISTS {{ {pat} }}", self.r.ps(&["", "NOT "])) }
            _ => self.atom_expr(&v),
        }
    }
    fn bind_expr(&mut self, target: &str, graph: &Option<T>) -> String {
        let v = self.var();
        let safe = !self.unsafe_vars.contains(&v);
        if self.r.chance(1, 10) { let g = self.exists_group(0, graph); return format!("{}EXISTS {{ {g} }}", self.r.ps(&["", "NOT "])) }
        match self.r.below(8) {
            0 => self.int_const(),
            1 => format!("<{}>", self.r.ps(&["tag:a", "tag:g1"])),
            2 => { if !safe { self.unsafe_vars.insert(target.to_string()); } format!("?{v}") }
            3 | 4 if safe => self.arith(&v),
            5 if safe => format!("?{v} < {}", self.int_const()),
            6 => format!("BOUND(?{v})"),
            _ => format!("\"{}\"", self.r.ps(&["a", ""])),
        }
    }
    fn bind_target(&mut self) -> String {
        // mostly a fresh variable (BIND may not reuse a variable of its group); sometimes the graph variable
        if self.r.chance(1, 10) { return self.r.ps(&["g", "w"]).to_string() }
        self.fresh += 1; format!("k{}", self.fresh)
    }
    /// a group graph pattern body, evaluated on `graph`
    fn group(&mut self, depth: usize, graph: &Option<T>) -> String {
        let k = self.r.below(100);
        let names: Vec<T> = self.quads.iter().filter_map(|q| q.3.clone()).collect::<BTreeSet<_>>().into_iter().collect();
        let mut body = if depth >= 3 || k < 45 { self.bgp(graph) }
        else if k < 60 { format!("{{ {} }} UNION {{ {} }}", self.group(depth + 1, graph), self.group(depth + 1, graph)) }
        else if k < 80 {
            match self.r.below(10) {
                0..=4 if !names.is_empty() => {
                    let n = self.r.pick(&names).clone();
                    let v = if self.r.chance(2, 3) { "g".to_string() } else { self.var_for(&n) };
                    if !self.wit.iter().any(|(w, _)| *w == v) { self.wit.push((v.clone(), n.clone())); }
                    format!("GRAPH ?{v} {{ {} }}", self.group(depth + 1, &Some(n)))
                }
                0..=6 => { let v = self.var(); format!("GRAPH ?{v} {{ {} }}", self.group(depth + 1, &Some(ti("tag:g1")))) }
                7 | 8 => { let n = if names.is_empty() || self.r.chance(1, 4) { ti(self.r.ps(&["tag:g1", "tag:g2"])) } else { self.r.pick(&names).clone() };
                           if has_bnode(&n) { format!("GRAPH <tag:g1> {{ {} }}", self.group(depth + 1, &Some(ti("tag:g1")))) } else { format!("GRAPH {} {{ {} }}", n.sparql(false), self.group(depth + 1, &Some(n.clone()))) } }
                _ => format!("GRAPH <tag:absent> {{ {} }}", self.group(depth + 1, graph)),
            }
        } else if k < 92 {
            // sub-select
            let inner = self.group(depth + 1, graph);
            let proj = if self.r.chance(1, 4) { "*".to_string() } else { (0..self.r.range(1, 3)).map(|_| format!("?{}", self.var())).collect::<BTreeSet<_>>().into_iter().collect::<Vec<_>>().join(" ") };
            let tail = if self.r.chance(1, 12) { format!(" LIMIT {}", self.r.below(3)) } else { String::new() };
            format!("{{ SELECT {}{proj} WHERE {{ {inner} }}{tail} }}", if self.r.chance(1, 3) { "DISTINCT " } else { "" })
        } else { format!("{{ {} }}", self.group(depth + 1, graph)) };
        if self.r.chance(3, 10) { let e = self.filter_expr(graph); body = format!("{body} FILTER({e})"); }
        if self.r.chance(1, 5) { let t = self.bind_target(); let e = self.bind_expr(&t, graph); body = format!("{body} BIND({e} AS ?{t})"); self.wit.push((t, ti("tag:none"))); }
        if self.r.chance(1, 12) { let e = self.filter_expr(graph); body = format!("{body} FILTER({e})"); }
        body
    }
    /// the stream `random-exists`: a plain BGP (in the default graph or inside GRAPH) whose solutions are tested by ONE
    /// [NOT] EXISTS over a group -- in FILTER, under a connective, in BIND or in a SELECT expression
    fn exists_query(&mut self) -> String {
        let names: Vec<T> = self.quads.iter().filter_map(|q| q.3.clone()).collect::<BTreeSet<_>>().into_iter().collect();
        let graph: Option<T> = if !names.is_empty() && self.r.chance(1, 3) { Some(self.r.pick(&names).clone()) } else { None };
        let n = *self.r.pick(&[1usize, 1, 2, 2, 3]);
        self.bnwit.clear();
        let bgp = (0..n).map(|_| self.triple_pat(&graph)).collect::<Vec<_>>().join(" . ");
        let g = self.exists_group(0, &graph);
        let e = format!("{}EXISTS {{ {g} }}", self.r.ps(&["", "NOT "]));
        let (mut body, mut proj) = (String::new(), "*".to_string());
        match self.r.below(8) {
            0 => { let v = self.var(); let a = self.atom_expr(&v); body = format!("{bgp} FILTER(({a}) {} {e})", self.r.ps(&["||", "&&"])) }
            1 => body = format!("{bgp} BIND({e} AS ?k1)"),
            2 => { body = bgp.clone(); let vs: BTreeSet<String> = (0..self.r.range(1, 3)).map(|_| format!("?{}", self.var())).collect(); proj = format!("{} ({e} AS ?kk)", vs.into_iter().collect::<Vec<_>>().join(" ")) }
            _ => body = format!("{bgp} FILTER({e})"),
        }
        if let Some(n) = &graph { body = if has_bnode(n) || self.r.chance(1, 2) { let v = self.var_for(n); format!("GRAPH ?{v} {{ {body} }}") } else { format!("GRAPH {} {{ {body} }}", n.sparql(false)) } }
        if self.r.chance(1, 6) { format!("ASK {{ {body} }}") } else { format!("SELECT {}{proj} WHERE {{ {body} }}", if self.r.chance(1, 5) { "DISTINCT " } else { "" }) }
    }
    // ---------- stream `fresh`: BNODE in BIND / SELECT expressions over patterns with several solutions ----------
    /// an expression that creates a blank node (alone, carried by TRIPLE / IF / COALESCE, or tested on the spot); every BNODE
    /// argument is a string constant of its own, or -- once per query -- a variable
    fn fresh_expr(&mut self) -> String {
        let v = self.var();
        let call = |me: &mut Self| -> String { match me.r.below(6) { 0 | 1 | 2 => "BNODE()".to_string(), 3 | 4 => { me.fresh += 1; format!("BNODE(\"s{}\")", me.fresh) } _ => if !me.unsafe_vars.insert("\u{0}BNODE(?v) written".to_string()) { "BNODE()".to_string() } else { format!("BNODE(?{})", me.var()) } } };
        match self.r.below(16) {
            0..=5 => call(self),
            6 => format!("TRIPLE({}, <tag:q>, 1)", call(self)),
            7 => format!("TRIPLE(<tag:a>, <tag:p>, {})", call(self)),
            8 => format!("TRIPLE({}, <tag:p>, {})", call(self), call(self)),
            9 => format!("IF(true, {}, 1)", call(self)),
            10 => format!("IF(BOUND(?{v}), {}, <tag:a>)", call(self)),
            11 => format!("COALESCE(?unbound, {})", call(self)),
            12 => format!("COALESCE({}, 1)", call(self)),
            13 => format!("IF(isBlank(?{v}), ?{v}, {})", call(self)),
            14 => format!("isBlank({})", call(self)),
            _ => format!("sameTerm({}, {})", call(self), call(self)),
        }
    }
    fn fresh_query(&mut self) -> String {
        let names: Vec<T> = self.quads.iter().filter_map(|q| q.3.clone()).collect::<BTreeSet<_>>().into_iter().collect();
        let graph: Option<T> = if !names.is_empty() && self.r.chance(1, 4) { Some(self.r.pick(&names).clone()) } else { None };
        let mut bgp = |me: &mut Self| -> String { let n = *me.r.pick(&[1usize, 1, 1, 2]); me.bnwit.clear(); (0..n).map(|_| if me.r.chance(3, 5) { let (s, o) = (me.r.ps(VARS), me.r.ps(VARS)); format!("?{s} {} ?{o}", me.r.ps(&["<tag:p>", "<tag:p>", "<tag:q>", "<tag:n>", "?p"])) } else { me.triple_pat(&graph) }).collect::<Vec<_>>().join(" . ") };
        let first = bgp(self);
        let mut ks: Vec<String> = vec![];
        let mut bind = |me: &mut Self, ks: &mut Vec<String>| -> String { me.fresh += 1; let k = format!("k{}", me.fresh); let e = me.fresh_expr(); ks.push(k.clone()); format!(" BIND({e} AS ?{k})") };
        let mut body = first.clone();
        let shape = self.r.below(12);
        match shape {
            0..=4 => { body.push_str(&bind(self, &mut ks)); }
            5 => { body.push_str(&bind(self, &mut ks)); body.push_str(&bind(self, &mut ks)); }
            6 => { let b1 = bind(self, &mut ks); let second = bgp(self); let k = ks[0].clone(); let e = self.fresh_expr(); body = format!("{{ {first}{b1} }} UNION {{ {second} BIND({e} AS ?{k}) }}"); }
            7 => { let e = self.fresh_expr(); self.fresh += 1; let k = format!("k{}", self.fresh); ks.push(k.clone()); let v = self.var(); body = format!("{{ SELECT {}?{v} ({e} AS ?{k}) WHERE {{ {first} }} }}", self.r.ps(&["", "DISTINCT "])); if self.r.chance(1, 2) { body.push_str(&bind(self, &mut ks)); } }
            8 => { body.push_str(&bind(self, &mut ks)); let k = ks[0].clone(); self.fresh += 1; let k2 = format!("k{}", self.fresh); let e = match self.r.below(4) { 0 => format!("?{k}"), 1 => format!("isBlank(?{k})"), 2 => format!("sameTerm(?{k}, ?{k})"), _ => format!("TRIPLE(?{k}, <tag:p>, ?{k})") }; ks.push(k2.clone()); body.push_str(&format!(" BIND({e} AS ?{k2})")); }
            9 => { body.push_str(&bind(self, &mut ks)); let k = ks[0].clone(); let v = self.var(); let f = match self.r.below(5) { 0 => format!("isBlank(?{k})"), 1 => format!("!sameTerm(?{k}, ?{v})"), 2 => format!("BOUND(?{k})"), 3 => format!("EXISTS {{ ?ex1 ?ex2 ?{k} }}"), _ => format!("NOT EXISTS {{ ?{k} ?ex2 ?ex3 }}") }; body.push_str(&format!(" FILTER({f})")); }
            _ => {}
        }
        if let Some(n) = &graph { body = if has_bnode(n) || self.r.chance(1, 2) { format!("GRAPH ?g {{ {body} }}") } else { format!("GRAPH {} {{ {body} }}", n.sparql(false)) } }
        if self.r.chance(1, 10) { return format!("ASK {{ {body} }}") }
        let distinct = if self.r.chance(2, 5) { "DISTINCT " } else { "" };
        let mut proj: Vec<String> = vec![];
        for k in &ks { if self.r.chance(4, 5) { proj.push(format!("?{k}")) } }
        for _ in 0..self.r.below(3) { proj.push(format!("?{}", self.var())) }
        let proj: Vec<String> = proj.into_iter().collect::<BTreeSet<_>>().into_iter().collect();
        let mut head = if (proj.is_empty() || self.r.chance(1, 4)) && shape < 10 { "*".to_string() } else { proj.join(" ") };
        if head != "*" && (shape >= 10 || self.r.chance(1, 4)) { let e = self.fresh_expr(); head = format!("{head} ({e} AS ?kk)"); if self.r.chance(1, 3) { let e = self.fresh_expr(); head = format!("{head} ({e} AS ?kk2)"); } }
        if head.trim().is_empty() || head.starts_with(" (") { let e = self.fresh_expr(); head = format!("({e} AS ?kk)"); }
        let mut q = format!("SELECT {distinct}{head} WHERE {{ {body} }}");
        if self.r.chance(1, 6) { if self.r.chance(1, 2) { q.push_str(&format!(" OFFSET {}", self.r.below(3))); } q.push_str(&format!(" LIMIT {}", 1 + self.r.below(4))); }
        q
    }
    // ---------- stream `slice-sweep`: OFFSET / LIMIT windows over BGPs most of whose candidate triples are rejected ----------
    /// a triple pattern in which a variable / a blank node placeholder that is (mostly) still unbound occurs twice -- also inside
    /// a quoted-triple pattern -- so that the dataset hands over candidates which the binding phase rejects
    fn loopy_pat(&mut self) -> String {
        let x = if self.r.chance(1, 3) { self.var() } else { self.r.ps(&["x", "y", "s"]).to_string() };
        let p = self.r.ps(&["<tag:p>", "<tag:p>", "<tag:q>"]);
        let q = self.r.ps(&["<tag:q>", "<tag:p>", "?q"]);
        self.bn += 1; let b = format!("b{}", self.bn);
        match self.r.below(14) {
            0 | 1 | 2 => format!("?{x} {p} ?{x}"),
            3 => format!("?{x} ?p ?{x}"),
            4 | 5 => format!("_:{b} {p} _:{b}"),
            6 => format!("?s ?{x} ?{x}"),
            7 => format!("<< ?{x} {p} ?{x} >> {q} ?o"),
            8 => format!("?o {q} << ?{x} ?p ?{x} >>"),
            9 => format!("<< ?{x} ?p ?y >> {q} ?{x}"),
            10 => format!("?{x} ?{x} ?{x}"),
            11 => format!("<< _:{b} {p} _:{b} >> {q} ?o"),
            12 => format!("_:{b} ?p _:{b}"),
            _ => format!("[] {p} []"),        // control: nothing is rejected
        }
    }
    /// SELECT without OFFSET / LIMIT (the caller appends the window)
    fn loop_query(&mut self) -> String {
        let names: Vec<T> = self.quads.iter().filter_map(|q| q.3.clone()).collect::<BTreeSet<_>>().into_iter().collect();
        let graph: Option<T> = if !names.is_empty() && self.r.chance(1, 3) { Some(self.r.pick(&names).clone()) } else { None };
        self.bnwit.clear();
        let mut pats: Vec<String> = (0..*self.r.pick(&[0usize, 0, 0, 1, 1, 2])).map(|_| self.triple_pat(&graph)).collect();
        let special = self.loopy_pat();
        if self.r.chance(3, 5) { pats.push(special) } else { let at = self.r.below(pats.len() + 1); pats.insert(at, special) }
        let bgp = pats.join(" . ");
        let v = self.var();
        let mut body = match self.r.below(12) {
            0..=5 => bgp,
            6 => format!("{bgp} BIND({} AS ?k1)", self.r.ps(&["1", "BOUND(?x)", "?x", "<tag:a>"])),
            7 => format!("{bgp} FILTER({}BOUND(?{v}))", self.r.ps(&["", "!"])),
            8 => { let other = self.loopy_pat(); format!("{{ {bgp} }} UNION {{ {other} }}") }
            9 => format!("{{ SELECT * WHERE {{ {bgp} }} LIMIT {} }}", 1 + self.r.below(3)),
            10 => format!("{{ SELECT {}?x ?{v} WHERE {{ {bgp} }} }}", self.r.ps(&["", "DISTINCT "])),
            _ => format!("{bgp} FILTER(sameTerm(?{v}, ?{v}))"),
        };
        if let Some(n) = &graph { body = if has_bnode(n) || self.r.chance(1, 2) { format!("GRAPH ?g {{ {body} }}") } else { format!("GRAPH {} {{ {body} }}", n.sparql(false)) } }
        let head = match self.r.below(8) { 0..=4 => "*".to_string(), 5 => format!("?{v}"), 6 => format!("?x ?{v}"), _ => format!("?x ?{v} ({} AS ?kk)", self.r.ps(&["BOUND(?x)", "1", "?x"])) };
        format!("SELECT {}{head} WHERE {{ {body} }}", if self.r.chance(1, 8) { "DISTINCT " } else { "" })
    }
    /// the random grammar, SELECT without ORDER BY / OFFSET / LIMIT (the caller appends the window)
    fn unsliced_query(&mut self) -> String {
        let body = self.group(0, &None);
        let proj = if self.r.chance(1, 2) { "*".to_string() } else { (0..self.r.range(1, 4)).map(|_| format!("?{}", self.var())).collect::<BTreeSet<_>>().into_iter().collect::<Vec<_>>().join(" ") };
        format!("SELECT {}{proj} WHERE {{ {body} }}", if self.r.chance(1, 5) { "DISTINCT " } else { "" })
    }
    fn query(&mut self) -> String {
        let body = self.group(0, &None);
        if self.r.chance(1, 5) { return format!("ASK {{ {body} }}") }
        let mut proj = if self.r.chance(1, 2) { "*".to_string() } else { (0..self.r.range(1, 4)).map(|_| format!("?{}", self.var())).collect::<BTreeSet<_>>().into_iter().collect::<Vec<_>>().join(" ") };
        if proj != "*" && self.r.chance(1, 4) { let e = self.bind_expr("kk", &None); proj = format!("{proj} ({e} AS ?kk)"); }
        let mut q = format!("SELECT {}{proj} WHERE {{ {body} }}", if self.r.chance(1, 4) { "DISTINCT " } else { "" });
        let ordered = self.r.chance(1, 10);
        if ordered { q.push_str(&format!(" ORDER BY ?{}", self.var())); }
        if !ordered && self.r.chance(1, 6) { if self.r.chance(1, 2) { q.push_str(&format!(" OFFSET {}", self.r.below(4))); } q.push_str(&format!(" LIMIT {}", self.r.below(5))); }
        q
    }
}

/// directed cases: (label, dataset index, query)
fn directed() -> Vec<(&'static str, usize, String)> {
    let xi = XI;
    vec![
        // the four defects of DESIGN section 4 (rows 22, 23, 25, 26) and the scope of the GRAPH variable (fix e)
        ("neg-overflow", 1, "SELECT (-?x AS ?y) { <tag:a> <tag:n> ?x }".into()),
        ("abs-overflow", 1, "SELECT (ABS(?x) AS ?y) { <tag:a> <tag:n> ?x }".into()),
        ("abs-bigint", 0, format!("SELECT (ABS(\"-99999999999999999999\"^^<{xi}>) AS ?y) {{}}")),
        ("graph-var-no-named-graph", 0, "ASK { GRAPH ?g {} }".into()),
        ("graph-var-no-named-graph", 0, "SELECT * { GRAPH ?g {} }".into()),
        ("graph-absent-name", 0, "ASK { GRAPH <tag:absent> {} }".into()),
        ("graph-absent-name", 1, "SELECT * { GRAPH <tag:absent> { BIND(1 AS ?x) } }".into()),
        ("project-scope", 0, "SELECT ?s { { SELECT ?s { ?s <tag:p> ?o } } FILTER(BOUND(?o)) }".into()),
        ("project-scope", 1, "SELECT ?s ?w { { SELECT ?s { ?s <tag:p> ?o } } BIND(?o AS ?w) }".into()),
        ("graph-var-scope", 1, "SELECT * { GRAPH ?g { ?s <tag:p> ?o FILTER(BOUND(?g)) } }".into()),
        ("graph-var-scope", 1, "SELECT * { GRAPH ?g { ?s <tag:p> ?o BIND(?g AS ?h) } }".into()),
        ("graph-var-scope", 1, "SELECT * { GRAPH ?g { SELECT ?s { ?s <tag:q> ?g } } }".into()),
        ("graph-var-scope", 1, "SELECT * { GRAPH ?g { SELECT ?s { ?s <tag:p> ?o } } }".into()),
        ("graph-var-scope", 1, "SELECT * { GRAPH ?g { ?s <tag:p> ?o BIND(1 AS ?g) } }".into()),
        // DISTINCT over partially bound rows: the same term under different variables must not collide
        ("distinct-partial", 1, "SELECT DISTINCT * { { ?a <tag:p> <tag:b> } UNION { ?e <tag:p> <tag:b> } }".into()),
        ("distinct-partial", 1, "SELECT DISTINCT ?a ?e { { ?a <tag:p> ?o } UNION { ?e <tag:p> ?o } }".into()),
        ("distinct-partial", 1, "SELECT DISTINCT * { { ?s <tag:p> ?a } UNION { ?s <tag:p> ?e } UNION { ?s <tag:q> ?a } }".into()),
        ("distinct-partial", 1, "SELECT DISTINCT ?k ?a { ?s <tag:n> ?a BIND(?a + 1 AS ?k) }".into()),
        // FILTER on a term without effective boolean value (IRI, blank node, dateTime, quoted triple): type error = false
        ("filter-ebv", 1, "SELECT * { ?s <tag:p> ?o FILTER(?o) }".into()),
        ("filter-ebv", 1, "SELECT * { ?s ?p ?o FILTER(?p) }".into()),
        ("filter-ebv", 1, "SELECT * { ?s <tag:n> ?o FILTER(?o) }".into()),
        ("filter-ebv", 1, "ASK { ?s ?p ?o FILTER(<tag:a>) }".into()),
        ("filter-ebv", 1, "SELECT * { ?s ?p ?o FILTER(?s) }".into()),
        ("filter-ebv", 1, "SELECT * { ?s ?p ?o FILTER(\"\") }".into()),
        ("filter-ebv", 1, "SELECT * { ?s ?p ?o FILTER(\"x\") }".into()),
        ("graph", 1, "SELECT * { GRAPH ?g { ?s <tag:q> ?g } }".into()),
        ("graph", 1, "SELECT * { GRAPH ?g { GRAPH ?g { ?s <tag:q> ?o } } }".into()),
        ("graph", 1, "SELECT * { GRAPH ?g { GRAPH ?h { ?s <tag:q> ?o } } }".into()),
        ("graph", 1, "SELECT * { GRAPH ?g {} }".into()),
        ("graph", 1, "SELECT * { { ?s <tag:p> ?o } UNION { GRAPH ?g { ?s <tag:q> ?o } } }".into()),
        ("bgp", 1, "SELECT * { ?s <tag:p> ?o . ?o <tag:p> ?z }".into()),
        ("bgp", 1, "SELECT * { ?s <tag:p> _:x . _:x <tag:p> ?z }".into()),
        ("bgp", 1, "SELECT ?p { [] ?p [] }".into()),
        ("bgp", 1, "SELECT * { ?x ?x ?x }".into()),
        ("bgp", 1, "SELECT * { ?s ?p ?s }".into()),
        ("bgp", 1, "SELECT * { << ?a <tag:p> ?b >> ?p ?o }".into()),
        ("bgp", 1, "SELECT * { ?s ?p << ?a ?b ?a >> }".into()),
        ("bgp", 1, "SELECT * { <tag:a> <tag:p> <tag:b> . ?s <tag:p> ?o }".into()),
        ("bgp", 1, "SELECT * { <tag:a> <tag:p> <tag:zzz> . ?s <tag:p> ?o }".into()),
        ("bgp", 1, "SELECT * { ?s <tag:v> \"lit\"@EN }".into()),
        ("slice", 1, "SELECT * { ?s ?p ?o } OFFSET 1 LIMIT 2".into()),
        ("slice", 1, "ASK { ?s <tag:p> ?o } LIMIT 0".into()),
        ("distinct", 1, "SELECT DISTINCT ?p { ?s ?p ?o }".into()),
        ("order", 1, "SELECT ?s { ?s <tag:p> ?o } ORDER BY ?o".into()),
        // every unsupported operator / form once
        ("unsupported", 1, "SELECT * { ?s <tag:p> ?o OPTIONAL { ?o <tag:p> ?z } }".into()),
        ("unsupported", 1, "SELECT * { ?s <tag:p> ?o MINUS { ?s <tag:q> ?o } }".into()),
        ("unsupported", 1, "SELECT * { ?s <tag:p> ?o VALUES ?s { <tag:a> } }".into()),
        ("unsupported", 1, "SELECT * { VALUES ?s { <tag:a> } }".into()),
        ("unsupported", 1, "SELECT (COUNT(*) AS ?c) { ?s <tag:p> ?o }".into()),
        ("unsupported", 1, "SELECT ?s { ?s <tag:p> ?o } GROUP BY ?s".into()),
        ("unsupported", 1, "SELECT ?s { ?s <tag:p> ?o } GROUP BY ?s HAVING (COUNT(?o) > 1)".into()),
        ("unsupported", 1, "SELECT * { ?s <tag:p>* ?o }".into()),
        ("unsupported", 1, "SELECT * { ?s <tag:p>+ ?o }".into()),
        ("unsupported", 1, "SELECT * { ?s (<tag:p>|<tag:q>) ?o }".into()),
        ("unsupported", 1, "SELECT * { ?s !<tag:p> ?o }".into()),
        ("unsupported", 1, "SELECT * FROM <tag:g1> { ?s ?p ?o }".into()),
        ("unsupported", 1, "SELECT * FROM <tag:g1> FROM <tag:g2> { ?s <tag:p> ?o }".into()),
        ("unsupported", 1, "SELECT * FROM NAMED <tag:g1> { GRAPH ?g { ?s ?p ?o } }".into()),
        ("unsupported", 1, "ASK FROM <tag:g1> { ?s ?p ?o }".into()),
        ("unsupported", 1, "SELECT * { ?s <tag:p> ?o GRAPH ?g { ?o ?q ?z } }".into()),
        ("unsupported", 1, "SELECT * { { ?s <tag:p> ?o } { SELECT ?o { ?o <tag:p> ?z } } }".into()),
        ("unsupported", 1, "SELECT * { ?s <tag:p> ?o BIND(1 AS ?k) ?o <tag:p> ?z }".into()),
        ("unsupported", 1, "SELECT REDUCED * { ?s <tag:p> ?o }".into()),
        ("unsupported", 1, "SELECT * { SERVICE <tag:x> { ?s <tag:p> ?o } }".into()),
        ("unsupported", 1, "SELECT * { { SELECT (COUNT(*) AS ?c) { ?s ?p ?o } } }".into()),
        ("unsupported", 1, "SELECT * { GRAPH ?g { ?s <tag:p> ?o OPTIONAL { ?s <tag:q> ?z } } }".into()),
        ("unsupported", 1, "SELECT * { { ?s <tag:p> ?o } UNION { ?s <tag:p> ?o MINUS { ?s <tag:q> ?o } } }".into()),
        ("unsupported", 1, "CONSTRUCT { ?s ?p ?o } WHERE { ?s ?p ?o }".into()),
        ("unsupported", 1, "DESCRIBE <tag:a>".into()),
        // EXISTS is evaluated against the active graph (18.6)
        ("exists", 1, "SELECT * { ?s <tag:p> ?o FILTER EXISTS { ?o <tag:p> ?z } }".into()),
        ("exists", 1, "SELECT * { ?s <tag:p> ?o FILTER NOT EXISTS { GRAPH ?g { ?s <tag:q> ?w } } }".into()),
        ("exists", 1, "ASK { ?s ?p ?o FILTER EXISTS { GRAPH <tag:g1> { ?s ?p ?o } } }".into()),
        ("exists-active-graph", 1, "SELECT * { GRAPH <tag:g2> { ?s <tag:q> ?o FILTER EXISTS { ?s <tag:p> ?z } } }".into()),
        ("exists-active-graph", 1, "SELECT * { GRAPH ?g { ?s ?p ?o FILTER NOT EXISTS { ?s <tag:q> ?z } } }".into()),
        ("exists-active-graph", 1, "SELECT * { GRAPH ?g { ?s ?p ?o FILTER EXISTS { ?s <tag:q> ?z } } }".into()),
        ("exists-active-graph", 1, "SELECT * { GRAPH <tag:g1> { ?s ?p ?o FILTER EXISTS { <tag:b> <tag:p> <tag:c> } } }".into()),
        ("exists-active-graph", 1, "SELECT * { GRAPH ?g { ?s <tag:p> ?o BIND(EXISTS { ?s <tag:q> ?z } AS ?e) } }".into()),
        // an unsupported operator hidden inside EXISTS (expressions are outside the Coq model)
        ("exists-hides-not-implemented", 1, "SELECT * { ?s <tag:p> ?o FILTER EXISTS { ?o <tag:p> ?z OPTIONAL { ?z <tag:p> ?w } } }".into()),
        // ORDER BY above a sub-select with OFFSET / LIMIT (random cases 16363 and 19265 of seed 1, shrunk): the engine sorts
        // the rows, the model's ORDER BY is the identity permutation, so these are compared as multisets (see `compare_in_order`)
        ("order-over-nested-slice", 1, "SELECT * { { SELECT ?s ?o { ?s <tag:p> ?o } LIMIT 2 } } ORDER BY ?o".into()),
        ("order-over-nested-slice", 1, "SELECT * { { SELECT ?s ?o { ?s <tag:p> ?o } LIMIT 2 } } ORDER BY DESC(?o)".into()),
        ("order-over-nested-slice", 1, "SELECT DISTINCT * { { ?s <tag:p> ?o } UNION { { SELECT ?g { GRAPH ?g { } BIND(?x AS ?k1) } LIMIT 0 } } BIND(<tag:g1> AS ?k2) } ORDER BY ?s".into()),
        ("order-over-nested-slice", 1, "SELECT DISTINCT * { { ?s <tag:p> ?o } UNION { { SELECT ?g { GRAPH ?g { } BIND(?x AS ?k1) } LIMIT 0 } } BIND(<tag:g1> AS ?k2) } ORDER BY DESC(?s)".into()),
        ("order-over-nested-slice", 1, "SELECT * { GRAPH ?g { { ?s <tag:p> ?o } UNION { { SELECT ?g { ?s <tag:q> ?o } LIMIT 1 } BIND(1 AS ?k1) } } } ORDER BY ?o".into()),
        ("order-over-nested-slice", 1, "SELECT * { GRAPH ?g { { ?s <tag:p> ?o } UNION { { SELECT ?g { ?s <tag:q> ?o } LIMIT 1 } BIND(1 AS ?k1) } } } ORDER BY DESC(?o)".into()),
        // EXISTS over a GROUP (18.6, substitution): FILTER / BIND / nested EXISTS / GRAPH inside the group refer to variables
        // of the enclosing group that occur in none of the group's triple patterns; in the default graph and inside GRAPH;
        // outer variable bound and unbound; EXISTS in FILTER, under connectives, in BIND and in a SELECT expression
        ("exists-correlated", 2, "SELECT ?x { ?x <tag:n> ?a FILTER EXISTS { ?x <tag:p> ?y . ?y <tag:n> ?b FILTER(?b > ?a) } }".into()),
        ("exists-correlated", 2, "SELECT ?x { ?x <tag:n> ?a FILTER NOT EXISTS { ?x <tag:p> ?y . ?y <tag:n> ?b FILTER(?b < ?a) } }".into()),
        ("exists-correlated", 2, "SELECT ?x { ?x <tag:s> ?n FILTER EXISTS { ?x <tag:p> ?y FILTER(?n = \"a\") } }".into()),
        ("exists-correlated", 2, "SELECT ?x { ?x <tag:s> ?n FILTER NOT EXISTS { ?x <tag:p> ?y FILTER(?n != \"a\") } }".into()),
        ("exists-correlated", 2, "SELECT ?x { ?x <tag:n> ?a FILTER EXISTS { ?x <tag:p> ?y BIND(?a + 1 AS ?c) FILTER(?c = 31) } }".into()),
        ("exists-correlated", 2, "SELECT ?x { ?x <tag:n> ?a FILTER EXISTS { ?x <tag:p> ?y BIND(?a AS ?c) FILTER(sameTerm(?c, 25)) } }".into()),
        ("exists-correlated", 2, "SELECT ?x { ?x <tag:n> ?a FILTER EXISTS { ?y <tag:n> 35 FILTER EXISTS { ?x <tag:p> ?y } } }".into()),
        ("exists-correlated", 2, "SELECT ?x { ?x <tag:n> ?a FILTER NOT EXISTS { ?y <tag:n> ?b FILTER NOT EXISTS { ?x <tag:p> ?y } FILTER(?b > ?a) } }".into()),
        ("exists-correlated", 2, "SELECT ?x { ?x <tag:n> ?a FILTER EXISTS { ?y <tag:s> ?n FILTER EXISTS { ?y <tag:n> ?b FILTER(?b > ?a) } } }".into()),
        ("exists-correlated", 2, "SELECT ?x { ?x <tag:n> ?a FILTER EXISTS { FILTER(?a > 26) } }".into()),
        ("exists-correlated", 2, "SELECT ?x { ?x <tag:n> ?a FILTER NOT EXISTS { FILTER(?a > 26) } }".into()),
        ("exists-correlated", 2, "SELECT ?x { ?x <tag:n> ?a FILTER EXISTS { BIND(?a * 2 AS ?d) FILTER(?d = 50) } }".into()),
        ("exists-correlated", 2, "SELECT ?x { { ?x <tag:n> ?a } UNION { ?x <tag:s> ?n } FILTER EXISTS { ?x <tag:p> ?y FILTER(BOUND(?a)) } }".into()),
        ("exists-correlated", 2, "SELECT ?x { { ?x <tag:n> ?a } UNION { ?x <tag:s> ?n } FILTER EXISTS { ?x <tag:p> ?y FILTER(!BOUND(?a)) } }".into()),
        ("exists-correlated", 2, "SELECT ?x { { ?x <tag:n> ?a } UNION { ?x <tag:s> ?n } FILTER NOT EXISTS { ?x <tag:p> ?y FILTER(?a > 26) } }".into()),
        ("exists-correlated", 2, "SELECT ?x { ?x <tag:n> ?a FILTER EXISTS { { ?x <tag:p> ?y FILTER(?a > 26) } UNION { ?y <tag:p> ?x FILTER(?a < 26) } } }".into()),
        ("exists-correlated", 2, "SELECT ?x { ?x <tag:n> ?a FILTER(?a > 100 || EXISTS { ?x <tag:p> ?y . ?y <tag:n> ?b FILTER(?b - ?a = 10) }) }".into()),
        ("exists-correlated", 2, "SELECT ?x { ?x <tag:n> ?a FILTER(!(EXISTS { ?x <tag:p> ?y . ?y <tag:n> ?b FILTER(?b - ?a = 10) })) }".into()),
        ("exists-correlated", 2, "SELECT ?x ?e { ?x <tag:n> ?a BIND(EXISTS { ?x <tag:p> ?y . ?y <tag:n> ?b FILTER(?b > ?a) } AS ?e) }".into()),
        ("exists-correlated", 2, "SELECT ?x (EXISTS { ?x <tag:p> ?y . ?y <tag:n> ?b FILTER(?b < ?a) } AS ?e) { ?x <tag:n> ?a }".into()),
        ("exists-correlated", 2, "ASK { ?x <tag:n> ?a FILTER EXISTS { ?x <tag:p> ?y . ?y <tag:n> ?b FILTER(?b = ?a + 5) } }".into()),
        ("exists-correlated", 2, "ASK { ?x <tag:n> ?a FILTER EXISTS { ?x <tag:p> ?y . ?y <tag:n> ?b FILTER(?b = ?a + 6) } }".into()),
        ("exists-correlated-graph", 2, "SELECT ?x { ?x <tag:n> ?a FILTER EXISTS { GRAPH ?eg { ?x <tag:n> ?b } FILTER(?b = ?a) } }".into()),
        ("exists-correlated-graph", 2, "SELECT ?x { ?x <tag:n> ?a FILTER EXISTS { GRAPH ?eg { ?x <tag:n> ?b FILTER(?b = ?a) } } }".into()),
        ("exists-correlated-graph", 2, "SELECT ?x { ?x <tag:n> ?a FILTER EXISTS { GRAPH <tag:g2> { ?x <tag:n> ?b FILTER(?b < ?a) } } }".into()),
        ("exists-correlated-graph", 2, "SELECT * { GRAPH ?g { ?x <tag:n> ?a FILTER EXISTS { ?x <tag:q> ?y FILTER(?a > 10) } } }".into()),
        ("exists-correlated-graph", 2, "SELECT * { GRAPH ?g { ?x <tag:n> ?a FILTER NOT EXISTS { ?x <tag:q> ?y FILTER(?a > 10) } } }".into()),
        ("exists-correlated-graph", 2, "SELECT * { GRAPH <tag:g1> { ?x <tag:n> ?a FILTER EXISTS { ?x <tag:q> ?y BIND(?a - 30 AS ?z) FILTER(?z = 0) } } }".into()),
        ("exists-correlated-graph", 2, "SELECT * { GRAPH ?g { ?x <tag:n> ?a FILTER EXISTS { ?x <tag:q> ?y FILTER EXISTS { ?y <tag:p> ?w FILTER(?a = 30) } } } }".into()),
        ("exists-correlated-graph", 1, "SELECT * { GRAPH ?g { ?s <tag:q> ?h FILTER EXISTS { GRAPH ?h { ?s <tag:p> ?o } } } }".into()),
        ("exists-correlated-graph", 1, "SELECT * { GRAPH ?g { ?s <tag:q> ?h } FILTER EXISTS { GRAPH ?h { ?s <tag:p> ?o } } }".into()),
        ("exists-correlated-graph", 1, "SELECT * { GRAPH ?g { ?s <tag:q> ?h } FILTER EXISTS { GRAPH ?h { ?s <tag:p> ?o FILTER(?g = <tag:g2>) } } }".into()),
        ("exists-correlated-graph", 1, "SELECT * { GRAPH ?g { ?s <tag:q> ?h } FILTER EXISTS { GRAPH ?g { ?s <tag:p> ?o } FILTER(sameTerm(?h, <tag:g1>)) } }".into()),
        ("exists-correlated-graph", 1, "SELECT * { ?s <tag:p> ?o FILTER EXISTS { GRAPH ?o { ?s <tag:p> ?z } } }".into()),
        ("exists-correlated-graph", 1, "SELECT * { ?s <tag:p> ?o FILTER EXISTS { GRAPH ?u { ?s <tag:p> ?z FILTER(?o = <tag:b>) } } }".into()),
        // comparisons whose operands are COMPUTED: integer arithmetic that leaves the isize range and comes back
        ("computed-compare", 2, "SELECT ?x { ?x <tag:n> ?a . <tag:t0> <tag:n> ?s0 . <tag:t1> <tag:n> ?s1 FILTER(?s1 - ?s0 = ?a) }".into()),
        ("computed-compare", 2, "SELECT ?x { ?x <tag:n> ?a . <tag:t0> <tag:n> ?s0 . <tag:t1> <tag:n> ?s1 FILTER(?a != ?s1 - ?s0) }".into()),
        ("computed-compare", 2, "SELECT ?x { ?x <tag:n> ?a . <tag:t0> <tag:n> ?s0 . <tag:t1> <tag:n> ?s1 FILTER(?a < ?s1 - ?s0) }".into()),
        ("computed-compare", 2, "SELECT ?x { ?x <tag:n> ?a . <tag:t0> <tag:n> ?s0 . <tag:t1> <tag:n> ?s1 FILTER(?s1 - ?s0 <= ?a) }".into()),
        ("computed-compare", 2, "SELECT ?x { ?x <tag:n> ?a . <tag:t0> <tag:n> ?s0 . <tag:t1> <tag:n> ?s1 FILTER(?a > ?s1 - ?s0) }".into()),
        ("computed-compare", 2, "SELECT ?x { ?x <tag:n> ?a . <tag:t0> <tag:n> ?s0 . <tag:t1> <tag:n> ?s1 FILTER(?s1 - ?s0 >= ?a) }".into()),
        ("computed-compare", 2, "SELECT ?x { ?x <tag:n> ?a . <tag:t0> <tag:n> ?s0 . <tag:t2> <tag:n> ?s2 FILTER(?s0 + ?s2 < ?a - 29) }".into()),
        ("computed-compare", 2, "SELECT ?x { ?x <tag:n> ?a . <tag:t0> <tag:n> ?s0 FILTER(?s0 * 0 = ?a - 30) }".into()),
        ("computed-compare", 2, "SELECT ?x { ?x <tag:n> ?a . <tag:t0> <tag:n> ?s0 FILTER(sameTerm((?a + ?s0) - ?s0, ?a)) }".into()),
        ("computed-compare", 2, "SELECT ?x { ?x <tag:n> ?a . <tag:t0> <tag:n> ?s0 FILTER((?a + ?s0) - ?s0 = (?a - ?s0) + ?s0) }".into()),
        ("computed-compare", 2, "SELECT ?x ?d { ?x <tag:n> ?a . <tag:t0> <tag:n> ?s0 . <tag:t1> <tag:n> ?s1 BIND(?s1 - ?s0 AS ?d) FILTER(?d = ?a) }".into()),
        ("computed-compare", 2, "SELECT ?x (?s1 - ?s0 = ?a AS ?e) (?s1 - ?s0 > ?a AS ?f) { ?x <tag:n> ?a . <tag:t0> <tag:n> ?s0 . <tag:t1> <tag:n> ?s1 }".into()),
        ("computed-compare", 2, "SELECT ?x { ?x <tag:n> ?a FILTER((9223372036854775807 + ?a) - 9223372036854775807 = ?a) }".into()),
        ("computed-compare", 2, "SELECT ?x { ?x <tag:n> ?a FILTER(-(-(?a - 9223372036854775807 - 2)) < ?a) }".into()),
        ("computed-compare", 2, "SELECT ?x { ?x <tag:n> ?a FILTER(ABS(?a - 18446744073709551616) - 18446744073709551616 <= 0 - ?a) }".into()),
        ("computed-compare", 1, "SELECT ?x { <tag:a> <tag:n> ?x FILTER(-(-?x) = ?x) }".into()),
        ("computed-compare", 1, "SELECT ?x { <tag:a> <tag:n> ?x FILTER((ABS(?x) - 1) + ?x < 0) }".into()),
        ("computed-compare", 1, "SELECT ?x { <tag:a> <tag:n> ?x FILTER((ABS(?x) - 1) = 9223372036854775807) }".into()),
        // nested OFFSET / LIMIT whose window the oracle can determine: everything, nothing, identical solutions
        ("nested-slice", 1, "SELECT * { { ?s <tag:q> ?o } UNION { { SELECT ?s { ?s <tag:p> ?o } LIMIT 0 } } }".into()),
        ("nested-slice", 1, "SELECT * { { ?s <tag:q> ?o } UNION { { SELECT ?s { ?s <tag:p> ?o } LIMIT 7 } } }".into()),
        ("nested-slice", 1, "SELECT * { { ?s <tag:q> ?o } UNION { { SELECT ?s { ?s <tag:p> ?o } OFFSET 5 } } }".into()),
        ("nested-slice", 1, "SELECT * { { ?s <tag:q> ?o } UNION { { SELECT ?z { ?s <tag:p> ?o } OFFSET 1 LIMIT 1 } } }".into()),
        // known finding EXISTS-SUBSELECT-DROPS-OUTER: a sub-select directly inside an EXISTS group, and a FILTER / BIND of the
        // group above it that reads an outer variable the sub-select does not project (18.6 substitutes it; the engine's
        // projection drops the pre-bound variable).  FILTER EXISTS, FILTER NOT EXISTS, EXISTS evaluated inside GRAPH, GRAPH
        // inside the group, BIND above the sub-select, a sub-select correlated through a projected variable
        ("exists-subselect", 2, "SELECT ?x { ?x <tag:n> ?a FILTER EXISTS { { SELECT ?y { ?y <tag:n> ?b } } FILTER(?a > 26) } }".into()),
        ("exists-subselect", 2, "SELECT ?x { ?x <tag:n> ?a FILTER NOT EXISTS { { SELECT ?y { ?y <tag:n> ?b } } FILTER(?a > 26) } }".into()),
        ("exists-subselect", 2, "SELECT * { GRAPH ?g { ?x <tag:n> ?a FILTER EXISTS { { SELECT ?y { ?y <tag:n> ?b } } FILTER(?a > 10) } } }".into()),
        ("exists-subselect", 2, "SELECT ?x { ?x <tag:n> ?a FILTER EXISTS { GRAPH <tag:g1> { { SELECT ?y { ?y <tag:q> ?z } } FILTER(?a < 26) } } }".into()),
        ("exists-subselect", 2, "SELECT ?x { ?x <tag:n> ?a FILTER EXISTS { { SELECT ?y { ?y <tag:n> ?b } } BIND(?a + 1 AS ?c) FILTER(?c = 31) } }".into()),
        ("exists-subselect", 2, "SELECT ?x { ?x <tag:n> ?a FILTER EXISTS { { SELECT DISTINCT ?x ?y { ?x <tag:p> ?y } } FILTER(?a > 26) } }".into()),
        // the same groups with the outer variable projected by the sub-select: the engine agrees with 18.6
        ("exists-subselect-projected", 2, "SELECT ?x { ?x <tag:n> ?a FILTER EXISTS { { SELECT ?y ?a { ?y <tag:n> ?b } } FILTER(?a > 26) } }".into()),
        ("exists-subselect-projected", 2, "SELECT ?x { ?x <tag:n> ?a FILTER NOT EXISTS { { SELECT ?x ?a { ?x <tag:p> ?y } } BIND(?a + 1 AS ?c) FILTER(?c = 31) } }".into()),
    ]
}
fn directed_datasets() -> Vec<Vec<Quad4>> {
    let d0 = vec![(ti("tag:a"), ti("tag:p"), ti("tag:b"), None), (ti("tag:b"), ti("tag:p"), ti("tag:c"), None)];
    let mut d1 = d0.clone();
    let (g1, g2) = (Some(ti("tag:g1")), Some(ti("tag:g2")));
    d1.push((ti("tag:a"), ti("tag:p"), ti("tag:b"), g1.clone()));
    d1.push((ti("tag:a"), ti("tag:p"), ti("tag:b"), g2.clone()));
    d1.push((ti("tag:a"), ti("tag:q"), ti("tag:g1"), g2.clone()));
    d1.push((ti("tag:a"), ti("tag:n"), tint("-9223372036854775808"), None));
    d1.push((ti("tag:c"), ti("tag:c"), ti("tag:c"), None));
    d1.push((ttr(ti("tag:a"), ti("tag:p"), ti("tag:b")), ti("tag:q"), ttr(ti("tag:c"), ti("tag:p"), ti("tag:c")), None));
    d1.push((ti("tag:b"), ti("tag:v"), T::Lang("lit".into(), "en".into()), None));
    // d2: people with ages, names and edges; two named graphs repeating / changing some of it; three integers beyond isize
    let n = |s: &str, v: &str, g: &Option<T>| (ti(s), ti("tag:n"), tint(v), g.clone());
    let e = |s: &str, p: &str, o: &str, g: &Option<T>| (ti(s), ti(p), ti(o), g.clone());
    let d2 = vec![n("tag:a", "30", &None), n("tag:b", "25", &None), n("tag:c", "35", &None),
        e("tag:a", "tag:p", "tag:b", &None), e("tag:a", "tag:p", "tag:c", &None), e("tag:b", "tag:p", "tag:c", &None),
        (ti("tag:a"), ti("tag:s"), tstr("a"), None), (ti("tag:b"), ti("tag:s"), tstr("b"), None), (ti("tag:c"), ti("tag:s"), tstr("lit"), None),
        n("tag:t0", "100000000000000000000", &None), n("tag:t1", "100000000000000000030", &None), n("tag:t2", "-100000000000000000000", &None),
        e("tag:a", "tag:q", "tag:b", &g1), n("tag:a", "30", &g1), e("tag:b", "tag:p", "tag:c", &g1),
        e("tag:b", "tag:q", "tag:c", &g2), n("tag:b", "7", &g2)];
    vec![d0, d1, d2]
}

// ---------- datasets of the stream `slice-sweep`: chains with FEW loops ----------
/// Edges n --p--> m, n --q--> m over 5..8 nodes (two of them blank) in the default graph and in named graphs, of which only a
/// few are loops (n p n); a few triples whose predicate is also their object / subject (n c c, c c c); quoted triples with
/// and without an inner loop as subjects and objects; some integers.  A pattern such as `?x <tag:p> ?x` is handed every p
/// edge by the dataset and keeps the loops only.
fn gen_loop_dataset(r: &mut Rng) -> Vec<Quad4> {
    let all = [ti("tag:a"), ti("tag:b"), ti("tag:c"), ti("tag:d"), ti("tag:e"), ti("tag:f"), T::Bn("x1".into()), T::Bn("x2".into()), ti("tag:h")];
    let m = r.range(5, all.len());
    let nodes: Vec<T> = { let mut v = all.to_vec(); for i in (1..v.len()).rev() { let j = r.below(i + 1); v.swap(i, j); } v.truncate(m); v };
    let names = [ti("tag:g1"), ti("tag:g2"), T::Bn("g3".into())];
    let ngraphs = *r.pick(&[0usize, 1, 1, 2, 3]);
    let mut quads: Vec<Quad4> = vec![];
    let mut graphs: Vec<Option<T>> = vec![None];
    for g in names.iter().take(ngraphs) { graphs.push(Some(g.clone())) }
    for g in &graphs {
        for p in ["tag:p", "tag:q"] {
            if g.is_some() && r.chance(1, 3) { continue }
            let nloops = *r.pick(&[0usize, 1, 1, 1, 2, 2, 3]);
            let loops: Vec<usize> = (0..nloops).map(|_| r.below(m)).collect();
            for (i, n) in nodes.iter().enumerate() {
                if loops.contains(&i) { quads.push((n.clone(), ti(p), n.clone(), g.clone())); if r.chance(1, 3) { quads.push((n.clone(), ti(p), nodes[(i + 1) % m].clone(), g.clone())); } }
                else if r.chance(5, 6) { let o = nodes[(i + 1 + r.below(m - 1)) % m].clone(); quads.push((n.clone(), ti(p), o, g.clone())); }
            }
        }
        if r.chance(1, 2) { let n = r.pick(&nodes).clone(); quads.push((n, ti("tag:c"), ti("tag:c"), g.clone())); }
        if r.chance(1, 3) { quads.push((ti("tag:c"), ti("tag:c"), ti("tag:c"), g.clone())); }
        if r.chance(1, 3) { quads.push((ti("tag:p"), ti("tag:p"), ti("tag:p"), g.clone())); }
        for _ in 0..r.range(2, 6) {
            let (a, b) = (r.pick(&nodes).clone(), r.pick(&nodes).clone());
            let inner = if r.chance(1, 3) { ttr(a.clone(), ti(r.ps(&["tag:p", "tag:q"])), a.clone()) } else { ttr(a.clone(), ti(r.ps(&["tag:p", "tag:q"])), b.clone()) };
            let other = if r.chance(1, 3) { a.clone() } else { r.pick(&nodes).clone() };
            if r.chance(1, 2) { quads.push((inner, ti(r.ps(&["tag:q", "tag:p"])), other, g.clone())); } else { quads.push((other, ti(r.ps(&["tag:q", "tag:p"])), inner, g.clone())); }
        }
    }
    for _ in 0..r.range(1, 3) { let n = r.pick(&nodes).clone(); quads.push((n, ti("tag:n"), tint(r.ps(&["0", "1", "2", "5"])), None)); }
    let mut seen = HashSet::new();
    quads.retain(|q| seen.insert(q.clone()));
    quads
}
/// the hand-written dataset of the directed `slice` sweep: eight nodes in a p-ring (default graph) and a q-ring (graph g1) with
/// loops at d and h; quoted edges
fn directed_loop_dataset() -> Vec<Quad4> {
    let nodes = ["tag:a", "tag:b", "tag:c", "tag:d", "tag:e", "tag:f", "tag:g", "tag:h"];
    let mut quads: Vec<Quad4> = vec![];
    for (i, n) in nodes.iter().enumerate() {
        let o = if *n == "tag:d" || *n == "tag:h" { n } else { nodes[(i + 1) % nodes.len()] };
        quads.push((ti(n), ti("tag:p"), ti(o), None));
        quads.push((ti(n), ti("tag:q"), ti(o), Some(ti("tag:g1"))));
        quads.push((ttr(ti(n), ti("tag:p"), ti(o)), ti("tag:q"), ti(n), None));
    }
    quads.push((ti("tag:a"), ti("tag:p"), ti("tag:a"), Some(ti("tag:g2"))));
    quads
}
/// further directed cases, run after all the streams above: (label, dataset, query) with dataset 0..2 = `directed_datasets`,
/// 3 = `directed_loop_dataset`
fn directed_more() -> Vec<(&'static str, usize, String)> {
    let mut out: Vec<(&'static str, usize, String)> = vec![];
    // BNODE in BIND / SELECT expressions over patterns with three or more solutions: a node of its own for every solution
    for q in [
        "SELECT ?s ?b { ?s <tag:p> ?o BIND(BNODE() AS ?b) }",
        "SELECT (BNODE(\"x\") AS ?b) (isBlank(BNODE()) AS ?c) { ?s <tag:p> ?o }",
        "SELECT DISTINCT ?b { ?s <tag:p> ?o BIND(40+2 AS ?b) }",
        "SELECT DISTINCT ?b { ?s <tag:p> ?o BIND(BNODE() AS ?b) }",
        "SELECT DISTINCT ?b { ?s <tag:p> ?o BIND(BNODE(\"y\") AS ?b) }",
        "SELECT DISTINCT ?t { ?s <tag:p> ?o BIND(TRIPLE(BNODE(), <tag:q>, 1) AS ?t) }",
        "SELECT DISTINCT ?t { ?s <tag:p> ?o BIND(TRIPLE(<tag:a>, <tag:q>, BNODE()) AS ?t) }",
        "SELECT DISTINCT ?b { ?s <tag:p> ?o BIND(IF(true, BNODE(), 1) AS ?b) }",
        "SELECT DISTINCT ?b { ?s <tag:p> ?o BIND(COALESCE(?zz, BNODE()) AS ?b) }",
        "SELECT DISTINCT ?b { ?s <tag:p> ?o BIND(COALESCE(?zz + 1, BNODE()) AS ?b) }",
        "SELECT DISTINCT (BNODE() AS ?b) { ?s <tag:p> ?o }",
        "SELECT * { { ?s <tag:p> ?o BIND(BNODE() AS ?b) } UNION { ?s <tag:n> ?o BIND(BNODE() AS ?b) } }",
        "SELECT * { { SELECT ?s (BNODE() AS ?b) { ?s <tag:p> ?o } } BIND(BNODE() AS ?c) }",
        "SELECT DISTINCT ?b ?c { { SELECT ?s (BNODE() AS ?b) { ?s <tag:p> ?o } } BIND(BNODE() AS ?c) }",
        "SELECT * { GRAPH ?g { ?s ?p ?o BIND(BNODE() AS ?b) } }",
        "SELECT DISTINCT ?b { GRAPH <tag:g1> { ?s ?p ?o BIND(BNODE() AS ?b) } }",
        "ASK { ?s <tag:p> ?o BIND(BNODE() AS ?b) FILTER(isBlank(?b)) }",
        "SELECT ?s { ?s <tag:p> ?o BIND(BNODE() AS ?b) FILTER EXISTS { ?x ?y ?b } }",
        "SELECT ?b ?c { ?s <tag:p> ?o BIND(BNODE() AS ?b) BIND(BNODE() AS ?c) FILTER(!sameTerm(?b, ?c)) }",
        "SELECT ?b ?c { ?s <tag:p> ?o BIND(BNODE() AS ?b) BIND(?b AS ?c) FILTER(sameTerm(?b, ?c)) }",
        "SELECT ?b { ?s <tag:p> ?o BIND(BNODE() AS ?b) } LIMIT 2",
        "SELECT ?b { ?s <tag:p> ?o BIND(BNODE() AS ?b) } OFFSET 1",
        "SELECT (sameTerm(BNODE(), BNODE()) AS ?e) (BNODE() = BNODE() AS ?f) { ?s <tag:p> ?o }",
        "SELECT ?s (BNODE(?n) AS ?b) { ?s <tag:s> ?n }",
        "SELECT DISTINCT ?b { ?s <tag:n> ?a BIND(BNODE(?a) AS ?b) }",
    ] { out.push(("fresh-directed", 2, q.to_string())); }
    // OFFSET / LIMIT windows over BGPs with a repeated variable / blank node placeholder (few of the candidate triples are
    // solutions), reached through projection and BIND, through GRAPH, FILTER, DISTINCT, UNION and a sub-select
    for body in [
        "SELECT * { ?x <tag:p> ?x }", "SELECT ?x { ?x ?p ?x }", "SELECT * { _:b <tag:p> _:b }", "SELECT * { ?y ?p ?x . ?x <tag:p> ?x }",
        "SELECT ?x (1 AS ?k) { ?x <tag:p> ?x }", "SELECT * { ?x <tag:p> ?x BIND(?x AS ?k) }",
        "SELECT * { GRAPH <tag:g1> { ?x <tag:q> ?x } }", "SELECT * { GRAPH ?g { ?x ?p ?x } }",
        "SELECT * { << ?x <tag:p> ?x >> <tag:q> ?o }", "SELECT * { ?x <tag:p> ?x FILTER(BOUND(?x)) }", "SELECT DISTINCT ?x { ?x ?p ?x }",
        "SELECT * { { ?x <tag:p> ?x } UNION { ?y <tag:p> ?x } }", "SELECT * { { SELECT ?x { ?x <tag:p> ?x } LIMIT 1 } }", "SELECT * { { SELECT ?x { ?x <tag:p> ?x } OFFSET 1 LIMIT 1 } }",
    ] {
        for off in 0..=2usize { for lim in 0..=3usize {
            out.push(("slice-directed", 3, if off == 0 { format!("{body} LIMIT {lim}") } else { format!("{body} OFFSET {off} LIMIT {lim}") }));
        } }
        out.push(("slice-directed", 3, format!("{body} OFFSET 1")));
    }
    out
}

fn canon_rows(vars: &[String], rows: &[Vec<Option<T>>]) -> Vec<Vec<(String, T)>> {
    let mut out: Vec<Vec<(String, T)>> = rows.iter().map(|r| { let mut m: Vec<(String, T)> = vars.iter().zip(r).filter_map(|(v, t)| t.clone().map(|t| (v.clone(), t))).collect(); m.sort(); m }).collect();
    out.sort();
    out
}
fn canon_mus(vars: &[String], mus: &[Mu]) -> Vec<Vec<(String, T)>> {
    let mut out: Vec<Vec<(String, T)>> = mus.iter().map(|m| m.iter().filter(|(k, _)| vars.contains(k)).map(|(k, v)| (k.clone(), v.clone())).collect()).collect();
    out.sort();
    out
}
// ---------- blank nodes created by the query (BNODE): rows are compared up to ONE renaming of them for the whole answer ----------
fn bn_labels(t: &T, out: &mut Vec<String>) { match t { T::Bn(b) => out.push(b.clone()), T::Tr(b) => b.iter().for_each(|x| bn_labels(x, out)), _ => {} } }
fn rename_bn(t: &T, f: &mut dyn FnMut(&str) -> String) -> T {
    match t { T::Bn(b) => T::Bn(f(b)), T::Tr(b) => ttr(rename_bn(&b[0], f), rename_bn(&b[1], f), rename_bn(&b[2], f)), _ => t.clone() }
}
fn data_labels(quads: &[Quad4]) -> BTreeSet<String> {
    let mut v = vec![];
    for (s, p, o, g) in quads { bn_labels(s, &mut v); bn_labels(p, &mut v); bn_labels(o, &mut v); if let Some(g) = g { bn_labels(g, &mut v) } }
    v.into_iter().collect()
}
/// The blank nodes of a row that are not the dataset's, renamed by the order of their first occurrence in the row.  Two
/// answers are equal up to ONE renaming of the created blank nodes iff they are equal under this per-row renaming AND, in
/// both, no created blank node occurs in two rows (`shared_fresh`): no operator of the supported fragment copies a solution.
fn mask_rows(rows: Vec<Vec<(String, T)>>, data: &BTreeSet<String>) -> Vec<Vec<(String, T)>> {
    let mut out: Vec<Vec<(String, T)>> = rows.into_iter().map(|row| {
        let mut seen: Vec<String> = vec![];
        row.into_iter().map(|(v, t)| { let t2 = rename_bn(&t, &mut |b: &str| { if data.contains(b) { return b.to_string() } let k = match seen.iter().position(|x| x == b) { Some(k) => k, None => { seen.push(b.to_string()); seen.len() - 1 } }; format!("{MASK}{k}") }); (v, t2) }).collect()
    }).collect();
    out.sort();
    out
}
/// a created blank node (not the dataset's) that occurs in two rows
fn shared_fresh<'a, I: Iterator<Item = Vec<&'a T>>>(rows: I, data: &BTreeSet<String>) -> Option<String> {
    let mut owner: BTreeMap<String, usize> = BTreeMap::new();
    for (k, row) in rows.enumerate() {
        let mut v = vec![]; for t in row { bn_labels(t, &mut v) }
        for b in v { if data.contains(&b) { continue } if let Some(o) = owner.get(&b) { if *o != k { return Some(b) } } else { owner.insert(b, k); } }
    }
    None
}
fn ex_has(e: &Ex, f: &dyn Fn(&Ex) -> bool) -> bool { f(e) || e.kids().iter().any(|k| ex_has(k, f)) || matches!(e, Ex::Exists(p) if pat_has(p, &|_| false, f)) }
/// some operator of the pattern satisfies `fp`, or some expression node (EXISTS groups included) satisfies `fe`
fn pat_has(p: &Pat, fp: &dyn Fn(&Pat) -> bool, fe: &dyn Fn(&Ex) -> bool) -> bool {
    if fp(p) { return true }
    match p {
        Pat::Bgp(_) | Pat::Unsup(_) => false,
        Pat::Union(l, r) => pat_has(l, fp, fe) || pat_has(r, fp, fe),
        Pat::Filter(e, i) | Pat::Extend(i, _, e) => ex_has(e, fe) || pat_has(i, fp, fe),
        Pat::OrderBy(i, es) => es.iter().any(|e| ex_has(e, fe)) || pat_has(i, fp, fe),
        Pat::Graph(_, i) | Pat::Project(i, _) | Pat::Distinct(i) | Pat::Slice(i, _, _) => pat_has(i, fp, fe),
    }
}
fn pat_has_fresh(p: &Pat) -> bool { pat_has(p, &|_| false, &|e| matches!(e, Ex::Fresh(_))) }
/// The queries with BNODE that the Coq model can run with a placeholder node (see `c_ex`): every BNODE call is the whole
/// expression of a BIND / SELECT expression, without argument or with a constant string; no expression reads a variable
/// bound that way; no DISTINCT (it would merge the model's placeholder rows) and no EXISTS
fn maskable(p: &Pat) -> bool {
    fn targets(p: &Pat, out: &mut BTreeSet<String>) -> bool {
        match p {
            Pat::Bgp(_) | Pat::Unsup(_) => true,
            Pat::Union(l, r) => targets(l, out) && targets(r, out),
            Pat::Extend(i, v, e) => {
                let whole = match e { Ex::Fresh(None) => true, Ex::Fresh(Some(a)) => matches!(&**a, Ex::Const(t) if plain_string(t).is_some()), _ => false };
                if whole { out.insert(v.clone()); } else if e.has_fresh() { return false }
                targets(i, out)
            }
            Pat::Filter(e, i) => !e.has_fresh() && targets(i, out),
            Pat::OrderBy(i, es) => !es.iter().any(|e| e.has_fresh()) && targets(i, out),
            Pat::Graph(_, i) | Pat::Project(i, _) | Pat::Distinct(i) | Pat::Slice(i, _, _) => targets(i, out),
        }
    }
    let mut ts = BTreeSet::new();
    if !targets(p, &mut ts) { return false }
    if pat_has(p, &|q| matches!(q, Pat::Distinct(_)), &|e| matches!(e, Ex::Exists(_))) { return false }
    !pat_has(p, &|q| matches!(q, Pat::Graph(NP::Var(v), _) if ts.contains(v)), &|e| matches!(e, Ex::Var(v) | Ex::Bound(v) if ts.contains(v)))
}
/// `a` is a sub-multiset of `b` (both sorted)
fn sub_multiset<X: Ord + Clone>(a: &[X], b: &[X]) -> bool {
    let (mut i, mut j) = (0, 0);
    while i < a.len() { while j < b.len() && b[j] < a[i] { j += 1 } if j >= b.len() || b[j] != a[i] { return false } i += 1; j += 1; }
    true
}
/// the shapes of the EXISTS groups of a query (for the input distribution)
fn tp_vars(t: &TP, out: &mut BTreeSet<String>) { match t { TP::Var(v) => { out.insert(v.clone()); } TP::Trip(b) => b.iter().for_each(|x| tp_vars(x, out)), _ => {} } }
fn ex_vars(e: &Ex, out: &mut BTreeSet<String>) {
    match e { Ex::Var(v) | Ex::Bound(v) => { out.insert(v.clone()); } Ex::Not(a) | Ex::Un(_, a) => ex_vars(a, out), Ex::Or(a, b) | Ex::And(a, b) | Ex::Bin(_, a, b) => { ex_vars(a, out); ex_vars(b, out) } Ex::Exists(_) => {} _ => e.kids().iter().for_each(|k| ex_vars(k, out)) }
}
fn ex_exists<'a>(e: &'a Ex, out: &mut Vec<&'a Pat>) {
    match e { Ex::Exists(p) => out.push(p), Ex::Not(a) | Ex::Un(_, a) => ex_exists(a, out), Ex::Or(a, b) | Ex::And(a, b) | Ex::Bin(_, a, b) => { ex_exists(a, out); ex_exists(b, out) } _ => e.kids().iter().for_each(|k| ex_exists(k, out)) }
}
/// (variables of the triple patterns, variables of the FILTER / BIND expressions outside nested EXISTS, nested EXISTS groups, has GRAPH, has BIND)
fn group_shape<'a>(p: &'a Pat, tv: &mut BTreeSet<String>, ev: &mut BTreeSet<String>, nested: &mut Vec<&'a Pat>, flags: &mut (bool, bool, bool)) {
    match p {
        Pat::Bgp(ps) => ps.iter().for_each(|t| t.iter().for_each(|x| tp_vars(x, tv))),
        Pat::Filter(e, i) => { flags.2 = true; ex_vars(e, ev); ex_exists(e, nested); group_shape(i, tv, ev, nested, flags) }
        Pat::Extend(i, _, e) => { flags.1 = true; ex_vars(e, ev); ex_exists(e, nested); group_shape(i, tv, ev, nested, flags) }
        Pat::Union(l, r) => { group_shape(l, tv, ev, nested, flags); group_shape(r, tv, ev, nested, flags) }
        Pat::Graph(n, i) => { flags.0 = true; if let NP::Var(v) = n { tv.insert(v.clone()); } group_shape(i, tv, ev, nested, flags) }
        Pat::OrderBy(i, _) | Pat::Project(i, _) | Pat::Distinct(i) | Pat::Slice(i, _, _) => group_shape(i, tv, ev, nested, flags),
        Pat::Unsup(_) => {}
    }
}
fn exists_shapes(p: &Pat, inside_graph: bool, depth: usize, out: &mut BTreeSet<String>) {
    let mut here: Vec<&Pat> = vec![];
    match p {
        Pat::Filter(e, i) => { ex_exists(e, &mut here); exists_shapes(i, inside_graph, depth, out) }
        Pat::Extend(i, _, e) => { let n = here.len(); ex_exists(e, &mut here); if here.len() > n { out.insert("exists:in-BIND-or-SELECT-expression".into()); } exists_shapes(i, inside_graph, depth, out) }
        Pat::Union(l, r) => { exists_shapes(l, inside_graph, depth, out); exists_shapes(r, inside_graph, depth, out) }
        Pat::Graph(_, i) => exists_shapes(i, true, depth, out),
        Pat::OrderBy(i, _) | Pat::Project(i, _) | Pat::Distinct(i) | Pat::Slice(i, _, _) => exists_shapes(i, inside_graph, depth, out),
        Pat::Bgp(_) | Pat::Unsup(_) => {}
    }
    for q in here {
        let (mut tv, mut ev, mut nested, mut flags) = (BTreeSet::new(), BTreeSet::new(), vec![], (false, false, false));
        group_shape(q, &mut tv, &mut ev, &mut nested, &mut flags);
        out.insert(if depth == 0 { "exists:any".into() } else { "exists:nested".to_string() });
        if inside_graph { out.insert("exists:evaluated-inside-GRAPH".into()); }
        if flags.0 { out.insert("exists:group-with-GRAPH".into()); }
        if flags.1 { out.insert("exists:group-with-BIND".into()); }
        if flags.2 { out.insert("exists:group-with-FILTER".into()); }
        if let Some(vs) = subselect_chain(q) { let mut reads = BTreeSet::new(); chain_reads(q, &mut reads); out.insert(if reads.iter().any(|v| !vs.contains(v)) { "exists:FILTER/BIND-above-a-sub-select-reads-a-variable-it-does-not-project (directed only)".into() } else { "exists:group-over-a-sub-select".to_string() }); }
        if ev.iter().any(|v| !tv.contains(v)) { out.insert("exists:FILTER/BIND-of-the-group-uses-a-variable-absent-from-its-triple-patterns".into()); }
        for n in &nested { let (mut tv2, mut ev2, mut n2, mut f2) = (BTreeSet::new(), BTreeSet::new(), vec![], (false, false, false)); group_shape(n, &mut tv2, &mut ev2, &mut n2, &mut f2);
            if tv2.iter().chain(ev2.iter()).any(|v| !tv.contains(v)) { out.insert("exists:nested-group-uses-a-variable-absent-from-the-enclosing-group's-triple-patterns".into()); } }
        exists_shapes(q, inside_graph, depth + 1, out);
    }
}
/// where quoted-triple patterns of depth >= 2 with a non-ground INNER pattern occur (for the input distribution)
fn nested_shapes(p: &Pat, in_graph: bool, in_exists: bool, out: &mut BTreeSet<String>) {
    fn ex(e: &Ex, in_graph: bool, out: &mut BTreeSet<String>) {
        match e { Ex::Exists(p) => nested_shapes(p, in_graph, true, out), Ex::Not(a) | Ex::Un(_, a) => ex(a, in_graph, out), Ex::Or(a, b) | Ex::And(a, b) | Ex::Bin(_, a, b) => { ex(a, in_graph, out); ex(b, in_graph, out) } _ => {} }
    }
    fn inner_kinds(t: &TP, depth: usize, out: &mut BTreeSet<&'static str>) {
        if let TP::Trip(b) = t {
            if depth >= 1 && !tp_ground(t) {
                out.insert("inner-non-ground");
                for x in b.iter() { match x { TP::Var(_) => { out.insert("inner-with-variable"); } TP::Bn(_) => { out.insert("inner-with-blank-node-placeholder"); } TP::Const(_) => { out.insert("inner-with-constant"); } TP::Trip(_) => {} } }
            }
            for x in b.iter() { inner_kinds(x, depth + 1, out) }
        }
    }
    match p {
        Pat::Bgp(ps) => {
            let mut bound_before: BTreeSet<String> = BTreeSet::new();
            for t in ps {
                for (pos, x) in t.iter().enumerate() {
                    let d = tpdepth(x);
                    let mut kinds = BTreeSet::new(); inner_kinds(x, 0, &mut kinds);
                    if d >= 2 && kinds.contains("inner-non-ground") {
                        let place = if in_exists { "inside-EXISTS" } else if in_graph { "inside-GRAPH" } else { "in-a-BGP" };
                        out.insert(format!("nested:depth-{}-{}-{place}", d.min(3), if pos == 0 { "subject" } else { "object" }));
                        for k in kinds { out.insert(format!("nested:{k}")); }
                        let mut vs = BTreeSet::new(); tp_vars(x, &mut vs);
                        if vs.iter().any(|v| bound_before.contains(v)) { out.insert("nested:inner-variable-bound-by-an-earlier-triple-pattern".into()); }
                        let mut occ = vec![]; fn occs(t: &TP, out: &mut Vec<String>) { match t { TP::Var(v) => out.push(format!("?{v}")), TP::Bn(b) => out.push(format!("_:{b}")), TP::Trip(b) => b.iter().for_each(|x| occs(x, out)), _ => {} } } occs(x, &mut occ);
                        let distinct: BTreeSet<&String> = occ.iter().collect(); if distinct.len() < occ.len() { out.insert("nested:repeated-variable-or-label-inside-one-pattern".into()); }
                    }
                }
                t.iter().for_each(|x| tp_vars(x, &mut bound_before));
            }
        }
        Pat::Filter(e, i) => { ex(e, in_graph, out); nested_shapes(i, in_graph, in_exists, out) }
        Pat::Extend(i, _, e) => { ex(e, in_graph, out); nested_shapes(i, in_graph, in_exists, out) }
        Pat::Union(l, r) => { nested_shapes(l, in_graph, in_exists, out); nested_shapes(r, in_graph, in_exists, out) }
        Pat::Graph(_, i) => nested_shapes(i, true, in_exists, out),
        Pat::OrderBy(i, _) | Pat::Project(i, _) | Pat::Distinct(i) | Pat::Slice(i, _, _) => nested_shapes(i, in_graph, in_exists, out),
        Pat::Unsup(_) => {}
    }
}
fn collect_ops(p: &Pat, out: &mut BTreeSet<&'static str>) {
    match p {
        Pat::Bgp(ps) => { out.insert(match ps.len() { 0 => "bgp0", 1 => "bgp1", _ => "bgp2+" }); for t in ps { for x in t { match x { TP::Bn(_) => { out.insert("bnode-placeholder"); } TP::Trip(_) => { out.insert("quoted-pattern"); } _ => {} } } } }
        Pat::Filter(_, i) => { out.insert("filter"); collect_ops(i, out) }
        Pat::Union(l, r) => { out.insert("union"); collect_ops(l, out); collect_ops(r, out) }
        Pat::Graph(NP::Const(_), i) => { out.insert("graph-const"); collect_ops(i, out) }
        Pat::Graph(NP::Var(_), i) | Pat::Graph(NP::Term(_), i) => { out.insert("graph-var"); collect_ops(i, out) }
        Pat::Extend(i, _, _) => { out.insert("extend"); collect_ops(i, out) }
        Pat::OrderBy(i, _) => { out.insert("order-by"); collect_ops(i, out) }
        Pat::Project(i, _) => { out.insert("project"); collect_ops(i, out) }
        Pat::Distinct(i) => { out.insert("distinct"); collect_ops(i, out) }
        Pat::Slice(i, _, _) => { out.insert("slice"); collect_ops(i, out) }
        Pat::Unsup(k) => { out.insert(k); }
    }
}

fn main() {
    let a = parse_args();
    if std::env::var("C13_DEBUG").is_err() { std::panic::set_hook(Box::new(|_| {})); }
    let mut sum = Summary::default();
    sum.rule = "case = (dataset: default graph + 0..3 named graphs (one named by a blank node) sharing triples drawn from a pool with integers incl. isize::MIN/MAX, big and ill-typed ones, strings, booleans, decimals, doubles, dateTime, custom datatypes, language tags in both cases, quoted triples; query from the supported grammar: <= 4 triple patterns per BGP with repeated variables, blank node placeholders, quoted triple patterns, nested UNION / GRAPH (constant, variable, absent name) / FILTER (comparisons, BOUND, sameTerm, type errors) / BIND / sub-select / DISTINCT / projection / ORDER BY / OFFSET-LIMIT, [NOT] EXISTS (in FILTER, under connectives, in BIND and SELECT expressions) over GROUPS with FILTER / BIND / nested EXISTS / GRAPH that read variables of the enclosing group absent from the group's triple patterns (18.6 substitution; oracle by carrying the substitution out; sub-selects inside the group are decided when they hide no variable bound outside -- directed queries only, known finding EXISTS-SUBSELECT-DROPS-OUTER), comparisons over integer arithmetic that leaves the isize range and comes back; a second random stream of one BGP tested by one EXISTS group; or one of the directed queries incl. every unsupported operator; streams `nested-*`: datasets made of quoted triples of depth 2 and 3 with their one-place variants (another constant / a quoted triple where there was an atom / an atom or a component where there was a quoted triple, at every depth) as subjects and objects in the default and in named graphs, queried by quoted-triple patterns that keep that structure down to depth 3 with inner patterns mixing constants, fresh / repeated / already bound variables and blank node placeholders -- in BGPs, inside GRAPH, inside [NOT] EXISTS, and through the whole random grammar -- plus directed queries of that kind; stream `fresh` (+ directed): BNODE() / BNODE(str) / BNODE(?v), alone or carried by TRIPLE / IF / COALESCE or tested by isBlank / sameTerm, in BIND and SELECT expressions over patterns steered to have 2+ solutions, under DISTINCT, UNION, GRAPH, sub-selects, FILTER / EXISTS reading the created node, OFFSET / LIMIT -- answers compared up to ONE renaming of the created blank nodes for the whole answer (no created node in two rows, none a node of the dataset); streams `slice-sweep-*` (+ directed): six OFFSET / LIMIT windows, placed by the number of solutions, per query -- over datasets of chains with few loops queried by BGPs with a repeated variable / blank node placeholder (also inside quoted-triple patterns) reached through projection, BIND, GRAPH, FILTER, DISTINCT, UNION, sub-selects with a window of their own, and over the random grammar); \
non-trivial = the engine returned at least one row / true, or an error was expected; distinct = distinct (query text, dataset)".into();
    let base = Rng::new(a.seed);
    let dir = directed();
    // shared datasets
    let ndata = 24usize;
    let mut datasets: Vec<Vec<Quad4>> = directed_datasets();
    for k in 0..ndata { let mut r = base.fork(1_000_000 + k as u64); datasets.push(gen_dataset(&mut r)); }
    // the datasets of the streams `nested-*` come after the others (the random streams above keep drawing from the first ones)
    let n_plain = datasets.len();
    let dn_directed = datasets.len();
    datasets.push(directed_nested_dataset());
    let n_nested_data = 10usize;
    for k in 0..n_nested_data { let mut r = base.fork(1_500_000 + k as u64); datasets.push(gen_nested_dataset(&mut r)); }
    // the datasets of `directed_more` and of the stream `slice-sweep`
    let dmore_loop = datasets.len();
    datasets.push(directed_loop_dataset());
    let loop_from = datasets.len();
    let n_loop_data = 8usize;
    for k in 0..n_loop_data { let mut r = base.fork(1_700_000 + k as u64); datasets.push(gen_loop_dataset(&mut r)); }
    let mut stores = vec![];
    let mut model_data = vec![]; // quads in the engine's iteration order, canonicalised
    for (k, q) in datasets.iter().enumerate() {
        let mut r = base.fork(2_000_000 + k as u64);
        let d = build(q, &mut r);
        let it: Vec<Quad4> = d.quads().map(|q| { let q = q.unwrap(); (T::from_term(q.s()), T::from_term(q.p()), T::from_term(q.o()), q.g().map(|g| T::from_term(g))) }).collect();
        let mut want: Vec<Quad4> = q.clone(); want.sort(); let mut got = it.clone(); got.sort();
        if want != got { sum.oracle_failures.push((format!("dataset{k}"), "store: the dataset does not hold exactly the inserted quads".into())); }
        model_data.push(it);
        stores.push(d);
    }
    let mut header = String::from("From Sophia.C13 Require Import Model Eval Exists Fresh.\n");
    for (k, q) in model_data.iter().enumerate() {
        header.push_str(&format!("Definition d{k} : dataset := {}.\n", coq_list(q.iter().map(|(s, p, o, g)| format!("(({}, {}, {}), {})", s.coq(), p.coq(), o.coq(), coq_opt(g.as_ref().map(|g| g.coq())))))));
    }
    let mut cases = vec![];
    let mut seen = HashSet::new();
    let n_exists = a.n / 4;   // the stream `random-exists` comes after the random one
    // then the directed `nested` queries and the streams `nested-bgp` / `nested-random` / `nested-exists` (2 : 1 : 1)
    let dirn = directed_nested();
    let n_nested = a.n / 2;
    let nested_from = dir.len() + a.n + n_exists;
    // then `directed_more` and the streams `fresh` and `slice-sweep` (six windows per query)
    let dir2 = directed_more();
    let more_from = nested_from + dirn.len() + n_nested;
    let fresh_from = more_from + dir2.len();
    let n_fresh = a.n / 4;
    let sweep_from = fresh_from + n_fresh;
    const WINDOWS: usize = 6;
    let n_sweep = (a.n / 2 / WINDOWS) * WINDOWS;
    let total = sweep_from + n_sweep;
    let range: Vec<usize> = match a.only { Some(i) => vec![i], None => (0..total).collect() };
    for idx in range {
        EXOTIC_OPERAND.with(|f| f.set(false));
        SUBSELECT_DROPS_OUTER.with(|f| f.set(false));
        let mut r = base.fork(idx as u64);
        let (label, di, text) = if idx < dir.len() { let (l, d, q) = &dir[idx]; (*l, *d, q.clone()) }
        else if idx >= nested_from && idx < nested_from + dirn.len() { let (l, q) = &dirn[idx - nested_from]; (*l, dn_directed, q.clone()) }
        else if idx >= sweep_from {
            // the query is drawn from (seed, idx / WINDOWS): the WINDOWS cases of one query differ in their OFFSET / LIMIT only
            let (qid, w) = ((idx - sweep_from) / WINDOWS, (idx - sweep_from) % WINDOWS);
            let mut rq = base.fork(3_000_000 + qid as u64);
            let loops = qid % 3 != 2;
            let di = if loops { loop_from + rq.below(n_loop_data) } else { rq.below(n_plain) };
            let upper = rq.chance(1, 3);
            // the number of solutions the engine gives without a window only STEERS the generation: of up to 8 queries the
            // first with 3 or more rows (else the one with most rows) is kept, and the windows are placed by that number
            let (mut unsliced, mut total) = (String::new(), 0usize);
            for attempt in 0..8 {
                let mut g = Gen { r: &mut rq, quads: &datasets[di], unsafe_vars: BTreeSet::new(), upper, wit: vec![], bn: 0, bnwit: vec![], fresh: 0, nested: false };
                let cand = if loops { g.loop_query() } else { g.unsliced_query() };
                let n = match run_engine(&stores[di], &cand).0 { Obs::Rows(_, rows) => rows.len(), _ => 0 };
                if attempt == 0 || n > total { unsliced = cand; total = n; }
                if total >= 3 { break }
            }
            let (off, lim): (usize, Option<usize>) = match w {
                0 => (0, Some(1)),
                1 => (0, Some(total.saturating_sub(1).max(1))),
                2 => (1, Some(1)),
                3 => (total / 2, Some(total - total / 2)),
                4 => (r.below(total + 1), Some(r.below(total + 2))),
                _ => if r.chance(1, 3) { (total.saturating_sub(1), None) } else { (r.below(total + 1), Some(1 + r.below(total + 1))) },
            };
            let mut text = unsliced;
            if off > 0 || r.chance(1, 8) { text.push_str(&format!(" OFFSET {off}")) }
            if let Some(l) = lim { text.push_str(&format!(" LIMIT {l}")) }
            (if loops { "slice-sweep-loops" } else { "slice-sweep-random" }, di, text)
        }
        else if idx >= fresh_from {
            let di = r.below(n_plain);
            let upper = r.chance(1, 3);
            // steered likewise: of up to 5 queries the first to which the engine answers 2 or more rows (else the last)
            let mut text = String::new();
            for _ in 0..5 {
                let mut g = Gen { r: &mut r, quads: &datasets[di], unsafe_vars: BTreeSet::new(), upper, wit: vec![], bn: 0, bnwit: vec![], fresh: 0, nested: false };
                text = g.fresh_query();
                if matches!(run_engine(&stores[di], &text).0, Obs::Rows(_, rows) if rows.len() >= 2) { break }
            }
            ("fresh", di, text)
        }
        else if idx >= more_from { let (l, d, q) = &dir2[idx - more_from]; (*l, if *d == 3 { dmore_loop } else { *d }, q.clone()) }
        else if idx >= nested_from + dirn.len() {
            let di = dn_directed + 1 + r.below(n_nested_data);
            let upper = r.chance(1, 3);
            let mut g = Gen { r: &mut r, quads: &datasets[di], unsafe_vars: BTreeSet::new(), upper, wit: vec![], bn: 0, bnwit: vec![], fresh: 0, nested: true };
            match (idx - nested_from - dirn.len()) % 4 { 0 | 1 => ("nested-bgp", di, g.nested_query()), 2 => ("nested-random", di, g.query()), _ => ("nested-exists", di, g.exists_query()) }
        } else {
            let di = r.below(n_plain);
            let upper = r.chance(1, 3);
            let mut g = Gen { r: &mut r, quads: &datasets[di], unsafe_vars: BTreeSet::new(), upper, wit: vec![], bn: 0, bnwit: vec![], fresh: 0, nested: false };
            if idx >= dir.len() + a.n { ("random-exists", di, g.exists_query()) } else { ("random", di, g.query()) }
        };
        let ds = Ds { quads: datasets[di].clone() };
        let dlabels = data_labels(&datasets[di]);
        FRESH_COUNTER.with(|c| c.set(0));
        let (obs, dbg) = run_engine(&stores[di], &text);
        // a prepared query is a value: run on another dataset first and then on this one, it answers like a fresh one
        // (queries creating blank nodes / random values are not comparable run to run)
        if stores.len() > 1 && !matches!(obs, Obs::Parse(_)) && (idx % 2 == 0 || text.contains("GRAPH")) {
            let up = text.to_ascii_uppercase();
            if !["BNODE", "RAND", "UUID", "NOW"].iter().any(|f| up.contains(f)) {
                for decoy in [(di + 1) % stores.len(), (di + stores.len() - 1) % stores.len()] {
                    if decoy == di { continue }
                    if let Some(o2) = run_engine_reused(&stores[decoy], &stores[di], &text) {
                        sum.bump("prepared-query-reused");
                        if obs_key(&o2) != obs_key(&obs) {
                            sum.oracle_failures.push((idx.to_string(), format!("prepared query reused: `{text}` executed on dataset d{decoy} and then on d{di} answers {o2:?}, a freshly prepared one answers {obs:?} on d{di}")));
                            break;
                        }
                    }
                }
            }
        }
        let verbose = a.only.is_some();
        if verbose { println!("CASE {idx} [{label}] dataset d{di}:\n  {text}\n  engine: {obs:?}"); }
        if let Obs::Parse(e) = &obs { sum.bump("rejected-by-the-parser"); if std::env::var("C13_DEBUG").is_ok() { eprintln!("REJECT {e} :: {text}"); } if verbose { println!("  parse error: {e}") } continue; }
        let q = match rd_query(dbg.as_ref().unwrap()) { Ok(q) => q, Err(e) => { sum.oracle_failures.push((idx.to_string(), format!("harness: cannot read the algebra back ({e}) for {text}"))); continue } };
        if verbose { println!("  algebra: {q:?}"); }
        sum.evaluations += 1;
        // ---------- oracle ----------
        let describe = |exp: &str| {
            let data = datasets[di].iter().map(|(s, p, o, g)| format!("{} {} {} {}", s.sparql(false), p.sparql(false), o.sparql(false), g.as_ref().map(|g| g.sparql(false)).unwrap_or_default())).collect::<Vec<_>>().join(" . ");
            let answered = match &obs { Obs::Rows(v, r) => format!("{} row(s) over {v:?}: {:?}", r.len(), canon_rows(v, r)), o => format!("{o:?}") };
            // the datasets of the `nested` streams are large: the query, the answer and the expectation come first
            if label.starts_with("nested") { format!("{label}: query `{text}` on dataset d{di}: the engine answered {answered}; the algebra gives {exp}; dataset d{di} = [{data}]") }
            else { format!("{label}: query `{text}` on dataset [{data}]: the engine answered {answered}; the algebra gives {exp}") }
        };
        let (pat, is_ask, has_ds) = match &q { Qy::Select(d, p) => (Some(p), false, *d), Qy::Ask(d, p) => (Some(p), true, *d), _ => (None, false, false) };
        let expect_err = pat.is_none() || has_ds || pat_unsupported(pat.unwrap());
        let mut nontrivial = false;
        if let Obs::Panic(m) = &obs { sum.oracle_failures.push((idx.to_string(), describe(&format!("an answer, not a panic (panic message: {m})")))); sum.bump("engine:panic"); }
        else if expect_err {
            nontrivial = true;
            sum.bump("expected:not-implemented");
            match &obs { Obs::Err(e) if e.starts_with("Not implemented") => {}, _ => sum.oracle_failures.push((idx.to_string(), describe("an explicit not-implemented error (the query uses an unsupported operator)"))) }
        } else {
            let pat = pat.unwrap();
            match eval_top(pat, &ds) {
                Err(OErr::Unsupported) => unreachable!(),
                Err(OErr::Undetermined(why)) => { sum.bump(&format!("oracle-undetermined:{why}")); }
                Ok((mus, _)) if shared_fresh(mus.iter().map(|m| m.values().collect()), &dlabels).is_some() => { sum.bump("oracle-undetermined:a created blank node occurs in two solutions of the oracle"); }
                Ok((mus, slice)) => {
                    let count = |mus: &[Mu], slice: Option<(usize, Option<usize>)>| match slice { None => mus.len(), Some((s, l)) => { let rest = mus.len().saturating_sub(s); l.map_or(rest, |l| l.min(rest)) } };
                    let expected_n = count(&mus, slice);
                    // is the engine's answer the one that these solutions (and the outermost OFFSET / LIMIT) prescribe?
                    let answers = |mus: &[Mu], slice: Option<(usize, Option<usize>)>| -> bool {
                        let n = count(mus, slice);
                        match &obs {
                            Obs::Bool(b) if is_ask => *b == (n > 0),
                            Obs::Rows(vars, rows) if !is_ask => {
                                // blank nodes created by BNODE: equal up to one renaming for the whole answer
                                if shared_fresh(rows.iter().map(|r| r.iter().flatten().collect()), &dlabels).is_some() { return false }
                                let (got, want) = (mask_rows(canon_rows(vars, rows), &dlabels), mask_rows(canon_mus(vars, mus), &dlabels));
                                if slice.is_none() { got == want } else { rows.len() == n && sub_multiset(&got, &want) } }
                            _ => false,
                        }
                    };
                    // the known finding EXISTS-SUBSELECT-DROPS-OUTER: the tag is given only when the oracle met an EXISTS group of
                    // exactly that shape with a solution binding the dropped variable AND the engine's answer is the one the
                    // engine's reading of such groups (ENGINE_PROJECT_READING) produces
                    let tagged = |d: String| -> String {
                        if !SUBSELECT_DROPS_OUTER.with(|f| f.get()) { return d }
                        let exotic_before = EXOTIC_OPERAND.with(|f| f.get());
                        ENGINE_PROJECT_READING.with(|f| f.set(true));
                        let alt = eval_top(pat, &ds);
                        ENGINE_PROJECT_READING.with(|f| f.set(false));
                        EXOTIC_OPERAND.with(|f| f.set(exotic_before));
                        match alt { Ok((m, s)) if answers(&m, s) => format!("EXISTS-SUBSELECT-DROPS-OUTER: {text} -- the projection of a sub-select inside an EXISTS group drops the variables bound outside the group, so the FILTER / BIND of the group above the sub-select read them as unbound (18.6 substitutes them): {d}"), _ => d }
                    };
                    match &obs {
                        Obs::Bool(b) if is_ask => { sum.bump("expected:ask"); if *b { nontrivial = true } if !answers(&mus, slice) { sum.oracle_failures.push((idx.to_string(), tagged(describe(&format!("{}", expected_n > 0))))) } }
                        Obs::Rows(vars, rows) if !is_ask => {
                            sum.bump("expected:rows");
                            if !rows.is_empty() { nontrivial = true }
                            let want = canon_mus(vars, &mus);
                            if !answers(&mus, slice) {
                                let fresh_note = if pat_has_fresh(pat) { match shared_fresh(rows.iter().map(|r| r.iter().flatten().collect()), &dlabels) { Some(b) => format!(" (every BNODE call creates a blank node of its own for every solution, 17.4.2.9: equal up to ONE renaming of the created nodes for the whole answer; the engine's _:{b} occurs in two rows)"), None => " (equal up to one renaming of the blank nodes created by BNODE)".to_string() } } else { String::new() };
                                sum.oracle_failures.push((idx.to_string(), tagged(describe(&format!("{} solution(s){}: {:?}{fresh_note}", expected_n, if slice.is_some() { " taken from" } else { "" }, want))))) }
                            sum.bump(&format!("rows:{}", match rows.len() { 0 => "0", 1 => "1", 2..=9 => "2-9", _ => "10+" }));
                        }
                        _ => { sum.bump("engine:error-on-supported-query"); sum.oracle_failures.push((idx.to_string(), describe("solutions (no operator is unsupported)"))) }
                    }
                }
            }
        }
        if let (Some(p), false) = (pat, expect_err) {
            let mut sh = BTreeSet::new(); exists_shapes(p, false, 0, &mut sh);
            if !sh.is_empty() {
                let exotic_before = EXOTIC_OPERAND.with(|f| f.get());
                if let Ok((good, _)) = eval_top(p, &ds) {
                    BGP_ONLY_SUBSTITUTION.with(|f| f.set(true));
                    let bad = eval_top(p, &ds);
                    BGP_ONLY_SUBSTITUTION.with(|f| f.set(false));
                    if std::env::var("C13_DEBUG").is_ok() && label.starts_with("random") { eprintln!("EXISTS-CASE {idx} good={} bad={:?} :: {text}", good.len(), bad.as_ref().map(|b| b.0.len())); }
                    if let Ok((bad, _)) = bad { let all: Vec<String> = good.iter().chain(bad.iter()).flat_map(|m| m.keys().cloned()).collect::<BTreeSet<_>>().into_iter().collect();
                        if canon_mus(&all, &good) != canon_mus(&all, &bad) { sum.bump(&format!("exists:the-answer-depends-on-outer-variables-reaching-FILTER/BIND/nested-EXISTS ({})", if label.starts_with("random") { label } else { "directed" })); } }
                }
                EXOTIC_OPERAND.with(|f| f.set(exotic_before));
            }
        }
        sum.bump(&format!("stream:{label}"));
        if let (Some(p), Obs::Rows(_, rows)) = (pat, &obs) {
            if pat_has_fresh(p) { sum.bump(&format!("fresh:{} row(s)", match rows.len() { 0 => "0", 1 => "1", _ => "2+" })); if rows.len() >= 2 && pat_has(p, &|q| matches!(q, Pat::Distinct(_)), &|_| false) { sum.bump("fresh:2+ rows under DISTINCT") } }
            if label.starts_with("slice-") { if let Pat::Slice(i, s, l) = p {
                if let Ok(inner) = eval(i, &ds, &None) { let n = inner.len(); let kept = rows.len();
                    sum.bump(&format!("{}:{}", if label == "slice-directed" { "slice-directed" } else { "slice-sweep" }, if n == 0 { "no solution below the window" } else if kept == n { "the window keeps every solution" } else if kept == 0 { "the window keeps nothing" } else { "a proper window (some solutions kept, some cut)" }));
                    let _ = (s, l); }
                if let Pat::Bgp(ps) = { let mut q: &Pat = i; loop { match q { Pat::Project(j, _) | Pat::Extend(j, _, _) => q = j, _ => break q } } } {
                    let repeated = ps.iter().any(|t| { let mut occ = vec![]; fn occs(t: &TP, out: &mut Vec<String>) { match t { TP::Var(v) => out.push(format!("?{v}")), TP::Bn(b) => out.push(format!("_:{b}")), TP::Trip(b) => b.iter().for_each(|x| occs(x, out)), _ => {} } } t.iter().for_each(|x| occs(x, &mut occ)); occ.iter().collect::<BTreeSet<_>>().len() < occ.len() });
                    if repeated && !rows.is_empty() { sum.bump("slice:a window directly over projection / BIND / BGP with a repeated variable or label, non-empty answer"); }
                }
            } }
        }
        // quoted-triple patterns nested in quoted-triple patterns: where they occur, and whether the answer depends on them
        if let (Some(p), false) = (pat, expect_err) {
            let mut sh = BTreeSet::new(); nested_shapes(p, false, false, &mut sh);
            if !sh.is_empty() {
                let stream = if label.starts_with("nested") { if idx < nested_from + dirn.len() { "nested-directed" } else { label } } else { "other-streams" };
                for o in &sh { sum.bump(&format!("{o} ({stream})")) }
                let exotic_before = EXOTIC_OPERAND.with(|f| f.get());
                let flags_before = SUBSELECT_DROPS_OUTER.with(|f| f.get());
                if let Ok((good, _)) = eval_top(p, &ds) {
                    INNER_PATTERNS_ACCEPT_ANYTHING.with(|f| f.set(true));
                    let bad = eval_top(p, &ds);
                    INNER_PATTERNS_ACCEPT_ANYTHING.with(|f| f.set(false));
                    if let Ok((bad, _)) = bad { let all: Vec<String> = good.iter().chain(bad.iter()).flat_map(|m| m.keys().cloned()).collect::<BTreeSet<_>>().into_iter().collect();
                        if canon_mus(&all, &good) != canon_mus(&all, &bad) { sum.bump(&format!("nested:the-answer-depends-on-an-INNER-non-ground-pattern-rejecting-a-term-of-the-data ({stream})")); } }
                }
                EXOTIC_OPERAND.with(|f| f.set(exotic_before));
                SUBSELECT_DROPS_OUTER.with(|f| f.set(flags_before));
            }
        }
        if let Some(p) = pat { let mut ops = BTreeSet::new(); collect_ops(p, &mut ops); for o in ops { sum.bump(&format!("op:{o}")) }
            let mut sh = BTreeSet::new(); exists_shapes(p, false, 0, &mut sh); for o in sh { sum.bump(&o) } }
        if seen.insert((text.clone(), di)) && nontrivial { sum.distinct_nontrivial += 1; }
        if sum.samples.len() < 6 && nontrivial && idx >= dir.len() { sum.samples.push(format!("case {idx} on d{di}: {text} => {}", match &obs { Obs::Rows(v, r) => format!("{} rows over {v:?}", r.len()), o => format!("{o:?}") })); }
        // ---------- Coq case ----------
        if EXOTIC_OPERAND.with(|f| f.replace(false)) { sum.bump("coq:skipped (an expression touched a decimal/float/double/dateTime/ill-formed operand: expression layer c13e)"); continue }
        // queries with EXISTS go to the model of coq/C13/Exists.v (checker wquery_ok), the others to Model.v / Eval.v
        // BNODE: the model runs with a placeholder node, the engine's rows are masked alike, the labels go to Fresh.fresh_ok
        let with_fresh = pat.map_or(false, pat_has_fresh);
        let masked = with_fresh && pat.map_or(false, maskable);
        if with_fresh { sum.bump(if masked { "coq:with-BNODE (placeholder node + Fresh.fresh_ok)" } else { "coq:with-BNODE not expressible (DISTINCT / a reader of the created node / BNODE inside an expression)" }); }
        MASK_FRESH.with(|f| f.set(masked));
        let cq0 = c_query(&q);
        MASK_FRESH.with(|f| f.set(false));
        let (checker, cq) = match cq0 { Some(cq) => ("query_ok", cq), None => match w_query(&q) { Some(wq) => { sum.bump("coq:with-EXISTS (Exists.v)"); ("wquery_ok", wq) } None => { sum.bump("coq:not-expressible"); continue } } };
        let observed = match &obs {
            Obs::Rows(vars, rows) => {
                if rows.len() > 300 { sum.bump("coq:too-many-rows"); continue }
                let Some(in_order) = pat.map_or(Some(false), compare_in_order) else { sum.bump("coq:skipped (ORDER BY beneath OFFSET/LIMIT: the kept rows depend on the order, C14)"); continue };
                let show = |t: &T| -> String { if masked { rename_bn(t, &mut |b: &str| if dlabels.contains(b) { b.to_string() } else { MASK.to_string() }).coq() } else { t.coq() } };
                format!("(ORows {} {} {})", coq_list(vars.iter().map(|v| coq_str(v))), coq_list(rows.iter().map(|r| coq_list(r.iter().map(|t| coq_opt(t.as_ref().map(|t| show(t))))))), coq_bool(in_order))
            }
            Obs::Bool(b) => format!("(OBool {})", coq_bool(*b)),
            Obs::Err(e) => {
                let code = if let Some(k) = e.strip_prefix("Not implemented: ") {
                    match k { "Path" => "(NotImplemented UPath)", "Join" => "(NotImplemented UJoin)", "LeftJoin" => "(NotImplemented ULeftJoin)", "Minus" => "(NotImplemented UMinus)",
                        "Values" => "(NotImplemented UValues)", "Reduced" => "(NotImplemented UReduced)", "Group" => "(NotImplemented UGroup)", "Service" => "(NotImplemented UService)",
                        "FROM NAMED" => "NotImplementedFromNamed", "CONSTRUCT query" | "DESCRIBE query" => "NotImplementedForm", _ => "(Override [])" }.to_string()
                } else if let Some(v) = e.strip_prefix("Override variable: ") { format!("(Override {})", coq_str(v)) } else { "(Override [0])".into() };
                format!("(OErr {code})")
            }
            Obs::Panic(_) => "(OErr (Override [0;0]))".into(), // never equal to a model answer
            Obs::Parse(_) => unreachable!(),
        };
        let fresh_part = match (&obs, masked) {
            (Obs::Rows(_, rows), true) => format!(" && fresh_ok d{di} {}", coq_list(rows.iter().map(|r| { let mut v = vec![]; for t in r.iter().flatten() { bn_labels(t, &mut v) } let v: BTreeSet<String> = v.into_iter().filter(|b| !dlabels.contains(b)).collect(); coq_list(v.iter().map(|b| coq_str(b))) }))),
            _ => String::new() };
        cases.push((idx, format!("{checker} d{di} {cq} {observed}{fresh_part}")));
    }
    if a.only.is_none() {
        sum.shards = write_shards(&a.out, &header, &cases, a.shards);
        sum.extra.push(("coq_cases".into(), cases.len().to_string()));
        sum.extra.push(("directed_cases".into(), dir.len().to_string()));
        std::fs::write(format!("{}/summary.json", a.out), sum.to_json()).unwrap();
    } else {
        for (i, c) in &cases { println!("  coq c{i} := {c}"); }
        for (c, d) in &sum.oracle_failures { println!("  ORACLE FAILURE {c}: {d}"); }
    }
    println!("c13: {} cases, {} distinct non-trivial, {} coq cases, {} oracle failures", sum.evaluations, sum.distinct_nontrivial, cases.len(), sum.oracle_failures.len());
}
