(* C08/Utf8.v -- the byte -> text layer every parser entry point rests on ("given any byte sequence").
   Definitions only.  `utf8` (the encoder) is Common/Term.v's; here: Unicode scalar values, the strict decoder
   (Unicode Table 3-7: no overlong forms, no surrogates, nothing above U+10FFFF -- what Rust's
   String::from_utf8 / str::from_utf8 accept), character boundaries, the JSON-LD parser's bytes entry point
   (jsonld/src/parser.rs, `QuadParser::parse`: read everything, `String::from_utf8`, then `parse_str`),
   and the harness-facing checker. *)
From Sophia.Common Require Import Prelude Term.

Definition scalar (c : N) : bool := (c <? 55296) || ((57343 <? c) && (c <? 1114112)).
Definition scalar_str (s : str) : bool := forallb scalar s.
Definition cont (b : N) : bool := (128 <=? b) && (b <? 192).

Fixpoint utf8_dec (l : list N) : option str :=
  match l with
  | [] => Some []
  | b0 :: r =>
      if b0 <? 128 then option_map (cons b0) (utf8_dec r)
      else if b0 <? 192 then None
      else if b0 <? 224 then
        match r with
        | b1 :: r1 =>
            let c := (b0 - 192) * 64 + (b1 - 128) in
            if cont b1 && (128 <=? c) then option_map (cons c) (utf8_dec r1) else None
        | _ => None
        end
      else if b0 <? 240 then
        match r with
        | b1 :: b2 :: r1 =>
            let c := (b0 - 224) * 4096 + (b1 - 128) * 64 + (b2 - 128) in
            if cont b1 && cont b2 && (2048 <=? c) && scalar c
            then option_map (cons c) (utf8_dec r1) else None
        | _ => None
        end
      else if b0 <? 248 then
        match r with
        | b1 :: b2 :: b3 :: r1 =>
            let c := (b0 - 240) * 262144 + (b1 - 128) * 4096 + (b2 - 128) * 64 + (b3 - 128) in
            if cont b1 && cont b2 && cont b3 && (65536 <=? c) && scalar c
            then option_map (cons c) (utf8_dec r1) else None
        | _ => None
        end
      else None
  end.

Definition utf8_valid (b : list N) : bool := match utf8_dec b with Some _ => true | None => false end.

(* str::is_char_boundary: offset 0, the end, or a byte that is not a continuation byte *)
Definition is_boundary (b : list N) (i : nat) : bool :=
  match i with
  | O => true
  | _ => if Nat.eqb i (length b) then true else match nth_error b i with Some x => negb (cont x) | None => false end
  end.

(* slicing as `&txt[i..j]` does: defined only on character boundaries with i <= j <= len *)
Definition slice (b : list N) (i j : nat) : option (list N) :=
  if Nat.leb i j && Nat.leb j (length b) && is_boundary b i && is_boundary b j
  then Some (firstn (j - i) (skipn i b)) else None.

(* JsonLdParser::parse on a BufRead: Err(Utf8) or the text handed to parse_str *)
Inductive jsonld_entry := Utf8Error | Text (s : str).
Definition jsonld_parse_bytes (b : list N) : jsonld_entry :=
  match utf8_dec b with None => Utf8Error | Some s => Text s end.

(* harness-facing: the observed validity of the bytes, their code points, and (for the JSON-LD parser) whether
   the error it reported was the UTF-8 one *)
Definition utf8_ok (bytes : list N) (valid : bool) (cps : str) (jsonld_utf8_error : option bool) : bool :=
  match jsonld_parse_bytes bytes with
  | Text s => valid && str_eqb s cps && match jsonld_utf8_error with Some e => negb e | None => true end
  | Utf8Error => negb valid && match jsonld_utf8_error with Some e => e | None => true end
  end.
