(* C14/EngineProofs.v -- the conversions that the engine uses (Engine.v) against [conv_ok]:
   every promotion of the repaired engine is round-to-nearest-even of the exact value, so the
   hypothesis of Proofs.v holds for it and the cross-type theorems have no hypothesis on the
   conversions left; the library routines used before the repairs are refuted (BigDecimal::to_f64
   crosses a double), with the consequence for ORDER BY, and satisfy the hypothesis number by
   number wherever they return the correctly rounded value. *)
From Coq Require Import QArith Qround Lia Lqa.
From Coq Require Import Sorting.Sorted Sorting.Permutation.
From Sophia.C14 Require Import Model Proofs Rounding RoundingProofs Engine.
Local Close Scope N_scope.
Local Open Scope Z_scope.

(* ================= the hypothesis of Proofs.v, one number at a time ================= *)
Definition conv_ok_at (c : num -> fl) (fmt : fl -> Prop) (n : num) : Prop :=
  forall q f v, num_q n = Some q -> fmt f -> fl_ext f = Some (EFin v) ->
    (Qle q v -> fl_le (c n) f) /\ (Qle v q -> fl_le f (c n)).
Lemma conv_ok_all c fmt : conv_ok c fmt <-> forall n, conv_ok_at c fmt n.
Proof. unfold conv_ok, conv_ok_at. split; intros H; intros; eapply H; eauto. Qed.

Lemma float_vs_exact_at c fmt x n q r :
  conv_ok_at c fmt n -> fmt x -> num_q n = Some q -> r <> Eq ->
  fl_partial_cmp x (c n) = Some r -> binary_float_exact_cmp x q = Some r.
Proof.
  intros Hc Fx Hq Hr. unfold fl_partial_cmp.
  destruct x as [|[|]|s m e]; simpl fl_ext; try discriminate.
  - destruct (fl_ext (c n)) as [[|y|]|]; simpl; intros E; inversion E; subst; congruence.
  - destruct (fl_ext (c n)) as [[|y|]|]; simpl; intros E; inversion E; subst; congruence.
  - destruct (Hc q (FFin s m e) (q_of_fin s m e) Hq Fx eq_refl) as [H1 H2].
    unfold fl_le in H1, H2. simpl fl_ext in H1, H2.
    destruct (fl_ext (c n)) as [ec|]; [|discriminate]. intros E.
    assert (E' : ext_cmp (EFin (q_of_fin s m e)) ec = r) by congruence. clear E.
    cbn [binary_float_exact_cmp].
    destruct r; try congruence.
    + assert (G : ext_cmp ec (EFin (q_of_fin s m e)) = Gt)
        by (rewrite ext_cmp_antisym, E'; reflexivity).
      destruct (Qcompare (q_of_fin s m e) q) eqn:C; auto.
      * exfalso. apply H1; auto. apply Qle_alt. rewrite <- Qcompare_antisym, C. discriminate.
      * exfalso. apply H1; auto. apply Qle_alt. rewrite <- Qcompare_antisym, C. discriminate.
    + destruct (Qcompare (q_of_fin s m e) q) eqn:C; auto.
      * exfalso. apply H2; auto. apply Qle_alt. rewrite C. discriminate.
      * exfalso. apply H2; auto. apply Qle_alt. rewrite C. discriminate.
Qed.
Lemma exact_vs_float_at c fmt x n q r :
  conv_ok_at c fmt n -> fmt x -> num_q n = Some q -> r <> Eq ->
  fl_partial_cmp (c n) x = Some r -> option_map CompOpp (binary_float_exact_cmp x q) = Some r.
Proof.
  intros Hc Fx Hq Hr E. apply fl_partial_cmp_swap in E.
  rewrite (float_vs_exact_at c fmt x n q (CompOpp r) Hc Fx Hq) by (destruct r; simpl; congruence || assumption).
  simpl. destruct r; reflexivity.
Qed.

(* the conversions behave on this number (floats are not converted) *)
Definition num_conv_ok c64 c32 (f64 f32 : fl -> Prop) (n : num) : Prop :=
  match n with
  | Float _ | Double _ => True
  | _ => conv_ok_at c64 f64 n /\ conv_ok_at c32 f32 n
  end.
Definition item_conv_ok c64 c32 f64 f32 (a : item) : Prop :=
  match val a with Some (VNum n) => num_conv_ok c64 c32 f64 f32 n | _ => True end.

Lemma num_refine_at c64 c32 f64 f32 n1 n2 r :
  num_conv_ok c64 c32 f64 f32 n1 -> num_conv_ok c64 c32 f64 f32 n2 ->
  num_fmt f64 f32 n1 -> num_fmt f64 f32 n2 -> r <> Eq ->
  num_partial_cmp c64 c32 n1 n2 = Some r -> num_exact_cmp n1 n2 = Some r.
Proof.
  intros C1 C2 F1 F2 Hr.
  destruct n1 as [z1|z1|m1 s1|x|x]; destruct n2 as [z2|z2|m2 s2|y|y];
    unfold num_partial_cmp, num_exact_cmp; simpl as_binary_float; simpl coerce_to_double;
    simpl coerce_to_float; simpl in F1, F2, C1, C2; auto;
    try (apply (float_vs_exact_at c64 f64); try tauto; reflexivity);
    try (apply (float_vs_exact_at c32 f32); try tauto; reflexivity);
    try (apply (exact_vs_float_at c64 f64); try tauto; reflexivity);
    try (apply (exact_vs_float_at c32 f32); try tauto; reflexivity).
Qed.

Theorem order_by_refines_cmp_at c64 c32 f64 f32 a b r :
  item_conv_ok c64 c32 f64 f32 a -> item_conv_ok c64 c32 f64 f32 b ->
  item_ok a -> item_ok b -> item_fmt f64 f32 a -> item_fmt f64 f32 b ->
  sparql_cmp c64 c32 a b = Some r -> r <> Eq -> order_by a b = r.
Proof.
  intros Ca Cb Pa Pb Fa Fb. unfold sparql_cmp, item_fmt, item_conv_ok in *.
  destruct (val a) as [x|] eqn:Ea; destruct (val b) as [y|] eqn:Eb;
    try (destruct (is_literal (tm a) && is_literal (tm b) && term_eqb (tm a) (tm b)); congruence).
  intros E Hr. unfold value_partial_cmp in E.
  destruct x as [n1|s1 [t1|]|[b1|]|[d1|]]; destruct y as [n2|s2 [t2|]|[b2|]|[d2|]];
    simpl in E; try discriminate E.
  - apply (num_refine_at c64 c32 f64 f32) in E; auto.
    apply (order_by_of_values a b (VNum n1) (VNum n2)); auto.
    rewrite !num_class. rewrite num_exact_cmp_key in E.
    destruct (num_key n1), (num_key n2); try discriminate; reflexivity.
  - apply (order_by_of_values a b (VStr s1 (Some t1)) (VStr s2 (Some t2))); auto.
  - apply (order_by_of_values a b (VStr s1 None) (VStr s2 None)); auto.
  - apply (order_by_of_values a b (VBool (Some b1)) (VBool (Some b2))); auto.
  - apply (order_by_of_values a b (VDate (Some d1)) (VDate (Some d2))); auto.
    simpl. rewrite (dt_refine d1 d2 r); auto.
Qed.
Theorem order_by_respects_lt_at c64 c32 f64 f32 a b :
  item_conv_ok c64 c32 f64 f32 a -> item_conv_ok c64 c32 f64 f32 b ->
  item_ok a -> item_ok b -> item_fmt f64 f32 a -> item_fmt f64 f32 b ->
  lt_sparql c64 c32 a b = Some true -> order_by a b = Lt.
Proof.
  intros Ca Cb Pa Pb Fa Fb. unfold lt_sparql.
  destruct (sparql_cmp c64 c32 a b) as [r|] eqn:E; [|discriminate].
  destruct r; simpl; try discriminate. intros _.
  apply (order_by_refines_cmp_at c64 c32 f64 f32 a b Lt); auto. discriminate.
Qed.

(* ================= two floats that [fl_same] identifies are interchangeable ================= *)
Lemma fl_same_ext a b : fl_same a b = true ->
  match fl_ext a, fl_ext b with
  | Some x, Some y => ext_cmp x y = Eq
  | None, None => True
  | _, _ => False
  end.
Proof.
  destruct a as [|s|s m e], b as [|t|t m' e']; simpl; try discriminate; auto.
  - destruct s, t; simpl; try discriminate; auto.
  - intros H. apply andb_prop in H as [_ H]. destruct (Qcompare _ _); try discriminate. reflexivity.
Qed.
Lemma fl_same_le a b f : fl_same a b = true ->
  (fl_le b f -> fl_le a f) /\ (fl_le f b -> fl_le f a).
Proof.
  intros H. apply fl_same_ext in H. unfold fl_le.
  destruct (fl_ext a) as [x|], (fl_ext b) as [y|]; try tauto.
  destruct (fl_ext f) as [z|]; [|tauto].
  assert (Hyx : ext_cmp y x = Eq) by (rewrite ext_cmp_antisym, H; reflexivity).
  split; intros G.
  - rewrite (po_eq _ _ ext_cmp_preorder x y z (ext_cmp y z)); auto; exact I.
  - rewrite (po_eq_r _ _ ext_cmp_preorder z y x (ext_cmp z y)); auto; exact I.
Qed.
Lemma conv_ok_at_same c c' fmt n :
  fl_same (c n) (c' n) = true -> conv_ok_at c' fmt n -> conv_ok_at c fmt n.
Proof.
  intros S H q f v Hq Ff Hv. destruct (H q f v Hq Ff Hv) as [H1 H2].
  destruct (fl_same_le (c n) (c' n) f S) as [L1 L2]. split; auto.
Qed.

(* ================= the engine's conversions ================= *)
(* native integers (hardware), big integers and decimals (Rust's parser on the digits) *)
Theorem engine_is_rne n : c64_engine n = c64_round n /\ c32_engine n = c32_round n.
Proof. destruct n; split; reflexivity. Qed.
Theorem c64_engine_ok : conv_ok c64_engine f64.
Proof.
  intros n q f v Hq Ff Hv. destruct (engine_is_rne n) as [-> _]. apply c64_round_ok; assumption.
Qed.
Theorem c32_engine_ok : conv_ok c32_engine f32.
Proof.
  intros n q f v Hq Ff Hv. destruct (engine_is_rne n) as [_ ->]. apply c32_round_ok; assumption.
Qed.
Theorem c64_engine_monotone n1 n2 q1 q2 :
  num_q n1 = Some q1 -> num_q n2 = Some q2 -> Qle q1 q2 -> fl_le (c64_engine n1) (c64_engine n2).
Proof.
  destruct (engine_is_rne n1) as [-> _]. destruct (engine_is_rne n2) as [-> _]. apply c64_round_monotone.
Qed.
Theorem c32_engine_monotone n1 n2 q1 q2 :
  num_q n1 = Some q1 -> num_q n2 = Some q2 -> Qle q1 q2 -> fl_le (c32_engine n1) (c32_engine n2).
Proof.
  destruct (engine_is_rne n1) as [_ ->]. destruct (engine_is_rne n2) as [_ ->]. apply c32_round_monotone.
Qed.

(* the cross-type theorems for the engine's own operator '<': no hypothesis on the conversions *)
Theorem order_by_refines_cmp_engine a b r :
  item_ok a -> item_ok b -> item_fmt f64 f32 a -> item_fmt f64 f32 b ->
  sparql_cmp c64_engine c32_engine a b = Some r -> r <> Eq -> order_by a b = r.
Proof. apply order_by_refines_cmp; [apply c64_engine_ok | apply c32_engine_ok]. Qed.
Theorem order_by_respects_lt_engine a b :
  item_ok a -> item_ok b -> item_fmt f64 f32 a -> item_fmt f64 f32 b ->
  lt_sparql c64_engine c32_engine a b = Some true -> order_by a b = Lt.
Proof. apply order_by_respects_lt; [apply c64_engine_ok | apply c32_engine_ok]. Qed.
Theorem order_by_respects_compare_engine a b :
  item_ok a -> item_ok b -> item_fmt f64 f32 a -> item_fmt f64 f32 b ->
  sparql_compare c64_engine c32_engine is_lt a b = Some true -> order_by a b = Lt.
Proof. apply order_by_respects_compare; [apply c64_engine_ok | apply c32_engine_ok]. Qed.
Theorem sorted_output_respects_lt_engine d ds rows out :
  Forall (row_ok (d :: ds)) rows -> Forall row_fmt_ieee rows ->
  Permutation rows out -> Sorted (rows_le (d :: ds)) out ->
  forall i j a b, (i < j < length out)%nat ->
    hd None (nth i out []) = Some a -> hd None (nth j out []) = Some b ->
    (if d then lt_sparql c64_engine c32_engine a b else lt_sparql c64_engine c32_engine b a) <> Some true.
Proof. apply sorted_output_respects_lt; [apply c64_engine_ok | apply c32_engine_ok]. Qed.
Theorem sorted_output_respects_lt_at_key_engine descs rows out :
  Forall (row_ok descs) rows -> Forall row_fmt_ieee rows ->
  Permutation rows out -> Sorted (rows_le descs) out ->
  forall i j k a b, (i < j < length out)%nat -> (k < length descs)%nat ->
    (forall m, (m < k)%nat ->
       key_cmp order_by (nth m (nth i out []) None) (nth m (nth j out []) None) = Eq) ->
    nth k (nth i out []) None = Some a -> nth k (nth j out []) None = Some b ->
    (if nth k descs false then lt_sparql c64_engine c32_engine a b else lt_sparql c64_engine c32_engine b a) <> Some true.
Proof. apply sorted_output_respects_lt_at_key; [apply c64_engine_ok | apply c32_engine_ok]. Qed.

(* numbers of different types, for all values: a strict answer of the engine's promoted comparison between
   an integer or decimal and a double / a float is the order of the exact values *)
Theorem num_partial_cmp_engine n1 n2 :
  num_partial_cmp c64_engine c32_engine n1 n2 = num_partial_cmp c64_round c32_round n1 n2.
Proof. destruct n1, n2; reflexivity. Qed.
Theorem num_cmp_engine_exact n1 n2 r :
  num_fmt f64 f32 n1 -> num_fmt f64 f32 n2 -> r <> Eq ->
  num_partial_cmp c64_engine c32_engine n1 n2 = Some r -> num_exact_cmp n1 n2 = Some r.
Proof. rewrite num_partial_cmp_engine. apply num_cmp_ieee_exact. Qed.
Theorem exact_vs_double_engine n q s m e :
  num_q n = Some q -> f64 (FFin s m e) ->
  (num_partial_cmp c64_engine c32_engine n (Double (FFin s m e)) = Some Lt -> Qlt q (q_of_fin s m e))
  /\ (num_partial_cmp c64_engine c32_engine n (Double (FFin s m e)) = Some Gt -> Qlt (q_of_fin s m e) q)
  /\ (num_partial_cmp c64_engine c32_engine (Double (FFin s m e)) n = Some Lt -> Qlt (q_of_fin s m e) q)
  /\ (num_partial_cmp c64_engine c32_engine (Double (FFin s m e)) n = Some Gt -> Qlt q (q_of_fin s m e)).
Proof. rewrite !num_partial_cmp_engine. apply exact_vs_double_ieee. Qed.
Theorem exact_vs_float_engine n q s m e :
  num_q n = Some q -> f32 (FFin s m e) ->
  (num_partial_cmp c64_engine c32_engine n (Float (FFin s m e)) = Some Lt -> Qlt q (q_of_fin s m e))
  /\ (num_partial_cmp c64_engine c32_engine n (Float (FFin s m e)) = Some Gt -> Qlt (q_of_fin s m e) q)
  /\ (num_partial_cmp c64_engine c32_engine (Float (FFin s m e)) n = Some Lt -> Qlt (q_of_fin s m e) q)
  /\ (num_partial_cmp c64_engine c32_engine (Float (FFin s m e)) n = Some Gt -> Qlt q (q_of_fin s m e)).
Proof. rewrite !num_partial_cmp_engine. apply exact_vs_float_ieee. Qed.

(* ================= the conversions before the repairs ================= *)
(* they satisfied the hypothesis on native integers, and on any other number on which the library
   routines return the correctly rounded values *)
Theorem prefix_ok_when_rne n : prefix_agree_b n = true -> num_conv_ok c64_prefix c32_prefix f64 f32 n.
Proof.
  intros H. unfold prefix_agree_b in H. apply andb_prop in H as [H1 H2].
  assert (G : conv_ok_at c64_prefix f64 n /\ conv_ok_at c32_prefix f32 n).
  { split.
    - apply (conv_ok_at_same _ c64_round); [exact H1|]. apply conv_ok_all, c64_round_ok.
    - apply (conv_ok_at_same _ c32_round); [exact H2|]. apply conv_ok_all, c32_round_ok. }
  destruct n; simpl; auto.
Qed.
Definition item_prefix_safe (a : item) : Prop :=
  match val a with
  | Some (VNum (BigInt z)) => prefix_agree_b (BigInt z) = true
  | Some (VNum (Decimal m s)) => prefix_agree_b (Decimal m s) = true
  | _ => True
  end.
Lemma fl_same_refl f : (exists E, fl_ext f = Some E) -> fl_same f f = true.
Proof.
  destruct f as [|s|s m e]; intros [E HE]; simpl in *; try discriminate.
  - destruct s; reflexivity.
  - rewrite Bool.eqb_reflx. simpl. assert (Q : Qeq (q_of_fin s m e) (q_of_fin s m e)) by reflexivity.
    apply Qeq_alt in Q. rewrite Q. reflexivity.
Qed.
Lemma item_prefix_safe_ok a : item_prefix_safe a -> item_conv_ok c64_prefix c32_prefix f64 f32 a.
Proof.
  unfold item_prefix_safe, item_conv_ok. destruct (val a) as [[n| | |]|]; auto.
  destruct n; intros H; try exact I; try (apply prefix_ok_when_rne, H).
  apply prefix_ok_when_rne. unfold prefix_agree_b.
  change (c64_prefix (NativeInt z)) with (c64_round (NativeInt z)).
  change (c32_prefix (NativeInt z)) with (c32_round (NativeInt z)).
  rewrite !fl_same_refl; [reflexivity| |].
  - apply round32_total.
  - apply round64_total.
Qed.
Theorem order_by_respects_lt_prefix_restricted a b :
  item_prefix_safe a -> item_prefix_safe b ->
  item_ok a -> item_ok b -> item_fmt f64 f32 a -> item_fmt f64 f32 b ->
  lt_sparql c64_prefix c32_prefix a b = Some true -> order_by a b = Lt.
Proof.
  intros Sa Sb. apply order_by_respects_lt_at; apply item_prefix_safe_ok; assumption.
Qed.

(* ... but not in general: 10^100 + 1.5 as an xsd:decimal, and the double nearest to 10^100 (which is larger) *)
Definition w_dec_1e100 : num := Decimal (10 ^ 101 + 15) 1.
Definition w_dbl_1e100 : fl := FFin false 5147557589468029 280.
Theorem c64_prefix_crosses_a_double :
  exists n q f v, num_q n = Some q /\ f64 f /\ fl_ext f = Some (EFin v) /\ Qle q v /\ ~ fl_le (c64_prefix n) f.
Proof.
  exists w_dec_1e100, (q_of_dec (10 ^ 101 + 15) 1), w_dbl_1e100, (q_of_fin false 5147557589468029 280).
  split; [reflexivity|]. split; [apply f64_b_sound; vm_compute; reflexivity|]. split; [reflexivity|].
  split; [apply Qle_bool_iff; vm_compute; reflexivity|].
  assert (E : c64_prefix w_dec_1e100 = FFin false 5147557589468030 280) by (vm_compute; reflexivity).
  rewrite E. unfold fl_le. simpl fl_ext. intros H. apply H. vm_compute. reflexivity.
Qed.
Theorem c64_prefix_conv_ok_refuted : ~ conv_ok c64_prefix f64.
Proof.
  intros H. destruct c64_prefix_crosses_a_double as (n & q & f & v & Hq & Ff & Hv & Hle & Hn).
  apply Hn. apply (H n q f v Hq Ff Hv). exact Hle.
Qed.
(* the consequence for the property: the engine's own '<' and ORDER BY contradicted each other *)
From Coq Require Import String.
Definition w_item_dbl_1e100 := lit "1e100"%string "double"%string (Some (VNum (Double w_dbl_1e100))).
Definition w_item_dec_1e100 :=
  lit "10000000000000000000000000000000000000000000000000000000000000000000000000000000000000000000000000001.5"%string
      "decimal"%string (Some (VNum w_dec_1e100)).
Theorem order_by_respects_lt_prefix_refuted :
  exists a b, item_ok a /\ item_ok b /\ item_fmt f64 f32 a /\ item_fmt f64 f32 b /\
    lt_sparql c64_prefix c32_prefix a b = Some true /\ order_by a b = Gt.
Proof.
  exists w_item_dbl_1e100, w_item_dec_1e100.
  split; [apply lit_ok; vm_compute; reflexivity|]. split; [apply lit_ok; vm_compute; reflexivity|].
  split; [apply f64_b_sound; vm_compute; reflexivity|]. split; [exact I|].
  split; vm_compute; reflexivity.
Qed.
(* the same pair with the conversions of the repaired engine *)
Example witness_repaired :
  lt_sparql c64_engine c32_engine w_item_dbl_1e100 w_item_dec_1e100 = Some false
  /\ lt_sparql c64_engine c32_engine w_item_dec_1e100 w_item_dbl_1e100 = Some false
  /\ order_by w_item_dec_1e100 w_item_dbl_1e100 = Lt.
Proof. repeat split; vm_compute; reflexivity. Qed.
(* deviations of the old routines from round-to-nearest-even that did not cross a float: the lost sticky bit
   of BigUint::to_f64 (2^128 + 2^75 + 2), the truncated digits of BigDecimal::to_f64 (1 + 2^-53 + 10^-90),
   the double rounding of to_f32 (1.0000000596046448) *)
Example prefix_is_not_rne :
  c64_prefix (BigInt (2 ^ 128 + 2 ^ 75 + 2)) = FFin false 4503599627370496 76
  /\ c64_engine (BigInt (2 ^ 128 + 2 ^ 75 + 2)) = FFin false 4503599627370497 76
  /\ c64_prefix (Decimal (10 ^ 90 + 2 ^ 37 * 5 ^ 90 + 1) 90) = FFin false 4503599627370496 (-52)
  /\ c64_engine (Decimal (10 ^ 90 + 2 ^ 37 * 5 ^ 90 + 1) 90) = FFin false 4503599627370497 (-52)
  /\ c32_prefix (Decimal 10000000596046448 16) = FFin false 8388608 (-23)
  /\ c32_engine (Decimal 10000000596046448 16) = FFin false 8388609 (-23)
  /\ prefix_agree_b (BigInt (2 ^ 128 + 2 ^ 75 + 2)) = false /\ prefix_agree_b (BigInt (2 ^ 128 + 2 ^ 75 + 1)) = true
  /\ prefix_agree_b (Decimal 1 1) = true /\ prefix_agree_b w_dec_1e100 = false.
Proof. repeat split; vm_compute; reflexivity. Qed.
