(* C15/SerializerProofs.v -- the serializers as consumers over a failing writer: what the writer
   has accepted is always a prefix of the serialisation of the items handed over, cut inside the
   statement that was being written; no call is issued after a failed one. *)
From Sophia.Common Require Import Prelude Term.
From Sophia.C03 Require Import Model Proofs.
From Sophia.C15 Require Import Generic GenericProofs SerializerSink.

(* ---------- the buffers, concatenated, are C03's bytes ---------- *)
Lemma qs_chunks_f_concat fuel : forall txt, concat (qs_chunks_f fuel txt) = quoted_string_f fuel txt.
Proof.
  induction fuel as [|f IH]; intros txt; simpl; [reflexivity|].
  destruct (qs_scan txt) as [pre [[c rest]|]]; simpl.
  - f_equal. f_equal. destruct rest; simpl; [reflexivity|]. apply IH.
  - reflexivity.
Qed.
Lemma qs_chunks_concat txt : concat (qs_chunks txt) = quoted_string txt.
Proof. apply qs_chunks_f_concat. Qed.

Theorem term_chunks_concat t : concat (term_chunks t) = write_term t.
Proof.
  induction t as [s|s|l d|l tg|s IHs p IHp o IHo|s]; cbn [term_chunks write_term].
  - simpl. rewrite ?app_nil_r. reflexivity.
  - simpl. rewrite ?app_nil_r. reflexivity.
  - rewrite !concat_app, qs_chunks_concat.
    destruct (negb (str_eqb xsd_string d)); cbn [concat app]; rewrite ?app_nil_r; reflexivity.
  - rewrite !concat_app, qs_chunks_concat. cbn [concat app]. rewrite ?app_nil_r. reflexivity.
  - rewrite !concat_app, IHs, IHp, IHo. cbn [concat app]. rewrite ?app_nil_r. reflexivity.
  - simpl. rewrite ?app_nil_r. reflexivity.
Qed.

Theorem stmt_chunks_concat q : concat (stmt_chunks q) = nq_write_quad q.
Proof.
  destruct q as [[[s p] o] g]. unfold stmt_chunks, triple_chunks, nq_write_quad, write_triple.
  rewrite !concat_app, !term_chunks_concat. f_equal.
  destruct g as [t|]; [|reflexivity].
  rewrite !concat_app, term_chunks_concat. reflexivity.
Qed.

Lemma all_chunks_concat qs : concat (flat_map stmt_chunks qs) = nq_write qs.
Proof.
  induction qs as [|q qs IH]; simpl; [reflexivity|].
  rewrite concat_app, stmt_chunks_concat, IH. reflexivity.
Qed.

(* ---------- list arithmetic ---------- *)
Lemma firstn_firstn_skipn {X} (l : list X) n k : firstn n l ++ firstn k (skipn n l) = firstn (n + k) l.
Proof.
  revert l; induction n as [|n IH]; intros l; simpl; [reflexivity|].
  destruct l as [|x l]; simpl; [rewrite firstn_nil; reflexivity|]. f_equal. apply IH.
Qed.

Lemma firstn_short {X} (a b : list X) k : (k <= length a)%nat -> firstn k (a ++ b) = firstn k a.
Proof.
  intros H. rewrite firstn_app. replace (k - length a)%nat with O by lia. simpl. apply app_nil_r.
Qed.

(* ---------- any writer ---------- *)
(* what one operation (a write_all, a statement, a run of statements) offering `bytes` did *)
Definition op_ok (w w' : wstate) (bytes : list N) (oe : option ioerr) : Prop :=
  exists k,
    w_acc w' = w_acc w ++ firstn k bytes
    /\ (oe = None -> k = length bytes)
    /\ (oe <> None -> (k < length bytes)%nat)
    /\ (w_failed w = false -> w_after w' = w_after w /\ (oe = None -> w_failed w' = false)).

Lemma op_ok_nil w : op_ok w w [] None.
Proof.
  refine (ex_intro _ O (conj _ (conj _ (conj _ _)))).
  - simpl. rewrite app_nil_r. reflexivity.
  - reflexivity.
  - congruence.
  - auto.
Qed.

(* a failure that accepted nothing of a non-empty buffer *)
Lemma op_ok_fail0 w w' buf e :
  w_acc w' = w_acc w -> buf <> [] -> (w_failed w = false -> w_after w' = w_after w) ->
  op_ok w w' buf (Some e).
Proof.
  intros H1 H2 H3. refine (ex_intro _ O (conj _ (conj _ (conj _ _)))).
  - simpl. rewrite app_nil_r. exact H1.
  - congruence.
  - intros _. destruct buf; [congruence|simpl; lia].
  - intros Hf. split; [auto|congruence].
Qed.

Lemma write_all_f_ok pol : forall fuel w buf,
  (length buf <= fuel)%nat ->
  let '(w', oe) := write_all_f fuel pol w buf in op_ok w w' buf oe.
Proof.
  induction fuel as [|f IH]; intros w buf Hl.
  - destruct buf; [|simpl in Hl; lia]. simpl. apply op_ok_nil.
  - destruct buf as [|c buf']; [simpl; apply op_ok_nil|].
    set (buf := c :: buf') in *. cbn [write_all_f]. unfold buf at 1.
    assert (Hne : buf <> []) by (unfold buf; congruence).
    unfold dev_write. destruct (pol (length (w_acc w)) (w_calls w) buf) as [n|e].
    + destruct (Nat.min n (length buf)) as [|n'] eqn:En.
      * apply op_ok_fail0; auto.
        -- simpl. apply app_nil_r.
        -- simpl. intros Hf. rewrite Hf. reflexivity.
      * set (w1 := mk_w _ _ _ _).
        assert (Hn : (S n' <= length buf)%nat) by lia.
        specialize (IH w1 (skipn (S n') buf)).
        rewrite skipn_length in IH.
        assert (Hl' : (length buf - S n' <= f)%nat) by lia.
        specialize (IH Hl').
        destruct (write_all_f f pol w1 (skipn (S n') buf)) as [w' oe].
        destruct IH as (k & H1 & H2 & H3 & H4).
        refine (ex_intro _ (S n' + k)%nat (conj _ (conj _ (conj _ _)))).
        -- rewrite H1. unfold w1. cbn [w_acc]. rewrite <- app_assoc. f_equal.
           apply (firstn_firstn_skipn buf (S n') k).
        -- intros E. specialize (H2 E). rewrite skipn_length in H2. lia.
        -- intros E. specialize (H3 E). rewrite skipn_length in H3. lia.
        -- intros Hf. unfold w1 in H4. cbn [w_failed w_after] in H4. rewrite Hf in H4.
           exact (H4 eq_refl).
    + apply op_ok_fail0; auto. simpl. intros Hf. rewrite Hf. reflexivity.
Qed.

Lemma write_all_ok pol w buf : let '(w', oe) := write_all pol w buf in op_ok w w' buf oe.
Proof. apply write_all_f_ok. lia. Qed.

Lemma op_ok_seq w w1 w2 a b oe :
  op_ok w w1 a None -> op_ok w1 w2 b oe -> op_ok w w2 (a ++ b) oe.
Proof.
  intros (k1 & A1 & A2 & A3 & A4) (k2 & B1 & B2 & B3 & B4).
  specialize (A2 eq_refl). subst k1. rewrite firstn_all in A1.
  refine (ex_intro _ (length a + k2)%nat (conj _ (conj _ (conj _ _)))).
  - rewrite B1, A1, <- app_assoc. f_equal. rewrite firstn_app_2. reflexivity.
  - intros E. rewrite app_length. rewrite (B2 E). reflexivity.
  - intros E. rewrite app_length. specialize (B3 E). lia.
  - intros Hf. destruct (A4 Hf) as [A5 A6]. specialize (A6 eq_refl).
    destruct (B4 A6) as [B5 B6]. split; [congruence|exact B6].
Qed.

Lemma op_ok_stop w w1 a b e : op_ok w w1 a (Some e) -> op_ok w w1 (a ++ b) (Some e).
Proof.
  intros (k & A1 & A2 & A3 & A4). assert (Hk : (k < length a)%nat) by (apply A3; congruence).
  refine (ex_intro _ k (conj _ (conj _ (conj _ _)))).
  - rewrite firstn_short by lia. exact A1.
  - congruence.
  - intros _. rewrite app_length. lia.
  - exact A4.
Qed.

Lemma write_chunks_ok pol : forall chunks w,
  let '(w', oe) := write_chunks pol w chunks in op_ok w w' (concat chunks) oe.
Proof.
  induction chunks as [|c r IH]; intros w; simpl; [apply op_ok_nil|].
  pose proof (write_all_ok pol w c) as H1.
  destruct (write_all pol w c) as [w1 [e|]].
  - apply op_ok_stop. exact H1.
  - specialize (IH w1). destruct (write_chunks pol w1 r) as [w2 oe].
    eapply op_ok_seq; eauto.
Qed.

(* one statement *)
Theorem ser_statement pol q w :
  let '(w', oe) := ser_sink pol q w in op_ok w w' (nq_write_quad q) oe.
Proof.
  unfold ser_sink. pose proof (write_chunks_ok pol (stmt_chunks q) w) as H.
  rewrite stmt_chunks_concat in H. exact H.
Qed.

(* a run of statements: without error everything was accepted; with an error the accepted bytes
   are the statements before the failing one and a PROPER prefix of that one (the statement during
   which the writer failed is the last one started), and in both cases no call of `write` was made
   after a failed one *)
Theorem ser_prefix pol : forall qs w,
  let '(w', oe) := gfeed (ser_sink pol) qs w in
  match oe with
  | None => w_acc w' = w_acc w ++ nq_write qs
  | Some _ =>
      exists done q rest k,
        qs = done ++ q :: rest /\ (k < length (nq_write_quad q))%nat
        /\ w_acc w' = w_acc w ++ nq_write done ++ firstn k (nq_write_quad q)
  end
  /\ (w_failed w = false -> w_after w' = w_after w /\ (oe = None -> w_failed w' = false)).
Proof.
  induction qs as [|q qs IH]; intros w; simpl.
  - rewrite app_nil_r. auto.
  - pose proof (ser_statement pol q w) as H1.
    destruct (ser_sink pol q w) as [w1 [e|]].
    + destruct H1 as (k & A1 & A2 & A3 & A4). split.
      * exists [], q, qs, k. simpl. repeat split; auto. apply A3. congruence.
      * intros Hf. destruct (A4 Hf). split; auto.
    + specialize (IH w1). destruct (gfeed (ser_sink pol) qs w1) as [w2 oe].
      destruct H1 as (k & A1 & A2 & A3 & A4). specialize (A2 eq_refl). subst k.
      rewrite firstn_all in A1. destruct IH as [B1 B2]. split.
      * destruct oe as [e|].
        -- destruct B1 as (done & q' & rest & k & C1 & C2 & C3).
           exists (q :: done), q', rest, k. simpl. repeat split; auto.
           ++ rewrite C1. reflexivity.
           ++ rewrite C3, A1, <- !app_assoc. reflexivity.
        -- rewrite B1, A1, <- app_assoc. reflexivity.
      * intros Hf. destruct (A4 Hf) as [A5 A6]. specialize (A6 eq_refl).
        destruct (B2 A6) as [B3 B4]. split; [congruence | auto].
Qed.

(* ---------- the byte-budget writer ---------- *)
Section Budget.
Variables (b cap : nat) (code : N).
Hypothesis cap_pos : (1 <= cap)%nat.
Notation pol := (budget_pol b cap code).
Definition over (n : nat) : option ioerr := if Nat.ltb b n then Some (EDev code) else None.

Lemma budget_write_all_f : forall fuel w buf,
  (length buf <= fuel)%nat -> (length (w_acc w) <= b)%nat ->
  let '(w', oe) := write_all_f fuel pol w buf in
  w_acc w' = firstn b (w_acc w ++ buf) /\ oe = over (length (w_acc w) + length buf).
Proof.
  unfold over. induction fuel as [|f IH]; intros w buf Hl Hb.
  - destruct buf; [|simpl in Hl; lia]. simpl. rewrite app_nil_r, Nat.add_0_r.
    rewrite firstn_all2 by lia. split; auto.
    destruct (Nat.ltb_spec b (length (w_acc w))); auto. lia.
  - destruct buf as [|c buf'].
    { simpl. rewrite app_nil_r, Nat.add_0_r. rewrite firstn_all2 by lia. split; auto.
      destruct (Nat.ltb_spec b (length (w_acc w))); auto. lia. }
    set (buf := c :: buf') in *. cbn [write_all_f]. unfold buf at 1.
    assert (Hlen : (1 <= length buf)%nat) by (unfold buf; simpl; lia).
    unfold dev_write, budget_pol.
    destruct (Nat.ltb_spec (length (w_acc w)) b) as [Hlt|Hge].
    + destruct (Nat.min (Nat.min (b - length (w_acc w)) (Nat.min cap (length buf))) (length buf)) as [|n'] eqn:En; [lia|].
      set (w1 := mk_w _ _ _ _). fold (budget_pol b cap code).
      specialize (IH w1 (skipn (S n') buf)). rewrite skipn_length in IH.
      assert (Hacc1 : length (w_acc w1) = (length (w_acc w) + S n')%nat).
      { unfold w1. cbn [w_acc]. rewrite app_length, firstn_length. lia. }
      specialize (IH ltac:(fold buf in Hl; lia) ltac:(lia)).
      destruct (write_all_f f pol w1 (skipn (S n') buf)) as [w' oe].
      destruct IH as [H1 H2]. split.
      * rewrite H1. unfold w1. cbn [w_acc]. rewrite <- app_assoc, firstn_skipn. reflexivity.
      * rewrite H2, Hacc1.
        replace (length (w_acc w) + S n' + (length buf - S n'))%nat with (length (w_acc w) + length buf)%nat by lia.
        reflexivity.
    + cbn [w_acc]. split.
      * rewrite firstn_app. replace (b - length (w_acc w))%nat with O by lia.
        rewrite firstn_O, app_nil_r. rewrite firstn_all2 by lia. reflexivity.
      * destruct (Nat.ltb_spec b (length (w_acc w) + length buf)); auto. lia.
Qed.

Lemma budget_write_chunks : forall chunks w,
  (length (w_acc w) <= b)%nat ->
  let '(w', oe) := write_chunks pol w chunks in
  w_acc w' = firstn b (w_acc w ++ concat chunks)
  /\ oe = over (length (w_acc w) + length (concat chunks)).
Proof.
  unfold over. induction chunks as [|c r IH]; intros w Hb; simpl.
  - rewrite app_nil_r, Nat.add_0_r. rewrite firstn_all2 by lia. split; auto.
    destruct (Nat.ltb_spec b (length (w_acc w))); auto. lia.
  - pose proof (budget_write_all_f (length c) w c (le_n _) Hb) as H1. fold (write_all pol w c) in H1.
    destruct (write_all pol w c) as [w1 oe1]. destruct H1 as [H1 H2]. unfold over in H2.
    rewrite app_length.
    destruct (Nat.ltb_spec b (length (w_acc w) + length c)) as [Hlt|Hge]; subst oe1.
    + split.
      * rewrite H1. rewrite app_assoc. symmetry. apply firstn_short. rewrite app_length. lia.
      * destruct (Nat.ltb_spec b (length (w_acc w) + (length c + length (concat r)))); auto. lia.
    + assert (Hw1 : w_acc w1 = w_acc w ++ c).
      { rewrite H1. apply firstn_all2. rewrite app_length. lia. }
      specialize (IH w1). rewrite Hw1, app_length in IH. specialize (IH Hge).
      destruct (write_chunks pol w1 r) as [w2 oe]. destruct IH as [H3 H4]. split.
      * rewrite H3, <- app_assoc. reflexivity.
      * rewrite H4. rewrite Nat.add_assoc. reflexivity.
Qed.

Lemma gfeed_ser_chunks p : forall qs w,
  gfeed (ser_sink p) qs w = write_chunks p w (flat_map stmt_chunks qs).
Proof.
  assert (Happ : forall a c w, write_chunks p w (a ++ c)
            = match write_chunks p w a with (w', Some e) => (w', Some e) | (w', None) => write_chunks p w' c end).
  { induction a as [|x a IH]; intros c w; simpl; [reflexivity|].
    destruct (write_all p w x) as [w1 [e|]]; auto. }
  induction qs as [|q qs IH]; intros w; simpl; [reflexivity|].
  rewrite Happ. unfold ser_sink at 1. destruct (write_chunks p w (stmt_chunks q)) as [w1 [e|]]; auto.
Qed.

(* the writer holds exactly the first `b` bytes of the serialisation of everything handed over,
   and the run fails (with the writer's own error value) iff that serialisation is longer than b *)
Theorem ser_budget qs w :
  (length (w_acc w) <= b)%nat ->
  let '(w', oe) := gfeed (ser_sink pol) qs w in
  w_acc w' = firstn b (w_acc w ++ nq_write qs)
  /\ oe = over (length (w_acc w) + length (nq_write qs)).
Proof.
  intros Hb. rewrite gfeed_ser_chunks.
  pose proof (budget_write_chunks (flat_map stmt_chunks qs) w Hb) as H.
  rewrite all_chunks_concat in H. exact H.
Qed.
End Budget.
