(* C06/ClosureCex.v -- the two extra conditions on [perms] in [step_5_2_1_unobservable]
   (Closure.v) cannot be dropped: with a [perms] that visits no permutation of the lists of
   three or more blank nodes (or only the empty "permutation"), which still satisfies
   "a visited permutation only contains elements of the list", the algorithm with step 5.2.1 and
   the algorithm without it issue different canonical identifiers on a dataset of 24 quads.
   Concrete instance, checked by computation.  Stdlib only, no assumptions. *)
From Sophia.C06 Require Import Model.

Definition cx_I : term := Iri [73].
Definition cx_b (n : N) : term := Bnode [n].
Definition cx_tag (k n : N) : quad := (cx_I, Iri [k], cx_b n, None).
Definition cx_e (s p o : N) : quad := (cx_b s, Iri [p], cx_b o, None).
(* m=1 m'=2; w=3 w'=4; n=5 n'=6; x2=7 x3=8 x4=9; y2=10 y3=11 y4=12; u2=13 u3=14 v2=15 v3=16.
   First degree hashes order the identifier lists {m,m'} < {w,w'} < {n,n'} < {u,v} < {x,y}.
   From m: n is issued, its three related x are not (no permutation visited).  From w: x4 becomes
   canonical.  Then n is canonical but x2, x3 are not, and Hash N-Degree Quads from n issues
   them (the list is now [x2;x3]): without step 5.2.1 they get their canonical identifiers
   there, with step 5.2.1 only later, after u2. *)
Definition cx_d : list quad :=
  [ cx_tag 49 1; cx_tag 49 2; cx_e 1 97 5; cx_e 2 97 6;
    cx_tag 50 3; cx_tag 50 4; cx_e 3 98 9; cx_e 4 98 12;
    cx_tag 51 5; cx_tag 51 6;
    cx_e 5 99 7; cx_e 5 99 8; cx_e 5 99 9; cx_e 6 99 10; cx_e 6 99 11; cx_e 6 99 12;
    cx_tag 52 13; cx_tag 52 14; cx_tag 52 15; cx_tag 52 16;
    cx_e 13 98 7; cx_e 14 98 8; cx_e 15 98 10; cx_e 16 98 11 ].
Definition cx_H (s : str) : str := s.
Definition cx_order (l : list str) : list str := l.
(* no permutation / only the empty one for lists of three or more *)
Definition cx_perms (l : list str) : list (list str) := if (3 <=? length l)%nat then [] else [l].
Definition cx_perms' (l : list str) : list (list str) := if (3 <=? length l)%nat then [[]] else [l].

Definition cx_differ (perms : list str -> list (list str)) : bool :=
  match spec_model cx_H perms cx_order false cx_d 30, spec_model cx_H perms cx_order true cx_d 30 with
  | SpOk (_, i1), SpOk (_, i2) => negb (list_eqb pair_eqb i1 i2)
  | _, _ => false
  end.
Lemma cx_differ_true : cx_differ cx_perms = true /\ cx_differ cx_perms' = true.
Proof. split; vm_compute; reflexivity. Qed.

Lemma pair_eqb_eq x y : pair_eqb x y = true <-> x = y.
Proof.
  destruct x as [a b], y as [c e]. unfold pair_eqb. cbn [fst snd].
  rewrite andb_true_iff, !str_eqb_eq. split; [intros [-> ->]; reflexivity|intros E; injection E; auto].
Qed.

Lemma cx_refutes perms :
  cx_differ perms = true ->
  ~ (forall r, spec_model cx_H perms cx_order false cx_d 30 = SpOk r ->
               spec_model cx_H perms cx_order true cx_d 30 = SpOk r).
Proof.
  intros D T. unfold cx_differ in D.
  destruct (spec_model cx_H perms cx_order false cx_d 30) as [[b1 i1]| |] eqn:E1; try discriminate.
  rewrite (T _ eq_refl) in D.
  assert (E : list_eqb pair_eqb i1 i1 = true) by (apply (list_eqb_spec pair_eqb pair_eqb_eq); reflexivity).
  rewrite E in D. discriminate.
Qed.

(* the statement with only the "elements of the list" condition is false *)
Theorem unobservable_needs_nonempty_perms :
  ~ (forall H perms node_order d fuel r,
       (forall l p, In p (perms l) -> forall x, In x p -> In x l) ->
       spec_model H perms node_order false d fuel = SpOk r ->
       spec_model H perms node_order true d fuel = SpOk r).
Proof.
  intros T. apply (cx_refutes cx_perms (proj1 cx_differ_true)). intros r. apply T.
  intros l p. unfold cx_perms. destruct (3 <=? length l)%nat; [intros []|].
  intros [<-|[]] x Hx. exact Hx.
Qed.

(* ... and so is the one with non-emptiness but without "every element of the list occurs" *)
Theorem unobservable_needs_covering_perms :
  ~ (forall H perms node_order d fuel r,
       (forall l p, In p (perms l) -> forall x, In x p -> In x l) ->
       (forall l, perms l = [] -> l = []) ->
       spec_model H perms node_order false d fuel = SpOk r ->
       spec_model H perms node_order true d fuel = SpOk r).
Proof.
  intros T. apply (cx_refutes cx_perms' (proj2 cx_differ_true)). intros r. apply T.
  - intros l p. unfold cx_perms'. destruct (3 <=? length l)%nat.
    + intros [<-|[]] x [].
    + intros [<-|[]] x Hx. exact Hx.
  - intros l. unfold cx_perms'. destruct (3 <=? length l)%nat; discriminate.
Qed.

