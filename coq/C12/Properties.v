(* C12/Properties.v -- pinned statements of property C12 (JSON-LD serialisation round trip). *)
From Sophia.C12 Require Import Model Proofs.

(* ---------- (1) the filter ---------- *)
Check (is_jsonld_spec : forall info q, is_jsonld info q = true <-> representable info q).
Check (process_filter : forall info o d, process info o d = process info o (filter (is_jsonld info) d)).
Check (serialise_filter : forall info o d, serialise info o d = serialise info o (filter (is_jsonld info) d)).

(* ---------- (2) suppressed nodes ---------- *)
Check (list_nodes_sound : forall info o d k pk,
  let s := process info o d in let D := filter (is_jsonld info) d in
  aget nkey_eqb (list_nodes info o s) k = Some pk ->
  is_blank info (snd k) = true
  /\ (exists pp, (exists q, In q D /\ qo q = snd k /\ skey q = pk /\ qp q = pp)
        /\ (forall q, In q D -> qo q = snd k -> skey q = pk /\ qp q = pp)
        /\ (mode10 o = true -> pp <> c_first))
  /\ fst pk = fst k
  /\ (forall q, In q D -> qs q = snd k -> qg q = fst k)
  /\ (forall q, In q D -> qg q <> Some (snd k))
  /\ (exists f r, In (mkQ (snd k) c_first f (fst k)) D /\ In (mkQ (snd k) c_rest r (fst k)) D
        /\ is_lit info r = false
        /\ (forall q, In q D -> qs q = snd k -> (qp q = c_first /\ qo q = f) \/ (qp q = c_rest /\ qo q = r))
        /\ (r = c_nil \/ aget nkey_eqb (list_nodes info o s) (fst k, r) = Some k))
  /\ (exists n, anchored n (list_nodes info o s) k = true)).
Check (cells_marked : forall info o d fuel k,
  let s := process info o d in
  is_marked (list_nodes info o s) k = true ->
  forall c, In c (cells s fuel k) -> is_marked (list_nodes info o s) c = true).
Check (compounds_sound : forall info o d k,
  let s := process info o d in let D := filter (is_jsonld info) d in
  In k (compounds info o s) ->
  compound o = true
  /\ is_blank info (snd k) = true
  /\ is_compound_literal info (get_node s k) = true
  /\ (exists pk pp, (exists q, In q D /\ qo q = snd k /\ skey q = pk /\ qp q = pp)
        /\ (forall q, In q D -> qo q = snd k -> skey q = pk /\ qp q = pp)
        /\ fst pk = fst k)
  /\ (forall q, In q D -> qs q = snd k ->
        qg q = fst k /\ is_lit info (qo q) = true
        /\ (qp q = c_value \/ qp q = c_direction \/ qp q = c_language)
        /\ forall q', In q' D -> qs q' = snd k -> qp q' = qp q -> qo q' = qo q)
  /\ (forall q, In q D -> qg q <> Some (snd k))).
(* the invariant of process_quads these rest on *)
Check (inv_process : forall info o d, inv info o (process info o d) (filter (is_jsonld info) d)).

(* ---------- (3) the @type shortcut ---------- *)
Check (type_shortcut_lossless : forall info o q,
  regen (skey q) (pkey_of info o q) (obj_of info q) = Some q).

(* ---------- (4) round trip ---------- *)
Check (roundtrip_partial : forall info o d base,
  list_nodes info o (process info o d) = [] -> compounds info o (process info o d) = [] ->
  forall q, In q (to_rdf base (serialise info o d)) <-> In q (filter (is_jsonld info) d)).
Check (roundtrip_no_lists : forall info o d base,
  (forall q, In q d -> ~ (qp q = c_rest /\ qo q = c_nil)) -> compound o = false ->
  forall q, In q (to_rdf base (serialise info o d)) <-> In q (filter (is_jsonld info) d)).
Check (roundtrip_doc_ok_sound : forall info d base doc, roundtrip_doc_ok info d base doc = true ->
  let r := witness base doc in
  (forall q, In q (map (rename_q r) (to_rdf base doc)) <-> In q (filter (is_jsonld info) d))
  /\ NoDup (map snd r) /\ NoDup (map fst r)
  /\ (forall p, In p r -> base <= fst p /\ kind info (snd p) = KBlank
                           /\ ~ In (snd p) (ids_of (to_rdf base doc)))
  /\ (forall x, In x (ids_of d) -> x < base)).
(* the full statement (not proved in general; evaluated on every correspondence case) *)
Check (roundtrip_full_statement : Prop).

(* ---------- witnesses ---------- *)
(* 1..8 = rdf:first rest nil type List value direction language; 11 :a  12 :p  13 _:b  14 "lit"
   15 :g2  16 _:c  17 :q  18 :s  19 "ltr" *)
Definition T : table :=
  [(1, I); (2, I); (3, I); (4, I); (5, I); (6, I); (7, I); (8, I);
   (11, I); (12, I); (13, B); (14, Lit true false false); (15, I); (16, B); (17, I); (18, I);
   (19, Lit true true true); (20, mkInfo KOther false false false)].
Definition O11 := mkOpts false false false.
Definition O11c := mkOpts false false true.

(* non-vacuity of the theorems: a well-formed list in a named graph is compacted, and round-trips *)
Definition d_list := [mkQ 18 12 13 (Some 15); mkQ 13 1 14 (Some 15); mkQ 13 2 16 (Some 15);
                      mkQ 16 1 11 (Some 15); mkQ 16 2 3 (Some 15); mkQ 20 12 11 None].
Example list_compacted :
  list_nodes (info_of T) O11 (process (info_of T) O11 d_list) = [((Some 15, 16), (Some 15, 13)); ((Some 15, 13), (Some 15, 18))]
  /\ serialise (info_of T) O11 d_list
     = [mkTop (mkJ 15 [] []) (Some [mkJ 18 [] [(12, [JList [13; 16] [JLit 14; JRef 11]])]])]
  /\ roundtrip_ok T O11 d_list 100 = true.
Proof. vm_compute. auto. Qed.
Example plain_roundtrip_nonvacuous :
  list_nodes (info_of T) O11 (process (info_of T) O11 [mkQ 18 4 11 None; mkQ 18 12 14 (Some 13)]) = []
  /\ roundtrip_ok T O11 [mkQ 18 4 11 None; mkQ 18 12 14 (Some 13)] 100 = true.
Proof. vm_compute. auto. Qed.

(* (a) DESIGN section 4 row 11: a list cell that is never an object made the original code panic *)
Definition d_a := [mkQ 13 1 14 None; mkQ 13 2 3 None].
Theorem prefix_a_refuted : prefix_a_panics (info_of T) O11 d_a = true /\ roundtrip_ok T O11 d_a 100 = true.
Proof. vm_compute. auto. Qed.

(* (b) row 12: a list cell of the default graph that is also a subject in graph :g2 -- the original
   code (list_node keyed by label) drops the :g2 quad *)
Definition d_b := [mkQ 13 1 14 None; mkQ 13 2 3 None; mkQ 18 12 13 None; mkQ 13 17 11 (Some 15)].
Theorem prefix_b_refuted :
  roundtrip_doc_ok (info_of T) d_b 100 (serialise_original (info_of T) O11 d_b) = false
  /\ roundtrip_ok T O11 d_b 100 = true.
Proof. vm_compute. auto. Qed.
(* keying list_node by (graph, label) alone is not enough: the list is compacted into fresh nodes
   while _:b is still used in :g2, so the link between the two graphs is lost *)
Theorem keyed_by_graph_only_refuted :
  let s := process (info_of T) O11 d_b in
  roundtrip_doc_ok (info_of T) d_b 100
    (document (info_of T) s (keep (mark_all_prefix (info_of T) O11 s false false)) []) = false.
Proof. vm_compute. auto. Qed.

(* (c) a list that is its own item (JSON-LD 1.1): every node was suppressed, the document was [] *)
Definition d_c := [mkQ 13 1 16 None; mkQ 13 2 3 None; mkQ 16 1 14 None; mkQ 16 2 13 None].
Theorem prefix_c_refuted :
  let s := process (info_of T) O11 d_c in
  document (info_of T) s (mark_all (info_of T) O11 s) [] = []
  /\ roundtrip_doc_ok (info_of T) d_c 100 (document (info_of T) s (mark_all (info_of T) O11 s) []) = false
  /\ roundtrip_ok T O11 d_c 100 = true.
Proof. vm_compute. auto. Qed.

(* (d) a cell typed rdf:List was compacted and its rdf:type quad lost *)
Definition d_d := [mkQ 13 1 14 None; mkQ 13 2 3 None; mkQ 13 4 5 None; mkQ 18 12 13 None].
Theorem prefix_d_refuted :
  let s := process (info_of T) O11 d_d in
  roundtrip_doc_ok (info_of T) d_d 100
    (document (info_of T) s (keep (mark_all_prefix (info_of T) O11 s true true)) []) = false
  /\ roundtrip_ok T O11 d_d 100 = true.
Proof. vm_compute. auto. Qed.

(* (e) a compound literal that nothing references was suppressed, hence dropped *)
Definition d_e := [mkQ 13 6 14 None; mkQ 13 7 19 None].
Theorem prefix_e_refuted :
  let s := process (info_of T) O11c d_e in
  roundtrip_doc_ok (info_of T) d_e 100
    (document (info_of T) s (list_nodes (info_of T) O11c s) (compounds_prefix (info_of T) O11c s)) = false
  /\ roundtrip_ok T O11c d_e 100 = true.
Proof. vm_compute. auto. Qed.

Print Assumptions is_jsonld_spec.
Print Assumptions process_filter.
Print Assumptions serialise_filter.
Print Assumptions list_nodes_sound.
Print Assumptions cells_marked.
Print Assumptions compounds_sound.
Print Assumptions inv_process.
Print Assumptions type_shortcut_lossless.
Print Assumptions roundtrip_partial.
Print Assumptions roundtrip_no_lists.
Print Assumptions roundtrip_doc_ok_sound.
Print Assumptions list_compacted.
Print Assumptions plain_roundtrip_nonvacuous.
Print Assumptions prefix_a_refuted.
Print Assumptions prefix_b_refuted.
Print Assumptions keyed_by_graph_only_refuted.
Print Assumptions prefix_c_refuted.
Print Assumptions prefix_d_refuted.
Print Assumptions prefix_e_refuted.

(* ---------- literal level ---------- *)
Check (i18n_shortcut_lossless : forall wf suffix, i18n_back (i18n_value wf suffix) = suffix).
Example i18n_shortcut_used : i18n_value (fun _ => true) [101; 110; 95; 108; 116; 114] = VDir (Some [101; 110]) [108; 116; 114]
  /\ i18n_value (fun _ => true) [95; 114; 116; 108] = VDir None [114; 116; 108]
  /\ i18n_value (fun _ => true) [69; 78; 95; 108; 116; 114] = VTyped [69; 78; 95; 108; 116; 114].
Proof. vm_compute. auto. Qed.
Check (anchored_len : forall l m, (length m <= l)%nat -> forall n x, anchored n m x = true -> anchored l m x = true).
Print Assumptions i18n_shortcut_lossless.
Print Assumptions prefix_f_refuted.
Print Assumptions i18n_shortcut_used.
Print Assumptions anchored_len.
