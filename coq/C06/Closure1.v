(* C06/Closure1.v -- step 5.2.1 of RDFC-1.0 section 4.4 is unobservable, part 1:
   issuers only grow, insertion sort commutes with filtering, the map Hn lists exactly the
   related blank nodes, and the closure property of the issuer returned by Hash N-Degree Quads.
   Stdlib only, no assumptions. *)
From Sophia.C06 Require Import Model Limits Agree1 Agree2 Agree.
From Sophia.C05 Require Import FirstDegree Heap.
From Coq Require Import Permutation.

(* ====================================================================================== *)
(* 1. identifier issuers                                                                    *)
(* ====================================================================================== *)
Lemma sp_lookup_app a b k :
  sp_lookup (a ++ b) k = match sp_lookup a k with Some v => Some v | None => sp_lookup b k end.
Proof.
  induction a as [|[x y] a IH]; cbn [app sp_lookup]; [reflexivity|].
  destruct (str_eqb x k); [reflexivity|exact IH].
Qed.

Lemma sp_has_lookup i x : sp_has i x = false <-> sp_lookup (si_issued i) x = None.
Proof. unfold sp_has. destruct (sp_lookup (si_issued i) x); split; congruence. Qed.

Lemma sp_has_issue i e x : sp_has (fst (sp_issue i e)) x = sp_has i x || str_eqb e x.
Proof.
  unfold sp_issue, sp_has. destruct (sp_lookup (si_issued i) e) eqn:E; cbn [fst si_issued].
  - destruct (str_eqb_spec e x) as [<-|_]; [rewrite E; reflexivity|rewrite orb_false_r; reflexivity].
  - rewrite sp_lookup_app. destruct (sp_lookup (si_issued i) x); [reflexivity|].
    cbn [sp_lookup]. destruct (str_eqb e x); reflexivity.
Qed.

Lemma sp_has_issue_ i e x : sp_has (sp_issue_ i e) x = sp_has i x || str_eqb e x.
Proof. apply sp_has_issue. Qed.

Lemma sp_issue_noop i e : sp_has i e = true -> sp_issue_ i e = i.
Proof.
  unfold sp_issue_, sp_issue, sp_has. destruct (sp_lookup (si_issued i) e); [reflexivity|discriminate].
Qed.

(* [j] has issued an identifier for every label [i] has *)
Definition sub (i j : sp_issuer) : Prop := forall x, sp_has i x = true -> sp_has j x = true.

Lemma sub_refl i : sub i i.
Proof. intros x Hx; exact Hx. Qed.
Lemma sub_trans i j k : sub i j -> sub j k -> sub i k.
Proof. intros A B x Hx. apply B, A, Hx. Qed.
Lemma sub_issue i e : sub i (fst (sp_issue i e)).
Proof. intros x Hx. rewrite sp_has_issue, Hx. reflexivity. Qed.

Lemma fold_issue_has l : forall c x,
  sp_has (fold_left sp_issue_ l c) x = sp_has c x || existsb (fun e => str_eqb e x) l.
Proof.
  induction l as [|e l IH]; intros c x; cbn [fold_left existsb].
  - rewrite orb_false_r. reflexivity.
  - rewrite IH, sp_has_issue_, orb_assoc. reflexivity.
Qed.

Lemma fold_issue_noop l : forall c,
  (forall e, In e l -> sp_has c e = true) -> fold_left sp_issue_ l c = c.
Proof.
  induction l as [|e l IH]; intros c Hc; cbn [fold_left]; [reflexivity|].
  rewrite sp_issue_noop by (apply Hc; left; reflexivity).
  apply IH. intros e' He'. apply Hc. right; exact He'.
Qed.

Lemma existsb_eqb_In l x : existsb (fun e => str_eqb e x) l = true <-> In x l.
Proof.
  rewrite existsb_exists. split.
  - intros (e & He & E). apply str_eqb_eq in E. subst; exact He.
  - intros Hx. exists x. split; [exact Hx|apply str_eqb_refl].
Qed.

Lemma sp_has_In i x : sp_has i x = true <-> In x (map fst (si_issued i)).
Proof.
  unfold sp_has. induction (si_issued i) as [|[a b] m IH]; cbn [sp_lookup map fst In].
  - split; [discriminate|tauto].
  - destruct (str_eqb_spec a x) as [->|Hn].
    + split; auto.
    + rewrite IH. split; [auto|]. intros [E|Hx]; [contradiction|exact Hx].
Qed.

(* ====================================================================================== *)
(* 2. insertion sort is stable: it commutes with filtering                                  *)
(* ====================================================================================== *)
Section StableSort.
Context {A : Type} (leb : A -> A -> bool).
Hypothesis leb_total : forall x y, leb x y = false -> leb y x = true.
Hypothesis leb_trans : forall x y z, leb x y = true -> leb y z = true -> leb x z = true.

Fixpoint lsorted (l : list A) : Prop :=
  match l with
  | [] => True
  | x :: r => (forall y, In y r -> leb x y = true) /\ lsorted r
  end.

Lemma insert_by_head x l : (forall y, In y l -> leb x y = true) -> insert_by leb x l = x :: l.
Proof.
  destruct l as [|y l]; cbn [insert_by]; [reflexivity|]. intros Hh.
  rewrite Hh by (left; reflexivity). reflexivity.
Qed.

Lemma insert_by_lsorted x l : lsorted l -> lsorted (insert_by leb x l).
Proof.
  induction l as [|y l IH]; cbn [insert_by]; intros Hs.
  - cbn [lsorted]. split; [intros ? []|exact I].
  - destruct Hs as [Hy Hs]. destruct (leb x y) eqn:E; cbn [lsorted].
    + split; [|split; assumption].
      intros z [<-|Hz]; [exact E|]. eapply leb_trans; [exact E|apply Hy; exact Hz].
    + split; [|apply IH; exact Hs].
      intros z Hz. eapply Permutation_in in Hz; [|apply Permutation_sym, insert_by_perm].
      destruct Hz as [<-|Hz]; [apply leb_total; exact E|apply Hy; exact Hz].
Qed.

Lemma sort_by_lsorted l : lsorted (sort_by leb l).
Proof.
  unfold sort_by. induction l as [|x l IH]; cbn [fold_right]; [exact I|].
  apply insert_by_lsorted. exact IH.
Qed.

Lemma filter_insert_by (P : A -> bool) x l : lsorted l ->
  filter P (insert_by leb x l) = if P x then insert_by leb x (filter P l) else filter P l.
Proof.
  induction l as [|y l IH]; intros Hs.
  - cbn [insert_by filter]. destruct (P x); reflexivity.
  - destruct Hs as [Hy Hs]. cbn [insert_by]. destruct (leb x y) eqn:E.
    + change (filter P (x :: y :: l)) with (if P x then x :: filter P (y :: l) else filter P (y :: l)).
      destruct (P x); [|reflexivity].
      rewrite insert_by_head; [reflexivity|].
      intros z Hz. apply filter_In in Hz as [Hz _].
      destruct Hz as [<-|Hz]; [exact E|]. eapply leb_trans; [exact E|apply Hy; exact Hz].
    + cbn [filter]. rewrite IH by exact Hs.
      destruct (P y), (P x); cbn [insert_by]; rewrite ?E; reflexivity.
Qed.

Theorem filter_sort_by (P : A -> bool) l : filter P (sort_by leb l) = sort_by leb (filter P l).
Proof.
  unfold sort_by. induction l as [|x l IH]; cbn [fold_right filter]; [reflexivity|].
  rewrite filter_insert_by by apply sort_by_lsorted.
  destruct (P x); cbn [fold_right]; rewrite IH; reflexivity.
Qed.
End StableSort.

(* ====================================================================================== *)
(* 3. sp_group keeps every entry, and nothing else                                          *)
(* ====================================================================================== *)
Lemma sp_group_in es k l :
  In (k, l) (sp_group es) -> l = map snd (filter (fun e => str_eqb (fst e) k) es).
Proof.
  unfold sp_group. intros Hin. apply in_map_iff in Hin as (k0 & E & _).
  injection E as E1 E2. subst. reflexivity.
Qed.

Lemma sp_group_vals es k l x : In (k, l) (sp_group es) -> In x l -> In (k, x) es.
Proof.
  intros Hin Hx. rewrite (sp_group_in _ _ _ Hin) in Hx.
  apply in_map_iff in Hx as ([k0 x0] & E & He). cbn [snd] in E. subst x0.
  apply filter_In in He as [He Ek]. cbn [fst] in Ek. apply str_eqb_eq in Ek. subst. exact He.
Qed.

Lemma sp_group_cover es k x : In (k, x) es -> exists l, In (k, l) (sp_group es) /\ In x l.
Proof.
  intros Hin. exists (map snd (filter (fun e => str_eqb (fst e) k) es)). split.
  - unfold sp_group. apply in_map_iff. exists k. split; [reflexivity|].
    apply sort_by_In_iff, sp_dedup_In, in_map_iff. exists (k, x). split; [reflexivity|exact Hin].
  - apply in_map_iff. exists (k, x). split; [reflexivity|].
    apply filter_In. split; [exact Hin|]. cbn [fst]. apply str_eqb_refl.
Qed.

(* ====================================================================================== *)
(* 4. the related blank nodes of a blank node                                               *)
(* ====================================================================================== *)
(* the blank nodes, other than [y], of the quads that mention [y] (4.8, step 3.1) *)
Definition related (d : list quad) (y : str) : list str :=
  flat_map (fun q =>
    flat_map (fun pt =>
      flat_map (fun b => if str_eqb b y then [] else [b]) (sp_label (snd pt)))
      (sp_positions q))
    (sp_quads_of d y).

Lemma sp_hn_related H d canon id iss k l x :
  In (k, l) (sp_hn H d canon id iss) -> In x l -> In x (related d id).
Proof.
  unfold sp_hn. intros Hin Hx. pose proof (sp_group_vals _ _ _ _ Hin Hx) as He.
  apply in_flat_map in He as (q & Hq & He). apply in_flat_map in He as (pt & Hpt & He).
  apply in_flat_map in He as (b & Hb & He).
  unfold related. apply in_flat_map. exists q. split; [exact Hq|].
  apply in_flat_map. exists pt. split; [exact Hpt|].
  apply in_flat_map. exists b. split; [exact Hb|].
  destruct (str_eqb b id); [destruct He|]. destruct He as [E|[]].
  injection E as _ ->. left; reflexivity.
Qed.

Lemma related_sp_hn H d canon id iss x :
  In x (related d id) -> exists k l, In (k, l) (sp_hn H d canon id iss) /\ In x l.
Proof.
  unfold related. intros He.
  apply in_flat_map in He as (q & Hq & He). apply in_flat_map in He as (pt & Hpt & He).
  apply in_flat_map in He as (b & Hb & He).
  destruct (str_eqb b id) eqn:Eb; [destruct He|]. destruct He as [<-|[]].
  destruct (sp_group_cover
    (flat_map (fun q =>
       flat_map (fun pt =>
         flat_map (fun b =>
           if str_eqb b id then []
           else [(sp_hash_related H d canon b q iss (fst pt), b)]) (sp_label (snd pt)))
         (sp_positions q))
       (sp_quads_of d id))
    (sp_hash_related H d canon b q iss (fst pt)) b) as (l & Hl & Hx).
  - apply in_flat_map. exists q. split; [exact Hq|].
    apply in_flat_map. exists pt. split; [exact Hpt|].
    apply in_flat_map. exists b. split; [exact Hb|]. rewrite Eb. left; reflexivity.
  - exists (sp_hash_related H d canon b q iss (fst pt)), l. split; [exact Hl|exact Hx].
Qed.

(* ====================================================================================== *)
(* 5. Hash N-Degree Quads: the returned issuer extends the given one and is closed          *)
(* ====================================================================================== *)
Lemma sp_skip_nil_chosen path : sp_skip [] path = false.
Proof. reflexivity. Qed.

Section NDegreeFacts.
Variable H : str -> str.
Variable perms : list str -> list (list str).
Variable d : list quad.
Variable canon : sp_issuer.
(* every visited "permutation" of a list has exactly the elements of the list, and a non-empty
   list has at least one *)
Hypothesis perms_sub : forall l p, In p (perms l) -> forall x, In x p -> In x l.
Hypothesis perms_sup : forall l p, In p (perms l) -> forall x, In x l -> In x p.
Hypothesis perms_ne : forall l, perms l = [] -> l = [].

(* [j] has an identifier for every related blank node of [y] that has no canonical identifier *)
Definition cl (j : sp_issuer) (y : str) : Prop :=
  forall x, In x (related d y) -> sp_has canon x = false -> sp_has j x = true.
(* ... for every [y] issued in [b] but not in [a] *)
Definition newclosed (a b : sp_issuer) : Prop :=
  forall y, sp_has b y = true -> sp_has a y = false -> cl b y.
Definition covered (l : list str) (i : sp_issuer) : Prop :=
  forall x, In x l -> sp_has canon x = false -> sp_has i x = true.
(* what is proved about the recursive execution *)
Definition nd_spec (recur : str -> sp_issuer -> sp_result (str * sp_issuer)) : Prop :=
  forall id iss h iss', recur id iss = SpOk (h, iss') ->
    sub iss iss' /\ cl iss' id /\ newclosed iss iss'.

Lemma cl_mono i j y : sub i j -> cl i y -> cl j y.
Proof. intros S C x Hx Hc. apply S, C; assumption. Qed.
Lemma newclosed_refl a : newclosed a a.
Proof. intros y H1 H2. congruence. Qed.
Lemma newclosed_trans a b c :
  sub b c -> newclosed a b -> newclosed b c -> newclosed a c.
Proof.
  intros Sbc Nab Nbc y Hc Ha. destruct (sp_has b y) eqn:Hb.
  - eapply cl_mono; [exact Sbc|]. apply Nab; assumption.
  - apply Nbc; assumption.
Qed.

(* ---------- 5.4.4 ---------- *)
Lemma s544_skip_nil : forall p ic path rl, sp_5_4_4 canon [] ic path rl p <> None.
Proof.
  induction p as [|r p IH]; intros ic path rl; cbn [sp_5_4_4]; [discriminate|].
  destruct (sp_lookup (si_issued canon) r).
  - rewrite sp_skip_nil_chosen. apply IH.
  - destruct (sp_issue ic r) as [ic1 id1]. rewrite sp_skip_nil_chosen. apply IH.
Qed.

Lemma s544_spec chosen : forall p ic path rl ic' path' rl',
  sp_5_4_4 canon chosen ic path rl p = Some (ic', path', rl') ->
  sub ic ic' /\ covered p ic'
  /\ (forall y, sp_has ic' y = true -> sp_has ic y = true \/ In y rl')
  /\ (forall y, In y rl -> In y rl').
Proof.
  induction p as [|r p IH]; intros ic path rl ic' path' rl' E; cbn [sp_5_4_4] in E.
  - injection E as <- <- <-. split; [apply sub_refl|]. split; [intros x []|]. split; auto.
  - destruct (sp_lookup (si_issued canon) r) as [c|] eqn:Ec.
    + destruct (sp_skip chosen _); [discriminate|]. apply IH in E as (A & B & C & D).
      split; [exact A|]. split; [|split; assumption].
      intros x [<-|Hx] Hc; [|apply B; assumption]. apply sp_has_lookup in Hc. congruence.
    + destruct (sp_issue ic r) as [ic1 id1] eqn:Ei. destruct (sp_skip chosen _); [discriminate|].
      apply IH in E as (A & B & C & D).
      assert (E1 : ic1 = fst (sp_issue ic r)) by (rewrite Ei; reflexivity).
      split; [|split; [|split]].
      * eapply sub_trans; [|exact A]. rewrite E1. apply sub_issue.
      * intros x [<-|Hx] Hc; [|apply B; assumption].
        apply A. rewrite E1, sp_has_issue, str_eqb_refl, orb_true_r. reflexivity.
      * intros y Hy. destruct (C y Hy) as [Hy1|Hy1]; [|right; exact Hy1].
        rewrite E1, sp_has_issue in Hy1. destruct (sp_has ic y) eqn:Hicy; [left; reflexivity|].
        cbn [orb] in Hy1. apply str_eqb_eq in Hy1. subst y. rewrite Hicy in D.
        right. apply D. apply in_or_app. right. left. reflexivity.
      * intros y Hy. apply D. destruct (sp_has ic r); [exact Hy|apply in_or_app; left; exact Hy].
Qed.

Lemma s544_canon chosen : forall p ic path rl ic' path' rl',
  (forall x, In x p -> sp_has canon x = true) ->
  sp_5_4_4 canon chosen ic path rl p = Some (ic', path', rl') -> ic' = ic /\ rl' = rl.
Proof.
  induction p as [|r p IH]; intros ic path rl ic' path' rl' Hp E; cbn [sp_5_4_4] in E.
  - injection E as <- <- <-. auto.
  - destruct (sp_lookup (si_issued canon) r) as [c|] eqn:Ec.
    + destruct (sp_skip chosen _); [discriminate|]. apply IH in E; [exact E|].
      intros x Hx. apply Hp. right; exact Hx.
    + exfalso. apply sp_has_lookup in Ec. rewrite Hp in Ec by (left; reflexivity). discriminate.
Qed.

Section Recur.
Variable recur : str -> sp_issuer -> sp_result (str * sp_issuer).

(* ---------- 5.4.5 ---------- *)
Lemma s545_nil : forall rl ic path, sp_5_4_5 recur [] ic path rl <> SpOk None.
Proof.
  induction rl as [|r rl IH]; intros ic path; cbn [sp_5_4_5]; [discriminate|].
  destruct (recur r ic) as [[h res]| |]; try discriminate.
  destruct (sp_issue ic r) as [ic1 id1]. rewrite sp_skip_nil_chosen. apply IH.
Qed.

Lemma s545_spec : nd_spec recur -> forall rl chosen ic path ic' path',
  sp_5_4_5 recur chosen ic path rl = SpOk (Some (ic', path')) ->
  sub ic ic' /\ (forall y, In y rl -> cl ic' y) /\ newclosed ic ic'.
Proof.
  intros Hrec. induction rl as [|r rl IH]; intros chosen ic path ic' path' E; cbn [sp_5_4_5] in E.
  - injection E as <- <-. split; [apply sub_refl|]. split; [intros ? []|apply newclosed_refl].
  - destruct (recur r ic) as [[h res]| |] eqn:Er; try discriminate.
    destruct (sp_issue ic r) as [ic1 id1]. destruct (sp_skip _ _); [discriminate|].
    apply IH in E as (A & B & C). apply Hrec in Er as (A0 & B0 & C0).
    split; [eapply sub_trans; eauto|]. split.
    + intros y [<-|Hy]; [eapply cl_mono; eauto|auto].
    + eapply newclosed_trans; eauto.
Qed.

(* ---------- 5.4 ---------- *)
Definition good (issuer : sp_issuer) (l : list str) (i : sp_issuer) : Prop :=
  sub issuer i /\ newclosed issuer i /\ covered l i.

Lemma s54_spec issuer l : nd_spec recur -> forall ps chosen ci c' ci',
  (forall p, In p ps -> forall x, In x l -> In x p) ->
  sp_5_4 recur canon issuer chosen ci ps = SpOk (c', ci') ->
  (forall i, ci = Some i -> good issuer l i) ->
  forall i, ci' = Some i -> good issuer l i.
Proof.
  intros Hrec. induction ps as [|p ps IH]; intros chosen ci c' ci' Hps E Hci; cbn [sp_5_4] in E.
  - injection E as <- <-. exact Hci.
  - assert (Hps' : forall p', In p' ps -> forall x, In x l -> In x p').
    { intros p' Hp'. apply Hps. right; exact Hp'. }
    destruct (sp_5_4_4 canon chosen issuer [] [] p) as [[[ic0 path0] rl0]|] eqn:E4.
    2:{ eapply IH; eauto. }
    destruct (sp_5_4_5 recur chosen ic0 path0 rl0) as [[[ic1 path1]|]| |] eqn:E5; try discriminate.
    2:{ eapply IH; eauto. }
    destruct (is_nil chosen || str_ltb path1 chosen).
    2:{ eapply IH; eauto. }
    eapply IH; [exact Hps'|exact E|]. intros i Ei. injection Ei as <-.
    apply s544_spec in E4 as (A & B & C & D). apply (s545_spec Hrec) in E5 as (A' & B' & C').
    split; [eapply sub_trans; eauto|]. split.
    + intros y Hy Hn. destruct (sp_has ic0 y) eqn:H0.
      * destruct (C y H0) as [Hi|Hr]; [congruence|]. apply B'; exact Hr.
      * apply C'; assumption.
    + intros x Hx Hc. apply A'. apply B; [|exact Hc]. apply (Hps p); [left; reflexivity|exact Hx].
Qed.

Lemma s54_none issuer : forall ps chosen ci c',
  sp_5_4 recur canon issuer chosen ci ps = SpOk (c', None) -> ci = None /\ (chosen = [] -> ps = []).
Proof.
  induction ps as [|p ps IH]; intros chosen ci c' E; cbn [sp_5_4] in E.
  - injection E as <- <-. auto.
  - destruct (sp_5_4_4 canon chosen issuer [] [] p) as [[[ic0 path0] rl0]|] eqn:E4.
    + destruct (sp_5_4_5 recur chosen ic0 path0 rl0) as [[[ic1 path1]|]| |] eqn:E5; try discriminate.
      * destruct (is_nil chosen || str_ltb path1 chosen) eqn:Eb.
        -- apply IH in E as [E _]. discriminate.
        -- apply IH in E as [E1 E2]. split; [exact E1|]. intros ->. cbn in Eb. discriminate.
      * apply IH in E as [E1 E2]. split; [exact E1|]. intros ->. exfalso. eapply s545_nil; eauto.
    + apply IH in E as [E1 E2]. split; [exact E1|]. intros ->. exfalso. eapply s544_skip_nil; eauto.
Qed.

Lemma s54_canon issuer : forall ps chosen ci c' ci',
  (forall p, In p ps -> forall x, In x p -> sp_has canon x = true) ->
  sp_5_4 recur canon issuer chosen ci ps = SpOk (c', ci') ->
  (forall i, ci = Some i -> i = issuer) ->
  forall i, ci' = Some i -> i = issuer.
Proof.
  induction ps as [|p ps IH]; intros chosen ci c' ci' Hps E Hci; cbn [sp_5_4] in E.
  - injection E as <- <-. exact Hci.
  - assert (Hps' : forall p', In p' ps -> forall x, In x p' -> sp_has canon x = true).
    { intros p' Hp'. apply Hps. right; exact Hp'. }
    destruct (sp_5_4_4 canon chosen issuer [] [] p) as [[[ic0 path0] rl0]|] eqn:E4.
    2:{ eapply IH; eauto. }
    apply s544_canon in E4 as [-> ->]; [|apply Hps; left; reflexivity].
    cbn [sp_5_4_5] in E.
    destruct (is_nil chosen || str_ltb path0 chosen).
    2:{ eapply IH; eauto. }
    eapply IH; [exact Hps'|exact E|]. intros i Ei. injection Ei as <-. reflexivity.
Qed.

(* ---------- 5 ---------- *)
Lemma s5_spec : nd_spec recur -> forall hn issuer data data' issuer',
  sp_5 perms recur canon issuer data hn = SpOk (data', issuer') ->
  sub issuer issuer' /\ newclosed issuer issuer'
  /\ (forall k l, In (k, l) hn -> covered l issuer').
Proof.
  intros Hrec. induction hn as [|[k l] hn IH]; intros issuer data data' issuer' E; cbn [sp_5] in E.
  - injection E as <- <-. split; [apply sub_refl|]. split; [apply newclosed_refl|]. intros k l [].
  - destruct (sp_5_4 recur canon issuer [] None (perms l)) as [[chosen ci]| |] eqn:E54; try discriminate.
    apply IH in E as (A & B & C).
    assert (G : good issuer l (match ci with Some i => i | None => issuer end)).
    { destruct ci as [i|].
      - eapply (s54_spec issuer l Hrec); [|exact E54| |reflexivity].
        + intros p Hp. apply perms_sup. exact Hp.
        + intros i0 E0; discriminate.
      - apply s54_none in E54 as [_ E2]. specialize (E2 eq_refl). apply perms_ne in E2. subst l.
        split; [apply sub_refl|]. split; [apply newclosed_refl|intros x []]. }
    destruct G as (A0 & B0 & C0). split; [eapply sub_trans; eauto|].
    split; [eapply newclosed_trans; eauto|].
    intros k' l' [Ekl|Hin].
    + injection Ekl as <- <-. intros x Hx Hc. apply A. apply C0; assumption.
    + eapply C; eauto.
Qed.

Lemma s5_canon : forall hn issuer data data' issuer',
  (forall k l x, In (k, l) hn -> In x l -> sp_has canon x = true) ->
  sp_5 perms recur canon issuer data hn = SpOk (data', issuer') -> issuer' = issuer.
Proof.
  induction hn as [|[k l] hn IH]; intros issuer data data' issuer' Hhn E; cbn [sp_5] in E.
  - injection E as <- <-. reflexivity.
  - destruct (sp_5_4 recur canon issuer [] None (perms l)) as [[chosen ci]| |] eqn:E54; try discriminate.
    apply IH in E.
    2:{ intros k' l' x Hin. apply (Hhn k' l' x). right; exact Hin. }
    subst issuer'. destruct ci as [i|]; [|reflexivity].
    eapply s54_canon; [|exact E54| |reflexivity].
    + intros p Hp x Hx. apply (Hhn k l x); [left; reflexivity|]. eapply perms_sub; eauto.
    + intros i0 E0; discriminate.
Qed.

Lemma body_spec : nd_spec recur -> nd_spec (sp_n_degree_body H perms d recur canon).
Proof.
  intros Hrec id iss h iss'. unfold sp_n_degree_body.
  destruct (sp_5 perms recur canon iss [] (sp_hn H d canon id iss)) as [[data i1]| |] eqn:E5;
    try discriminate.
  intros E; injection E as <- <-. apply (s5_spec Hrec) in E5 as (A & B & C).
  split; [exact A|]. split; [|exact B].
  intros x Hx Hc. destruct (related_sp_hn H d canon id iss x Hx) as (k & l & Hl & Hxl).
  eapply C; eauto.
Qed.

Lemma body_canon id iss h iss' :
  (forall x, In x (related d id) -> sp_has canon x = true) ->
  sp_n_degree_body H perms d recur canon id iss = SpOk (h, iss') -> iss' = iss.
Proof.
  intros Hrel. unfold sp_n_degree_body.
  destruct (sp_5 perms recur canon iss [] (sp_hn H d canon id iss)) as [[data i1]| |] eqn:E5;
    try discriminate.
  intros E; injection E as <- <-. apply s5_canon in E5; [exact E5|].
  intros k l x Hl Hx. apply Hrel. eapply sp_hn_related; eauto.
Qed.
End Recur.

(* (A)+(B): the issuer returned by Hash N-Degree Quads *)
Theorem n_degree_spec : forall fuel, nd_spec (sp_n_degree H perms d fuel canon).
Proof.
  induction fuel as [|f IH]; intros id iss h iss' E; cbn [sp_n_degree] in E; [discriminate|].
  eapply body_spec; eauto.
Qed.

(* when every related blank node has a canonical identifier, the issuer is returned unchanged *)
Theorem n_degree_canon fuel id iss h iss' :
  (forall x, In x (related d id) -> sp_has canon x = true) ->
  sp_n_degree H perms d fuel canon id iss = SpOk (h, iss') -> iss' = iss.
Proof.
  destruct fuel as [|f]; cbn [sp_n_degree]; [discriminate|]. apply body_canon.
Qed.
End NDegreeFacts.
