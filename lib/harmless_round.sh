#!/bin/bash
# usage: harmless_round.sh <tag> <dir>...   e.g. harmless_round.sh h1 /tmp/harmless-h1-C01-b ...
# For each harmless control: applies it in the scratch worktree /tmp/wt-<tag>, runs the workspace suite, then runs
# the property's quick check against it on private copies (lib/try_seed.sh). One verdict line per control.
tag=$1; shift
wt=/tmp/wt-$tag
out=/root/seedlogs/harmless-$tag.txt; : > $out
export CARGO_NET_OFFLINE=true CARGO_TARGET_DIR=$wt/target
for d in "$@"; do
  pid=$(python3 -c "import json;print(json.load(open('$d/meta.json'))['property'])")
  cd $wt && git checkout -q -- . && git clean -fdq -e target
  if ! git apply $d/patch.diff 2>/dev/null; then echo "$(basename $d): PATCH DOES NOT APPLY to the worktree" >> $out; continue; fi
  cargo test --workspace --offline --no-fail-fast > $d/suite.log 2>&1; rc=$?
  ok=$(grep -c '^test result: ok' $d/suite.log); bad=$(grep -c 'FAILED' $d/suite.log)
  git checkout -q -- . ; git clean -fdq -e target
  r=$(/verif/lib/try_seed.sh $d $pid 2>&1)
  if echo "$r" | grep -q "does not apply"; then v="PATCH-DOES-NOT-APPLY to /repo HEAD";
  elif echo "$r" | grep -q "^VIOLATION"; then v="ALARM: $(echo "$r" | grep -m1 -A1 '^VIOLATION' | tr '\n' ' ' | cut -c1-500)";
  else v="quiet: $(echo "$r" | grep 'obligations discharged' | cut -c1-170)"; fi
  echo "$(basename $d) [$pid]: suite exit=$rc ($ok ok lines, $bad FAILED) | $v" >> $out
done
cat $out
