(* C16/Proofs.v -- erasure, exact depths / linear lower bounds of the original shapes, constant
   (or nesting-bounded, or logarithmic) depth of the patched shapes. *)
From Sophia.C16 Require Import Model.

(* ------------------------------------------------------------------------------------------ *)
(** * The cost monad                                                                           *)
(* ------------------------------------------------------------------------------------------ *)
Lemma res_ret {A} (a : A) : res (ret a) = a. Proof. reflexivity. Qed.
Lemma depth_ret {A} (a : A) : depth (ret a) = O. Proof. reflexivity. Qed.
Lemma res_bind {A B} (m : C A) (f : A -> C B) : res (bind m f) = res (f (res m)).
Proof. reflexivity. Qed.
Lemma depth_bind {A B} (m : C A) (f : A -> C B) :
  depth (bind m f) = Nat.max (depth m) (depth (f (res m))).
Proof. reflexivity. Qed.
Lemma res_call {A} (m : C A) : res (call m) = res m. Proof. reflexivity. Qed.
Lemma depth_call {A} (m : C A) : depth (call m) = S (depth m). Proof. reflexivity. Qed.
Lemma res_leaf {A} (a : A) : res (leaf a) = a. Proof. reflexivity. Qed.
Lemma depth_leaf {A} (a : A) : depth (leaf a) = 1%nat. Proof. reflexivity. Qed.
Lemma res_if {A} (b : bool) (x y : C A) : res (if b then x else y) = if b then res x else res y.
Proof. destruct b; reflexivity. Qed.

Ltac cm := rewrite ?res_bind, ?depth_bind, ?res_call, ?depth_call, ?res_ret, ?depth_ret,
                   ?res_leaf, ?depth_leaf in *.

(* ------------------------------------------------------------------------------------------ *)
(** * (a) matching iterators                                                                   *)
(* ------------------------------------------------------------------------------------------ *)
Lemma update_c_res col m i : res (update_c col m i) = update_p col m i.
Proof. reflexivity. Qed.
Lemma update_c_depth col m i : depth (update_c col m i) = 2%nat.
Proof. reflexivity. Qed.

Lemma cols_c_res : forall ms col cache r, res (cols_c col ms cache r) = cols_p col ms cache r.
Proof.
  induction ms as [|m ms IH]; intros col cache r; [reflexivity|].
  destruct cache as [|c cache]; [reflexivity|]. destruct r as [|x r]; [reflexivity|].
  cbn [cols_c cols_p]. rewrite res_bind.
  destruct (N.eqb x (td_i c)).
  - rewrite res_ret. destruct (td_b c).
    + rewrite res_bind, IH. destruct (cols_p (col + 1) ms cache r) as [[cs ok] tr']. reflexivity.
    + reflexivity.
  - rewrite update_c_res. unfold update_p. cbn [td_b].
    destruct (m x).
    + rewrite res_bind, IH. destruct (cols_p (col + 1) ms cache r) as [[cs ok] tr']. reflexivity.
    + reflexivity.
Qed.
Lemma cols_c_depth : forall ms col cache r, (depth (cols_c col ms cache r) <= 2)%nat.
Proof.
  induction ms as [|m ms IH]; intros col cache r; [cbn; lia|].
  destruct cache as [|c cache]; [cbn; lia|]. destruct r as [|x r]; [cbn; lia|].
  cbn [cols_c]. rewrite depth_bind.
  assert (H1 : (depth (if N.eqb x (td_i c) then ret (c, []) else update_c col m x) <= 2)%nat).
  { destruct (N.eqb x (td_i c)); cbn; lia. }
  set (u := if N.eqb x (td_i c) then ret (c, []) else update_c col m x) in *.
  destruct (res u) as [c' tr]. destruct (td_b c').
  - rewrite depth_bind. specialize (IH (col + 1) cache r).
    destruct (res (cols_c (col + 1) ms cache r)) as [[cs ok] tr']. rewrite depth_ret. lia.
  - rewrite depth_ret. lia.
Qed.
Lemma row_c_res ms mlast cache r : res (row_c ms mlast cache r) = row_p ms mlast cache r.
Proof.
  unfold row_c, row_p. rewrite res_bind, cols_c_res.
  destruct (cols_p 0 ms cache r) as [[cs ok] tr]. destruct ok; reflexivity.
Qed.
Lemma row_c_depth ms mlast cache r : (depth (row_c ms mlast cache r) <= 2)%nat.
Proof.
  unfold row_c. rewrite depth_bind. pose proof (cols_c_depth ms 0 cache r) as H.
  destruct (res (cols_c 0 ms cache r)) as [[cs ok] tr]. destruct ok.
  - rewrite depth_bind, update_c_depth.
    destruct (res (update_c (N.of_nat (length ms)) mlast (nth (length ms) r 0))) as [d tr'].
    rewrite depth_ret. lia.
  - rewrite depth_ret. lia.
Qed.

(* erasure of one `next`, both shapes *)
Lemma next_loop_body_res ms mlast : forall rows cache,
  res (next_loop_body ms mlast cache rows) = next_p ms mlast cache rows.
Proof.
  induction rows as [|r rs IH]; intros cache; [reflexivity|].
  cbn [next_loop_body next_p]. rewrite res_bind, row_c_res.
  destruct (row_p ms mlast cache r) as [[cs ok] tr]. destruct ok; [reflexivity|].
  rewrite res_bind, IH. destruct (next_p ms mlast cs rs) as [[[x cs'] rs'] tr']. reflexivity.
Qed.
Lemma next_loop_res ms mlast cache rows :
  res (next_loop_c ms mlast cache rows) = next_p ms mlast cache rows.
Proof. unfold next_loop_c. rewrite res_call. apply next_loop_body_res. Qed.
Lemma next_rec_res ms mlast : forall rows cache,
  res (next_rec_c ms mlast cache rows) = next_p ms mlast cache rows.
Proof.
  induction rows as [|r rs IH]; intros cache; [reflexivity|].
  cbn [next_rec_c next_p]. rewrite res_call, res_bind, row_c_res.
  destruct (row_p ms mlast cache r) as [[cs ok] tr]. destruct ok; [reflexivity|].
  rewrite res_bind, IH. destruct (next_p ms mlast cs rs) as [[[x cs'] rs'] tr']. reflexivity.
Qed.

(* depth of one `next` *)
Lemma next_loop_body_depth ms mlast : forall rows cache,
  (depth (next_loop_body ms mlast cache rows) <= 2)%nat.
Proof.
  induction rows as [|r rs IH]; intros cache; [cbn; lia|].
  cbn [next_loop_body]. rewrite depth_bind. pose proof (row_c_depth ms mlast cache r) as H.
  destruct (res (row_c ms mlast cache r)) as [[cs ok] tr]. destruct ok.
  - rewrite depth_ret. lia.
  - rewrite depth_bind. specialize (IH cs).
    destruct (res (next_loop_body ms mlast cs rs)) as [[[x cs'] rs'] tr']. rewrite depth_ret. lia.
Qed.
Theorem next_loop_depth ms mlast cache rows :
  (depth (next_loop_c ms mlast cache rows) <= 3)%nat.
Proof.
  unfold next_loop_c. rewrite depth_call. pose proof (next_loop_body_depth ms mlast rows cache). lia.
Qed.

(* the original: one frame per row rejected in a row *)
Theorem next_rec_depth_lower ms mlast : forall rows cache,
  (S (skipped ms mlast cache rows) <= depth (next_rec_c ms mlast cache rows))%nat.
Proof.
  induction rows as [|r rs IH]; intros cache; [cbn; lia|].
  cbn [next_rec_c skipped]. rewrite depth_call, depth_bind, row_c_res.
  destruct (row_p ms mlast cache r) as [[cs ok] tr]. destruct ok; [lia|].
  rewrite depth_bind. specialize (IH cs).
  destruct (res (next_rec_c ms mlast cs rs)) as [[[x cs'] rs'] tr']. rewrite depth_ret. lia.
Qed.
Theorem next_rec_depth_upper ms mlast : forall rows cache,
  (depth (next_rec_c ms mlast cache rows) <= skipped ms mlast cache rows + 3)%nat.
Proof.
  induction rows as [|r rs IH]; intros cache; [cbn; lia|].
  cbn [next_rec_c skipped]. rewrite depth_call, depth_bind.
  pose proof (row_c_depth ms mlast cache r) as H. rewrite row_c_res.
  destruct (row_p ms mlast cache r) as [[cs ok] tr]. destruct ok; [rewrite depth_ret; lia|].
  rewrite depth_bind. specialize (IH cs).
  destruct (res (next_rec_c ms mlast cs rs)) as [[[x cs'] rs'] tr']. rewrite depth_ret. lia.
Qed.

(* complete consumption *)
Lemma collect_c_res ms mlast (next : list tdata -> list row -> C nres) :
  (forall cache rows, res (next cache rows) = next_p ms mlast cache rows) ->
  forall fuel cache rows, res (collect_c next fuel cache rows) = collect_p ms mlast fuel cache rows.
Proof.
  intros Hn. induction fuel as [|f IH]; intros cache rows; [reflexivity|].
  cbn [collect_c collect_p]. rewrite res_bind, Hn.
  destruct (next_p ms mlast cache rows) as [[[x cache'] rows'] tr]. destruct x as [r|]; [|reflexivity].
  rewrite res_bind, IH. destruct (collect_p ms mlast f cache' rows') as [out tr']. reflexivity.
Qed.
Lemma collect_c_depth (next : list tdata -> list row -> C nres) (k : nat) :
  (forall cache rows, (depth (next cache rows) <= k)%nat) ->
  forall fuel cache rows, (depth (collect_c next fuel cache rows) <= k)%nat.
Proof.
  intros Hn. induction fuel as [|f IH]; intros cache rows; [cbn; lia|].
  cbn [collect_c]. rewrite depth_bind. pose proof (Hn cache rows) as H.
  destruct (res (next cache rows)) as [[[x cache'] rows'] tr]. destruct x as [r|].
  - rewrite depth_bind. specialize (IH cache' rows').
    destruct (res (collect_c next f cache' rows')) as [out tr']. rewrite depth_ret. lia.
  - rewrite depth_ret. lia.
Qed.
Lemma collect_c_depth_first (next : list tdata -> list row -> C nres) fuel cache rows :
  (depth (next cache rows) <= depth (collect_c next (S fuel) cache rows))%nat.
Proof. cbn [collect_c]. rewrite depth_bind. lia. Qed.

(* (1) erasure: both shapes compute the cost-free model, hence the same rows and the same
   sequence of matcher calls *)
Theorem iter_all_erasure looped ms mlast rows :
  res (iter_all_c looped ms mlast rows) = iter_all_p ms mlast rows.
Proof.
  unfold iter_all_c, iter_all_p. destruct rows as [|first rest]; [reflexivity|].
  destruct (new_cols 0 ms first) as [cache tr0]. rewrite res_bind.
  rewrite (collect_c_res ms mlast).
  - destruct (collect_p ms mlast (S (length (first :: rest))) cache (first :: rest)). reflexivity.
  - intros c r. destruct looped; [apply next_loop_res | apply next_rec_res].
Qed.
(* (2) patched: three frames (next, update, the matcher) whatever the rows *)
Theorem iter_all_loop_depth ms mlast rows : (depth (iter_all_c true ms mlast rows) <= 3)%nat.
Proof.
  unfold iter_all_c. destruct rows as [|first rest]; [cbn; lia|].
  destruct (new_cols 0 ms first) as [cache tr0]. rewrite depth_bind.
  pose proof (collect_c_depth (next_loop_c ms mlast) 3 (next_loop_depth ms mlast)
                (S (length (first :: rest))) cache (first :: rest)) as H.
  destruct (res (collect_c (next_loop_c ms mlast) (S (length (first :: rest))) cache (first :: rest))).
  rewrite depth_ret. lia.
Qed.
(* (3) original: at least one frame per row rejected before the first answer *)
Theorem iter_all_rec_depth_lower ms mlast first rest :
  (S (skipped ms mlast (fst (new_cols 0 ms first)) (first :: rest))
   <= depth (iter_all_c false ms mlast (first :: rest)))%nat.
Proof.
  unfold iter_all_c. destruct (new_cols 0 ms first) as [cache tr0]. cbn [fst].
  rewrite depth_bind.
  pose proof (collect_c_depth_first (next_rec_c ms mlast) (length (first :: rest)) cache (first :: rest)).
  pose proof (next_rec_depth_lower ms mlast (first :: rest) cache). lia.
Qed.

(* rows all rejected by a cached column *)
Lemma skipped_all_rejected : forall n, (0 < n)%nat ->
  skipped [fun _ => false] (fun _ => true) [mk_td 0 false] (repeat [0; 0] n) = n.
Proof.
  induction n as [|n IH]; intros Hn; [lia|].
  cbn [repeat skipped]. unfold row_p. cbn [cols_p N.eqb td_i td_b].
  destruct n as [|n']; [reflexivity|]. rewrite IH by lia. reflexivity.
Qed.
Theorem iter_rec_refuted : forall c : nat, exists ms mlast rows,
  (depth (iter_all_c false ms mlast rows) > c)%nat.
Proof.
  intros c. exists [fun _ => false], (fun _ => true), (repeat [0; 0] (S c)).
  pose proof (iter_all_rec_depth_lower [fun _ => false] (fun _ => true) [0; 0] (repeat [0; 0] c)) as H.
  cbn [new_cols fst] in H.
  change ([0; 0] :: repeat [0; 0] c) with (repeat [0; 0] (S c)) in H.
  rewrite skipped_all_rejected in H by lia. lia.
Qed.

(* the model meets the specification of a pattern query: the rows accepted by every matcher,
   provided the caches are consistent (they are after `new`) and rows have k + 1 columns *)
Definition cache_ok (ms : list matcher) (cache : list tdata) : Prop :=
  Forall2 (fun m c => td_b c = m (td_i c)) ms cache.
Definition row_wf (ms : list matcher) (r : row) : Prop := length r = S (length ms).

Lemma cols_p_spec : forall ms col cache r, cache_ok ms cache -> (length ms < length r)%nat ->
  let '(cs, ok, _) := cols_p col ms cache r in
  cache_ok ms cs /\ ok = forallb (fun p => fst p (snd p)) (combine ms r).
Proof.
  induction ms as [|m ms IH]; intros col cache r Hc Hl.
  - inversion Hc; subst. cbn. split; [constructor|reflexivity].
  - inversion Hc as [|m' c ms' cache' Hb Hrest]; subst.
    destruct r as [|x r]; [cbn in Hl; lia|]. cbn [cols_p].
    assert (Hl' : (length ms < length r)%nat) by (cbn in Hl; lia).
    destruct (N.eqb_spec x (td_i c)) as [E|E].
    + subst x. destruct (td_b c) eqn:Eb.
      * specialize (IH (col + 1) cache' r Hrest Hl').
        destruct (cols_p (col + 1) ms cache' r) as [[cs ok] tr']. destruct IH as [IH1 IH2].
        split; [constructor; [congruence|assumption]|]. cbn [combine forallb fst snd].
        rewrite <- Hb. exact IH2.
      * split; [constructor; [congruence|assumption]|]. cbn [combine forallb fst snd].
        rewrite <- Hb. reflexivity.
    + unfold update_p. cbn [td_b]. destruct (m x) eqn:Em.
      * specialize (IH (col + 1) cache' r Hrest Hl').
        destruct (cols_p (col + 1) ms cache' r) as [[cs ok] tr']. destruct IH as [IH1 IH2].
        split; [constructor; [cbn; congruence|assumption]|].
        cbn [combine forallb fst snd]. rewrite Em. exact IH2.
      * split; [constructor; [cbn; congruence|assumption]|].
        cbn [combine forallb fst snd]. rewrite Em. reflexivity.
Qed.
Lemma row_accepted_split : forall ms mlast r, row_wf ms r ->
  row_accepted ms mlast r =
  forallb (fun p => fst p (snd p)) (combine ms r) && mlast (nth (length ms) r 0).
Proof.
  induction ms as [|m ms IH]; intros mlast r Hr; unfold row_wf in Hr.
  - destruct r as [|x [|y r]]; cbn in Hr; try lia. reflexivity.
  - destruct r as [|x r]; [cbn in Hr; lia|]. cbn [row_accepted combine forallb fst snd length nth].
    rewrite IH by (unfold row_wf; cbn in Hr; lia). rewrite andb_assoc. reflexivity.
Qed.
Lemma row_p_spec ms mlast cache r : cache_ok ms cache -> row_wf ms r ->
  let '(cs, ok, _) := row_p ms mlast cache r in cache_ok ms cs /\ ok = row_accepted ms mlast r.
Proof.
  intros Hc Hr. unfold row_p. pose proof (cols_p_spec ms 0 cache r Hc) as H.
  unfold row_wf in Hr. specialize (H ltac:(lia)).
  destruct (cols_p 0 ms cache r) as [[cs ok] tr]. destruct H as [H1 H2].
  rewrite (row_accepted_split ms mlast r Hr), <- H2. destruct ok; cbn; auto.
Qed.
Lemma next_p_spec ms mlast : forall rows cache, cache_ok ms cache -> Forall (row_wf ms) rows ->
  let '(x, cs, rs, _) := next_p ms mlast cache rows in
  cache_ok ms cs /\ Forall (row_wf ms) rs /\ (length rs <= length rows)%nat /\
  match x with
  | Some r => filter (row_accepted ms mlast) rows = r :: filter (row_accepted ms mlast) rs
              /\ (length rs < length rows)%nat
  | None => filter (row_accepted ms mlast) rows = [] /\ rs = []
  end.
Proof.
  induction rows as [|r rs IH]; intros cache Hc Hw.
  - cbn. auto.
  - inversion Hw as [|? ? Hr Hrs]; subst. cbn [next_p].
    pose proof (row_p_spec ms mlast cache r Hc Hr) as H.
    destruct (row_p ms mlast cache r) as [[cs ok] tr]. destruct H as [H1 H2]. destruct ok.
    + cbn [filter]. rewrite <- H2. cbn [length]. repeat split; auto.
    + specialize (IH cs H1 Hrs). destruct (next_p ms mlast cs rs) as [[[x cs'] rs'] tr'].
      destruct IH as (I1 & I2 & I3 & I4). cbn [filter length]. rewrite <- H2.
      split; [exact I1|]. split; [exact I2|]. split; [lia|].
      destruct x; destruct I4 as [J1 J2]; split; auto; lia.
Qed.
Lemma collect_p_spec ms mlast : forall fuel cache rows, cache_ok ms cache -> Forall (row_wf ms) rows ->
  (length rows < fuel)%nat ->
  fst (collect_p ms mlast fuel cache rows) = filter (row_accepted ms mlast) rows.
Proof.
  induction fuel as [|f IH]; intros cache rows Hc Hw Hf; [lia|].
  cbn [collect_p]. pose proof (next_p_spec ms mlast rows cache Hc Hw) as H.
  destruct (next_p ms mlast cache rows) as [[[x cs] rs] tr]. destruct H as (H1 & H2 & H3 & H4).
  destruct x as [r|].
  - destruct H4 as [H4 H5]. specialize (IH cs rs H1 H2 ltac:(lia)).
    destruct (collect_p ms mlast f cs rs) as [out tr']. cbn [fst] in *. rewrite H4, IH. reflexivity.
  - destruct H4 as [H4 _]. cbn [fst]. symmetry. exact H4.
Qed.
Lemma new_cols_ok : forall ms col first, (length ms <= length first)%nat ->
  cache_ok ms (fst (new_cols col ms first)).
Proof.
  induction ms as [|m ms IH]; intros col first Hl; [constructor|].
  destruct first as [|x r]; [cbn in Hl; lia|]. cbn [new_cols].
  specialize (IH (col + 1) r ltac:(cbn in Hl; lia)).
  destruct (new_cols (col + 1) ms r) as [cs tr]. cbn [fst] in *. constructor; [reflexivity|exact IH].
Qed.
Theorem iter_all_is_filter looped ms mlast rows : Forall (row_wf ms) rows ->
  fst (res (iter_all_c looped ms mlast rows)) = filter (row_accepted ms mlast) rows.
Proof.
  intros Hw. rewrite iter_all_erasure. unfold iter_all_p. destruct rows as [|first rest]; [reflexivity|].
  assert (Hc : cache_ok ms (fst (new_cols 0 ms first))).
  { apply new_cols_ok. inversion Hw as [|? ? Hr _]; subst. unfold row_wf in Hr. lia. }
  destruct (new_cols 0 ms first) as [cache tr0]. cbn [fst] in Hc.
  pose proof (collect_p_spec ms mlast (S (length (first :: rest))) cache (first :: rest) Hc Hw ltac:(lia)) as H.
  destruct (collect_p ms mlast (S (length (first :: rest))) cache (first :: rest)) as [out tr].
  exact H.
Qed.

(* ------------------------------------------------------------------------------------------ *)
(** * (b) quoted_string                                                                        *)
(* ------------------------------------------------------------------------------------------ *)
Lemma qs_scan_none : forall txt pre, qs_scan txt = (pre, None) -> quoted_string_p txt = pre.
Proof.
  induction txt as [|c r IH]; intros pre H; cbn in H.
  - inversion H. reflexivity.
  - destruct (is_special c) eqn:E; [discriminate|].
    destruct (qs_scan r) as [pre' x]. inversion H; subst.
    unfold quoted_string_p. cbn [flat_map]. rewrite E. cbn [app]. f_equal. apply IH. reflexivity.
Qed.
Lemma qs_scan_some : forall txt pre c rest, qs_scan txt = (pre, Some (c, rest)) ->
  quoted_string_p txt = pre ++ esc c ++ quoted_string_p rest /\ (length rest < length txt)%nat
  /\ qs_frames txt = match rest with [] => 1%nat | _ :: _ => S (qs_frames rest) end.
Proof.
  induction txt as [|a r IH]; intros pre c rest H; cbn in H; [discriminate|].
  destruct (is_special a) eqn:E.
  - inversion H; subst. unfold quoted_string_p. cbn [flat_map qs_frames length]. rewrite E.
    split; [reflexivity|]. split; [lia|reflexivity].
  - destruct (qs_scan r) as [pre' x] eqn:Es. inversion H; subst.
    destruct (IH pre' c rest eq_refl) as (I1 & I2 & I3).
    unfold quoted_string_p in *. cbn [flat_map qs_frames length]. rewrite E. cbn [app].
    split; [f_equal; exact I1|]. split; [lia|exact I3].
Qed.
Lemma qs_scan_none_frames : forall txt pre, qs_scan txt = (pre, None) -> qs_frames txt = 1%nat.
Proof.
  induction txt as [|c r IH]; intros pre H; cbn in H; [reflexivity|].
  destruct (is_special c) eqn:E; [discriminate|].
  destruct (qs_scan r) as [pre' x]. inversion H; subst. cbn [qs_frames]. rewrite E. eapply IH. reflexivity.
Qed.

Lemma qs_rec_spec : forall fuel txt, (length txt < fuel)%nat ->
  res (qs_rec_c fuel txt) = quoted_string_p txt /\ depth (qs_rec_c fuel txt) = S (qs_frames txt).
Proof.
  induction fuel as [|f IH]; intros txt Hf; [lia|].
  cbn [qs_rec_c]. rewrite res_call, depth_call.
  destruct (qs_scan txt) as [pre x] eqn:Es. destruct x as [[c rest]|].
  - destruct (qs_scan_some txt pre c rest Es) as (S1 & S2 & S3).
    rewrite !res_bind, !depth_bind. unfold write_all_c. rewrite !res_leaf, !depth_leaf.
    destruct rest as [|b rest'].
    + rewrite res_ret, depth_ret, S1, S3. unfold quoted_string_p. cbn [flat_map]. rewrite app_nil_r.
      split; reflexivity.
    + destruct (IH (b :: rest') ltac:(lia)) as [I1 I2].
      rewrite res_bind, depth_bind, res_ret, depth_ret, I1, I2, S1, S3. split; [reflexivity|].
      assert (1 <= qs_frames (b :: rest'))%nat by (clear; induction (b :: rest') as [|y l IHl]; cbn; [lia|]; destruct (is_special y); [destruct l; lia|exact IHl]).
      lia.
  - rewrite res_bind, depth_bind. unfold write_all_c. rewrite res_leaf, depth_leaf, res_ret, depth_ret.
    rewrite (qs_scan_none txt pre Es), (qs_scan_none_frames txt pre Es). split; reflexivity.
Qed.
Lemma qs_loop_spec : forall fuel txt, (length txt < fuel)%nat ->
  res (qs_loop_body fuel txt) = quoted_string_p txt /\ depth (qs_loop_body fuel txt) = 1%nat.
Proof.
  induction fuel as [|f IH]; intros txt Hf; [lia|].
  cbn [qs_loop_body].
  destruct (qs_scan txt) as [pre x] eqn:Es. destruct x as [[c rest]|].
  - destruct (qs_scan_some txt pre c rest Es) as (S1 & S2 & S3).
    rewrite !res_bind, !depth_bind. unfold write_all_c. rewrite !res_leaf, !depth_leaf.
    destruct rest as [|b rest'].
    + rewrite res_ret, depth_ret, S1. unfold quoted_string_p. cbn [flat_map]. rewrite app_nil_r.
      split; reflexivity.
    + destruct (IH (b :: rest') ltac:(lia)) as [I1 I2].
      rewrite res_bind, depth_bind, res_ret, depth_ret, I1, I2, S1. split; reflexivity.
  - rewrite res_bind, depth_bind. unfold write_all_c. rewrite res_leaf, depth_leaf, res_ret, depth_ret.
    rewrite (qs_scan_none txt pre Es). split; reflexivity.
Qed.

(* (1) erasure *)
Theorem quoted_string_rec_erasure txt : res (quoted_string_rec_c txt) = quoted_string_p txt.
Proof. apply qs_rec_spec. lia. Qed.
Theorem quoted_string_loop_erasure txt : res (quoted_string_loop_c txt) = quoted_string_p txt.
Proof. unfold quoted_string_loop_c. rewrite res_call. apply qs_loop_spec. lia. Qed.
(* (2) patched: quoted_string and write_all *)
Theorem quoted_string_loop_depth txt : depth (quoted_string_loop_c txt) = 2%nat.
Proof. unfold quoted_string_loop_c. rewrite depth_call. f_equal. apply qs_loop_spec. lia. Qed.
(* (3) original: exact, and at least the number of escaped bytes *)
Theorem quoted_string_rec_depth txt : depth (quoted_string_rec_c txt) = S (qs_frames txt).
Proof. apply qs_rec_spec. lia. Qed.
Lemma qs_frames_lower : forall txt, (count_special txt <= qs_frames txt)%nat.
Proof.
  induction txt as [|c r IH]; [cbn; lia|]. cbn [count_special qs_frames].
  destruct (is_special c); [|lia]. destruct r; [cbn; lia|lia].
Qed.
Theorem quoted_string_rec_depth_lower txt :
  (count_special txt < depth (quoted_string_rec_c txt))%nat.
Proof. rewrite quoted_string_rec_depth. pose proof (qs_frames_lower txt). lia. Qed.
Lemma count_special_repeat n : count_special (repeat 34 n) = n.
Proof. induction n as [|n IH]; [reflexivity|]. cbn [repeat count_special]. rewrite IH. reflexivity. Qed.
Theorem quoted_string_rec_refuted : forall c : nat, exists txt,
  (depth (quoted_string_rec_c txt) > c)%nat.
Proof.
  intros c. exists (repeat 34 c). pose proof (quoted_string_rec_depth_lower (repeat 34 c)) as H.
  rewrite count_special_repeat in H. lia.
Qed.

(* ------------------------------------------------------------------------------------------ *)
(** * (c) GRAPH ?g                                                                             *)
(* ------------------------------------------------------------------------------------------ *)
Definition chain_of (ls : list (N * list jsol)) : iter :=
  fold_right (fun gl acc => IChain (IJoin (fst gl) (snd gl)) acc) IEmpty ls.
Fixpoint iter_items (it : iter) : list sol :=
  match it with
  | IEmpty => []
  | IJoin g l => join_all g l
  | IChain a b => iter_items a ++ iter_items b
  | IFlat ls => flat_map (fun gl => join_all (fst gl) (snd gl)) ls
  end.

Lemma graph_rec_res sel dsel : forall names,
  res (graph_rec_c sel dsel names) = chain_of (map (fun g => (g, sel g)) names).
Proof.
  induction names as [|g r IH]; [reflexivity|].
  cbn [graph_rec_c]. rewrite res_call, !res_bind, res_ret, IH. reflexivity.
Qed.
Theorem graph_rec_depth_lower sel dsel : forall names,
  (S (length names) <= depth (graph_rec_c sel dsel names))%nat.
Proof.
  induction names as [|g r IH]; [cbn; lia|].
  cbn [graph_rec_c length]. rewrite depth_call, !depth_bind. lia.
Qed.
Theorem graph_rec_depth_upper sel dsel : forall names,
  (depth (graph_rec_c sel dsel names) <= S (length names) + dsel)%nat.
Proof.
  induction names as [|g r IH]; [cbn; lia|].
  cbn [graph_rec_c length]. rewrite depth_call, !depth_bind, depth_ret.
  unfold select_c at 1. unfold depth at 1. cbn [snd]. lia.
Qed.
Lemma graph_loop_body_spec sel dsel : forall names,
  res (graph_loop_body sel dsel names) = map (fun g => (g, sel g)) names /\
  (depth (graph_loop_body sel dsel names) <= dsel)%nat.
Proof.
  induction names as [|g r [I1 I2]]; [cbn; split; [reflexivity|lia]|].
  cbn [graph_loop_body map]. rewrite !res_bind, !depth_bind, res_ret, depth_ret, I1.
  split; [reflexivity|]. unfold select_c at 1. unfold depth at 1. cbn [snd]. lia.
Qed.
Lemma graph_loop_res sel dsel names :
  res (graph_loop_c sel dsel names) = IFlat (map (fun g => (g, sel g)) names).
Proof.
  unfold graph_loop_c. rewrite res_call, res_bind, res_ret.
  destruct (graph_loop_body_spec sel dsel names) as [H _]. rewrite H. reflexivity.
Qed.
Theorem graph_loop_depth sel dsel names : (depth (graph_loop_c sel dsel names) <= S dsel)%nat.
Proof.
  unfold graph_loop_c. rewrite depth_call, depth_bind, depth_ret.
  destruct (graph_loop_body_spec sel dsel names) as [_ H]. lia.
Qed.

(* FilterMap::next *)
Lemma join_next_spec g : forall l,
  (depth (join_next_c g l) <= 1)%nat /\
  let '(x, l') := res (join_next_c g l) in
  match x with
  | Some s => join_all g l = s :: join_all g l' /\ (length l' < length l)%nat
  | None => join_all g l = [] /\ l' = []
  end.
Proof.
  induction l as [|j r [IH1 IH2]]; [cbn; split; [lia|auto]|].
  cbn [join_next_c]. rewrite depth_bind, res_bind, depth_leaf. unfold join_all in *. cbn [flat_map].
  destruct (join1 g j) as [s|].
  - rewrite depth_ret, res_ret. split; [lia|]. cbn [app length]. auto.
  - split; [lia|]. destruct (res (join_next_c g r)) as [x l']. cbn [app length].
    destruct x; destruct IH2; split; auto; lia.
Qed.
(* next: what it returns, for every iterator *)
Lemma flat_next_spec : forall ls,
  let '(x, it') := res (flat_next_c ls) in
  (exists ls', it' = IFlat ls') /\
  match x with
  | Some s => iter_items (IFlat ls) = s :: iter_items it' /\ (iter_size it' < iter_size (IFlat ls))%nat
  | None => iter_items (IFlat ls) = [] /\ iter_items it' = []
  end.
Proof.
  induction ls as [|[g l] ls IH]; [cbn; split; [eexists; reflexivity|auto]|].
  cbn [flat_next_c]. rewrite res_bind, res_call. destruct (join_next_spec g l) as [_ H].
  destruct (res (join_next_c g l)) as [x l']. destruct x as [s|].
  - rewrite res_ret. destruct H as [H1 H2]. split; [eexists; reflexivity|].
    cbn [iter_items iter_size flat_map fst snd]. rewrite H1, !app_length. split; [reflexivity|lia].
  - destruct H as [H1 H2]. destruct (res (flat_next_c ls)) as [y it'']. destruct IH as [I0 I1].
    split; [exact I0|]. cbn [iter_items iter_size flat_map fst snd] in *. rewrite H1, app_length. cbn [app].
    destruct y as [s|]; [destruct I1; split; [assumption|lia]|exact I1].
Qed.
Lemma it_next_spec : forall it,
  let '(x, it') := res (it_next_c it) in
  match x with
  | Some s => iter_items it = s :: iter_items it' /\ (iter_size it' < iter_size it)%nat
  | None => iter_items it = [] /\ iter_items it' = []
  end.
Proof.
  induction it as [|g l|a IHa b IHb|ls].
  - cbn. auto.
  - cbn [it_next_c]. rewrite res_call, res_bind. destruct (join_next_spec g l) as [_ H].
    destruct (res (join_next_c g l)) as [x l']. rewrite res_ret. cbn [iter_items iter_size].
    destruct x; destruct H as [H1 H2]; [auto|subst l'; auto].
  - cbn [it_next_c]. rewrite res_call, res_bind.
    destruct (res (it_next_c a)) as [x a'] eqn:Ea. destruct x as [s|].
    + rewrite res_ret. destruct IHa as [I1 I2]. cbn [iter_items iter_size]. rewrite I1. split; [reflexivity|lia].
    + rewrite res_bind. destruct (res (it_next_c b)) as [y b'] eqn:Eb. rewrite res_ret.
      destruct IHa as (I1 & I2). cbn [iter_items iter_size]. rewrite I1.
      destruct y as [s|]; cbn [app Nat.add]; [destruct IHb; split; [assumption|lia]|exact IHb].
  - cbn [it_next_c]. rewrite res_call. pose proof (flat_next_spec ls) as H.
    destruct (res (flat_next_c ls)) as [x it']. destruct H as [_ H]. exact H.
Qed.
Lemma it_collect_res : forall fuel it, (iter_size it < fuel)%nat ->
  fst (res (it_collect_c fuel it)) = iter_items it.
Proof.
  induction fuel as [|f IH]; intros it Hf; [lia|].
  cbn [it_collect_c]. rewrite res_bind. pose proof (it_next_spec it) as H.
  destruct (res (it_next_c it)) as [x it']. destruct x as [s|].
  - destruct H as [H1 H2]. rewrite res_bind. specialize (IH it' ltac:(lia)).
    destruct (res (it_collect_c f it')) as [out it'']. rewrite res_ret. cbn [fst] in *.
    rewrite H1, IH. reflexivity.
  - destruct H as (H1 & _). rewrite res_ret. cbn [fst]. symmetry. exact H1.
Qed.

(* (1) erasure: both shapes give, graph after graph, the solutions joined with the graph name *)
Theorem graph_query_erasure looped sel dsel names :
  res (graph_query_c looped sel dsel names) = graph_query_p sel names.
Proof.
  unfold graph_query_c, graph_query_p. rewrite res_bind.
  set (it := res (match names with
                  | [] => ret IEmpty
                  | _ :: _ => if looped then graph_loop_c sel dsel names else graph_rec_c sel dsel names
                  end)).
  rewrite res_bind. pose proof (it_collect_res (S (iter_size it)) it ltac:(lia)) as H.
  destruct (res (it_collect_c (S (iter_size it)) it)) as [out it']. rewrite res_bind, res_ret.
  cbn [fst] in H. rewrite H. subst it. destruct names as [|g r]; [reflexivity|].
  destruct looped.
  - rewrite graph_loop_res. cbn [iter_items]. rewrite flat_map_concat_map, map_map, <- flat_map_concat_map.
    reflexivity.
  - rewrite graph_rec_res. generalize (g :: r). clear.
    induction l as [|x l IH]; [reflexivity|]. cbn [map chain_of fold_right iter_items flat_map fst snd].
    fold (chain_of (map (fun g => (g, sel g)) l)). rewrite IH. reflexivity.
Qed.

(* (2) patched: Flatten::next, consumption and drop stay within three frames
   (Flatten::next, FilterMap::next, the boxed result of select) *)
Lemma flat_next_depth : forall ls, (depth (flat_next_c ls) <= 2)%nat.
Proof.
  induction ls as [|[g l] ls IH]; [cbn; lia|]. cbn [flat_next_c]. rewrite depth_bind, depth_call.
  destruct (join_next_spec g l) as [H _].
  destruct (res (call (join_next_c g l))) as [x l']. destruct x; [rewrite depth_ret|]; lia.
Qed.
Lemma flat_drop_depth : forall ls, (depth (it_drop_c (IFlat ls)) <= 2)%nat.
Proof.
  intros ls. cbn [it_drop_c]. rewrite depth_call. apply le_n_S.
  induction ls as [|l ls IH]; [cbn; lia|]. rewrite depth_bind, depth_leaf. lia.
Qed.
Lemma flat_collect_depth : forall fuel ls,
  (depth (it_collect_c fuel (IFlat ls)) <= 3)%nat /\
  exists ls', snd (res (it_collect_c fuel (IFlat ls))) = IFlat ls'.
Proof.
  induction fuel as [|f IH]; intros ls; [cbn; split; [lia|eexists; reflexivity]|].
  cbn [it_collect_c it_next_c]. rewrite depth_bind, res_bind, depth_call, res_call.
  pose proof (flat_next_depth ls) as Hd. pose proof (flat_next_spec ls) as Hs.
  destruct (res (flat_next_c ls)) as [x it']. destruct Hs as [[ls' ->] _]. destruct x as [s|].
  - rewrite depth_bind, res_bind. destruct (IH ls') as [I1 [ls'' I2]].
    destruct (res (it_collect_c f (IFlat ls'))) as [out it'']. rewrite depth_ret, res_ret.
    cbn [snd] in *. split; [lia|eexists; exact I2].
  - rewrite depth_ret, res_ret. cbn [snd]. split; [lia|eexists; reflexivity].
Qed.
Theorem graph_query_loop_depth sel dsel names :
  (depth (graph_query_c true sel dsel names) <= 3 + dsel)%nat.
Proof.
  unfold graph_query_c. rewrite depth_bind. destruct names as [|g r].
  - rewrite res_ret, depth_ret. cbn. lia.
  - pose proof (graph_loop_depth sel dsel (g :: r)) as Hc. rewrite graph_loop_res.
    rewrite depth_bind.
    set (ls := map (fun g0 => (g0, sel g0)) (g :: r)) in *.
    destruct (flat_collect_depth (S (iter_size (IFlat ls))) ls) as [H1 [ls' H2]].
    destruct (res (it_collect_c (S (iter_size (IFlat ls))) (IFlat ls))) as [out it'].
    cbn [snd] in H2. subst it'. rewrite depth_bind, depth_ret.
    pose proof (flat_drop_depth ls'). lia.
Qed.

(* (3) original: building the result already needs one frame per graph name ... *)
Theorem graph_query_rec_depth_lower sel dsel g names :
  (S (S (length names)) <= depth (graph_query_c false sel dsel (g :: names)))%nat.
Proof.
  unfold graph_query_c. rewrite depth_bind.
  pose proof (graph_rec_depth_lower sel dsel (g :: names)) as H. cbn [length] in H. lia.
Qed.
Theorem graph_rec_refuted : forall c : nat, exists names,
  forall sel dsel, (depth (graph_query_c false sel dsel names) > c)%nat.
Proof.
  intros c. exists (repeat 0 (S c)). intros sel dsel. cbn [repeat].
  pose proof (graph_query_rec_depth_lower sel dsel 0 (repeat 0 c)) as H.
  rewrite repeat_length in H. lia.
Qed.
(* ... and so do dropping the nested Chain and asking an exhausted one for its next item *)
Theorem chain_drop_depth : forall ls, depth (it_drop_c (chain_of ls)) = S (length ls).
Proof.
  induction ls as [|l ls IH]; [reflexivity|].
  cbn [chain_of fold_right it_drop_c length]. fold (chain_of ls).
  rewrite depth_call, depth_bind, IH. cbn [it_drop_c]. rewrite depth_leaf. lia.
Qed.
Theorem chain_next_exhausted_depth : forall ls, Forall (fun gl => snd gl = []) ls ->
  (S (length ls) <= depth (it_next_c (chain_of ls)) <= S (S (length ls)))%nat /\
  fst (res (it_next_c (chain_of ls))) = None.
Proof.
  induction ls as [|[g l] ls IH]; intros H; [cbn; split; [lia|reflexivity]|].
  inversion H as [|? ? Hl Hls]; subst. cbn [snd] in Hl. subst l. destruct (IH Hls) as [I1 I2].
  cbn [chain_of fold_right length fst snd]. fold (chain_of ls).
  assert (Ej : it_next_c (IJoin g []) = ((None, IJoin g []), 2%nat)) by reflexivity.
  change (it_next_c (IChain (IJoin g []) (chain_of ls))) with
    (call ('(x, a') <- it_next_c (IJoin g []) ;;
           match x with
           | Some s => ret (Some s, IChain a' (chain_of ls))
           | None => '(y, b') <- it_next_c (chain_of ls) ;; ret (y, IChain IEmpty b')
           end)).
  rewrite Ej, depth_call, depth_bind, res_call, res_bind.
  change (res ((@None sol, IJoin g []), 2%nat)) with (@None sol, IJoin g []).
  change (depth ((@None sol, IJoin g []), 2%nat)) with 2%nat. cbv iota beta.
  rewrite depth_bind, res_bind.
  destruct (res (it_next_c (chain_of ls))) as [y b'] eqn:E. cbn [fst] in I2. subst y.
  rewrite depth_ret, res_ret. cbn [fst]. split; [lia|reflexivity].
Qed.

(* ------------------------------------------------------------------------------------------ *)
(** * (d) JSON-LD lists                                                                        *)
(* ------------------------------------------------------------------------------------------ *)
Scheme jl_mind := Induction for jl Sort Prop
  with jitem_mind := Induction for jitem Sort Prop.
Combined Scheme jl_jitem_ind from jl_mind, jitem_mind.

Lemma pop_rec_spec :
  (forall l, l <> JNil -> res (pop_rec_c l) = pop_p l) /\
  (forall i, res (conv_rec_c i) = conv_p i).
Proof.
  apply jl_jitem_ind.
  - intros H. congruence.
  - intros f IHf r IHr _. cbn [pop_rec_c pop_p]. rewrite res_call, res_bind, IHf.
    destruct r as [|f' r']; [rewrite res_ret, app_nil_r; reflexivity|].
    rewrite res_bind, res_ret, IHr by discriminate. reflexivity.
  - intros v. reflexivity.
  - intros l IHl. destruct l as [|f r]; [reflexivity|].
    cbn [conv_rec_c conv_p]. rewrite res_call, res_bind, res_ret, IHl by discriminate. reflexivity.
Qed.
Lemma pop_loop_spec :
  (forall l, res (pop_loop_body l) = pop_p l) /\
  (forall i, res (conv_loop_c i) = conv_p i).
Proof.
  apply jl_jitem_ind.
  - reflexivity.
  - intros f IHf r IHr. cbn [pop_loop_body pop_p]. rewrite !res_bind, res_ret, IHf, IHr. reflexivity.
  - intros v. reflexivity.
  - intros l IHl. destruct l as [|f r]; [reflexivity|].
    cbn [conv_loop_c conv_p]. rewrite res_call, res_bind, res_ret, res_call, IHl. reflexivity.
Qed.
(* (1) erasure *)
Theorem populate_list_erasure l : l <> JNil ->
  res (pop_rec_c l) = pop_p l /\ res (pop_loop_c l) = pop_p l.
Proof.
  intros H. split; [apply pop_rec_spec; exact H|].
  unfold pop_loop_c. rewrite res_call. apply pop_loop_spec.
Qed.
Theorem convert_erasure i : res (conv_rec_c i) = conv_p i /\ res (conv_loop_c i) = conv_p i.
Proof. split; [apply pop_rec_spec | apply pop_loop_spec]. Qed.

(* (3) original: one frame per cell *)
Theorem populate_list_rec_depth_lower : forall l, (jl_len l <= depth (pop_rec_c l))%nat.
Proof.
  apply (jl_mind (fun l => (jl_len l <= depth (pop_rec_c l))%nat) (fun _ => True)); auto.
  - cbn. lia.
  - intros f _ r IHr. cbn [pop_rec_c jl_len]. rewrite depth_call, depth_bind.
    destruct r as [|f' r']; [cbn [jl_len]; lia|].
    rewrite depth_bind, depth_ret. lia.
Qed.
Fixpoint jl_repeat (n : nat) : jl := match n with O => JNil | S k => JCons (JLit 0) (jl_repeat k) end.
Lemma jl_repeat_len n : jl_len (jl_repeat n) = n.
Proof. induction n as [|n IH]; [reflexivity|]. cbn. rewrite IH. reflexivity. Qed.
Lemma jl_repeat_nest n : jl_nest (jl_repeat n) = O.
Proof. induction n as [|n IH]; [reflexivity|]. cbn [jl_repeat jl_nest ji_nest]. rewrite IH. reflexivity. Qed.
Theorem populate_list_rec_refuted : forall c : nat, exists l,
  jl_nest l = O /\ (depth (pop_rec_c l) > c)%nat.
Proof.
  intros c. exists (jl_repeat (S c)). split; [apply jl_repeat_nest|].
  pose proof (populate_list_rec_depth_lower (jl_repeat (S c))) as H. rewrite jl_repeat_len in H. lia.
Qed.
(* (2) patched: two frames per level of lists inside lists, nothing per cell *)
Lemma pop_loop_depth_mut :
  (forall l, (depth (pop_loop_body l) <= 1 + 2 * jl_nest l)%nat) /\
  (forall i, (depth (conv_loop_c i) <= 1 + 2 * ji_nest i)%nat).
Proof.
  apply jl_jitem_ind.
  - cbn. lia.
  - intros f IHf r IHr. cbn [pop_loop_body jl_nest]. rewrite !depth_bind, depth_ret. lia.
  - intros v. cbn. lia.
  - intros l IHl. destruct l as [|f r]; [cbn; lia|].
    cbn [conv_loop_c ji_nest]. rewrite depth_call, depth_bind, depth_ret, depth_call. lia.
Qed.
Theorem populate_list_loop_depth l : (depth (pop_loop_c l) <= 2 + 2 * jl_nest l)%nat.
Proof.
  unfold pop_loop_c. rewrite depth_call. destruct pop_loop_depth_mut as [H _]. specialize (H l). lia.
Qed.
Theorem convert_loop_depth i : (depth (conv_loop_c i) <= 1 + 2 * ji_nest i)%nat.
Proof. apply pop_loop_depth_mut. Qed.

(* mark_list_node *)
Theorem mark_erasure : forall cells,
  res (mark_rec_c cells) = mark_p cells /\ res (mark_loop_c cells) = mark_p cells.
Proof.
  unfold mark_loop_c. induction cells as [|c r [I1 I2]]; [split; reflexivity|].
  rewrite res_call in I2. cbn [mark_rec_c mark_loop_body mark_p]. rewrite !res_call.
  destruct (mc_ok c); [|split; reflexivity]. destruct (mc_up c); [|split; reflexivity].
  rewrite !res_bind, !res_ret, I1, I2. split; reflexivity.
Qed.
Lemma mark_loop_body_depth : forall cells, depth (mark_loop_body cells) = O.
Proof.
  induction cells as [|c r IH]; [reflexivity|]. cbn [mark_loop_body].
  destruct (mc_ok c); [|reflexivity]. destruct (mc_up c); [|reflexivity].
  rewrite depth_bind, depth_ret, IH. reflexivity.
Qed.
Theorem mark_loop_depth cells : depth (mark_loop_c cells) = 1%nat.
Proof. unfold mark_loop_c. rewrite depth_call, mark_loop_body_depth. reflexivity. Qed.
(* one frame per cell of a well-formed list (every cell but the head is reached through rdf:rest
   from a blank node) *)
Theorem mark_rec_depth : forall cells,
  forallb (fun c => mc_ok c && mc_up c) cells = true ->
  depth (mark_rec_c cells) = S (length cells).
Proof.
  induction cells as [|c r IH]; intros H; [reflexivity|].
  cbn [forallb] in H. apply andb_prop in H. destruct H as [Hc Hr]. apply andb_prop in Hc.
  destruct Hc as [H1 H2]. cbn [mark_rec_c length]. rewrite H1, H2, depth_call, depth_bind, depth_ret.
  rewrite IH by exact Hr. lia.
Qed.
Theorem mark_rec_refuted : forall c : nat, exists cells, (depth (mark_rec_c cells) > c)%nat.
Proof.
  intros c. exists (repeat (mk_mc 0 true true) c). rewrite mark_rec_depth.
  - rewrite repeat_length. lia.
  - induction c as [|c IH]; [reflexivity|]. cbn [repeat forallb mc_ok mc_up andb]. exact IH.
Qed.

(* ------------------------------------------------------------------------------------------ *)
(** * find_subject: logarithmic                                                                *)
(* ------------------------------------------------------------------------------------------ *)
Lemma half_lt n k : (n < 2 ^ S k)%nat -> (n / 2 < 2 ^ k)%nat.
Proof. intros H. apply Nat.div_lt_upper_bound; [lia|]. cbn [Nat.pow] in H. lia. Qed.
Lemma upper_half_lt n k : (n < 2 ^ S k)%nat -> (n - S (n / 2) < 2 ^ k)%nat.
Proof.
  intros H. pose proof (half_lt n k H). pose proof (Nat.div_mod n 2 ltac:(lia)).
  pose proof (Nat.mod_upper_bound n 2 ltac:(lia)). lia.
Qed.
Theorem find_depth_log : forall k fuel key swt, (length swt < 2 ^ k)%nat ->
  (depth (find_c fuel key swt) <= S k)%nat.
Proof.
  induction k as [|k IH]; intros fuel key swt H.
  - cbn [Nat.pow] in H. destruct swt; [|cbn in H; lia]. destruct fuel; cbn; lia.
  - destruct fuel as [|f]; [cbn; lia|]. cbn [find_c]. rewrite depth_call. apply le_n_S.
    destruct swt as [|x swt']; [cbn; lia|]. set (swt := x :: swt') in *.
    destruct (N.compare (nth (length swt / 2) swt 0) key).
    + cbn. lia.
    + rewrite depth_bind, depth_ret.
      assert (length (skipn (S (length swt / 2)) swt) < 2 ^ k)%nat.
      { rewrite skipn_length. apply upper_half_lt. exact H. }
      specialize (IH f key (skipn (S (length swt / 2)) swt) ltac:(assumption)). lia.
    + assert (length (firstn (length swt / 2) swt) < 2 ^ k)%nat.
      { rewrite firstn_length. pose proof (half_lt _ _ H). lia. }
      apply IH. assumption.
Qed.
Theorem find_subject_depth key swt :
  (depth (find_subject_c key swt) <= 2 + Nat.log2 (length swt))%nat.
Proof.
  unfold find_subject_c. apply (find_depth_log (S (Nat.log2 (length swt)))).
  destruct (length swt) as [|n] eqn:E; [cbn; lia|].
  pose proof (Nat.log2_spec (S n) ltac:(lia)). lia.
Qed.
(* what it finds is the key *)
Theorem find_sound : forall fuel key swt i,
  res (find_c fuel key swt) = Some i -> nth i swt 0 = key /\ (i < length swt)%nat.
Proof.
  induction fuel as [|f IH]; intros key swt i H; [discriminate|].
  cbn [find_c] in H. rewrite res_call in H. destruct swt as [|x swt']; [discriminate|].
  set (swt := x :: swt') in *. set (m := (length swt / 2)%nat) in *.
  assert (Hm : (m < length swt)%nat).
  { subst m. apply Nat.div_lt_upper_bound; [lia|]. subst swt. cbn [length]. lia. }
  destruct (N.compare (nth m swt 0) key) eqn:E.
  - rewrite res_ret in H. inversion H; subst i. apply N.compare_eq in E. auto.
  - rewrite res_bind, res_ret in H.
    destruct (res (find_c f key (skipn (S m) swt))) as [j|] eqn:Ej; [|discriminate].
    cbn [option_map] in H. inversion H; subst i.
    destruct (IH key (skipn (S m) swt) j Ej) as [I1 I2]. rewrite skipn_length in I2.
    split; [|lia].
    rewrite <- (firstn_skipn (S m) swt) at 1. rewrite app_nth2; rewrite firstn_length; [|lia].
    replace (j + m + 1 - Nat.min (S m) (length swt))%nat with j by lia. exact I1.
  - destruct (IH key (firstn m swt) i H) as [I1 I2]. rewrite firstn_length in I2.
    split; [|lia].
    rewrite <- (firstn_skipn m swt) at 1. rewrite app_nth1; [exact I1|]. rewrite firstn_length. lia.
Qed.

(* ------------------------------------------------------------------------------------------ *)
(** * constituents / atoms: one frame per level of quotation                                   *)
(* ------------------------------------------------------------------------------------------ *)
Theorem constituents_spec : forall t,
  res (constituents_c t) = constituents_p t /\ depth (constituents_c t) = S (nesting t).
Proof.
  induction t as [s|s|l d|l g|s [Is1 Is2] p [Ip1 Ip2] o [Io1 Io2]|s]; try (split; reflexivity).
  cbn [constituents_c constituents_p nesting].
  rewrite res_call, depth_call, !res_bind, !depth_bind, res_ret, depth_ret, Is1, Ip1, Io1, Is2, Ip2, Io2.
  split; [reflexivity|lia].
Qed.
Theorem atoms_spec : forall t,
  res (atoms_c t) = atoms_p t /\ depth (atoms_c t) = S (nesting t).
Proof.
  induction t as [s|s|l d|l g|s [Is1 Is2] p [Ip1 Ip2] o [Io1 Io2]|s]; try (split; reflexivity).
  cbn [atoms_c atoms_p nesting].
  rewrite res_call, depth_call, !res_bind, !depth_bind, res_ret, depth_ret, Is1, Ip1, Io1, Is2, Ip2, Io2.
  split; [reflexivity|lia].
Qed.

(* ------------------------------------------------------------------------------------------ *)
(** * nt::write_term / write_triple / serialize_triples: two frames per level of quotation,     *)
(**   nothing per statement, nothing per byte                                                  *)
(* ------------------------------------------------------------------------------------------ *)
Lemma nt_term_spec : forall t,
  res (nt_term_c t) = nt_term_p t /\
  (2 + 2 * nesting t <= depth (nt_term_c t) <= 3 + 2 * nesting t)%nat.
Proof.
  induction t as [s|s|l d|l g|s [Is1 Is2] p [Ip1 Ip2] o [Io1 Io2]|s].
  - split; [reflexivity|cbn; lia].
  - split; [reflexivity|cbn; lia].
  - cbn [nt_term_c nt_term_p nesting]. unfold write_all_c.
    rewrite res_call, depth_call, !res_bind, !depth_bind, res_leaf, depth_leaf.
    rewrite quoted_string_loop_erasure, quoted_string_loop_depth.
    destruct (str_eqb d xsd_string).
    + rewrite !res_bind, !depth_bind, !res_leaf, !depth_leaf, res_ret, depth_ret.
      split; [reflexivity|cbn; lia].
    + rewrite !res_bind, !depth_bind, !res_leaf, !depth_leaf, res_ret, depth_ret.
      split; [reflexivity|cbn; lia].
  - cbn [nt_term_c nt_term_p nesting]. unfold write_all_c.
    rewrite res_call, depth_call, !res_bind, !depth_bind, !res_leaf, !depth_leaf.
    rewrite quoted_string_loop_erasure, quoted_string_loop_depth, res_ret, depth_ret.
    split; [reflexivity|cbn; lia].
  - cbn [nt_term_c nt_term_p nesting]. unfold write_all_c.
    rewrite res_call, depth_call, !res_bind, !depth_bind, !res_leaf, !depth_leaf.
    rewrite res_call, depth_call, !res_bind, !depth_bind, !res_leaf, !depth_leaf, !res_ret, !depth_ret.
    rewrite Is1, Ip1, Io1. split; [reflexivity|lia].
  - split; [reflexivity|cbn; lia].
Qed.
Theorem nt_term_erasure t : res (nt_term_c t) = nt_term_p t.
Proof. apply nt_term_spec. Qed.
Theorem nt_term_depth t : (2 + 2 * nesting t <= depth (nt_term_c t) <= 3 + 2 * nesting t)%nat.
Proof. apply nt_term_spec. Qed.

Lemma nt_triple_spec : forall t,
  res (nt_triple_c t) = nt_triple_p t /\ (depth (nt_triple_c t) <= 4 + 2 * stmt_nesting t)%nat.
Proof.
  intros [[s p] o]. cbn [nt_triple_c nt_triple_p stmt_nesting]. unfold write_all_c.
  rewrite res_call, depth_call, !res_bind, !depth_bind, !res_leaf, !depth_leaf, res_ret, depth_ret.
  rewrite !nt_term_erasure.
  pose proof (nt_term_depth s). pose proof (nt_term_depth p). pose proof (nt_term_depth o).
  split; [reflexivity|lia].
Qed.
Lemma nt_doc_body_spec : forall ts,
  res (nt_doc_body ts) = nt_doc_p ts /\ (depth (nt_doc_body ts) <= 5 + 2 * doc_nesting ts)%nat.
Proof.
  induction ts as [|t r [I1 I2]]; [split; [reflexivity|cbn; lia]|].
  cbn [nt_doc_body nt_doc_p flat_map doc_nesting]. unfold write_all_c.
  rewrite !res_bind, !depth_bind, res_call, depth_call, !res_bind, !depth_bind, !res_leaf, !depth_leaf, !res_ret, !depth_ret.
  destruct (nt_triple_spec t) as [T1 T2]. rewrite T1, I1.
  split; [reflexivity|lia].
Qed.
(* the document: the concatenation of the lines; the depth does not mention the number of
   statements nor the length of any string *)
Theorem nt_doc_erasure ts : res (nt_doc_c ts) = nt_doc_p ts.
Proof. unfold nt_doc_c. rewrite !res_call. apply nt_doc_body_spec. Qed.
Theorem nt_doc_depth ts : (depth (nt_doc_c ts) <= 7 + 2 * doc_nesting ts)%nat.
Proof. unfold nt_doc_c. rewrite !depth_call. pose proof (proj2 (nt_doc_body_spec ts)). lia. Qed.
(* and the nesting is really needed: a term quoted k deep takes at least 2k frames *)
Fixpoint quote_n (k : nat) : term :=
  match k with O => Iri [] | S k' => Triple (quote_n k') (Iri []) (Iri []) end.
Lemma quote_n_nesting k : nesting (quote_n k) = k.
Proof. induction k as [|k IH]; [reflexivity|]. cbn [quote_n nesting]. rewrite IH. cbn. lia. Qed.
Theorem nt_term_depth_needs_nesting : forall c : nat, exists t, (depth (nt_term_c t) > c)%nat.
Proof.
  intros c. exists (quote_n c). pose proof (nt_term_depth (quote_n c)) as H.
  rewrite quote_n_nesting in H. lia.
Qed.

(* ------------------------------------------------------------------------------------------ *)
(** * The property on the model                                                                *)
(* ------------------------------------------------------------------------------------------ *)
(* with the patches: at most four frames plus what the property allows (nesting of the data,
   depth of the sub-query, log of the size for the binary search) -- for every input, whatever
   its size *)
Theorem patched_depth_bounded : forall x : input, (depth_of true x <= 4 + allowance x)%nat.
Proof.
  intros [ms mlast rows|txt|sel dsel names|l|cells|key swt|t|t]; cbn [depth_of allowance].
  - pose proof (iter_all_loop_depth ms mlast rows). lia.
  - rewrite quoted_string_loop_depth. lia.
  - pose proof (graph_query_loop_depth sel dsel names). lia.
  - pose proof (populate_list_loop_depth l). lia.
  - rewrite mark_loop_depth. lia.
  - pose proof (find_subject_depth key swt). lia.
  - destruct (constituents_spec t) as [_ H]. rewrite H. lia.
  - destruct (atoms_spec t) as [_ H]. rewrite H. lia.
Qed.
(* the original tree: for every bound there is an input without any nesting that exceeds it, in
   each of the four groups *)
Theorem original_depth_unbounded : forall c : nat,
  (exists ms mlast rows, allowance (InIter ms mlast rows) = O /\ (depth_of false (InIter ms mlast rows) > c)%nat) /\
  (exists txt, allowance (InQuoted txt) = O /\ (depth_of false (InQuoted txt) > c)%nat) /\
  (exists names, forall sel, allowance (InGraph sel 0 names) = O /\
                             (depth_of false (InGraph sel 0 names) > c)%nat) /\
  (exists l, allowance (InList l) = O /\ (depth_of false (InList l) > c)%nat) /\
  (exists cells, allowance (InMark cells) = O /\ (depth_of false (InMark cells) > c)%nat).
Proof.
  intros c. repeat split.
  - destruct (iter_rec_refuted c) as (ms & mlast & rows & H). exists ms, mlast, rows. auto.
  - destruct (quoted_string_rec_refuted c) as (txt & H). exists txt. auto.
  - destruct (graph_rec_refuted c) as (names & H). exists names. intros sel. split; [reflexivity|apply H].
  - destruct (populate_list_rec_refuted c) as (l & H1 & H2). exists l. cbn [allowance depth_of]. rewrite H1. auto.
  - destruct (mark_rec_refuted c) as (cells & H). exists cells. auto.
Qed.
(* the patches do not change any result *)
Theorem patches_preserve_results :
  (forall ms mlast rows, res (iter_all_c true ms mlast rows) = res (iter_all_c false ms mlast rows)) /\
  (forall txt, res (quoted_string_loop_c txt) = res (quoted_string_rec_c txt)) /\
  (forall sel dsel names, res (graph_query_c true sel dsel names) = res (graph_query_c false sel dsel names)) /\
  (forall l, l <> JNil -> res (pop_loop_c l) = res (pop_rec_c l)) /\
  (forall i, res (conv_loop_c i) = res (conv_rec_c i)) /\
  (forall cells, res (mark_loop_c cells) = res (mark_rec_c cells)).
Proof.
  repeat split; intros.
  - rewrite !iter_all_erasure. reflexivity.
  - rewrite quoted_string_loop_erasure, quoted_string_rec_erasure. reflexivity.
  - rewrite !graph_query_erasure. reflexivity.
  - destruct (populate_list_erasure l H) as [H1 H2]. congruence.
  - destruct (convert_erasure i) as [H1 H2]. congruence.
  - destruct (mark_erasure cells) as [H1 H2]. congruence.
Qed.
