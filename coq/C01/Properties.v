(* C01/Properties.v -- the pinned statements of property C01 and their assumptions.
   Nothing else lives here: each statement is re-stated in full with [Check ... : ...]
   so that it cannot be quietly weakened in the proof files. *)
From Coq Require Import Permutation.
From Sophia.C01 Require Import Model Sets Iters Refine Graph Dataset Proofs.

(* ================================================================================== *)
(* the property, in full: every set-like configuration (Light/Fast graph/dataset with any
   I::MAX, HashSet/BTreeSet stores) produces on every finite history of well-formed operations
   the outputs of the mathematical set: flags, counts and index-full errors are equal, queries
   and enumerations are equal up to order                                                *)
(* ================================================================================== *)
Definition C01_statement : Prop :=
  forall (c : config) (max : N) (pl : pool) (ops : list op),
    set_config c = true -> Forall op_wf ops ->
    Forall2 out_sim (run pl (impl_of c max) ops) (spec_run pl (cfg_cap c max) (cfg_isgraph c) ops).
Check (store_refines_set : C01_statement).

(* what the specification machine is: a duplicate-free list with the textbook operations *)
Check ((fun cap g sp q => eq_refl) : forall cap g sp q,
  spec_insert cap g sp q =
  let q := norm g q in
  let '(ts, ok) := intern_list cap (s_terms sp) (quad_terms q) in
  if ok then
    if memq q (s_quads sp) then (mkS (s_quads sp) ts, Some false)
    else (mkS (s_quads sp ++ [q]) ts, Some true)
  else (mkS (s_quads sp) ts, None)).
Check ((fun pl cap g sp sm pm om gm => eq_refl) : forall pl cap g sp sm pm om gm,
  spec_step pl cap g sp (Query sm pm om gm) = (sp, OQuads (filter (qmatch g sm pm om gm) (s_quads sp)))).
Check ((fun pl cap g sp sm pm om gm => eq_refl) : forall pl cap g sp sm pm om gm,
  spec_step pl cap g sp (RemoveMatching sm pm om gm) =
  (mkS (filter (fun q => negb (qmatch g sm pm om gm q)) (s_quads sp)) (s_terms sp),
   OCount (N.of_nat (length (filter (qmatch g sm pm om gm) (s_quads sp)))))).
Check ((fun pl cap g sp sm pm om gm => eq_refl) : forall pl cap g sp sm pm om gm,
  spec_step pl cap g sp (RetainMatching sm pm om gm) =
  (mkS (filter (qmatch g sm pm om gm) (s_quads sp)) (s_terms sp), OUnit)).
Check ((fun pl cap g sp q => eq_refl) : forall pl cap g sp q,
  spec_step pl cap g sp (Contains q) = (sp, OFlag (memq (norm g q) (s_quads sp)))).

(* ---- 1. the invariant holds in every reachable state (any MAX, any history) ---- *)
Check ((fun fast max st => eq_refl) : forall fast max st, GInv fast max st =
  (TInv max (g_ti st)
   /\ ssorted key3 (g_spo st)
   /\ rows3_lt (tlen (g_ti st)) (g_spo st)
   /\ (fast = true -> image_of key3 p_pos (g_pos st) (g_spo st)
                      /\ image_of key3 p_osp (g_osp st) (g_spo st)))).
Check ((fun fast max st => eq_refl) : forall fast max st, DInv fast max st =
  (TInv max (d_ti st)
   /\ ssorted key4 (d_gspo st)
   /\ rows4_ok max (tlen (d_ti st)) (d_gspo st)
   /\ (fast = true -> images st))).
Check ((fun max ti => eq_refl) : forall max ti, TInv max ti =
  ((forall t i, get_index ti t = Some i <-> (i < tlen ti /\ get_term ti i = t)) /\ tlen ti <= max)).
Check ((fun st => eq_refl) : forall st, images st =
  (image_of key4 p_gpos (d_gpos st) (d_gspo st) /\ image_of key4 p_gosp (d_gosp st) (d_gspo st)
   /\ image_of key4 p_spog (d_spog st) (d_gspo st) /\ image_of key4 p_posg (d_posg st) (d_gspo st)
   /\ image_of key4 p_ospg (d_ospg st) (d_gspo st))).
Check ((fun A key perm sec prim => eq_refl) : forall A key perm sec prim, @image_of A key perm sec prim =
  (ssorted key sec /\ Permutation sec (map perm prim))).
Check ((fun max n t => eq_refl) : forall max n t, P4 max n t =
  (let '(g, s, p, o) := t in s < n /\ p < n /\ o < n /\ (g < n \/ g = max))).
Check (graph_inv_reachable : forall fast max pl ops, Forall op_wf ops ->
  GInv fast max (final pl (graph_impl fast max) ops)).
Check (dataset_inv_reachable : forall fast max pl ops, Forall op_wf ops ->
  DInv fast max (final pl (dataset_impl fast max) ops)).

(* ---- 2. refinement; state and queries in any reachable state ---- *)
Check (step_sim : forall cap I (ok : impl_ok cap I) pl s sp o, R cap I ok s sp -> op_wf o ->
  R cap I ok (fst (step pl I s o)) (fst (spec_step pl cap (i_isgraph I) sp o))
  /\ out_sim (snd (step pl I s o)) (snd (spec_step pl cap (i_isgraph I) sp o))).
Check (graph_state_is_set : forall fast max pl ops, Forall op_wf ops ->
  let st := final pl (graph_impl fast max) ops in
  let sp := spec_final pl (Some max) true ops in
  Permutation (g_all st) (s_quads sp) /\ NoDup (g_all st) /\ i2t (g_ti st) = s_terms sp).
Check (dataset_state_is_set : forall fast max pl ops, Forall op_wf ops ->
  let st := final pl (dataset_impl fast max) ops in
  let sp := spec_final pl (Some max) false ops in
  Permutation (d_all max st) (s_quads sp) /\ NoDup (d_all max st) /\ i2t (d_ti st) = s_terms sp).
Check (graph_query_each_once : forall fast max pl ops sm pm om gm,
  Forall op_wf ops -> tm_wf sm -> tm_wf pm -> tm_wf om ->
  let st := final pl (graph_impl fast max) ops in
  NoDup (g_query fast max st sm pm om gm)
  /\ Permutation (g_query fast max st sm pm om gm) (filter (qmatch true sm pm om gm) (g_all st))).
Check (dataset_query_each_once : forall fast max pl ops sm pm om gm,
  Forall op_wf ops -> tm_wf sm -> tm_wf pm -> tm_wf om -> gm_wf gm ->
  let st := final pl (dataset_impl fast max) ops in
  NoDup (d_query fast max st sm pm om gm)
  /\ Permutation (d_query fast max st sm pm om gm) (filter (qmatch false sm pm om gm) (d_all max st))).
(* enumeration matchers ([T;N], &[T], [GraphName<T>;N], &[GraphName<T>]): a term listed several times, or the
   order of the list, does not show in the answer *)
Check (tm_array_pred : forall l x, tm_pred (tm_array l) x = true <-> In x l).
Check (graph_query_enumeration : forall fast max pl ops ls lp lo gm,
  Forall op_wf ops ->
  let st := final pl (graph_impl fast max) ops in
  let ans := g_query fast max st (tm_array ls) (tm_array lp) (tm_array lo) gm in
  NoDup ans
  /\ (forall q, In q ans <-> In q (g_all st) /\ In (qs q) ls /\ In (qp q) lp /\ In (qo q) lo)).
Check (graph_query_respelled : forall fast max pl ops ls ls' lp lp' lo lo' gm,
  Forall op_wf ops ->
  (forall x, In x ls <-> In x ls') -> (forall x, In x lp <-> In x lp') -> (forall x, In x lo <-> In x lo') ->
  let st := final pl (graph_impl fast max) ops in
  Permutation (g_query fast max st (tm_array ls) (tm_array lp) (tm_array lo) gm)
              (g_query fast max st (tm_array ls') (tm_array lp') (tm_array lo') gm)).
Check (dataset_query_respelled : forall fast max pl ops ls ls' lp lp' lo lo' lg lg',
  Forall op_wf ops ->
  (forall x, In x ls <-> In x ls') -> (forall x, In x lp <-> In x lp') -> (forall x, In x lo <-> In x lo') ->
  (forall g, gm_pred (gm_array lg) g = gm_pred (gm_array lg') g) ->
  let st := final pl (dataset_impl fast max) ops in
  NoDup (d_query fast max st (tm_array ls) (tm_array lp) (tm_array lo) (gm_array lg))
  /\ Permutation (d_query fast max st (tm_array ls) (tm_array lp) (tm_array lo) (gm_array lg))
                 (d_query fast max st (tm_array ls') (tm_array lp') (tm_array lo') (gm_array lg'))).
(* not vacuous: [a; a] and [a] list the same terms, and a graph holding two triples of subject 1 answers both with
   these two triples, whether it is heavily or lightly indexed *)
Example respelled_hyp : forall x : N, In x [1; 1] <-> In x [1].
Proof. intros x; simpl; tauto. Qed.
Example enumeration_twice_listed :
  let ops := [Insert (mkQ 1 3 2 None); Insert (mkQ 1 3 4 None); Insert (mkQ 2 3 1 None)] in
  map (fun fast => length (g_query fast 4294967295 (final [] (graph_impl fast 4294967295) ops)
                              (tm_array [1; 1]) (md MAny) (md MAny) (gd GAny))) [true; false] = [2%nat; 2%nat].
Proof. vm_compute. reflexivity. Qed.
Check (dataset_index_full : forall fast max st q,
  DInv fast max st -> snd (d_insert fast max st q) = None ->
  let st' := fst (d_insert fast max st q) in
  DInv fast max st' /\ d_all max st' = d_all max st /\ incl (i2t (d_ti st)) (i2t (d_ti st'))).
Check (graph_index_full : forall fast max st q,
  GInv fast max st -> snd (g_insert fast max st q) = None ->
  let st' := fst (g_insert fast max st q) in
  GInv fast max st' /\ g_all st' = g_all st /\ incl (i2t (g_ti st)) (i2t (g_ti st'))).
(* the default methods: removing a duplicate-free list of members one by one *)
Check (remove_members : forall cap I (ok : impl_ok cap I) l s c,
  Inv ok s -> NoDup l -> incl l (i_all I s) ->
  Inv ok (fst (api_remove_all I s l c))
  /\ terms ok (fst (api_remove_all I s l c)) = terms ok s
  /\ snd (api_remove_all I s l c) = c + N.of_nat (length l)
  /\ Permutation (i_all I (fst (api_remove_all I s l c)))
                 (filter (fun x => negb (memq x l)) (i_all I s))).

(* ---- 3. every dispatch arm: range scan + permutation + residual filter = filter ---- *)
Check (fd_query_ok : forall max st sm pm om gm,
  DInv true max st -> tm_wf sm -> tm_wf pm -> tm_wf om -> gm_wf gm ->
  Permutation (fd_query max st sm pm om gm)
              (map (dec4 max (d_ti st)) (filter (m4q max (d_ti st) sm pm om gm) (d_gspo st)))).
Check (ld_query_ok : forall max st sm pm om gm,
  DInv false max st -> tm_wf sm -> tm_wf pm -> tm_wf om -> gm_wf gm ->
  Permutation (ld_query max st sm pm om gm)
              (map (dec4 max (d_ti st)) (filter (m4q max (d_ti st) sm pm om gm) (d_gspo st)))).
Check (fg_query_ok : forall max st sm pm om,
  GInv true max st -> tm_wf sm -> tm_wf pm -> tm_wf om ->
  Permutation (fg_query max st sm pm om)
              (map (dec3 (g_ti st)) (filter (m3 (g_ti st) sm pm om) (g_spo st)))).
Check (lg_query_ok : forall max st sm pm om,
  GInv false max st -> tm_wf sm -> tm_wf pm -> tm_wf om ->
  Permutation (lg_query max st sm pm om)
              (map (dec3 (g_ti st)) (filter (m3 (g_ti st) sm pm om) (g_spo st)))).
Check (d_rhs : forall max st sm pm om gm,
  filter (qmatch false sm pm om gm) (d_all max st)
  = map (dec4 max (d_ti st)) (filter (m4q max (d_ti st) sm pm om gm) (d_gspo st))).
Check (g_rhs : forall st sm pm om gm,
  filter (qmatch true sm pm om gm) (g_all st)
  = map q_of_t3 (map (dec3 (g_ti st)) (filter (m3 (g_ti st) sm pm om) (g_spo st)))).
(* the sorted-set model of BTreeSet *)
Check (set_range_filter : forall A key, (forall x y : A, key x = key y -> x = y) ->
  forall lo hi l, ssorted key l -> set_range A key lo hi l = filter (between A key lo hi) l).
Check (set_insert_eq : forall A key, (forall x y : A, key x = key y -> x = y) ->
  forall x l l' b, ssorted key l -> set_insert A key x l = (l', b) ->
  ssorted key l' /\ (forall y, In y l' <-> y = x \/ In y l) /\ (b = true <-> ~ In x l)
  /\ (b = false -> l' = l) /\ (b = true -> Permutation l' (x :: l))).
Check (set_remove_eq : forall A key, (forall x y : A, key x = key y -> x = y) ->
  forall x l l' b, ssorted key l -> set_remove A key x l = (l', b) ->
  ssorted key l' /\ incl l' l /\ (b = true <-> In x l) /\ (b = false -> l' = l)
  /\ (b = true -> Permutation l (x :: l')) /\ ~ In x l').
Check (set_contains_spec : forall A key, (forall x y : A, key x = key y -> x = y) ->
  forall x l, ssorted key l -> (set_contains A key x l = true <-> In x l)).
(* the range bounds built from ZERO and MAX *)
Check (btw4_3 : forall max a0 b0 c0 a b c d, d <= max ->
  between t4 key4 (a0, b0, c0, 0) (a0, b0, c0, max) (a, b, c, d) = (a =? a0) && (b =? b0) && (c =? c0)).
Check (btw4_2 : forall max a0 b0 a b c d, c <= max -> d <= max ->
  between t4 key4 (a0, b0, 0, 0) (a0, b0, max, max) (a, b, c, d) = (a =? a0) && (b =? b0)).
Check (btw4_1 : forall max a0 a b c d, b <= max -> c <= max -> d <= max ->
  between t4 key4 (a0, 0, 0, 0) (a0, max, max, max) (a, b, c, d) = (a =? a0)).
Check (btw4_1odd : forall max a0 a b c d, b < max ->
  between t4 key4 (a0, 0, 0, 0) (a0, max, max, 0) (a, b, c, d) = (a =? a0)).
Check (btw3_2 : forall max a0 b0 a b c, c <= max ->
  between t3 key3 (a0, b0, 0) (a0, b0, max) (a, b, c) = (a =? a0) && (b =? b0)).
Check (btw3_1 : forall max a0 a b c, b <= max -> c <= max ->
  between t3 key3 (a0, 0, 0) (a0, max, max) (a, b, c) = (a =? a0)).
(* the cached-flag iterators *)
Check (spo_boxed_spec : forall ti rows sm pm om,
  spo_boxed ti rows sm pm om = map (dec3 ti) (filter (m3 ti sm pm om) rows)).
Check (bc_boxed_spec : forall ti rows bm cm back a0,
  (forall a b c, In (a, b, c) rows -> a = a0) ->
  bc_boxed ti rows bm cm back = map (fun r => back (dec3 ti r)) (filter (m3bc ti bm cm) rows)).
Check (gspo_boxed_spec : forall max ti rows gm sm pm om,
  gspo_boxed max ti rows gm sm pm om = map (dec4 max ti) (filter (m4 max ti gm sm pm om) rows)).
Check (bcd_boxed_spec : forall max ti rows bm cm dm back a0,
  (forall a b c d, In (a, b, c, d) rows -> a = a0) ->
  bcd_boxed max ti rows bm cm dm back =
  map (fun r => quad_of_gq (back (gdec max ti r))) (filter (m4bcd max ti bm cm dm) rows)).
Check (cd_boxed_spec : forall max ti rows cm dm back a0 b0,
  (forall a b c d, In (a, b, c, d) rows -> a = a0 /\ b = b0) ->
  cd_boxed max ti rows cm dm back =
  map (fun r => quad_of_gq (back (gdec max ti r))) (filter (m4cd max ti cm dm) rows)).
(* the term index *)
Check (ensure_index_spec : forall max ti t ti' r,
  TInv max ti -> ensure_index max ti t = (ti', r) ->
  TInv max ti'
  /\ (forall i, i < tlen ti -> get_term ti' i = get_term ti i)
  /\ tlen ti <= tlen ti'
  /\ (forall t0 i0, get_index ti t0 = Some i0 -> get_index ti' t0 = Some i0)
  /\ match r with
     | Some i => get_index ti' t = Some i /\ intern (Some max) (i2t ti) t = Some (i2t ti')
     | None => ti' = ti /\ intern (Some max) (i2t ti) t = None
     end).
(* shipped matcher shapes obey the constant() contract *)
Check (md_wf : forall m, tm_wf (md m)).
Check (gd_wf : forall m, gm_wf (gd m)).
Check (tm_array_wf : forall l, tm_wf (tm_array l)).
Check (gm_array_wf : forall l, gm_wf (gm_array l)).
Check (tm_gn_wf : forall m, tm_wf m -> gm_wf (tm_gn m)).

(* ---- 4. all configurations agree below exhaustion ---- *)
Check (configs_agree : forall c1 c2 max1 max2 pl ops,
  set_config c1 = true -> set_config c2 = true -> cfg_isgraph c1 = cfg_isgraph c2 ->
  Forall op_wf ops ->
  below_exhaustion pl (cfg_cap c1 max1) (cfg_isgraph c1) ops ->
  below_exhaustion pl (cfg_cap c2 max2) (cfg_isgraph c2) ops ->
  Forall2 out_sim (run pl (impl_of c1 max1) ops) (run pl (impl_of c2 max2) ops)).

(* ---- 5. vector-backed stores are the corresponding list ---- *)
Check (vec_content_is_list : forall isgraph l q,
  i_all (vec_all_impl isgraph) (fst (i_insert (vec_all_impl isgraph) l q)) = l ++ [norm isgraph q]
  /\ i_all (vec_all_impl isgraph) (fst (i_remove (vec_all_impl isgraph) l q))
     = filter (fun x => negb (quad_eqb (norm isgraph q) x)) l
  /\ (forall sm pm om gm, i_query (vec_all_impl isgraph) l sm pm om gm = filter (qmatch isgraph sm pm om gm) l)).
Check (vec_remove_matching : forall g l sm pm om gm,
  (forall q, In q l -> norm g q = q) ->
  api_remove_matching (vec_all_impl g) l sm pm om gm
  = (filter (fun q => negb (qmatch g sm pm om gm q)) l,
     N.of_nat (length (filter (qmatch g sm pm om gm) l)))).
Check (vec_retain_matching : forall g l sm pm om gm,
  (forall q, In q l -> norm g q = q) ->
  api_retain_matching (vec_all_impl g) l sm pm om gm = filter (qmatch g sm pm om gm) l).
Check (vec_gspo_remove_one : forall l q,
  let '(l', b) := i_remove vec_first_impl l q in
  (b = true -> Permutation l (q :: l')) /\ (b = false -> l' = l /\ ~ In q l)).

(* ---- 6. the extended alphabet: bulk constructors (from_quad_source / from_triple_source / collect_quads),
        clones, bulk operations on failing sources, the length of the term index ---- *)
Check ((fun I l => eq_refl) : forall I l, api_collect I l =
  match api_insert_all I (i_init I) l 0 with (s, Some _) => Some s | (_, None) => None end).
Check ((fun pl I tc s l fail => eq_refl) : forall pl I tc s l fail, xstep pl I tc s (XCollect l fail) =
  match api_collect I l with
  | None => (s, OErr)
  | Some s' => if fail then (s, OFlag false) else (s', OFlag true)
  end).
Check ((fun pl cap g k sp l fail => eq_refl) : forall pl cap g k sp l fail, xspec_step pl cap g k sp (XCollect l fail) =
  match spec_insert_all cap g (mkS [] []) l 0 with
  | (_, None) => (sp, OErr)
  | (sp', Some _) => if fail then (sp, OFlag false) else (sp', OFlag true)
  end).
Check ((fun pl cap g k sp => eq_refl) : forall pl cap g k sp, xspec_step pl cap g k sp XClone = (sp, OUnit)).
Check ((fun pl cap g k sp => eq_refl) : forall pl cap g k sp, xspec_step pl cap g k sp XTermCount =
  (sp, if k then OCount (N.of_nat (length (s_terms sp))) else OUnit)).
Check ((fun o => eq_refl) : forall o, xop_wf o = match o with XBase o => op_wf o | _ => True end).
Check (xstore_refines_set : forall c max pl xs,
  set_config c = true -> Forall xop_wf xs ->
  Forall2 out_sim (xrun pl c max xs) (xspec_run pl (cfg_cap c max) (cfg_isgraph c) (cfg_counted c) xs)).
Check (xstep_sim : forall cap I (ok : impl_ok cap I) pl (tc : St I -> option N) (counted : bool),
  (forall s, tc s = if counted then Some (N.of_nat (length (terms ok s))) else None) ->
  forall s sp o, R cap I ok s sp -> xop_wf o ->
  R cap I ok (fst (xstep pl I tc s o)) (fst (xspec_step pl cap (i_isgraph I) counted sp o))
  /\ out_sim (snd (xstep pl I tc s o)) (snd (xspec_step pl cap (i_isgraph I) counted sp o))).
Check (xrun_base : forall pl I tc ops s, xrun_from pl I tc s (map XBase ops) = run_from pl I s ops).
Check (collect_is_insert_all : forall pl I tc l xs s0,
  snd (api_insert_all I (i_init I) l 0) <> None ->
  xrun_from pl I tc s0 (XCollect l false :: xs)
  = OFlag true :: xrun_from pl I tc (fst (api_insert_all I (i_init I) l 0)) xs).
Check (collect_then_base : forall pl I tc l ops s0,
  snd (api_insert_all I (i_init I) l 0) <> None ->
  xrun_from pl I tc s0 (XCollect l false :: map XBase ops) = OFlag true :: tl (run pl I (InsertAll l :: ops))).
Check (collect_failure_keeps_store : forall pl I tc l fail s0,
  snd (xstep pl I tc s0 (XCollect l fail)) <> OFlag true -> fst (xstep pl I tc s0 (XCollect l fail)) = s0).
(* ---- 7. SimpleTermIndex used directly ---- *)
Check (ti_reachable_inv : forall max ops, TInv max (ti_final max ops)).
Check (ti_ensure_roundtrip : forall max ops t i,
  snd (ti_step max (ti_final max ops) (TiEnsure t)) = Some i ->
  let ti' := ti_final max (ops ++ [TiEnsure t]) in
  get_index ti' t = Some i /\ get_term ti' i = t /\ i < tlen ti').
Check (ti_is_intern : forall max ops, i2t (ti_final max ops) = ti_spec max [] ops).

(* ================================================================================== *)
(* non-vacuity                                                                           *)
(* ================================================================================== *)
Definition q4 a b c g := mkQ a b c g.
Definition demo_ops : list op :=
  [Insert (q4 1 2 3 None); Insert (q4 1 2 4 (Some 5)); Insert (q4 1 2 3 None);
   Insert (q4 6 2 3 None)                      (* a 6th term when MAX = 5: refused *);
   Query (md (MConst 1)) (md MAny) (md MAny) (gd GAny);
   Query (md MAny) (md MAny) (md (MConst 4)) (gd (GConst (Some 5)));
   Contains (q4 1 2 4 (Some 5)); Remove (q4 1 2 3 None); Insert (q4 5 2 1 None);
   RemoveMatching (md MAny) (md MAny) (md MAny) (gd (GConst (Some 5))); All].
Example demo_ops_wf : Forall op_wf demo_ops.
Proof. repeat constructor; first [apply md_wf | apply gd_wf]. Qed.
(* index exhaustion is reachable and observable, and every configuration answers alike *)
Example demo_fast : run [] (impl_of FastDataset 5) demo_ops =
  [OFlag true; OFlag true; OFlag false; OErr;
   OQuads [q4 1 2 3 None; q4 1 2 4 (Some 5)]; OQuads [q4 1 2 4 (Some 5)];
   OFlag true; OFlag true; OFlag true; OCount 1; OQuads [q4 5 2 1 None]].
Proof. vm_compute. reflexivity. Qed.
Example demo_light :
  list_eqb out_eqb (run [] (impl_of LightDataset 5) demo_ops) (run [] (impl_of FastDataset 5) demo_ops) = true.
Proof. vm_compute. reflexivity. Qed.
Example demo_spec :
  list_eqb out_eqb (spec_run [] (Some 5) false demo_ops) (run [] (impl_of FastDataset 5) demo_ops) = true.
Proof. vm_compute. reflexivity. Qed.
Example demo_reaches_max : i2t (d_ti (final [] (dataset_impl true 5) demo_ops)) = [1; 2; 3; 4; 5].
Proof. vm_compute. reflexivity. Qed.

(* directed boundary case: MAX = 5, five terms interned (largest index MAX-1 = 4 belongs to term 5),
   the default graph is index MAX; all 16 bound/unbound shapes, constants on the boundary *)
Definition shapes (s p o : N) (g : option N) : list op :=
  flat_map (fun gm => flat_map (fun sm => flat_map (fun pm => map (fun om => Query sm pm om gm)
     [md (MConst o); md MAny]) [md (MConst p); md MAny]) [md (MConst s); md (MNotOneOf [])])
     [gd (GConst g); gd GAny].
Definition boundary_ops : list op :=
  [Insert (q4 1 2 3 None); Insert (q4 1 2 4 (Some 5)); Insert (q4 5 2 1 None);
   Insert (q4 5 4 5 (Some 5)); Insert (q4 5 2 5 None); Insert (q4 5 2 6 None) (* refused *)]
  ++ shapes 5 2 5 None ++ shapes 5 4 5 (Some 5) ++ shapes 1 2 4 (Some 5) ++ shapes 6 2 5 None.
Example boundary_len : length boundary_ops = 70%nat.
Proof. reflexivity. Qed.
Example boundary_fast :
  list_eqb out_eqb (run [] (impl_of FastDataset 5) boundary_ops) (spec_run [] (Some 5) false boundary_ops) = true.
Proof. vm_compute. reflexivity. Qed.
Example boundary_light :
  list_eqb out_eqb (run [] (impl_of LightDataset 5) boundary_ops) (spec_run [] (Some 5) false boundary_ops) = true.
Proof. vm_compute. reflexivity. Qed.
Example boundary_graphs :
  list_eqb out_eqb (run [] (impl_of FastGraph 5) boundary_ops) (spec_run [] (Some 5) true boundary_ops) = true
  /\ list_eqb out_eqb (run [] (impl_of LightGraph 5) boundary_ops) (spec_run [] (Some 5) true boundary_ops) = true.
Proof. split; vm_compute; reflexivity. Qed.
Example boundary_nonempty :
  nth 6 (spec_run [] (Some 5) false boundary_ops) OErr = OQuads [q4 5 2 5 None]
  /\ nth 5 (spec_run [] (Some 5) false boundary_ops) OUnit = OErr.
Proof. split; vm_compute; reflexivity. Qed.

(* the extended alphabet: a bulk constructor that succeeds, one that overflows (the store is kept),
   a failing source after two items, a clone, the term count *)
Definition demo_xops : list xop :=
  [XBase (Insert (q4 1 2 3 None)); XTermCount;
   XCollect [q4 1 2 3 None; q4 4 2 1 (Some 5); q4 1 2 3 None] false; XTermCount; XBase All;
   XCollect [q4 1 2 3 None; q4 4 2 1 (Some 5); q4 6 2 1 None] false   (* a 6th term: SinkError *);
   XBase All; XClone;
   XInsertAllFail [q4 5 2 5 None; q4 1 2 3 None]; XCollect [q4 1 2 3 None] true; XRemoveAllFail [q4 1 2 3 None];
   XBase All; XTermCount].
Example demo_xops_wf : Forall xop_wf demo_xops.
Proof. repeat constructor. Qed.
Example demo_x_fast : xrun [] FastDataset 5 demo_xops =
  [OFlag true; OCount 3; OFlag true; OCount 5; OQuads [q4 4 2 1 (Some 5); q4 1 2 3 None];
   OErr; OQuads [q4 4 2 1 (Some 5); q4 1 2 3 None]; OUnit;
   OFlag false; OFlag false; OFlag false; OQuads [q4 4 2 1 (Some 5); q4 5 2 5 None]; OCount 5].
Proof. vm_compute. reflexivity. Qed.
Example demo_x_all_configs :
  forallb (fun c => list_eqb out_eqb (xrun [] c 5 demo_xops)
                      (xspec_run [] (cfg_cap c 5) (cfg_isgraph c) (cfg_counted c) demo_xops))
    [LightGraph; FastGraph; LightDataset; FastDataset; SetGraph; SetDataset] = true.
Proof. vm_compute. reflexivity. Qed.
(* SimpleTermIndex with MAX = 3: three terms fit, the fourth is refused, the default graph is index 3 *)
Example demo_ti : ti_run_from 3 ti_empty
  [TiLen; TiEnsure 7; TiEnsure 9; TiEnsure 7; TiGet 9; TiGet 8; TiEnsure 8; TiEnsure 6; TiClone; TiLen;
   TiTerm 2; TiGraphName 3; TiGraphName 1; TiGnIndex None; TiGnIndex (Some 6); TiDefault]
  = [Some 0; Some 0; Some 1; Some 0; Some 1; None; Some 2; None; None; Some 3;
     Some 8; None; Some 9; Some 3; None; Some 3].
Proof. vm_compute. reflexivity. Qed.

(* why the invariant is needed: the Light dataset's upper bound [g, MAX, MAX, ZERO] would lose
   a row whose subject and predicate indexes were both MAX *)
Example odd_bound_needs_inv :
  between t4 key4 (7, 0, 0, 0) (7, 9, 9, 0) (7, 9, 9, 1) = false
  /\ between t4 key4 (7, 0, 0, 0) (7, 9, 9, 0) (7, 8, 9, 9) = true.
Proof. split; vm_compute; reflexivity. Qed.
(* a ZERO where a MAX belongs (a seeded defect) is visible to the range lemma *)
Example zero_upper_bound_refuted :
  set_range t4 key4 (7, 1, 0, 0) (7, 1, 0, 0) [(7, 1, 2, 3)] = []
  /\ set_range t4 key4 (7, 1, 0, 0) (7, 1, 9, 9) [(7, 1, 2, 3)] = [(7, 1, 2, 3)].
Proof. split; vm_compute; reflexivity. Qed.
(* a matcher breaking the constant() contract is outside the theorems, and for a reason *)
Example bad_matcher_not_wf : ~ tm_wf (mkTM (fun _ => true) (Some 1)).
Proof. intros H. specialize (H 1 eq_refl 2). discriminate. Qed.

Print Assumptions store_refines_set.
Print Assumptions graph_inv_reachable.
Print Assumptions dataset_inv_reachable.
Print Assumptions step_sim.
Print Assumptions graph_state_is_set.
Print Assumptions dataset_state_is_set.
Print Assumptions graph_query_each_once.
Print Assumptions dataset_query_each_once.
Print Assumptions tm_array_pred.
Print Assumptions graph_query_enumeration.
Print Assumptions graph_query_respelled.
Print Assumptions dataset_query_respelled.
Print Assumptions dataset_index_full.
Print Assumptions graph_index_full.
Print Assumptions remove_members.
Print Assumptions fd_query_ok.
Print Assumptions ld_query_ok.
Print Assumptions fg_query_ok.
Print Assumptions lg_query_ok.
Print Assumptions d_rhs.
Print Assumptions g_rhs.
Print Assumptions set_range_filter.
Print Assumptions set_insert_eq.
Print Assumptions set_remove_eq.
Print Assumptions set_contains_spec.
Print Assumptions btw4_3.
Print Assumptions btw4_2.
Print Assumptions btw4_1.
Print Assumptions btw4_1odd.
Print Assumptions btw3_2.
Print Assumptions btw3_1.
Print Assumptions spo_boxed_spec.
Print Assumptions bc_boxed_spec.
Print Assumptions gspo_boxed_spec.
Print Assumptions bcd_boxed_spec.
Print Assumptions cd_boxed_spec.
Print Assumptions ensure_index_spec.
Print Assumptions md_wf.
Print Assumptions gd_wf.
Print Assumptions tm_array_wf.
Print Assumptions gm_array_wf.
Print Assumptions tm_gn_wf.
Print Assumptions configs_agree.
Print Assumptions vec_content_is_list.
Print Assumptions vec_remove_matching.
Print Assumptions vec_retain_matching.
Print Assumptions vec_gspo_remove_one.
Print Assumptions xstore_refines_set.
Print Assumptions xstep_sim.
Print Assumptions xrun_base.
Print Assumptions collect_is_insert_all.
Print Assumptions collect_then_base.
Print Assumptions collect_failure_keeps_store.
Print Assumptions ti_reachable_inv.
Print Assumptions ti_ensure_roundtrip.
Print Assumptions ti_is_intern.
