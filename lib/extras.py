"""Extra, property-specific steps of ./check (python level)."""
import os, subprocess, re


def c10_miri(root, tier, seed, summaries):
    """thorough tier only: fixed clone/drop/insert scenarios under Miri (an interpreter that reports
    any read of released memory deterministically); a correspondence aid, not a proof."""
    if tier != "thorough":
        return []
    env = dict(os.environ, CARGO_NET_OFFLINE="true", CARGO_TARGET_DIR=os.path.join(root, "build", "target"))
    try:
        p = subprocess.run("cargo +nightly miri run --offline --bin c10_miri", shell=True, cwd=os.path.join(root, "harness"), env=env,
                           timeout=3300, stdout=subprocess.PIPE, stderr=subprocess.STDOUT, text=True, errors="replace")
        out, rc = p.stdout, p.returncode
    except subprocess.TimeoutExpired:
        return []  # Miri not finishing in time is not evidence of anything
    os.makedirs(os.path.join(root, "build", "logs", "C10"), exist_ok=True)
    open(os.path.join(root, "build", "logs", "C10", "miri.log"), "w").write(out)
    if rc != 0 and re.search(r"Undefined Behavior|dangling|use-after-free|has been freed", out):
        m = re.search(r"error: Undefined Behavior[^\n]*(\n[^\n]*){0,12}", out)
        return [dict(kind="miri", found=True, case="c10_miri",
                     what="Miri reports undefined behaviour in a fixed clone/drop/insert scenario on the in-memory stores: " + (m.group(0) if m else out[-800:]),
                     replay_cmd="cd /verif/harness && cargo +nightly miri run --offline --bin c10_miri")]
    return []
