//! C02: Term::eq / cmp / hash across every constructible Term implementation, against the Coq
//! model (Common/Term.v) and against the laws themselves (oracle).  Also: the accessors, the component iterators
//! (atoms / constituents and their consuming variants), to_triple, the std operators between DIFFERENT term types, the
//! string wrappers' std traits, graph_name_eq, term -> native conversions, and every other way of building a term.
//! Hashing is compared as the SEQUENCE OF CALLS made on the `Hasher` (so: for every hasher, including those that are sensitive to
//! the boundaries of the calls; three such hashers are run as well), through every entry point (value, references, borrow_term, CmpTerm,
//! std Hash).  The pools hold texts with "normalisable" features (case of scheme / host / percent-encoding, dot segments, ports, NFC / NFD,
//! tags in every case mix), side by side with their would-be normal forms, and every copy of a term into a stash (several histories) or
//! a term index must spell the term it was given.
use rdf_types::vocabulary::{BlankIdVocabulary, BlankIdVocabularyMut, IriVocabulary, IriVocabularyMut, LanguageTagVocabulary, LanguageTagVocabularyMut, LiteralVocabulary, LiteralVocabularyMut};
use rio_api::model as rio;
use sophia_api::ns::{Namespace, NsTerm};
use sophia_api::quad::Quad as _;
use sophia_api::term::{graph_name_eq, BnodeId, CmpTerm, FromTerm, IriRef, LanguageTag, SimpleTerm, Term, TermKind, TryFromTerm, VarName};
use sophia_api::triple::Triple as _;
use sophia_iri::Iri;
use sophia_jsonld::RdfTerm;
use sophia_jsonld::vocabulary::{ArcBnode, ArcIri, ArcTag, ArcVoc};
use sophia_rio::model::Trusted;
use sophia_sparql::ResultTerm;
use sophia_inmem::index::{SimpleTermIndex, TermIndex};
use sophia_term::{ArcStrStash, ArcTerm, GenericLiteral, RcStrStash, RcTerm};
use std::borrow::Borrow;
use std::cmp::Ordering;
use std::hash::Hasher;
use std::rc::Rc;
use std::sync::Arc;
use verif_harness::*;

/// The recording hasher: it records the SEQUENCE OF CALLS made on the `Hasher` (method + argument), not only the bytes.
/// "Equal terms hash identically" must hold for every `Hasher`, including those whose result depends on how the bytes are
/// split into calls (FxHash and friends, anything that pads / finalises / mixes the length of each `write`), so equal terms
/// must produce the same call sequence whatever the Rust type holding them.
/// (`write_str` / `write_length_prefix` are unstable methods that cannot be overridden on stable: `str: Hash` reaches the hasher
/// as `write(bytes); write_u8(0xff)`, which is what a real third-party hasher sees as well.)
#[derive(Clone, Copy, PartialEq, Eq, Debug)]
enum M { Write, U8, U16, U32, U64, U128, Usize, I8, I16, I32, I64, I128, Isize }
fn m_code(m: M) -> usize { match m { M::Write => 0, M::U8 => 1, M::U16 => 2, M::U32 => 3, M::U64 => 4, M::U128 => 5, M::Usize => 6, M::I8 => 7, M::I16 => 8, M::I32 => 9, M::I64 => 10, M::I128 => 11, M::Isize => 12 } }
#[derive(Default, Clone, PartialEq, Eq)]
struct Trace(Vec<(M, Vec<u8>)>);
impl Trace {
    /// what a boundary-insensitive hasher sees: the concatenation of the arguments (native-endian integers)
    fn bytes(&self) -> Vec<u8> { self.0.iter().flat_map(|(_, b)| b.iter().copied()).collect() }
    /// feed the same calls to another hasher
    fn replay<H: Hasher>(&self, h: &mut H) {
        for (m, b) in &self.0 { match m {
            M::Write => h.write(b), M::U8 => h.write_u8(b[0]), M::U16 => h.write_u16(u16::from_ne_bytes(b[..].try_into().unwrap())), M::U32 => h.write_u32(u32::from_ne_bytes(b[..].try_into().unwrap())),
            M::U64 => h.write_u64(u64::from_ne_bytes(b[..].try_into().unwrap())), M::U128 => h.write_u128(u128::from_ne_bytes(b[..].try_into().unwrap())), M::Usize => h.write_usize(usize::from_ne_bytes(b[..].try_into().unwrap())),
            M::I8 => h.write_i8(b[0] as i8), M::I16 => h.write_i16(i16::from_ne_bytes(b[..].try_into().unwrap())), M::I32 => h.write_i32(i32::from_ne_bytes(b[..].try_into().unwrap())),
            M::I64 => h.write_i64(i64::from_ne_bytes(b[..].try_into().unwrap())), M::I128 => h.write_i128(i128::from_ne_bytes(b[..].try_into().unwrap())), M::Isize => h.write_isize(isize::from_ne_bytes(b[..].try_into().unwrap())),
        } }
    }
    fn coq(&self) -> String { coq_list(self.0.iter().map(|(m, b)| format!("({}, {})", m_code(*m), coq_bytes(b)))) }
}
impl std::fmt::Debug for Trace {
    fn fmt(&self, f: &mut std::fmt::Formatter<'_>) -> std::fmt::Result {
        f.write_str("[")?;
        for (k, (m, b)) in self.0.iter().enumerate() { if k > 0 { f.write_str(", ")?; } match m { M::Write => write!(f, "write({})", String::from_utf8_lossy(b).escape_debug())?, M::U8 => write!(f, "write_u8({:#x})", b[0])?, _ => write!(f, "write_{}({b:?})", format!("{m:?}").to_lowercase())? } }
        f.write_str("]")
    }
}
#[derive(Default)]
struct Rec(Trace);
impl Hasher for Rec {
    fn finish(&self) -> u64 { 0 }
    fn write(&mut self, b: &[u8]) { self.0.0.push((M::Write, b.to_vec())) }
    fn write_u8(&mut self, i: u8) { self.0.0.push((M::U8, vec![i])) }
    fn write_u16(&mut self, i: u16) { self.0.0.push((M::U16, i.to_ne_bytes().to_vec())) }
    fn write_u32(&mut self, i: u32) { self.0.0.push((M::U32, i.to_ne_bytes().to_vec())) }
    fn write_u64(&mut self, i: u64) { self.0.0.push((M::U64, i.to_ne_bytes().to_vec())) }
    fn write_u128(&mut self, i: u128) { self.0.0.push((M::U128, i.to_ne_bytes().to_vec())) }
    fn write_usize(&mut self, i: usize) { self.0.0.push((M::Usize, i.to_ne_bytes().to_vec())) }
    fn write_i8(&mut self, i: i8) { self.0.0.push((M::I8, vec![i as u8])) }
    fn write_i16(&mut self, i: i16) { self.0.0.push((M::I16, i.to_ne_bytes().to_vec())) }
    fn write_i32(&mut self, i: i32) { self.0.0.push((M::I32, i.to_ne_bytes().to_vec())) }
    fn write_i64(&mut self, i: i64) { self.0.0.push((M::I64, i.to_ne_bytes().to_vec())) }
    fn write_i128(&mut self, i: i128) { self.0.0.push((M::I128, i.to_ne_bytes().to_vec())) }
    fn write_isize(&mut self, i: isize) { self.0.0.push((M::Isize, i.to_ne_bytes().to_vec())) }
}
fn rec<T: Term>(t: T) -> Trace { let mut h = Rec::default(); Term::hash(&t, &mut h); h.0 }
fn rec_std<T: std::hash::Hash + ?Sized>(t: &T) -> Trace { let mut h = Rec::default(); std::hash::Hash::hash(t, &mut h); h.0 }

// ---- three small real hashers whose digest depends on the boundaries of the calls ----
/// FxHash (rustc-hash 1.x): every `write` eats its slice by 8/4/2/1-byte words
#[derive(Default)]
struct FxLike(u64);
impl FxLike { fn add(&mut self, i: u64) { self.0 = (self.0.rotate_left(5) ^ i).wrapping_mul(0x51_7c_c1_b7_27_22_0a_95); } }
impl Hasher for FxLike {
    fn write(&mut self, mut b: &[u8]) {
        while b.len() >= 8 { self.add(u64::from_le_bytes(b[..8].try_into().unwrap())); b = &b[8..]; }
        if b.len() >= 4 { self.add(u32::from_le_bytes(b[..4].try_into().unwrap()) as u64); b = &b[4..]; }
        if b.len() >= 2 { self.add(u16::from_le_bytes(b[..2].try_into().unwrap()) as u64); b = &b[2..]; }
        if let Some(x) = b.first() { self.add(*x as u64); }
    }
    fn write_u8(&mut self, i: u8) { self.add(i as u64) } fn write_u16(&mut self, i: u16) { self.add(i as u64) } fn write_u32(&mut self, i: u32) { self.add(i as u64) }
    fn write_u64(&mut self, i: u64) { self.add(i) } fn write_usize(&mut self, i: usize) { self.add(i as u64) }
    fn finish(&self) -> u64 { self.0 }
}
/// FNV-1a over the bytes, mixing in the LENGTH of every call (as hashers that finalise / pad each `write` do)
struct LenMix(u64);
impl Default for LenMix { fn default() -> Self { LenMix(0xcbf2_9ce4_8422_2325) } }
impl Hasher for LenMix {
    fn write(&mut self, b: &[u8]) { for x in b { self.0 = (self.0 ^ *x as u64).wrapping_mul(0x100_0000_01b3); } self.0 = (self.0 ^ (b.len() as u64).wrapping_add(0x9E37_79B9_7F4A_7C15)).wrapping_mul(0x100_0000_01b3); }
    fn finish(&self) -> u64 { self.0 }
}
/// rotates its state at the end of every call (any kind), so the number and the position of the calls matter
#[derive(Default)]
struct CallRot(u64, u32);
impl Hasher for CallRot {
    fn write(&mut self, b: &[u8]) { for x in b { self.0 = self.0.wrapping_mul(31).wrapping_add(*x as u64); } self.1 = self.1.wrapping_add(1); self.0 = self.0.rotate_left(7 + (self.1 % 13)) ^ 0xA5A5_5A5A_0F0F_F0F0; }
    fn finish(&self) -> u64 { self.0 }
}
/// the digests of one term under the three hashers above and under std's SipHash (the real Term::hash drives each of them)
fn digests<T: Term + ?Sized>(t: &T) -> [u64; 4] {
    let (mut a, mut b, mut c, mut d) = (FxLike::default(), LenMix::default(), CallRot::default(), std::collections::hash_map::DefaultHasher::new());
    Term::hash(t, &mut a); Term::hash(t, &mut b); Term::hash(t, &mut c); Term::hash(t, &mut d);
    [a.finish(), b.finish(), c.finish(), d.finish()]
}
const HASHERS: [&str; 4] = ["FxHash-like", "length-mixing FNV", "per-call-rotating", "std SipHash"];
/// which of the real hashers tell two traces apart (for the message of a violation)
fn told_apart(x: &Trace, y: &Trace) -> String {
    let run = |t: &Trace| { let (mut a, mut b, mut c, mut d) = (FxLike::default(), LenMix::default(), CallRot::default(), std::collections::hash_map::DefaultHasher::new()); t.replay(&mut a); t.replay(&mut b); t.replay(&mut c); t.replay(&mut d); [a.finish(), b.finish(), c.finish(), d.finish()] };
    let (dx, dy) = (run(x), run(y));
    let v: Vec<&str> = (0..4).filter(|k| dx[*k] != dy[*k]).map(|k| HASHERS[k]).collect();
    if v.is_empty() { "same digest under the four test hashers, but the calls differ".into() } else { format!("different digests under: {}", v.join(", ")) }
}

/// one value in one representation
enum Rep<'a> {
    Simple(SimpleTerm<'static>), SimpleRef(&'a SimpleTerm<'static>), Borrowed(SimpleTerm<'a>),
    Arc(ArcTerm), Rc(RcTerm), ArcStashed(ArcTerm), RcStashed(RcTerm), Cmp(CmpTerm<SimpleTerm<'static>>), CmpArc(CmpTerm<ArcTerm>),
    GenLit(GenericLiteral<String>), Ns(NsTerm<'a>), IriW(Iri<String>), IriRefW(IriRef<&'a str>), BnodeW(BnodeId<String>), VarW(VarName<Box<str>>),
    I32(i32), Isize(isize), Usize(usize), F64(f64), Bool(bool), Str(&'a str),
    RioNamed(Trusted<rio::NamedNode<'a>>), RioBlank(Trusted<rio::BlankNode<'a>>), RioVar(Trusted<rio::Variable<'a>>), RioLit(Trusted<rio::Literal<'a>>),
    RioTerm(Trusted<rio::Term<'a>>), RioGen(Trusted<rio::GeneralizedTerm<'a>>), RioGName(Trusted<rio::GraphName<'a>>),
    Result(ResultTerm), ResultCached(ResultTerm), JBn(sophia_jsonld::vocabulary::ArcBnode), JRdf(RdfTerm),
}
macro_rules! with_rep {
    ($r:expr, $x:ident => $body:expr) => {
        match $r {
            Rep::Simple($x) => $body, Rep::SimpleRef($x) => $body, Rep::Borrowed($x) => $body, Rep::Arc($x) => $body, Rep::Rc($x) => $body,
            Rep::ArcStashed($x) => $body, Rep::RcStashed($x) => $body, Rep::Cmp($x) => $body, Rep::CmpArc($x) => $body,
            Rep::GenLit($x) => $body, Rep::Ns($x) => $body, Rep::IriW($x) => $body, Rep::IriRefW($x) => $body, Rep::BnodeW($x) => $body, Rep::VarW($x) => $body,
            Rep::I32($x) => $body, Rep::Isize($x) => $body, Rep::Usize($x) => $body, Rep::F64($x) => $body, Rep::Bool($x) => $body, Rep::Str($x) => $body,
            Rep::RioNamed($x) => $body, Rep::RioBlank($x) => $body, Rep::RioVar($x) => $body, Rep::RioLit($x) => $body,
            Rep::RioTerm($x) => $body, Rep::RioGen($x) => $body, Rep::RioGName($x) => $body, Rep::Result($x) => $body, Rep::ResultCached($x) => $body, Rep::JBn($x) => $body, Rep::JRdf($x) => $body,
        }
    };
}
fn rep_name(r: &Rep) -> &'static str {
    match r {
        Rep::Simple(_) => "SimpleTerm(owned)", Rep::SimpleRef(_) => "&SimpleTerm", Rep::Borrowed(_) => "SimpleTerm(borrowed)", Rep::Arc(_) => "ArcTerm", Rep::Rc(_) => "RcTerm",
        Rep::ArcStashed(_) => "ArcTerm(stash)", Rep::RcStashed(_) => "RcTerm(stash)", Rep::Cmp(_) => "CmpTerm<SimpleTerm>", Rep::CmpArc(_) => "CmpTerm<ArcTerm>",
        Rep::GenLit(_) => "GenericLiteral", Rep::Ns(_) => "NsTerm", Rep::IriW(_) => "Iri<String>", Rep::IriRefW(_) => "IriRef<&str>", Rep::BnodeW(_) => "BnodeId", Rep::VarW(_) => "VarName",
        Rep::I32(_) => "i32", Rep::Isize(_) => "isize", Rep::Usize(_) => "usize", Rep::F64(_) => "f64", Rep::Bool(_) => "bool", Rep::Str(_) => "str",
        Rep::RioNamed(_) => "rio::NamedNode", Rep::RioBlank(_) => "rio::BlankNode", Rep::RioVar(_) => "rio::Variable", Rep::RioLit(_) => "rio::Literal",
        Rep::RioTerm(_) => "rio::Term", Rep::RioGen(_) => "rio::GeneralizedTerm", Rep::RioGName(_) => "rio::GraphName", Rep::Result(_) => "ResultTerm", Rep::ResultCached(_) => "ResultTerm(value cached)", Rep::JBn(_) => "jsonld::vocabulary::ArcBnode", Rep::JRdf(_) => "jsonld::RdfTerm",
    }
}

/// native value attached to an abstract term (so that the native representation is exercised)
#[derive(Clone, Copy, Debug)]
enum Native { None, I32(i32), Isize(isize), Usize(usize), F64(f64), Bool(bool), Str }

struct Abs { st: ST, native: Native, ns_split: Vec<usize> }

fn rio_lit<'a>(st: &'a ST) -> Option<rio::Literal<'a>> {
    match st {
        SimpleTerm::LiteralDatatype(lex, dt) => Some(if dt.as_str() == "http://www.w3.org/2001/XMLSchema#string" { rio::Literal::Simple { value: lex } } else { rio::Literal::Typed { value: lex, datatype: rio::NamedNode { iri: dt.as_str() } } }),
        SimpleTerm::LiteralLanguage(lex, tag) => Some(rio::Literal::LanguageTaggedString { value: lex, language: tag.as_str() }),
        _ => None,
    }
}


/// rio's strict RDF-star shapes (arena: leaked boxes, a few dozen small values per run)
fn rio_strict<'a>(st: &'a ST) -> Option<rio::Term<'a>> {
    match st {
        SimpleTerm::Iri(i) => Some(rio::Term::NamedNode(rio::NamedNode { iri: i.as_str() })),
        SimpleTerm::BlankNode(b) => Some(rio::Term::BlankNode(rio::BlankNode { id: b.as_str() })),
        SimpleTerm::LiteralDatatype(..) | SimpleTerm::LiteralLanguage(..) => rio_lit(st).map(rio::Term::Literal),
        SimpleTerm::Triple(tr) => rio_triple(tr).map(rio::Term::Triple),
        SimpleTerm::Variable(_) => None,
    }
}
/// rio's `Trusted` wrapper trusts every IRI to be absolute (debug assertions): terms with a relative IRI reference are not given to it
fn rio_ok(st: &ST) -> bool {
    match st { SimpleTerm::Iri(i) => Iri::new(i.as_str()).is_ok(), SimpleTerm::LiteralDatatype(_, d) => Iri::new(d.as_str()).is_ok(), SimpleTerm::Triple(tr) => tr.iter().all(rio_ok), _ => true }
}
fn rio_triple<'a>(tr: &'a [ST; 3]) -> Option<&'a rio::Triple<'a>> {
    if !tr.iter().all(rio_ok) { return None; }
    let subject = match &tr[0] {
        SimpleTerm::Iri(i) => rio::Subject::NamedNode(rio::NamedNode { iri: i.as_str() }),
        SimpleTerm::BlankNode(b) => rio::Subject::BlankNode(rio::BlankNode { id: b.as_str() }),
        SimpleTerm::Triple(t) => rio::Subject::Triple(rio_triple(t)?),
        _ => return None,
    };
    let predicate = match &tr[1] { SimpleTerm::Iri(i) => rio::NamedNode { iri: i.as_str() }, _ => return None };
    let object = rio_strict(&tr[2])?;
    Some(Box::leak(Box::new(rio::Triple { subject, predicate, object })))
}
fn rio_gen<'a>(st: &'a ST) -> rio::GeneralizedTerm<'a> {
    match st {
        SimpleTerm::Iri(i) => rio::GeneralizedTerm::NamedNode(rio::NamedNode { iri: i.as_str() }),
        SimpleTerm::BlankNode(b) => rio::GeneralizedTerm::BlankNode(rio::BlankNode { id: b.as_str() }),
        SimpleTerm::Variable(x) => rio::GeneralizedTerm::Variable(rio::Variable { name: x.as_str() }),
        SimpleTerm::LiteralDatatype(..) | SimpleTerm::LiteralLanguage(..) => rio::GeneralizedTerm::Literal(rio_lit(st).unwrap()),
        SimpleTerm::Triple(tr) => rio::GeneralizedTerm::Triple(Box::leak(Box::new([rio_gen(&tr[0]), rio_gen(&tr[1]), rio_gen(&tr[2])]))),
    }
}
fn rio_gname<'a>(st: &'a ST) -> Option<rio::GraphName<'a>> {
    if !rio_ok(st) { return None; }
    match st {
        SimpleTerm::Iri(i) => Some(rio::GraphName::NamedNode(rio::NamedNode { iri: i.as_str() })),
        SimpleTerm::BlankNode(b) => Some(rio::GraphName::BlankNode(rio::BlankNode { id: b.as_str() })),
        _ => None,
    }
}

/// the JSON-LD adapter term, along each of its `From` impls (first = the one used as a representation)
fn arc_iri(s: &str) -> Option<ArcIri> { Iri::new(Arc::<str>::from(s)).ok() }
fn arc_bnode(label: &str) -> Option<ArcBnode> { let full = format!("_:{label}"); rdf_types::BlankId::new(&full).ok().and_then(|id| ArcVoc::default().get_blank_id(id)) }
fn jrdf_forms(st: &ST) -> Vec<RdfTerm> {
    use rdf_types::{Id, Literal as RLit, Term as RTerm, literal::Type as RType};
    match st {
        SimpleTerm::Iri(i) => arc_iri(i.as_str()).map(|ai| vec![RdfTerm::from(RTerm::Id(Id::Iri(ai.clone()))), RdfTerm::from(Id::Iri(ai.clone())), RdfTerm::from(ai)]).unwrap_or_default(),
        SimpleTerm::BlankNode(b) => arc_bnode(b.as_str()).map(|bn| vec![RdfTerm::from(RTerm::Id(Id::Blank(bn.clone()))), RdfTerm::from(Id::Blank(bn))]).unwrap_or_default(),
        SimpleTerm::LiteralDatatype(lex, dt) => arc_iri(dt.as_str()).map(|ai| vec![RdfTerm::from(RTerm::Literal(RLit::new(lex.to_string(), RType::Any(ai))))]).unwrap_or_default(),
        SimpleTerm::LiteralLanguage(lex, tag) => vec![RdfTerm::from(RTerm::Literal(RLit::new(lex.to_string(), RType::LangString(ArcTag::new_unchecked(Arc::<str>::from(tag.as_str()))))))],
        _ => vec![],
    }
}

/// ArcTerm / RcTerm / ResultTerm assembled with their `From` impls only
macro_rules! from_parts { ($name:ident, $ty:ident, $w:ident) => {
    fn $name(st: &ST) -> $ty {
        match st {
            SimpleTerm::Iri(i) => $ty::from(IriRef::new_unchecked($w::<str>::from(i.as_str()))),
            SimpleTerm::BlankNode(b) => $ty::from(BnodeId::new_unchecked($w::<str>::from(b.as_str()))),
            SimpleTerm::Variable(x) => $ty::from(VarName::new_unchecked($w::<str>::from(x.as_str()))),
            SimpleTerm::LiteralDatatype(l, d) => $ty::from(($w::<str>::from(&l[..]), IriRef::new_unchecked($w::<str>::from(d.as_str())))),
            SimpleTerm::LiteralLanguage(l, t) => $ty::from(($w::<str>::from(&l[..]), LanguageTag::new_unchecked($w::<str>::from(t.as_str())))),
            SimpleTerm::Triple(tr) => $ty::from($w::new([$name(&tr[0]), $name(&tr[1]), $name(&tr[2])])),
        }
    }
}; }
from_parts!(arc_from_parts, ArcTerm, Arc);
from_parts!(rc_from_parts, RcTerm, Rc);
fn result_from_parts(st: &ST) -> ResultTerm {
    match st {
        SimpleTerm::Triple(tr) => ResultTerm::from([result_from_parts(&tr[0]), result_from_parts(&tr[1]), result_from_parts(&tr[2])]),
        _ => ResultTerm::from(arc_from_parts(st)),
    }
}

fn reps<'a>(a: &'a Abs, arc_stash: &mut ArcStrStash, rc_stash: &mut RcStrStash) -> Vec<Rep<'a>> {
    let st = &a.st;
    let mut v: Vec<Rep<'a>> = vec![
        Rep::Simple(st.clone()), Rep::SimpleRef(st), Rep::Borrowed(st.as_simple()),
        Rep::Arc(ArcTerm::from_term(st.borrow_term())), Rep::Rc(st.borrow_term().into_term()),
        Rep::ArcStashed(arc_stash.copy_term(st.borrow_term())), Rep::RcStashed(rc_stash.copy_term(st.borrow_term())),
        Rep::Cmp(CmpTerm(st.clone())), Rep::CmpArc(CmpTerm(ArcTerm::from_term(st.borrow_term()))),
        Rep::Result(ResultTerm::from(ArcTerm::from_term(st.borrow_term()))),
        // the same with its SPARQL value already computed and cached inside the term
        Rep::ResultCached({ let rt = ResultTerm::from(ArcTerm::from_term(st.borrow_term())); let _ = rt.value(); rt }),
    ];
    if let Some(j) = jrdf_forms(st).into_iter().next() { v.push(Rep::JRdf(j)); }
    match st {
        SimpleTerm::Iri(i) => {
            v.push(Rep::IriRefW(IriRef::new_unchecked(i.as_str())));
            if Iri::new(i.as_str()).is_ok() { v.push(Rep::IriW(Iri::new_unchecked(i.as_str().to_string()))); }
            for k in &a.ns_split { v.push(Rep::Ns(NsTerm::new_unchecked(IriRef::new_unchecked(&i.as_str()[..*k]), &i.as_str()[*k..]))); }
            // the namespace constants of sophia_api::ns themselves, and terms handed out by a Namespace (natural split: after the last '#' or '/')
            for c in ns_constants() { if c.iri().unwrap().as_str() == i.as_str() { v.push(Rep::Ns(c)); } }
            if let Some(k) = natural_split(i.as_str()).filter(|k| IriRef::new(&i.as_str()[..*k]).is_ok()) { let ns: &'a Namespace<&'a str> = Box::leak(Box::new(Namespace::new_unchecked(&i.as_str()[..k]))); v.push(Rep::Ns(ns.get_unchecked(&i.as_str()[k..]))); if let Ok(t) = ns.get(&i.as_str()[k..]) { v.push(Rep::Ns(t)); } }
            v.push(Rep::RioNamed(Trusted(rio::NamedNode { iri: i.as_str() })));
            v.push(Rep::RioTerm(Trusted(rio::Term::NamedNode(rio::NamedNode { iri: i.as_str() }))));
            v.push(Rep::RioGen(Trusted(rio::GeneralizedTerm::NamedNode(rio::NamedNode { iri: i.as_str() }))));
            v.push(Rep::RioGName(Trusted(rio::GraphName::NamedNode(rio::NamedNode { iri: i.as_str() }))));
        }
        SimpleTerm::BlankNode(b) => {
            v.push(Rep::BnodeW(BnodeId::new_unchecked(b.as_str().to_string())));
            { use rdf_types::vocabulary::BlankIdVocabulary; let full = format!("_:{}", b.as_str()); if let Ok(id) = rdf_types::BlankId::new(&full) { if let Some(x) = sophia_jsonld::vocabulary::ArcVoc::default().get_blank_id(id) { v.push(Rep::JBn(x)); } } }
            v.push(Rep::RioBlank(Trusted(rio::BlankNode { id: b.as_str() })));
            v.push(Rep::RioTerm(Trusted(rio::Term::BlankNode(rio::BlankNode { id: b.as_str() }))));
            v.push(Rep::RioGen(Trusted(rio::GeneralizedTerm::BlankNode(rio::BlankNode { id: b.as_str() }))));
            v.push(Rep::RioGName(Trusted(rio::GraphName::BlankNode(rio::BlankNode { id: b.as_str() }))));
        }
        SimpleTerm::Variable(x) => {
            v.push(Rep::VarW(VarName::new_unchecked(x.as_str().into())));
            v.push(Rep::RioVar(Trusted(rio::Variable { name: x.as_str() })));
            v.push(Rep::RioGen(Trusted(rio::GeneralizedTerm::Variable(rio::Variable { name: x.as_str() }))));
        }
        SimpleTerm::LiteralDatatype(..) | SimpleTerm::LiteralLanguage(..) => {
            v.push(Rep::GenLit(GenericLiteral::try_from_term(st.borrow_term()).unwrap()));
            let l = rio_lit(st).unwrap();
            v.push(Rep::RioLit(Trusted(l))); v.push(Rep::RioTerm(Trusted(rio::Term::Literal(l)))); v.push(Rep::RioGen(Trusted(rio::GeneralizedTerm::Literal(l))));
            match a.native {
                Native::I32(x) => v.push(Rep::I32(x)), Native::Isize(x) => v.push(Rep::Isize(x)), Native::Usize(x) => v.push(Rep::Usize(x)),
                Native::F64(x) => v.push(Rep::F64(x)), Native::Bool(x) => v.push(Rep::Bool(x)),
                Native::Str => if let SimpleTerm::LiteralDatatype(lex, _) = st { v.push(Rep::Str(lex)) },
                Native::None => {}
            }
        }
        SimpleTerm::Triple(tr) => {
            // rio's own quoted triples (strict shape only) and generalized quoted triples; terms assembled from parts
            if let Some(t) = rio_triple(tr) { v.push(Rep::RioTerm(Trusted(rio::Term::Triple(t)))); }
            v.push(Rep::RioGen(Trusted(rio_gen(st))));
            v.push(Rep::Result(result_from_parts(st)));
            v.push(Rep::Arc(arc_from_parts(st)));
            v.push(Rep::Rc(rc_from_parts(st)));
        }
    }
    if !rio_ok(st) { v.retain(|r| !matches!(r, Rep::RioNamed(_) | Rep::RioBlank(_) | Rep::RioVar(_) | Rep::RioLit(_) | Rep::RioTerm(_) | Rep::RioGen(_) | Rep::RioGName(_))); }
    v
}

// ---------- generation ----------
const STRS: [&str; 12] = ["", "a", "b", "ab", "aa", "A", "a\u{e9}", "a\u{ff}", "\u{10000}", "\u{ffff}", "z", "a b"];
/// language tags in every case mix (equal terms), next to tags that extend / are a prefix of another one (different terms); all well-formed BCP47
const TAGS: [&str; 30] = ["en", "EN", "En", "eN", "en-US", "en-us", "EN-US", "En-Us", "eN-uS", "en-Us", "fr", "FR", "fr-FR", "fr-fr", "Fr-fR",
    "zh-Hant-TW", "zh-hant-tw", "ZH-HANT-TW", "zh-HANT-tw", "de-CH-1996", "de-ch-1996", "DE-CH-1996", "sr-Latn-RS", "sr-latn-rs", "x-Private", "x-private", "X-PRIVATE", "de", "DE", "dE"];
/// Families of IRIs that some normalisation would identify (RFC 3986 section 6: case of the scheme / of the host / of percent-encoded
/// octets, percent-encoding of unreserved characters, dot segments, default / empty ports, empty path; Unicode NFC / NFD / compatibility
/// characters; IDNA) -- and that are all DIFFERENT RDF terms: IRIs are compared character by character, nothing may normalise them.
const IRI_FAMILIES: [&[&str]; 22] = [
    &["http://example.org/a", "HTTP://example.org/a", "Http://example.org/a", "hTTp://example.org/a"],
    &["http://example.org/a", "http://EXAMPLE.org/a", "http://Example.ORG/a", "http://example.org/A"],
    &["http://example.org/%7euser", "http://example.org/%7Euser", "http://example.org/~user"],
    &["http://example.org/a%2fb", "http://example.org/a%2Fb", "http://example.org/a/b", "http://example.org/%61/b"],
    &["http://example.org/a/b", "http://example.org/a/./b", "http://example.org/a/c/../b", "http://example.org/./a/b", "http://example.org/a/b/."],
    &["http://example.org/a", "http://example.org:80/a", "http://example.org:/a", "http://example.org:080/a"],
    &["https://example.org/", "https://example.org:443/", "https://example.org", "HTTPS://EXAMPLE.ORG:443/"],
    &["http://example.org/caf\u{e9}", "http://example.org/cafe\u{301}", "http://example.org/caf%C3%A9", "http://example.org/caf%c3%a9"],
    &["http://example.org/\u{c5}", "http://example.org/\u{212b}", "http://example.org/A\u{30a}"],
    &["urn:isbn:0451450523", "URN:isbn:0451450523", "urn:ISBN:0451450523", "Urn:Isbn:0451450523"],
    &["http://example.org/a#", "http://example.org/a", "http://example.org/a?", "http://example.org/a?#"],
    &["http://xn--caf-dma.example/", "http://caf\u{e9}.example/", "http://CAF\u{c9}.example/"],
    &["mailto:User@Example.org", "mailto:user@example.org", "MAILTO:user@example.org"],
    &["tel:+1-816-555-1212", "TEL:+1-816-555-1212", "tel:+18165551212"],
    &["a/b", "a/./b", "./a/b", "a/c/../b"],
    &["#Frag", "#frag", "", "#"],
    &["./A:b", "A:b", "a:b", "./a:b"],
    &["//example.org/a", "//EXAMPLE.org/a", "//example.org:80/a"],
    &["http://www.w3.org/1999/02/22-rdf-syntax-ns#type", "HTTP://www.w3.org/1999/02/22-rdf-syntax-ns#type", "http://www.w3.org/1999/02/22-rdf-syntax-ns#Type", "http://WWW.W3.ORG/1999/02/22-rdf-syntax-ns#type"],
    &["http://www.w3.org/2001/XMLSchema#integer", "HTTP://www.w3.org/2001/XMLSchema#integer", "http://www.w3.org/2001/XMLSchema#Integer", "http://www.w3.org/2001/./XMLSchema#integer", "https://www.w3.org/2001/XMLSchema#integer"],
    &["http://www.w3.org/2001/XMLSchema#string", "HTTP://www.w3.org/2001/XMLSchema#string", "http://www.w3.org/2001/xmlschema#string", "http://www.w3.org:80/2001/XMLSchema#string"],
    &["http://www.w3.org/1999/02/22-rdf-syntax-ns#langString", "HTTP://www.w3.org/1999/02/22-rdf-syntax-ns#langString", "http://www.w3.org/1999/02/22-rdf-syntax-ns#langstring", "http://www.w3.org/1999/02/../02/22-rdf-syntax-ns#langString"],
];
/// the same for the other texts a term is made of (all valid as blank node label, as variable name and as lexical form)
const TEXT_FAMILIES: [&[&str]; 7] = [&["b1", "B1", "b01"], &["caf\u{e9}", "cafe\u{301}", "CAF\u{c9}"], &["\u{c5}", "\u{212b}", "A\u{30a}"], &["n_1", "n1", "N_1"], &["x", "X"], &["\u{fb01}", "fi"], &["http", "HTTP"]];
/// lexical forms only
const LEX_FAMILIES: [&[&str]; 7] = [&["HTTP://example.org/a", "http://example.org/a"], &["1", "01", "+1", "1.0"], &[" a", "a", "a "], &["a\r\nb", "a\nb"], &["TRUE", "true", "True"], &["a%2fb", "a%2Fb"], &["en", "EN"]];
fn norm_iri(r: &mut Rng) -> &'static str { let f = *r.pick(&IRI_FAMILIES[..]); *r.pick(f) }
/// ... as a datatype: never rdf:langString itself (an untagged literal typed rdf:langString is ill-formed, the property quantifies over well-formed terms)
fn norm_dt(r: &mut Rng) -> &'static str { loop { let d = norm_iri(r); if d != "http://www.w3.org/1999/02/22-rdf-syntax-ns#langString" { return d; } } }
fn well_formed(st: &ST) -> bool { match st { SimpleTerm::LiteralDatatype(_, d) => d.as_str() != "http://www.w3.org/1999/02/22-rdf-syntax-ns#langString", SimpleTerm::Triple(tr) => tr.iter().all(well_formed), _ => true } }
/// the same term with the ASCII case of every letter of every language tag chosen at random (None if it has no tag)
fn mix_case(st: &ST, r: &mut Rng) -> Option<ST> {
    match st {
        SimpleTerm::LiteralLanguage(lex, tag) => { let t: String = tag.as_str().chars().map(|c| if r.chance(1, 2) { c.to_ascii_uppercase() } else { c.to_ascii_lowercase() }).collect(); Some(lit_lang(lex, &t)) }
        SimpleTerm::Triple(tr) => {
            let f: Vec<Option<ST>> = tr.iter().map(|c| mix_case(c, r)).collect();
            if f.iter().all(|x| x.is_none()) { None } else { let mut it = f.into_iter().zip(tr.iter()).map(|(x, o)| x.unwrap_or_else(|| o.clone())); Some(triple(it.next().unwrap(), it.next().unwrap(), it.next().unwrap())) }
        }
        _ => None,
    }
}
fn norm_text(r: &mut Rng) -> &'static str { let f = *r.pick(&TEXT_FAMILIES[..]); *r.pick(f) }
fn norm_lex(r: &mut Rng) -> &'static str { if r.chance(1, 2) { norm_text(r) } else { let f = *r.pick(&LEX_FAMILIES[..]); *r.pick(f) } }
/// an IRI of the historical shape http://e/<word>, or (one time out of three) a member of a family above
fn gen_iri_text(r: &mut Rng, w: &str) -> String { if r.chance(1, 3) { norm_iri(r).to_string() } else { format!("http://e/{w}") } }
/// the namespace constants of sophia_api::ns that the families above spell
fn ns_constants() -> [NsTerm<'static>; 5] { use sophia_api::ns::{rdf, rdfs, xsd}; [rdf::type_, rdf::langString, xsd::integer, xsd::string, rdfs::label] }
fn natural_split(i: &str) -> Option<usize> { i.rfind(|c| c == '#' || c == '/').map(|k| k + 1) }
fn word(r: &mut Rng) -> String { r.pick(&STRS[..]).replace(' ', "_").replace('\u{ffff}', "\u{ffef}") }
/// subject: IRI / blank node / strict triple; predicate: IRI; object: anything but a variable
fn gen_strict_triple(r: &mut Rng, depth: usize) -> ST {
    let s_ = match r.below(if depth > 1 { 4 } else { 3 }) { 0 | 1 => { let w = word(r); iri(&gen_iri_text(r, &w)) }, 2 => bnode(&format!("b{}", word(r))), _ => gen_strict_triple(r, depth - 1) };
    let p_ = iri(&format!("http://e/{}", r.ps(&["p", "q", "a", ""])));
    let o_ = match r.below(if depth > 1 { 6 } else { 5 }) {
        0 => { let w = word(r); iri(&gen_iri_text(r, &w)) }, 1 => bnode(&format!("b{}", word(r))), 2 => lit_dt(*r.pick(&STRS[..]), &format!("{XSD}string")),
        3 => { let l = *r.pick(&STRS[..]); lit_lang(l, *r.pick(&TAGS[..])) }, 4 => lit_dt(&r.below(3).to_string(), &format!("{XSD}integer")), _ => gen_strict_triple(r, depth - 1) };
    triple(s_, p_, o_)
}
fn gen_abs(r: &mut Rng, depth: usize) -> Abs {
    let k = r.below(if depth > 0 { 12 } else { 10 });
    let s = *r.pick(&STRS[..]);
    let w = s.replace(' ', "_").replace('\u{ffff}', "\u{ffef}");
    // one time out of three, a text with "normalisable" features instead of the short historical ones
    let lex: &str = if r.chance(1, 3) { norm_lex(r) } else { s };
    let (st, native) = match k {
        0 | 1 => (iri(&gen_iri_text(r, &w)), Native::None),
        2 if r.chance(1, 3) => (bnode(norm_text(r)), Native::None),
        2 => (bnode(&format!("{}{}{}", r.ps(&["b", "b", "_", "__", "_b", "0"]), w, r.ps(&["", "", "1", "-0"]))), Native::None),
        3 if r.chance(1, 3) => (var(norm_text(r)), Native::None),
        3 => (var(&format!("v{w}")), Native::None),
        4 => (lit_dt(lex, &format!("{XSD}string")), Native::Str),
        5 => (lit_lang(lex, *r.pick(&TAGS[..])), Native::None),
        6 if r.chance(1, 2) => (lit_dt(lex, norm_dt(r)), Native::None),
        6 => (lit_dt(s, *r.pick(&["http://e/dt", "http://e/", "http://www.w3.org/2001/XMLSchema#integer", "http://www.w3.org/1999/02/22-rdf-syntax-ns#langStrinG"])), Native::None),
        7 => { let x = *r.pick(&[0i32, 1, -1, 42, 200, i32::MAX, i32::MIN]);
               // mostly xsd:integer (the datatype of the native i32); sometimes a derived type whose range the value may or may not fit
               let dt = r.ps(&["integer", "integer", "integer", "integer", "unsignedByte", "negativeInteger", "short", "positiveInteger", "nonPositiveInteger", "unsignedInt"]);
               (lit_dt(&x.to_string(), &format!("{XSD}{dt}")), if dt == "integer" { Native::I32(x) } else { Native::None }) }
        8 => match r.below(3) {
            0 => { let x = *r.pick(&[0isize, 42, -7, isize::MAX, isize::MIN]); (lit_dt(&x.to_string(), &format!("{XSD}integer")), Native::Isize(x)) }
            1 => { let x = *r.pick(&[0usize, 42, usize::MAX]); (lit_dt(&x.to_string(), &format!("{XSD}integer")), Native::Usize(x)) }
            _ => { let x = r.chance(1, 2); (lit_dt(if x { "true" } else { "false" }, &format!("{XSD}boolean")), Native::Bool(x)) }
        },
        // the expected lexical form is stated here (XSD spelling of what Rust's Display prints), not taken from the implementation
        9 => { let (x, lex) = *r.pick(&[(0.0f64, "0"), (1.5, "1.5"), (-2.0, "-2"), (1e21, "1000000000000000000000"), (1e-7, "0.0000001"), (42.0, "42"), (f64::INFINITY, "INF"), (f64::NEG_INFINITY, "-INF"), (f64::NAN, "NaN")]);
               if r.chance(1, 5) { (lit_dt(lex, &format!("{XSD}{}", r.ps(&["float", "decimal"]))), Native::None) } else { (lit_dt(lex, &format!("{XSD}double")), Native::F64(x)) } }
        // half of the quoted triples have the strict RDF-star shape (so that rio's own Triple type can hold them)
        _ if r.chance(1, 2) => (gen_strict_triple(r, depth), Native::None),
        _ => {
            let (s_, p_, o_) = (gen_abs(r, depth - 1).st, gen_abs(r, depth - 1).st, gen_abs(r, depth - 1).st);
            (triple(s_, p_, o_), Native::None)
        }
    };
    let ns_split = match &st { SimpleTerm::Iri(i) => { let n = i.as_str().len(); let mut v = vec![0, n]; if let Some(k) = natural_split(i.as_str()) { if !v.contains(&k) { v.push(k); } } for _ in 0..2 { let k = r.below(n + 1); if i.as_str().is_char_boundary(k) { v.push(k) } } v.retain(|k| IriRef::new(&i.as_str()[..*k]).is_ok()); /* (the namespace of an NsTerm is itself an IRI reference) */ v } _ => vec![] };
    Abs { st, native, ns_split }
}

/// the same term with the ASCII case of every language tag swapped (None if it has no tag)
fn flip_case(st: &ST) -> Option<ST> {
    match st {
        SimpleTerm::LiteralLanguage(lex, tag) => { let t: String = tag.as_str().chars().map(|c| if c.is_ascii_lowercase() { c.to_ascii_uppercase() } else { c.to_ascii_lowercase() }).collect(); Some(lit_lang(lex, &t)) }
        SimpleTerm::Triple(tr) => {
            let f: Vec<Option<ST>> = tr.iter().map(flip_case).collect();
            if f.iter().all(|x| x.is_none()) { None } else { let mut it = f.into_iter().zip(tr.iter()).map(|(x, o)| x.unwrap_or_else(|| o.clone())); Some(triple(it.next().unwrap(), it.next().unwrap(), it.next().unwrap())) }
        }
        _ => None,
    }
}
/// terms that differ from `st` in ONE respect (a tag / IRI / label that extends or is a prefix of the original, another
/// lexical form or datatype, a quoted triple with the same atoms bracketed differently or with two components swapped)
fn chop(s: &str) -> &str { let mut c = s.chars(); c.next_back(); c.as_str() }
fn near_variants(st: &ST, r: &mut Rng) -> Vec<ST> {
    let ok_iri = |x: &str| IriRef::new(x).is_ok();
    let ext = |x: &str| format!("{x}a");
    match st {
        SimpleTerm::LiteralLanguage(l, tag) => { let t = tag.as_str();
            // a longer tag (a region, or a private-use subtag where a region cannot follow), the tag's first subtag; only well-formed tags (the unchecked constructor checks in debug builds)
            let longer = [format!("{t}-GB"), format!("{t}-x-gb"), format!("{t}-gb")].into_iter().find(|g| LanguageTag::new(g.as_str()).is_ok());
            let mut v = vec![]; if let Some(g) = longer { v.push(lit_lang(l, &g)); } v.push(lit_lang(&ext(l), t)); v.push(lit_dt(l, &format!("{XSD}string"))); /* (NOT an untagged literal typed rdf:langString: that term is ill-formed, and the property quantifies over well-formed terms) */ if let Some(k) = t.find('-') { if LanguageTag::new(&t[..k]).is_ok() { v.push(lit_lang(l, &t[..k])); } } v }
        SimpleTerm::LiteralDatatype(l, d) if l.chars().next().is_some_and(|c| c.is_ascii_digit() || c == '-') && r.chance(2, 3) => {
            // other spellings of the same number (not the same TERM): leading zero, plus sign, -0, decimal point
            let digits = l.trim_start_matches('-'); let neg = l.starts_with('-');
            vec![lit_dt(&format!("{}0{digits}", if neg { "-" } else { "" }), d.as_str()), lit_dt(&if neg { l.to_string() } else { format!("+{l}") }, d.as_str()), lit_dt(&if digits == "0" { "-0".to_string() } else { format!("{l}.0") }, d.as_str())] }
        SimpleTerm::LiteralDatatype(l, d) => { let mut v = vec![]; if ok_iri(&ext(d.as_str())) { v.push(lit_dt(l, &ext(d.as_str()))); } v.push(lit_dt(&ext(l), d.as_str())); v.push(lit_lang(l, "en")); if ok_iri(chop(d.as_str())) { v.push(lit_dt(l, chop(d.as_str()))); } v }
        SimpleTerm::Iri(i) => { let mut v = vec![]; if ok_iri(&ext(i.as_str())) { v.push(iri(&ext(i.as_str()))); } if ok_iri(chop(i.as_str())) { v.push(iri(chop(i.as_str()))); } v.push(lit_dt(i.as_str(), &format!("{XSD}string"))); v.push(lit_dt("", i.as_str())); v }
        // (the unchecked constructors check in debug builds: a label that is no variable name is not turned into a variable, and so on)
        SimpleTerm::BlankNode(b) => { let mut v = vec![bnode(&ext(b.as_str()))]; if VarName::new(b.as_str()).is_ok() { v.push(var(b.as_str())); } let i = format!("x:{}", b.as_str()); if IriRef::new(i.as_str()).is_ok() { v.push(iri(&i)); } v }
        SimpleTerm::Variable(x) => { let mut v = vec![var(&ext(x.as_str()))]; if BnodeId::new(x.as_str()).is_ok() { v.push(bnode(x.as_str())); } v }
        SimpleTerm::Triple(tr) => {
            let (a, b, c) = (tr[0].clone(), tr[1].clone(), tr[2].clone());
            let mut v = vec![triple(c.clone(), b.clone(), a.clone()), triple(a.clone(), c.clone(), b.clone())];
            if let SimpleTerm::Triple(x) = &a { v.push(triple(x[0].clone(), x[1].clone(), triple(x[2].clone(), b.clone(), c.clone()))); }
            if let SimpleTerm::Triple(x) = &c { v.push(triple(triple(a.clone(), b.clone(), x[0].clone()), x[1].clone(), x[2].clone())); }
            let k = r.below(3); let inner = near_variants(&tr[k], r); if !inner.is_empty() { let w = inner[r.below(inner.len())].clone(); let mut parts = [a, b, c]; parts[k] = w; v.push(triple(parts[0].clone(), parts[1].clone(), parts[2].clone())); }
            v
        }
    }
}
/// every way of reaching the hash of ONE value: Term::hash on the value, on references to it (the `&T` impl forwards), on what
/// `borrow_term` hands out, on a CmpTerm around it (which forwards Term::hash, and whose std Hash is Term::hash)
fn hash_entries<T: Term>(t: &T) -> Vec<(&'static str, Trace)> {
    vec![("Term::hash(value)", { let mut h = Rec::default(); Term::hash(t, &mut h); h.0 }),
        ("Term::hash(borrow_term())", rec(t.borrow_term())), ("Term::hash(borrow_term().borrow_term())", rec(t.borrow_term().borrow_term())),
        ("Term::hash(CmpTerm(borrow_term()))", rec(CmpTerm(t.borrow_term()))), ("Term::hash(CmpTerm(CmpTerm(borrow_term())))", rec(CmpTerm(CmpTerm(t.borrow_term())))),
        ("std Hash of CmpTerm(borrow_term())", rec_std(&CmpTerm(t.borrow_term()))), ("Term::hash(CmpTerm(borrow_term()).borrow_term())", rec(CmpTerm(t.borrow_term()).borrow_term()))]
}
/// the same through the `impl Term for &T` (which exists for the types that lend themselves as `&T`)
fn ref_entries<'a, T: Term<BorrowTerm<'a> = &'a T> + ?Sized>(t: &'a T) -> Vec<(&'static str, Trace)> {
    vec![("Term::hash(&value)", rec(t)), ("Term::hash(&&value)", { let mut h = Rec::default(); Term::hash(&t, &mut h); h.0 }), ("Term::hash(CmpTerm(&value))", rec(CmpTerm(t))), ("std Hash of CmpTerm(&value)", rec_std(&CmpTerm(t)))]
}
/// the std traits of a type holding terms must tell the same story as the Term methods
fn std_traits_agree<T: Term + Ord + Eq + std::hash::Hash>(x: &T, y: &T) -> Option<String> {
    let (te, tc) = (Term::eq(x, y.borrow_term()), Term::cmp(x, y.borrow_term()));
    if (x == y) != te { return Some(format!("== gives {} but Term::eq gives {te}", x == y)); }
    if Ord::cmp(x, y) != tc { return Some(format!("Ord::cmp gives {:?} but Term::cmp gives {tc:?}", Ord::cmp(x, y))); }
    if x.partial_cmp(y) != Some(tc) { return Some(format!("partial_cmp gives {:?} but Term::cmp gives {tc:?}", x.partial_cmp(y))); }
    if (x < y) != (tc == Ordering::Less) || (x > y) != (tc == Ordering::Greater) || (x <= y) != (tc != Ordering::Greater) { return Some(format!("the operators <, >, <= disagree with Term::cmp = {tc:?}")); }
    let h = |t: &T| { let mut r = Rec::default(); std::hash::Hash::hash(t, &mut r); r.0 };
    if te && h(x) != h(y) { return Some("equal values have different std hashes".into()); }
    None
}

// ---------- accessors, components, native conversions: what ONE value answers ----------
#[derive(PartialEq, Debug, Clone)]
struct View { kind: TermKind, is_iri: bool, is_bnode: bool, is_literal: bool, is_variable: bool, is_atom: bool, is_triple: bool,
    iri: Option<String>, bnode: Option<String>, lex: Option<String>, dt: Option<String>, tag: Option<String>, var: Option<String>, triple: bool }
fn view_ref<T: Term + ?Sized>(t: &T) -> View {
    View { kind: t.kind(), is_iri: t.is_iri(), is_bnode: t.is_blank_node(), is_literal: t.is_literal(), is_variable: t.is_variable(), is_atom: t.is_atom(), is_triple: t.is_triple(),
        iri: t.iri().map(|x| x.as_str().to_string()), bnode: t.bnode_id().map(|x| x.as_str().to_string()), lex: t.lexical_form().map(|x| x.to_string()),
        dt: t.datatype().map(|x| x.as_str().to_string()), tag: t.language_tag().map(|x| x.as_str().to_string()), var: t.variable().map(|x| x.as_str().to_string()), triple: t.triple().is_some() }
}
/// the expected answers, read off the enum (no Term method involved)
fn view_expected(st: &ST) -> View {
    let mut v = View { kind: TermKind::Iri, is_iri: false, is_bnode: false, is_literal: false, is_variable: false, is_atom: true, is_triple: false, iri: None, bnode: None, lex: None, dt: None, tag: None, var: None, triple: false };
    match st {
        SimpleTerm::Iri(i) => { v.is_iri = true; v.iri = Some(i.as_str().to_string()); }
        SimpleTerm::BlankNode(b) => { v.kind = TermKind::BlankNode; v.is_bnode = true; v.bnode = Some(b.as_str().to_string()); }
        SimpleTerm::Variable(x) => { v.kind = TermKind::Variable; v.is_variable = true; v.var = Some(x.as_str().to_string()); }
        SimpleTerm::LiteralDatatype(l, d) => { v.kind = TermKind::Literal; v.is_literal = true; v.lex = Some(l.to_string()); v.dt = Some(d.as_str().to_string()); }
        SimpleTerm::LiteralLanguage(l, g) => { v.kind = TermKind::Literal; v.is_literal = true; v.lex = Some(l.to_string()); v.dt = Some(format!("{RDF}langString")); v.tag = Some(g.as_str().to_string()); }
        SimpleTerm::Triple(_) => { v.kind = TermKind::Triple; v.is_atom = false; v.is_triple = true; v.triple = true; }
    }
    v
}
fn exp_atoms(st: &ST, out: &mut Vec<String>) { match st { SimpleTerm::Triple(tr) => for c in tr.iter() { exp_atoms(c, out) }, _ => out.push(coq_term(st)) } }
fn exp_constituents(st: &ST, out: &mut Vec<String>) { out.push(coq_term(st)); if let SimpleTerm::Triple(tr) = st { for c in tr.iter() { exp_constituents(c, out) } } }
fn exp_triple(st: &ST) -> Option<[String; 3]> { match st { SimpleTerm::Triple(tr) => Some([coq_term(&tr[0]), coq_term(&tr[1]), coq_term(&tr[2])]), _ => None } }

const INT_DTS: [&str; 12] = ["integer", "long", "int", "short", "unsignedLong", "unsignedInt", "unsignedShort", "unsignedByte", "nonNegativeInteger", "positiveInteger", "nonPositiveInteger", "negativeInteger"];
fn fmt_f64(v: f64) -> String { if v == f64::INFINITY { "INF".into() } else if v == f64::NEG_INFINITY { "-INF".into() } else { format!("{v}") } }
/// term -> native value (TryFromTerm of i32 / isize / usize / bool / f64): a success needs a literal of an accepted XSD datatype
/// whose lexical form denotes the value; the canonical spelling of the native type's own datatype must be accepted, and then
/// the native value, as a term, is an equal term.
fn native_fails<T: Term + Copy>(t: T, st: &ST) -> Vec<String> {
    let mut f = vec![];
    let (lex, dt) = match st { SimpleTerm::LiteralDatatype(l, d) => (Some(l.to_string()), Some(d.as_str().to_string())), SimpleTerm::LiteralLanguage(l, _) => (Some(l.to_string()), Some(format!("{RDF}langString"))), _ => (None, None) };
    let local = dt.as_deref().and_then(|d| d.strip_prefix(XSD));
    // value space of the bounded types derived from xsd:integer (stated from XSD, independently of the code under test)
    let in_range = |l: &str, v: i128| match l {
        "long" => i64::MIN as i128 <= v && v <= i64::MAX as i128, "int" => i32::MIN as i128 <= v && v <= i32::MAX as i128, "short" => -32768 <= v && v <= 32767,
        "unsignedLong" => 0 <= v && v <= u64::MAX as i128, "unsignedInt" => 0 <= v && v <= 4294967295, "unsignedShort" => 0 <= v && v <= 65535, "unsignedByte" => 0 <= v && v <= 255,
        "nonNegativeInteger" => v >= 0, "positiveInteger" => v >= 1, "nonPositiveInteger" => v <= 0, "negativeInteger" => v <= -1, _ => true };
    macro_rules! int { ($ty:ty, $allowed:expr) => {{
        let r = t.try_into_term::<$ty>();
        let parsed = lex.as_deref().and_then(|l| l.parse::<$ty>().ok());
        let canon = parsed.filter(|v| Some(v.to_string()) == lex);
        match (&r, local) {
            (Ok(v), Some(l)) if $allowed.contains(&l) => {
                if parsed != Some(*v) { f.push(format!("{}::try_from_term gives {v}, the lexical form denotes {parsed:?}", stringify!($ty))); }
                if !in_range(l, *v as i128) { f.push(format!("{}::try_from_term gives {v}, outside the value space of xsd:{l}", stringify!($ty))); }
                if l == "integer" && canon == Some(*v) && !(Term::eq(v, t) && Term::cmp(v, t) == Ordering::Equal && rec(*v) == rec(t)) { f.push(format!("{} {v} obtained from the term is not an equal term", stringify!($ty))); }
            }
            (Ok(v), _) => f.push(format!("{}::try_from_term accepts a term that is not an XSD integer literal (gives {v})", stringify!($ty))),
            (Err(_), Some(l)) if $allowed.contains(&l) && parsed.is_some_and(|p| in_range(l, p as i128)) => f.push(format!("{}::try_from_term rejects {lex:?}^^xsd:{l}, a value of that datatype that the native type can hold", stringify!($ty))),
            _ => {}
        }
    }}; }
    int!(i32, INT_DTS); int!(isize, INT_DTS); int!(usize, INT_DTS[..10]);
    match (t.try_into_term::<bool>(), local) {
        (Ok(v), Some("boolean")) => { if lex.as_deref() != Some(if v { "true" } else { "false" }) { f.push(format!("bool::try_from_term gives {v} for {lex:?}")); } if !(Term::eq(&v, t) && Term::cmp(&v, t) == Ordering::Equal) { f.push(format!("bool {v} obtained from the term is not an equal term")); } }
        (Ok(v), _) => f.push(format!("bool::try_from_term accepts a term that is not an xsd:boolean literal (gives {v})")),
        (Err(_), Some("boolean")) if matches!(lex.as_deref(), Some("true") | Some("false")) => f.push(format!("bool::try_from_term rejects {lex:?}")),
        _ => {}
    }
    let parsed = lex.as_deref().and_then(|l| if local == Some("float") { l.parse::<f32>().ok().map(f64::from) } else { l.parse::<f64>().ok() });
    let same = |a: f64, b: f64| a.to_bits() == b.to_bits() || (a.is_nan() && b.is_nan());
    match (t.try_into_term::<f64>(), local) {
        (Ok(v), Some(l)) if ["double", "float", "decimal"].contains(&l) => {
            if !parsed.is_some_and(|p| same(p, v)) { f.push(format!("f64::try_from_term gives {v}, the lexical form denotes {parsed:?}")); }
            if l == "double" && Some(fmt_f64(v)) == lex && !(Term::eq(&v, t) && Term::cmp(&v, t) == Ordering::Equal && rec(v) == rec(t)) { f.push(format!("f64 {v} obtained from the term is not an equal term")); }
        }
        (Ok(v), _) => f.push(format!("f64::try_from_term accepts a term that is not an XSD double/float/decimal literal (gives {v})")),
        (Err(_), Some("double")) if parsed.is_some_and(|p| Some(fmt_f64(p)) == lex) => f.push(format!("f64::try_from_term rejects the canonical xsd:double {lex:?}")),
        _ => {}
    }
    f
}


/// directed term -> native conversions at the edges of the XSD value spaces, with the expected outcome written down
fn directed_native_fails() -> Vec<String> {
    let mut f = vec![];
    // (lexical form, datatype, is the number in the value space of the datatype?)
    let ints: [(&str, &str, bool); 30] = [("255", "unsignedByte", true), ("256", "unsignedByte", false), ("200", "unsignedByte", true), ("-1", "unsignedByte", false), ("0", "unsignedByte", true),
        ("32767", "short", true), ("32768", "short", false), ("-32768", "short", true), ("-32769", "short", false), ("0", "positiveInteger", false), ("1", "positiveInteger", true),
        ("0", "negativeInteger", false), ("-1", "negativeInteger", true), ("0", "nonPositiveInteger", true), ("1", "nonPositiveInteger", false), ("-1", "nonNegativeInteger", false), ("0", "nonNegativeInteger", true),
        ("4294967295", "unsignedInt", true), ("4294967296", "unsignedInt", false), ("2147483647", "int", true), ("2147483648", "int", false), ("-2147483648", "int", true), ("-2147483649", "int", false),
        ("9223372036854775807", "long", true), ("65535", "unsignedShort", true), ("65536", "unsignedShort", false), ("18446744073709551615", "unsignedLong", true), ("-1", "unsignedLong", false),
        ("+7", "integer", true), ("007", "integer", true)];
    for (lex, dt, inside) in ints {
        let st = lit_dt(lex, &format!("{XSD}{dt}")); let v: i128 = lex.parse().unwrap();
        macro_rules! one { ($ty:ty, $ok_dt:expr) => {{
            let exp: Option<$ty> = if inside && $ok_dt { <$ty>::try_from(v).ok() } else { None };
            let got = <$ty>::try_from_term(&st).ok();
            if got != exp { f.push(format!("{}::try_from_term({lex:?}^^xsd:{dt}) = {got:?}, expected {exp:?}", stringify!($ty))); }
        }}; }
        one!(i32, true); one!(isize, true); one!(usize, dt != "nonPositiveInteger" && dt != "negativeInteger");
        if bool::try_from_term(&st).is_ok() || f64::try_from_term(&st).is_ok() { f.push(format!("bool / f64 ::try_from_term accepts {lex:?}^^xsd:{dt}")); }
    }
    let nan = f64::NAN;
    let floats: [(&str, &str, Option<f64>); 22] = [("1.5", "double", Some(1.5)), ("1e3", "double", Some(1000.0)), ("1E-2", "double", Some(0.01)), ("INF", "double", Some(f64::INFINITY)), ("+INF", "double", Some(f64::INFINITY)), ("-INF", "double", Some(f64::NEG_INFINITY)), ("NaN", "double", Some(nan)),
        ("inf", "double", None), ("Infinity", "double", None), ("nan", "double", None), ("-inf", "double", None), ("1.5", "string", None), ("1.5", "integer", None), ("", "double", None), ("1e", "double", None),
        ("1.1", "float", Some(1.1f32 as f64)), ("INF", "float", Some(f64::INFINITY)), ("16777217", "float", Some(16777216.0)), (".5", "decimal", Some(0.5)), ("5.", "decimal", Some(5.0)), ("INF", "decimal", None), ("1e3", "decimal", None)];
    for (lex, dt, exp) in floats {
        let st = lit_dt(lex, &format!("{XSD}{dt}")); let got = f64::try_from_term(&st).ok();
        let same = match (got, exp) { (None, None) => true, (Some(a), Some(b)) => a.to_bits() == b.to_bits() || (a.is_nan() && b.is_nan()), _ => false };
        if !same { f.push(format!("f64::try_from_term({lex:?}^^xsd:{dt}) = {got:?}, expected {exp:?}")); }
    }
    for (lex, dt, exp) in [("true", "boolean", Some(true)), ("false", "boolean", Some(false)), ("true", "string", None), ("TRUE", "boolean", None), ("", "boolean", None)] {
        let got = bool::try_from_term(&lit_dt(lex, &format!("{XSD}{dt}"))).ok();
        if got != exp { f.push(format!("bool::try_from_term({lex:?}^^xsd:{dt}) = {got:?}, expected {exp:?}")); }
    }
    // never from a language-tagged string or a non-literal
    for st in [lit_lang("1", "en"), iri("http://e/1"), bnode("1"), var("1"), triple(iri("http://e/1"), iri("http://e/1"), lit_dt("1", &format!("{XSD}integer")))] {
        if i32::try_from_term(&st).is_ok() || isize::try_from_term(&st).is_ok() || usize::try_from_term(&st).is_ok() || bool::try_from_term(&st).is_ok() || f64::try_from_term(&st).is_ok() { f.push(format!("a native value is obtained from {st:?}")); }
    }
    f
}

/// everything one value answers: accessors (on the value and on what `borrow_term` hands out), component iterators
/// (borrowing and consuming), components, native conversions
struct Obs { views: Vec<(&'static str, View)>, atoms: Vec<(&'static str, Vec<String>)>, constituents: Vec<(&'static str, Vec<String>)>, triples: Vec<(&'static str, Option<[String; 3]>)>, native: Vec<String>,
    /// the graph-name comparison of this value with `st` itself and with the default graph
    gn: [bool; 4] }
fn observe<T: Term + Clone>(t: &T, st: &ST) -> Obs {
    let b = t.borrow_term();
    Obs {
        views: vec![("value", view_ref(t)), ("borrow_term()", view_ref(&b)), ("borrow_term().borrow_term()", view_ref(&b.borrow_term()))],
        atoms: vec![("atoms", t.atoms().map(|x| coq_term(x)).collect()), ("to_atoms", t.clone().to_atoms().map(|x| coq_term(x)).collect()),
            ("borrow_term().atoms", b.atoms().map(|x| coq_term(x)).collect()), ("borrow_term().to_atoms", b.to_atoms().map(|x| coq_term(x)).collect())],
        constituents: vec![("constituents", t.constituents().map(|x| coq_term(x)).collect()), ("to_constituents", t.clone().to_constituents().map(|x| coq_term(x)).collect()),
            ("borrow_term().constituents", b.constituents().map(|x| coq_term(x)).collect()), ("borrow_term().to_constituents", b.to_constituents().map(|x| coq_term(x)).collect())],
        triples: vec![("triple", t.triple().map(|a| a.map(|x| coq_term(x)))), ("to_triple", t.clone().to_triple().map(|a| a.map(|x| coq_term(x)))),
            ("borrow_term().triple", b.triple().map(|a| a.map(|x| coq_term(x)))), ("borrow_term().to_triple", b.to_triple().map(|a| a.map(|x| coq_term(x))))],
        native: native_fails(b, st),
        gn: [graph_name_eq(Some(b), Some(st)), graph_name_eq(Some(st), Some(b)), graph_name_eq(Some(b), None::<&ST>), graph_name_eq(None::<&ST>, Some(b))],
    }
}
fn coq_oterm(o: &Option<[String; 3]>) -> String { match o { None => "None".into(), Some([s, p, o]) => format!("(Some ({s}, {p}, {o}))") } }
fn coq_ostr(o: &Option<String>) -> String { coq_opt(o.as_deref().map(coq_str)) }
fn kind_rank(k: TermKind) -> usize { match k { TermKind::BlankNode => 0, TermKind::Iri => 1, TermKind::Literal => 2, TermKind::Triple => 3, TermKind::Variable => 4 } }

/// a value built along some other construction path must spell the term (and so be equal, compare Equal, hash the same)
fn same<T: Term>(how: &str, c: T, st: &ST, h0: &Trace, obs: &mut Vec<String>, fails: &mut Vec<String>) {
    let spelled = coq_term(c.borrow_term());
    if !(Term::eq(&c, st) && Term::eq(st, c.borrow_term()) && Term::cmp(&c, st) == Ordering::Equal && Term::cmp(st, c.borrow_term()) == Ordering::Equal && rec(c.borrow_term()) == *h0 && spelled == coq_term(st)) {
        fails.push(format!("{how}: built {c:?} for the term {st:?} (eq={}, cmp={:?}, same hash={})", Term::eq(&c, st), Term::cmp(&c, st), rec(c.borrow_term()) == *h0));
    }
    obs.push(spelled);
}
/// the wrapper types' std traits against str and against the Term methods
fn wrapper_traits<W>(x: &W, y: &W, xs: &str, ys: &str) -> Option<String>
where W: Term + Ord + std::hash::Hash + PartialEq<str> + PartialOrd<str> + AsRef<str> + Borrow<str>, str: PartialEq<W> + PartialOrd<W> {
    if let Some(d) = std_traits_agree(x, y) { return Some(d); }
    let (e, c) = (Term::eq(x, y.borrow_term()), Term::cmp(x, y.borrow_term()));
    if (*x == *ys) != e || (*xs == *y) != e { return Some(format!("== with a str gives {} / {}, Term::eq gives {e}", *x == *ys, *xs == *y)); }
    if x.partial_cmp(ys) != Some(c) || xs.partial_cmp(y) != Some(c) { return Some(format!("partial_cmp with a str gives {:?} / {:?}, Term::cmp gives {c:?}", x.partial_cmp(ys), xs.partial_cmp(y))); }
    if AsRef::<str>::as_ref(x) != xs || Borrow::<str>::borrow(x) != xs { return Some("AsRef<str> / Borrow<str> do not give the wrapped text".into()); }
    // Borrow<str> promises that the wrapper hashes like the text it wraps (a map keyed by wrappers is probed with a &str)
    let (mut h1, mut h2) = (Rec::default(), Rec::default()); std::hash::Hash::hash(x, &mut h1); std::hash::Hash::hash(xs, &mut h2);
    if h1.0 != h2.0 { return Some("the wrapper's std hash differs from the hash of the text it wraps (Borrow<str> contract)".into()); }
    None
}
/// PartialEq<T> / PartialOrd<T> of a term type against ANY other term type
fn cross_traits<X: Term + PartialEq<Y> + PartialOrd<Y>, Y: Term>(x: &X, y: &Y) -> Option<String> {
    let (e, c) = (Term::eq(x, y.borrow_term()), Term::cmp(x, y.borrow_term()));
    if (x == y) != e || (x != y) == e { return Some(format!("== gives {} but Term::eq gives {e}", x == y)); }
    if x.partial_cmp(y) != Some(c) || (x < y) != (c == Ordering::Less) || (x >= y) != (c != Ordering::Less) { return Some(format!("partial_cmp gives {:?} but Term::cmp gives {c:?}", x.partial_cmp(y))); }
    None
}
/// the strings a term is made of
fn collect_strs(st: &ST, out: &mut std::collections::BTreeSet<String>) { match st {
    SimpleTerm::Iri(i) => { out.insert(i.as_str().to_string()); } SimpleTerm::BlankNode(l) => { out.insert(l.as_str().to_string()); } SimpleTerm::Variable(n) => { out.insert(n.as_str().to_string()); }
    SimpleTerm::LiteralDatatype(l, d) => { out.insert(l.to_string()); out.insert(d.as_str().to_string()); } SimpleTerm::LiteralLanguage(l, g) => { out.insert(l.to_string()); out.insert(g.as_str().to_string()); }
    SimpleTerm::Triple(tr) => for c in tr.iter() { collect_strs(c, out) } } }
fn c_cmp(o: Ordering) -> &'static str { match o { Ordering::Less => "Lt", Ordering::Equal => "Eq", Ordering::Greater => "Gt" } }

fn main() {
    let a = parse_args();
    let mut sum = Summary::default();
    sum.rule = "batches of abstract terms (all kinds, nesting <= 2, case-variant language tags, non-BMP strings, native-valued literals); each term is instantiated in every Term type that can hold it; \
evaluation = one ordered pair of abstract terms compared in ALL pairs of representations (eq, cmp) or one term hashed in all representations or converted along every conversion path; \
or one term observed through every accessor / component iterator / to_triple / native conversion of every representation, or rebuilt along every other construction path (From impls, checked and const constructors, `*` operators, stash copies, JSON-LD vocabulary round trips, rio statement accessors), or one graph-name comparison; \
hashes are compared as sequences of Hasher calls (method + argument) through every entry point, and as digests of three boundary-sensitive hashers; \
the pools include families of IRIs / labels / names / lexical forms that a normalisation would identify (scheme, host and percent-encoding case, dot segments, default ports, NFC/NFD, IDNA) and language tags in every case mix, all of them copied into string stashes along three histories (pool order, reverse, rotated; replayed in the Coq stash model) and into a term index; \
non-trivial pair = equal-but-differently-spelled terms, or same-kind unequal terms; distinct = distinct printed pair".into();
    let base = Rng::new(a.seed);
    let batches: Vec<usize> = match a.only { Some(i) => vec![i], None => (0..a.n).collect() };
    let mut cases: Vec<(usize, String)> = vec![];
    let mut header = String::from("From Sophia.C02 Require Import Model.\n");
    let mut seen = std::collections::HashSet::new();
    let mut case_no = 0usize;
    let pool_size = 14;
    for b in batches {
        let mut r = base.fork(b as u64);
        let mut pool: Vec<Abs> = (0..pool_size).map(|_| gen_abs(&mut r, 2)).collect();
        // equal-but-differently-spelled twins: every tagged term also appears with its tag case swapped
        let twins: Vec<Abs> = pool.iter().filter_map(|x| flip_case(&x.st)).map(|st| Abs { st, native: Native::None, ns_split: vec![] }).collect();
        pool.extend(twins.into_iter().take(4));
        // near misses: for a few terms of the pool, terms differing from them in one respect only
        for _ in 0..3 { let k = r.below(pool_size); let nv = near_variants(&pool[k].st.clone(), &mut r); for st in nv.into_iter().filter(well_formed).take(3) { pool.push(Abs { st, native: Native::None, ns_split: vec![] }); } }
        // ---- directed stream: texts that a normalisation would identify, side by side in the same batch (hence in the same stashes, indexes, comparisons) ----
        { let mut extra: Vec<ST> = vec![];
          // two families of IRIs per batch, rotating: 11 batches visit the 22 families
          for q in 0..2 {
              let fam = IRI_FAMILIES[(2 * b + q + a.seed as usize) % IRI_FAMILIES.len()];
              let mut ms: Vec<&str> = vec![fam[0]]; let k1 = 1 + r.below(fam.len() - 1); ms.push(fam[k1]); let k2 = 1 + r.below(fam.len() - 1); if k2 != k1 { ms.push(fam[k2]); }
              for m in &ms { extra.push(iri(m)); }
              let d = ms[r.below(ms.len())]; extra.push(lit_dt(*r.pick(&["1", "a", ""]), d));
              if q == 0 { let (x, y, z) = (ms[r.below(ms.len())], ms[r.below(ms.len())], ms[r.below(ms.len())]); extra.push(triple(iri(x), iri(y), if r.chance(1, 2) { lit_dt("1", z) } else { iri(z) })); }
          }
          // one family of other texts, as blank node labels / variable names / lexical forms (rotating)
          { let fam = TEXT_FAMILIES[(b + a.seed as usize) % TEXT_FAMILIES.len()]; let (x, y) = (fam[0], fam[1 + r.below(fam.len() - 1)]);
            match (b / TEXT_FAMILIES.len() + b) % 4 { 0 => { extra.push(bnode(x)); extra.push(bnode(y)); } 1 => { extra.push(var(x)); extra.push(var(y)); } 2 => { extra.push(lit_dt(x, &format!("{XSD}string"))); extra.push(lit_dt(y, &format!("{XSD}string"))); } _ => { extra.push(lit_lang(x, "en")); extra.push(lit_lang(y, "EN")); } } }
          { let fam = LEX_FAMILIES[(b + a.seed as usize) % LEX_FAMILIES.len()]; let (x, y) = (fam[0], fam[1 + r.below(fam.len() - 1)]); let d = if r.chance(1, 2) { format!("{XSD}string") } else { norm_dt(&mut r).to_string() }; extra.push(lit_dt(x, &d)); extra.push(lit_dt(y, &d)); }
          // language tags in a random case mix: equal terms
          let tagged: Vec<ST> = pool.iter().chain(std::iter::once(&Abs { st: lit_lang("chat", *r.pick(&TAGS[..])), native: Native::None, ns_split: vec![] })).filter_map(|x| mix_case(&x.st, &mut r)).collect();
          for st in tagged.into_iter().rev().take(2) { extra.push(st); }
          // in a random order (the order of insertion into the stashes / the index)
          while !extra.is_empty() { let k = r.below(extra.len()); let st = extra.swap_remove(k); if well_formed(&st) { let ns_split = match &st { SimpleTerm::Iri(i) => { let n = i.as_str().len(); let mut v = vec![n]; if let Some(k) = natural_split(i.as_str()) { if k != n { v.push(k); } } let k = r.below(n + 1); if i.as_str().is_char_boundary(k) && !v.contains(&k) { v.push(k); } v.retain(|k| IriRef::new(&i.as_str()[..*k]).is_ok()); v } _ => vec![] }; pool.push(Abs { st, native: Native::None, ns_split }); } }
        }
        // ---- stash histories: the batch-wide stashes below receive the terms in pool order; these receive them in reverse order / rotated ----
        let mut arc_rev = ArcStrStash::new(); let mut rc_rot = RcStrStash::new();
        let rev_order: Vec<usize> = (0..pool.len()).rev().collect();
        let rot_order: Vec<usize> = (0..pool.len()).map(|k| (k + b + 1) % pool.len()).collect();
        let mut rev_copies: Vec<Option<ArcTerm>> = vec![None; pool.len()]; let mut rot_copies: Vec<Option<RcTerm>> = vec![None; pool.len()];
        for k in &rev_order { rev_copies[*k] = Some(arc_rev.copy_term(&pool[*k].st)); }
        for k in &rot_order { rot_copies[*k] = Some(rc_rot.copy_term(pool[*k].st.borrow_term())); }
        // ---- the term index of sophia_inmem (an interning container keyed by Term::hash / Term::eq) ----
        let mut tindex = SimpleTermIndex::<u32>::new();
        let tidx: Vec<u32> = pool.iter().map(|x| tindex.ensure_index(&x.st).unwrap()).collect();
        let mut arc_stash = ArcStrStash::new(); let mut rc_stash = RcStrStash::new();
        let all: Vec<Vec<Rep>> = pool.iter().map(|x| reps(x, &mut arc_stash, &mut rc_stash)).collect();
        for (i, x) in pool.iter().enumerate() { header.push_str(&format!("Definition t{b}_{i} : term := {}.\n", coq_term(&x.st))); }
        // hashing: all representations, through every entry point, make the same CALLS on the hasher (so: same digest with ANY hasher)
        let mut tr: Vec<Vec<Trace>> = vec![];
        for (i, x) in pool.iter().enumerate() {
            let h0 = rec(&x.st); let d0 = digests(&x.st);
            let mut mine: Vec<Trace> = vec![]; let mut picked: Option<Trace> = None;
            let pick = (i * 7 + b) % all[i].len();
            for (k, rp) in all[i].iter().enumerate() {
                let h = with_rep!(rp, t => rec(t.borrow_term()));
                if h != h0 { sum.oracle_failures.push((format!("{b}"), format!("hash differs between representations of {:?}: {} calls {:?}, SimpleTerm calls {:?} ({})", x.st, rep_name(rp), h, h0, told_apart(&h, &h0)))); }
                // every way of reaching the hash of this value: the value, references to it, what borrow_term hands out, CmpTerm around it (Term::hash and std Hash)
                let mut entries = with_rep!(rp, t => hash_entries(t));
                entries.extend(match rp {
                    Rep::Simple(y) => ref_entries(y), Rep::SimpleRef(y) => ref_entries(*y), Rep::Borrowed(y) => ref_entries(y), Rep::Arc(y) | Rep::ArcStashed(y) => ref_entries(y), Rep::Rc(y) | Rep::RcStashed(y) => ref_entries(y),
                    Rep::GenLit(y) => ref_entries(y), Rep::Ns(y) => ref_entries(y), Rep::IriW(y) => ref_entries(y), Rep::IriRefW(y) => ref_entries(y), Rep::BnodeW(y) => ref_entries(y), Rep::VarW(y) => ref_entries(y),
                    Rep::Str(y) => ref_entries::<str>(y),
                    Rep::JRdf(y) => ref_entries(y), _ => vec![] });
                for (how, e) in &entries { if *e != h0 { sum.oracle_failures.push((format!("{b}"), format!("hash differs between representations of {:?}: {how} on {} calls {:?}, SimpleTerm calls {:?} ({})", x.st, rep_name(rp), e, h0, told_apart(e, &h0)))); } sum.bump("hash entry point"); }
                // the std Hash of the term types that have one
                let sh: Option<Trace> = match rp { Rep::Simple(y) => Some(rec_std(y)), Rep::Borrowed(y) => Some(rec_std(y)), Rep::Arc(y) | Rep::ArcStashed(y) => Some(rec_std(y)), Rep::Rc(y) | Rep::RcStashed(y) => Some(rec_std(y)),
                    Rep::Cmp(y) => Some(rec_std(y)), Rep::CmpArc(y) => Some(rec_std(y)), Rep::GenLit(y) => Some(rec_std(y)), Rep::Result(y) | Rep::ResultCached(y) => Some(rec_std(y)), _ => None };
                if let Some(e) = sh { if e != h0 { sum.oracle_failures.push((format!("{b}"), format!("std Hash of {} holding {:?} calls {:?}, Term::hash of the SimpleTerm calls {:?} ({})", rep_name(rp), x.st, e, h0, told_apart(&e, &h0)))); } sum.bump("hash entry point"); }
                // three real hashers that are sensitive to the boundaries of the calls (+ SipHash), driven by the real Term::hash
                let d = with_rep!(rp, t => digests(t));
                if d != d0 { let which: Vec<&str> = (0..4).filter(|q| d[*q] != d0[*q]).map(|q| HASHERS[q]).collect(); sum.oracle_failures.push((format!("{b}"), format!("equal terms hash differently under the hasher(s) {which:?}: {} holding {:?} vs the SimpleTerm", rep_name(rp), x.st))); }
                if k == pick { picked = Some(entries[(i + b) % entries.len()].1.clone()); }
                mine.push(h);
                sum.bump(&format!("rep:{}", rep_name(rp)));
            }
            tr.push(mine);
            cases.push((case_no, format!("hash_ok t{b}_{i} {}", coq_bytes(&h0.bytes())))); case_no += 1; sum.evaluations += 1;
            // the model's call sequence against what one representation (rotating) did through one entry point (rotating)
            cases.push((case_no, format!("hash_calls_ok t{b}_{i} {}", picked.unwrap().coq()))); case_no += 1; sum.evaluations += 1;
            // conversions along every path yield an equal term
            for rp in &all[i] {
                macro_rules! conv { ($ty:ty, $name:expr) => {{
                    let c: $ty = with_rep!(rp, t => t.borrow_term().into_term());
                    if !Term::eq(&c, x.st.borrow_term()) || Term::cmp(&c, x.st.borrow_term()) != Ordering::Equal || rec(&c) != h0 {
                        sum.oracle_failures.push((format!("{b}"), format!("conversion {} -> {} of {:?} is not an equal term", rep_name(rp), $name, x.st)));
                    }
                    sum.bump("conversion");
                }}; }
                conv!(SimpleTerm<'static>, "SimpleTerm"); conv!(ArcTerm, "ArcTerm"); conv!(RcTerm, "RcTerm");
                let c = with_rep!(rp, t => arc_stash.copy_term(t.borrow_term()));
                if !Term::eq(&c, x.st.borrow_term()) { sum.oracle_failures.push((format!("{b}"), format!("stash copy of {} {:?} differs", rep_name(rp), x.st))); }
                if x.st.is_literal() {
                    let c: GenericLiteral<String> = with_rep!(rp, t => t.borrow_term().try_into_term().unwrap());
                    if !Term::eq(&c, x.st.borrow_term()) { sum.oracle_failures.push((format!("{b}"), format!("conversion {} -> GenericLiteral of {:?} is not an equal term", rep_name(rp), x.st))); }
                }
                let c = with_rep!(rp, t => t.as_simple());
                if !Term::eq(&c, x.st.borrow_term()) { sum.oracle_failures.push((format!("{b}"), format!("as_simple of {} {:?} differs", rep_name(rp), x.st))); }
            }

            // ---- accessors, component iterators, components, native conversions, graph-name comparison: every representation ----
            let ev = view_expected(&x.st); let et = exp_triple(&x.st);
            let (mut ea, mut ec) = (vec![], vec![]); exp_atoms(&x.st, &mut ea); exp_constituents(&x.st, &mut ec);
            let pick = (i + b) % all[i].len();
            for (k, rp) in all[i].iter().enumerate() {
                let o = with_rep!(rp, t => observe(t, &x.st));
                let mut bad: Vec<String> = vec![];
                for (how, v) in &o.views { if *v != ev { bad.push(format!("accessors ({how}) answer {v:?}, expected {ev:?}")); } }
                for (how, l) in &o.atoms { if *l != ea { bad.push(format!("{how} yields {l:?}, expected {ea:?}")); } }
                for (how, l) in &o.constituents { if *l != ec { bad.push(format!("{how} yields {l:?}, expected {ec:?}")); } }
                for (how, l) in &o.triples { if *l != et { bad.push(format!("{how} yields {l:?}, expected {et:?}")); } }
                bad.extend(o.native.iter().cloned());
                if o.gn != [true, true, false, false] { bad.push(format!("graph_name_eq(Some(t),Some(t)), (reversed), (Some(t),None), (None,Some(t)) = {:?}", o.gn)); }
                if let Rep::Str(t) = rp { // the unsized impl itself (the rows above went through `&str`)
                    if view_ref::<str>(t) != ev { bad.push("accessors of str differ".into()); }
                    let bt: &str = <str as Term>::borrow_term(t);
                    if !Term::eq(bt, &x.st) || <str as Term>::atoms(t).map(|y| coq_term(y)).collect::<Vec<_>>() != ea { bad.push("str::borrow_term / atoms differ".into()); }
                }
                for d in bad { sum.oracle_failures.push((format!("{b}"), format!("{} holding {:?}: {d}", rep_name(rp), x.st))); }
                sum.bump("value observed through accessors/iterators");
                if k == pick { // the model against what THIS representation answered (the others were compared with it above)
                    let v = &o.views[i % 3].1;
                    cases.push((case_no, format!("tview_ok t{b}_{i} {} {} {} {} {} {} {} {}", kind_rank(v.kind), coq_bool(v.is_atom), coq_ostr(&v.iri), coq_ostr(&v.bnode), coq_ostr(&v.lex), coq_ostr(&v.dt), coq_ostr(&v.tag), coq_ostr(&v.var)))); case_no += 1;
                    cases.push((case_no, format!("atoms_ok t{b}_{i} {}", coq_list(o.atoms[i % 4].1.iter().cloned())))); case_no += 1;
                    cases.push((case_no, format!("constituents_ok t{b}_{i} {}", coq_list(o.constituents[(i + 1) % 4].1.iter().cloned())))); case_no += 1;
                    cases.push((case_no, format!("to_triple_ok t{b}_{i} {}", coq_oterm(&o.triples[(i + 2) % 4].1)))); case_no += 1;
                    cases.push((case_no, format!("gname_ok (Some t{b}_{i}) None {} && gname_ok None (Some t{b}_{i}) {}", coq_bool(o.gn[2]), coq_bool(o.gn[3])))); case_no += 1;
                    sum.evaluations += 5;
                }
            }
            // ---- other construction paths: From impls, checked / const constructors, `*` operators, stash copies, vocabulary round trips ----
            let mut built: Vec<String> = vec![]; let mut bf: Vec<String> = vec![];
            same("ArcTerm::from(parts)", arc_from_parts(&x.st), &x.st, &h0, &mut built, &mut bf);
            same("RcTerm::from(parts)", rc_from_parts(&x.st), &x.st, &h0, &mut built, &mut bf);
            { let rt = result_from_parts(&x.st); same("ResultTerm::from(parts)", rt.clone(), &x.st, &h0, &mut built, &mut bf); same("ResultTerm::inner", rt.inner(), &x.st, &h0, &mut built, &mut bf); same("ResultTerm::unwrap", rt.unwrap(), &x.st, &h0, &mut built, &mut bf); }
            for j in jrdf_forms(&x.st) { same("RdfTerm::from", j, &x.st, &h0, &mut built, &mut bf); }
            same("SimpleTerm::from_term_ref", SimpleTerm::from_term_ref(&x.st), &x.st, &h0, &mut built, &mut bf);
            same("RcStrStash::copy_term", rc_stash.copy_term(&x.st), &x.st, &h0, &mut built, &mut bf);
            // stash copies along other histories: terms copied in reverse / rotated order, a stash of its own, copies of copies, a second copy
            same("ArcStrStash::copy_term (terms copied in reverse order)", rev_copies[i].clone().unwrap(), &x.st, &h0, &mut built, &mut bf);
            same("RcStrStash::copy_term (terms copied in rotated order)", rot_copies[i].clone().unwrap(), &x.st, &h0, &mut built, &mut bf);
            same("ArcStrStash::copy_term (second copy)", arc_rev.copy_term(&x.st), &x.st, &h0, &mut built, &mut bf);
            same("ArcStrStash::new().copy_term", ArcStrStash::new().copy_term(&x.st), &x.st, &h0, &mut built, &mut bf);
            same("RcStrStash::new().copy_term", RcStrStash::new().copy_term(&x.st), &x.st, &h0, &mut built, &mut bf);
            same("RcStrStash::copy_term(ArcStrStash::copy_term)", rc_rot.copy_term(rev_copies[i].as_ref().unwrap()), &x.st, &h0, &mut built, &mut bf);
            same("ArcStrStash::copy_term(RcStrStash::copy_term)", ArcStrStash::default().copy_term(rot_copies[i].as_ref().unwrap()), &x.st, &h0, &mut built, &mut bf);
            // every string of the term through copy_str / get_or_insert / get
            { let mut strs = std::collections::BTreeSet::new(); collect_strs(&x.st, &mut strs);
              for t in &strs { if &*arc_rev.copy_str(t.as_str()) != t.as_str() || &**rc_rot.get_or_insert(t) != t.as_str() || arc_rev.get(t).map(|y| &**y) != Some(t.as_str()) || rc_rot.get(t).map(|y| &**y) != Some(t.as_str()) { bf.push(format!("copy_str / get_or_insert / get of {t:?} does not give that text")); } } }
            // the term index: the term it holds for this index is equal to the term (and spelled like the first term of the class it was given)
            { let first = tidx.iter().position(|k| *k == tidx[i]).unwrap();
              let held = tindex.get_term(tidx[i]);
              if !Term::eq(held, &x.st) || rec(held) != h0 || coq_term(held) != coq_term(&pool[first].st) { bf.push(format!("SimpleTermIndex holds {held:?} for the index given to {:?}", x.st)); }
              for rp in &all[i] { let got = with_rep!(rp, t => tindex.get_index(t.borrow_term())); if got != Some(tidx[i]) { bf.push(format!("SimpleTermIndex::get_index({} {:?}) = {got:?}, the term was given the index {}", rep_name(rp), x.st, tidx[i])); } }
              if first == i { built.push(coq_term(held)); } }
            let leak = |t: &str| -> &'static str { Box::leak(t.to_string().into_boxed_str()) };
            match &x.st {
                SimpleTerm::Iri(i) => {
                    let t = i.as_str();
                    match IriRef::new(t) { Ok(w) => same("IriRef::new", w, &x.st, &h0, &mut built, &mut bf), Err(e) => bf.push(format!("IriRef::new rejects {t:?}: {e}")) }
                    if let Ok(w) = Iri::new(t) { same("Iri::new", w, &x.st, &h0, &mut built, &mut bf); same("Iri::new_unchecked_const", Iri::new_unchecked_const(leak(t)), &x.st, &h0, &mut built, &mut bf); }
                    same("IriRef::new_unchecked_const", IriRef::new_unchecked_const(leak(t)), &x.st, &h0, &mut built, &mut bf);
                    same("ArcStrStash::copy_iri", arc_stash.copy_iri(IriRef::new_unchecked(t)), &x.st, &h0, &mut built, &mut bf);
                    same("RcStrStash::copy_iri", rc_stash.copy_iri(IriRef::new_unchecked(t)), &x.st, &h0, &mut built, &mut bf);
                    for k in &x.ns_split { let ns = NsTerm::new_unchecked(IriRef::new_unchecked(&t[..*k]), &t[*k..]); same("NsTerm::iriref", ns.iriref(), &x.st, &h0, &mut built, &mut bf); same("NsTerm::to_iriref", ns.to_iriref(), &x.st, &h0, &mut built, &mut bf); }
                    if let Some(ai) = arc_iri(t) { let (v1, mut v2) = (ArcVoc::default(), ArcVoc::default());
                        same("ArcVoc::get(iri)", v1.get(v1.iri(&ai).unwrap()).unwrap(), &x.st, &h0, &mut built, &mut bf); same("ArcVoc::insert(iri)", v2.insert(v1.iri(&ai).unwrap()), &x.st, &h0, &mut built, &mut bf); }
                    if Iri::new(t).is_ok() { let w = Iri::new_unchecked(t.to_string()); if AsRef::<String>::as_ref(&w) != t || Borrow::<String>::borrow(&w) != t || w.clone().unwrap() != t { bf.push("Iri<String>: AsRef<T> / Borrow<T> / unwrap do not give the wrapped text".into()); } }
                }
                SimpleTerm::BlankNode(l) => {
                    let t = l.as_str();
                    match BnodeId::new(t) { Ok(w) => same("BnodeId::new", w, &x.st, &h0, &mut built, &mut bf), Err(e) => bf.push(format!("BnodeId::new rejects {t:?}: {e}")) }
                    same("BnodeId::new_unchecked_const", BnodeId::new_unchecked_const(leak(t)), &x.st, &h0, &mut built, &mut bf);
                    same("ArcStrStash::copy_bnode_id", arc_stash.copy_bnode_id(BnodeId::new_unchecked(t)), &x.st, &h0, &mut built, &mut bf);
                    same("RcStrStash::copy_bnode_id", rc_stash.copy_bnode_id(BnodeId::new_unchecked(t)), &x.st, &h0, &mut built, &mut bf);
                    if let Some(bn) = arc_bnode(t) { let (v1, mut v2) = (ArcVoc::default(), ArcVoc::default());
                        same("ArcVoc::get_blank_id", v1.get_blank_id(v1.blank_id(&bn).unwrap()).unwrap(), &x.st, &h0, &mut built, &mut bf); same("ArcVoc::insert_blank_id", v2.insert_blank_id(v1.blank_id(&bn).unwrap()), &x.st, &h0, &mut built, &mut bf); }
                    let w = BnodeId::new_unchecked(t.to_string()); if AsRef::<String>::as_ref(&w) != t || Borrow::<String>::borrow(&w) != t || w.clone().unwrap() != t { bf.push("BnodeId<String>: AsRef<T> / Borrow<T> / unwrap do not give the wrapped text".into()); }
                }
                SimpleTerm::Variable(n) => {
                    let t = n.as_str();
                    match VarName::new(t) { Ok(w) => same("VarName::new", w, &x.st, &h0, &mut built, &mut bf), Err(e) => bf.push(format!("VarName::new rejects {t:?}: {e}")) }
                    same("VarName::new_unchecked_const", VarName::new_unchecked_const(leak(t)), &x.st, &h0, &mut built, &mut bf);
                    same("ArcStrStash::copy_var_name", arc_stash.copy_var_name(VarName::new_unchecked(t)), &x.st, &h0, &mut built, &mut bf);
                    same("RcStrStash::copy_var_name", rc_stash.copy_var_name(VarName::new_unchecked(t)), &x.st, &h0, &mut built, &mut bf);
                }
                SimpleTerm::LiteralDatatype(l, d) => {
                    let (l, d) = (&l[..], d.as_str());
                    let mut ks = vec![0, d.len()]; let k = r.below(d.len() + 1); if d.is_char_boundary(k) { ks.push(k); } if let Some(k) = natural_split(d) { ks.push(k); } ks.retain(|k| IriRef::new(&d[..*k]).is_ok());
                    for k in ks { // `lexical form * namespace term`
                        let t = l * NsTerm::new_unchecked(IriRef::new_unchecked(&d[..k]), &d[k..]);
                        cases.push((case_no, format!("ns_lit_ok {} {} {} {}", coq_str(&d[..k]), coq_str(&d[k..]), coq_str(l), coq_term(&t)))); case_no += 1; sum.evaluations += 1;
                        same("str * NsTerm", t, &x.st, &h0, &mut built, &mut bf);
                    }
                    if *arc_stash.copy_str(l) != *l || *rc_stash.copy_str(d) != *d { bf.push("copy_str does not copy the text".into()); }
                    for j in jrdf_forms(&x.st) { let _ = j; if let Some(ai) = arc_iri(d) { use rdf_types::{Literal as RLit, Term as RTerm, literal::Type as RType};
                        let lit = RLit::new(l.to_string(), RType::Any(ai)); let (v1, mut v2) = (ArcVoc::default(), ArcVoc::default());
                        same("ArcVoc::get_literal", RdfTerm::from(RTerm::Literal(v1.get_literal(v1.literal(&lit).unwrap()).unwrap())), &x.st, &h0, &mut built, &mut bf);
                        same("ArcVoc::insert_literal", RdfTerm::from(RTerm::Literal(v2.insert_literal(v1.literal(&lit).unwrap()))), &x.st, &h0, &mut built, &mut bf); } }
                }
                SimpleTerm::LiteralLanguage(l, g) => {
                    let (l, g) = (&l[..], g.as_str());
                    match LanguageTag::new(g) {
                        Ok(tag) => { let t = l * tag;
                            cases.push((case_no, format!("lang_lit_ok {} {} {}", coq_str(l), coq_str(g), coq_term(&t)))); case_no += 1; sum.evaluations += 1;
                            same("str * LanguageTag", t, &x.st, &h0, &mut built, &mut bf);
                            if tag.unwrap() != g { bf.push("LanguageTag::unwrap does not give the wrapped text".into()); } }
                        Err(e) => bf.push(format!("LanguageTag::new rejects {g:?}: {e}")),
                    }
                    same("str * LanguageTag::new_unchecked_const", l * LanguageTag::new_unchecked_const(leak(g)), &x.st, &h0, &mut built, &mut bf);
                    same("ArcStrStash::copy_language_tag", l * arc_stash.copy_language_tag(LanguageTag::new_unchecked(g)).as_ref(), &x.st, &h0, &mut built, &mut bf);
                    same("RcStrStash::copy_language_tag", l * rc_stash.copy_language_tag(LanguageTag::new_unchecked(g)).as_ref(), &x.st, &h0, &mut built, &mut bf);
                    if TAGS.contains(&g) { use rdf_types::{Literal as RLit, Term as RTerm, literal::Type as RType}; // (the vocabulary hands tags to the strict `langtag` parser)
                        let at = ArcTag::new_unchecked(Arc::<str>::from(g)); let (v1, mut v2) = (ArcVoc::default(), ArcVoc::default());
                        let t1 = v1.get_language_tag(v1.language_tag(&at).unwrap()).unwrap(); let t2 = v2.insert_language_tag(v1.language_tag(&at).unwrap());
                        let lit = RLit::new(l.to_string(), RType::LangString(t1));
                        same("ArcVoc::get_language_tag + get_literal", RdfTerm::from(RTerm::Literal(v1.get_literal(v1.literal(&lit).unwrap()).unwrap())), &x.st, &h0, &mut built, &mut bf);
                        same("ArcVoc::insert_language_tag", RdfTerm::from(RTerm::Literal(RLit::new(l.to_string(), RType::LangString(t2)))), &x.st, &h0, &mut built, &mut bf); }
                }
                SimpleTerm::Triple(tr) => {
                    same("SimpleTerm::from_triple([s,p,o])", SimpleTerm::from_triple([&tr[0], &tr[1], &tr[2]]), &x.st, &h0, &mut built, &mut bf);
                    if let Some(t) = rio_triple(tr) { same("SimpleTerm::from_triple(rio::Triple)", SimpleTerm::from_triple(Trusted(*t)), &x.st, &h0, &mut built, &mut bf); }
                }
            }
            for d in bf { sum.oracle_failures.push((format!("{b}"), d)); }
            sum.bump_by("value built along another construction path", built.len() as u64);
            cases.push((case_no, format!("built_ok t{b}_{i} {}", coq_list(built)))); case_no += 1; sum.evaluations += 1;
        }
        // pairs
        let mut eqm = vec![vec![false; pool.len()]; pool.len()];
        let mut cmpm = vec![vec![Ordering::Equal; pool.len()]; pool.len()];
        for i in 0..pool.len() { for j in 0..pool.len() {
            let e0 = Term::eq(&pool[i].st, pool[j].st.borrow_term());
            let c0 = Term::cmp(&pool[i].st, pool[j].st.borrow_term());
            eqm[i][j] = e0; cmpm[i][j] = c0;
            for (ka, ra) in all[i].iter().enumerate() { for (kb, rb) in all[j].iter().enumerate() {
                let (e, c) = with_rep!(ra, x => with_rep!(rb, y => (Term::eq(x, y.borrow_term()), Term::cmp(x, y.borrow_term()))));
                let he = tr[i][ka] == tr[j][kb]; // (the call sequences of rec(x.borrow_term()) and rec(y.borrow_term()), recorded above)
                if e != e0 || c != c0 { sum.oracle_failures.push((format!("{b}"), format!("{} vs {}: eq={e} cmp={c:?} but SimpleTerm vs SimpleTerm gives eq={e0} cmp={c0:?} for {:?} / {:?}", rep_name(ra), rep_name(rb), pool[i].st, pool[j].st))); }
                if e && !he { sum.oracle_failures.push((format!("{b}"), format!("equal terms hash differently: {} {:?} / {} {:?} ({})", rep_name(ra), pool[i].st, rep_name(rb), pool[j].st, told_apart(&tr[i][ka], &tr[j][kb])))); }
                if (c == Ordering::Equal) != e { sum.oracle_failures.push((format!("{b}"), format!("cmp Equal <-> eq violated: {} {:?} / {} {:?}", rep_name(ra), pool[i].st, rep_name(rb), pool[j].st))); }
                sum.bump("pair-in-rep-pair");
            } }
            // std traits (PartialEq / Ord / PartialOrd / Hash) of the term types that have them
            for ra in &all[i] { for rb in &all[j] {
                let d = match (ra, rb) {
                    (Rep::Simple(x), Rep::Simple(y)) => std_traits_agree(x, y), (Rep::Arc(x), Rep::Arc(y)) => std_traits_agree(x, y), (Rep::Rc(x), Rep::Rc(y)) => std_traits_agree(x, y),
                    (Rep::ArcStashed(x), Rep::Arc(y)) => std_traits_agree(x, y), (Rep::GenLit(x), Rep::GenLit(y)) => std_traits_agree(x, y),
                    (Rep::Cmp(x), Rep::Cmp(y)) => std_traits_agree(x, y), (Rep::CmpArc(x), Rep::CmpArc(y)) => std_traits_agree(x, y),
                    (Rep::Result(x), Rep::Result(y)) | (Rep::ResultCached(x), Rep::ResultCached(y)) | (Rep::Result(x), Rep::ResultCached(y)) | (Rep::ResultCached(x), Rep::Result(y)) => std_traits_agree(x, y),
                    _ => None };
                if let Some(d) = d { sum.oracle_failures.push((format!("{b}"), format!("std traits of {}: {d}; for {:?} / {:?}", rep_name(ra), pool[i].st, pool[j].st))); }
                // the string wrappers: Eq / Ord / Hash between wrappers, and against plain str
                let d = match (ra, rb) {
                    (Rep::IriW(x), Rep::IriW(y)) => wrapper_traits(x, y, x.as_str(), y.as_str()), (Rep::IriRefW(x), Rep::IriRefW(y)) => wrapper_traits(x, y, x.as_str(), y.as_str()),
                    (Rep::BnodeW(x), Rep::BnodeW(y)) => wrapper_traits(x, y, x.as_str(), y.as_str()), (Rep::VarW(x), Rep::VarW(y)) => wrapper_traits(x, y, x.as_str(), y.as_str()),
                    _ => None };
                if let Some(d) = d { sum.oracle_failures.push((format!("{b}"), format!("std traits of the wrapper {}: {d}; for {:?} / {:?}", rep_name(ra), pool[i].st, pool[j].st))); }
                // PartialEq<T> / PartialOrd<T> against every other term type
                let d = match ra {
                    Rep::Simple(x) => with_rep!(rb, y => cross_traits(x, y)), Rep::Borrowed(x) => with_rep!(rb, y => cross_traits(x, y)), Rep::Arc(x) => with_rep!(rb, y => cross_traits(x, y)), Rep::Rc(x) => with_rep!(rb, y => cross_traits(x, y)),
                    Rep::GenLit(x) => with_rep!(rb, y => cross_traits(x, y)), Rep::Cmp(x) => with_rep!(rb, y => cross_traits(x, y)), Rep::CmpArc(x) => with_rep!(rb, y => cross_traits(x, y)), Rep::Result(x) => with_rep!(rb, y => cross_traits(x, y)),
                    Rep::Ns(x) => with_rep!(rb, y => if (x == y) != Term::eq(x, y.borrow_term()) || (x == y) != e0 { Some(format!("== gives {} but the terms are {}equal", x == y, if e0 { "" } else { "not " })) } else { None }),
                    _ => None };
                if let Some(d) = d { sum.oracle_failures.push((format!("{b}"), format!("{} compared with {} by the std operators: {d}; for {:?} / {:?}", rep_name(ra), rep_name(rb), pool[i].st, pool[j].st))); }
            } }
            // graph names: Some(term) on both sides, in every representation on either side
            for ra in &all[i] {
                let (g1, g2) = with_rep!(ra, x => (graph_name_eq(Some(x.borrow_term()), Some(&pool[j].st)), graph_name_eq(Some(&pool[j].st), Some(x.borrow_term()))));
                if g1 != e0 || g2 != e0 { sum.oracle_failures.push((format!("{b}"), format!("graph_name_eq(Some({} {:?}), Some({:?})) = {g1}, reversed = {g2}, Term::eq gives {e0}", rep_name(ra), pool[i].st, pool[j].st))); }
            }
            if (tidx[i] == tidx[j]) != e0 { sum.oracle_failures.push((format!("{b}"), format!("SimpleTermIndex gives the indexes {} / {} to {:?} / {:?}, Term::eq gives {e0}", tidx[i], tidx[j], pool[i].st, pool[j].st))); }
            if j == (i * 5 + b) % pool.len() || j == i {
                cases.push((case_no, format!("gname_ok (Some t{b}_{i}) (Some t{b}_{j}) {}", coq_bool(graph_name_eq(Some(&pool[i].st), Some(&pool[j].st)))))); case_no += 1; sum.evaluations += 1;
            }
            if let (SimpleTerm::LiteralLanguage(_, t1), SimpleTerm::LiteralLanguage(_, t2)) = (&pool[i].st, &pool[j].st) {
                let exp = t1.as_str().to_ascii_lowercase().cmp(&t2.as_str().to_ascii_lowercase());
                let h = |t: &sophia_api::term::LanguageTag<_>| { let mut r = Rec::default(); std::hash::Hash::hash(t, &mut r); r.0 };
                if Ord::cmp(t1, t2) != exp || (t1 == t2) != (exp == Ordering::Equal) || t1.partial_cmp(t2) != Some(exp) || (exp == Ordering::Equal && h(t1) != h(t2)) {
                    sum.oracle_failures.push((format!("{b}"), format!("LanguageTag {:?} vs {:?}: cmp={:?} eq={} but the case-folded tags compare {exp:?}", t1.as_str(), t2.as_str(), Ord::cmp(t1, t2), t1 == t2))); }
            }
            let text = format!("{:?}|{:?}", pool[i].st, pool[j].st);
            let nontrivial = (e0 && format!("{:?}", pool[i].st) != format!("{:?}", pool[j].st)) || (!e0 && pool[i].st.kind() == pool[j].st.kind());
            if seen.insert(text) && nontrivial { sum.distinct_nontrivial += 1; }
            cases.push((case_no, format!("pair_ok t{b}_{i} t{b}_{j} {} {}", coq_bool(e0), c_cmp(c0)))); case_no += 1; sum.evaluations += 1;
            if sum.samples.len() < 4 && nontrivial { sum.samples.push(format!("{:?} vs {:?}: eq={e0} cmp={c0:?}, {}x{} representation pairs agree", pool[i].st, pool[j].st, all[i].len(), all[j].len())); }
        } }
        // ---- statements made of rio terms: the Triple / Quad accessors hand out the components as terms ----
        for (i, x) in pool.iter().enumerate() { if let SimpleTerm::Triple(tr) = &x.st {
            if !rio_ok(&x.st) { continue; }
            let exp = [coq_term(&tr[0]), coq_term(&tr[1]), coq_term(&tr[2])];
            let gi = if r.chance(1, 3) { None } else { Some(r.below(pool.len())) };
            let gi = gi.filter(|g| rio_ok(&pool[*g].st));
            let eg = gi.map(|g| coq_term(&pool[g].st));
            let mut bad: Vec<String> = vec![];
            let mut chk = |how: &str, spo: [String; 3], g: Option<Option<String>>, exp_g: &Option<String>| { if spo != exp || g.as_ref().is_some_and(|g| g != exp_g) { bad.push(format!("{how} gives {spo:?} {g:?}, expected {exp:?} {exp_g:?}")); } };
            // generalized quad: any term anywhere
            let q = Trusted(rio::GeneralizedQuad { subject: rio_gen(&tr[0]), predicate: rio_gen(&tr[1]), object: rio_gen(&tr[2]), graph_name: gi.map(|g| rio_gen(&pool[g].st)) });
            let seen = [coq_term(q.s()), coq_term(q.p()), coq_term(q.o())]; let seen_g = q.g().map(|t| coq_term(t));
            chk("GeneralizedQuad s/p/o/g", seen.clone(), Some(seen_g.clone()), &eg);
            chk("GeneralizedQuad to_s/to_p/to_o/to_g", [coq_term(q.clone().to_s()), coq_term(q.clone().to_p()), coq_term(q.clone().to_o())], Some(q.clone().to_g().map(|t| coq_term(t))), &eg);
            { let (spo, g) = q.clone().to_spog(); chk("GeneralizedQuad to_spog", spo.map(|t| coq_term(t)), Some(g.map(|t| coq_term(t))), &eg); }
            { let (spo, g) = q.spog(); chk("GeneralizedQuad spog", spo.map(|t| coq_term(t)), Some(g.map(|t| coq_term(t))), &eg); }
            cases.push((case_no, format!("to_triple_ok t{b}_{i} (Some ({}, {}, {})) && {}", seen[0], seen[1], seen[2], match (gi, &seen_g) { (Some(g), Some(o)) => format!("built_ok t{b}_{g} [{o}]"), (None, None) => "true".into(), _ => "false".into() }))); case_no += 1; sum.evaluations += 1;
            sum.bump("statement:GeneralizedQuad");
            // strict triple / quad
            if let Some(t) = rio_triple(tr) {
                let t = Trusted(*t);
                chk("rio::Triple s/p/o", [coq_term(t.s()), coq_term(t.p()), coq_term(t.o())], None, &None);
                chk("rio::Triple to_s/to_p/to_o", [coq_term(t.to_s()), coq_term(t.to_p()), coq_term(t.to_o())], None, &None);
                chk("rio::Triple to_spo", t.to_spo().map(|y| coq_term(y)), None, &None);
                chk("rio::Triple spo", t.spo().map(|y| coq_term(y)), None, &None);
                // graph name of the strict quad: an IRI or a blank node of the pool (three times out of four), or the default graph
                let cand: Vec<usize> = (0..pool.len()).filter(|g| rio_gname(&pool[*g].st).is_some()).collect();
                let gi = if cand.is_empty() || r.chance(1, 4) { None } else { Some(cand[r.below(cand.len())]) };
                let gname = gi.and_then(|g| rio_gname(&pool[g].st)); let eg = gi.map(|g| coq_term(&pool[g].st));
                let q = Trusted(rio::Quad { subject: t.subject, predicate: t.predicate, object: t.object, graph_name: gname });
                chk("rio::Quad s/p/o/g", [coq_term(q.s()), coq_term(q.p()), coq_term(q.o())], Some(q.g().map(|y| coq_term(y))), &eg);
                chk("rio::Quad to_s/to_p/to_o/to_g", [coq_term(q.to_s()), coq_term(q.to_p()), coq_term(q.to_o())], Some(q.to_g().map(|y| coq_term(y))), &eg);
                { let (spo, g) = q.to_spog(); chk("rio::Quad to_spog", spo.map(|y| coq_term(y)), Some(g.map(|y| coq_term(y))), &eg); }
                sum.bump("statement:rio::Triple+Quad");
            }
            drop(chk);
            for d in bad { sum.oracle_failures.push((format!("{b}"), format!("statement built from {:?}: {d}", x.st))); }
        } }
        for d in directed_native_fails() { sum.oracle_failures.push((format!("{b}"), d)); }
        sum.bump_by("directed native conversion", 30 * 3 + 22 + 5 + 5);
        // ---- the checked constructors refuse text that is no tag / label / name ----
        { let g = r.ps(&["", " ", "en ", "-en", "en-", "en--us", "1n", "\u{e9}", "en_US", "a.b"]); match LanguageTag::new(g) { Err(e) if e.0 == g => {}, other => sum.oracle_failures.push((format!("{b}"), format!("LanguageTag::new({g:?}) = {other:?}, expected an error carrying the text"))) }
          let l = r.ps(&["", "a b", ".a", "a.", "-a", "a:b", " "]); match BnodeId::new(l) { Err(e) if e.0 == l => {}, other => sum.oracle_failures.push((format!("{b}"), format!("BnodeId::new({l:?}) = {other:?}, expected an error carrying the text"))) }
          let n = r.ps(&["", "a b", "a-b", "a.b", "?a", "\u{b7}a", " "]); match VarName::new(n) { Err(e) if e.0 == n => {}, other => sum.oracle_failures.push((format!("{b}"), format!("VarName::new({n:?}) = {other:?}, expected an error carrying the text"))) }
          let k = r.ps(&["integer", "string", "boolean", "double"]); match GenericLiteral::<String>::try_from_term(&pool[0].st) { Ok(l) if pool[0].st.is_literal() && Term::eq(&l, &pool[0].st) => {}, Err(_) if !pool[0].st.is_literal() => {}, other => sum.oracle_failures.push((format!("{b}"), format!("GenericLiteral::try_from_term({:?}) = {other:?}", pool[0].st))) }
          let _ = k;
          for x in pool.iter().filter(|x| !x.st.is_literal()).take(3) { if let Ok(l) = GenericLiteral::<Box<str>>::try_from_term(&x.st) { sum.oracle_failures.push((format!("{b}"), format!("GenericLiteral::try_from_term accepts the non-literal {:?} (gives {l:?})", x.st))); } }
          if !graph_name_eq(None::<&ST>, None::<ArcTerm>) || !graph_name_eq(None::<i32>, None::<&ST>) { sum.oracle_failures.push((format!("{b}"), "graph_name_eq(None, None) is false: the default graph is not equal to itself".into())); }
          cases.push((case_no, format!("gname_ok None None {}", coq_bool(graph_name_eq(None::<&ST>, None::<&ST>))))); case_no += 1; sum.evaluations += 1; }
        // ---- the stashes hold exactly the strings of the terms copied into them, each once ----
        { let mut strs = std::collections::BTreeSet::new();
          for x in &pool { collect_strs(&x.st, &mut strs); }
          let ok = |len: usize, empty: bool, has: &dyn Fn(&str) -> bool| len == strs.len() && empty == strs.is_empty() && strs.iter().all(|t| has(t)) && !has("\u{1}never copied");
          if !ok(arc_stash.len(), arc_stash.is_empty(), &|t| arc_stash.get(t).is_some_and(|a| &**a == t)) { sum.oracle_failures.push((format!("{b}"), format!("ArcStrStash holds {} strings, the copied terms are made of {}", arc_stash.len(), strs.len()))); }
          if !ok(rc_stash.len(), rc_stash.is_empty(), &|t| rc_stash.get(t).is_some_and(|a| &**a == t)) { sum.oracle_failures.push((format!("{b}"), format!("RcStrStash holds {} strings, the copied terms are made of {}", rc_stash.len(), strs.len()))); }
          if !ok(arc_rev.len(), arc_rev.is_empty(), &|t| arc_rev.get(t).is_some_and(|a| &**a == t)) { sum.oracle_failures.push((format!("{b}"), format!("ArcStrStash (terms copied in reverse order) holds {} strings, the copied terms are made of {}", arc_rev.len(), strs.len()))); }
          if !ok(rc_rot.len(), rc_rot.is_empty(), &|t| rc_rot.get(t).is_some_and(|a| &**a == t)) { sum.oracle_failures.push((format!("{b}"), format!("RcStrStash (terms copied in rotated order) holds {} strings, the copied terms are made of {}", rc_rot.len(), strs.len()))); }
          if !ArcStrStash::default().is_empty() || RcStrStash::new().len() != 0 { sum.oracle_failures.push((format!("{b}"), "a new stash is not empty".into())); }
          // the stash model of Coq replays the two histories: the copies handed out, the number of strings held at the end
          cases.push((case_no, format!("stash_run_ok {} {} {}", coq_list(rev_order.iter().map(|k| format!("t{b}_{k}"))), coq_list(rev_order.iter().map(|k| coq_term(rev_copies[*k].as_ref().unwrap()))), arc_rev.len()))); case_no += 1;
          cases.push((case_no, format!("stash_run_ok {} {} {}", coq_list(rot_order.iter().map(|k| format!("t{b}_{k}"))), coq_list(rot_order.iter().map(|k| coq_term(rot_copies[*k].as_ref().unwrap()))), rc_rot.len()))); case_no += 1;
          sum.evaluations += 2; sum.bump_by("stash history replayed in the model", 2);
          // the term index holds one term per class of equal terms
          let classes = (0..pool.len()).filter(|i| (0..*i).all(|j| !eqm[*i][j])).count();
          if tindex.len() != classes { sum.oracle_failures.push((format!("{b}"), format!("SimpleTermIndex holds {} terms, {classes} pairwise different terms were given to it", tindex.len()))); } }
        // laws on triples of values
        let n = pool.len();
        for i in 0..n { for j in 0..n {
            if cmpm[j][i] != cmpm[i][j].reverse() { sum.oracle_failures.push((format!("{b}"), format!("cmp not antisymmetric: {:?} / {:?}", pool[i].st, pool[j].st))); }
            if eqm[i][j] != eqm[j][i] { sum.oracle_failures.push((format!("{b}"), format!("eq not symmetric: {:?} / {:?}", pool[i].st, pool[j].st))); }
            let (ki, kj) = (pool[i].st.kind(), pool[j].st.kind());
            let rank = |k: TermKind| match k { TermKind::BlankNode => 0, TermKind::Iri => 1, TermKind::Literal => 2, TermKind::Triple => 3, TermKind::Variable => 4 };
            if rank(ki) < rank(kj) && cmpm[i][j] != Ordering::Less { sum.oracle_failures.push((format!("{b}"), format!("kind order violated: {:?} / {:?}", pool[i].st, pool[j].st))); }
            for k in 0..n {
                if cmpm[i][j] != Ordering::Greater && cmpm[j][k] != Ordering::Greater && cmpm[i][k] == Ordering::Greater { sum.oracle_failures.push((format!("{b}"), format!("cmp not transitive: {:?} <= {:?} <= {:?}", pool[i].st, pool[j].st, pool[k].st))); }
                if eqm[i][j] && eqm[j][k] && !eqm[i][k] { sum.oracle_failures.push((format!("{b}"), format!("eq not transitive: {:?} {:?} {:?}", pool[i].st, pool[j].st, pool[k].st))); }
            }
        } }
        // NsTerm::eq against every term, vs the model
        for (i, x) in pool.iter().enumerate() { if let SimpleTerm::Iri(iri_) = &x.st { for k in &x.ns_split { for (j, y) in pool.iter().enumerate() {
            let ns = NsTerm::new_unchecked(IriRef::new_unchecked(&iri_.as_str()[..*k]), &iri_.as_str()[*k..]);
            let e = Term::eq(&ns, y.st.borrow_term());
            if e != eqm[i][j] { sum.oracle_failures.push((format!("{b}"), format!("NsTerm({:?}+{:?}) eq {:?} = {e}, default eq gives {}", &iri_.as_str()[..*k], &iri_.as_str()[*k..], y.st, eqm[i][j]))); }
            cases.push((case_no, format!("ns_ok {} {} t{b}_{j} {}", coq_str(&iri_.as_str()[..*k]), coq_str(&iri_.as_str()[*k..]), coq_bool(e)))); case_no += 1; sum.evaluations += 1;
        } } } }
        if a.only.is_some() { for f in &sum.oracle_failures { println!("FAIL {}", f.1); } println!("batch {b}: pool {:?}", pool.iter().map(|x| format!("{:?}", x.st)).collect::<Vec<_>>()); }
    }
    sum.oracle_failures.truncate(50);
    if a.only.is_none() {
        sum.shards = write_shards(&a.out, &header, &cases, a.shards);
        sum.extra.push(("coq_cases".into(), cases.len().to_string()));
        std::fs::write(format!("{}/summary.json", a.out), sum.to_json()).unwrap();
    }
    println!("c02: {} evaluations, {} distinct non-trivial, {} oracle failures", sum.evaluations, sum.distinct_nontrivial, sum.oracle_failures.len());
}
