(* C13/Eval.v -- a concrete expression library used to RUN the model against the engine
   (the theorems of Proofs.v hold for every library).  It transcribes, for the expression
   forms the harness generates, ArcExpression::eval and EvalResult / SparqlValue
   (sparql/src/expression.rs, value.rs) over integers (NumModel), strings, booleans and terms.
   Literals of the other recognised datatypes (decimal, double, float, dateTime, ...) are
   [SOther]: the generator never lets the outcome of an expression depend on their value.
   Also: the boolean checkers used by the generated case files.  Definitions only. *)
From Sophia.C13 Require Import Model NumModel.

Definition trivF : floatlib :=
  mkF unit unit unit (fun _ => tt) (fun _ _ => tt) (fun _ _ => tt) (fun _ _ => tt) (fun _ _ => tt)
      (fun _ => tt) (fun _ => tt) (fun _ => false) (fun _ _ => Eq)
      (fun _ => tt) (fun _ => tt) (fun _ => tt) (fun _ _ => tt) (fun _ _ => tt) (fun _ _ => tt)
      (fun _ _ => tt) (fun _ => tt) (fun _ => tt) (fun _ _ => None)
      (fun _ => tt) (fun _ => tt) (fun _ => tt) (fun _ _ => tt) (fun _ _ => tt) (fun _ _ => tt)
      (fun _ _ => tt) (fun _ => tt) (fun _ => tt) (fun _ _ => None).
Notation cnum := (num trivF).

(* "http://www.w3.org/2001/XMLSchema#" *)
Definition xsd_prefix : str :=
  [104;116;116;112;58;47;47;119;119;119;46;119;51;46;111;114;103;47;50;48;48;49;47;88;77;76;83;
   99;104;101;109;97;35].
Definition xsd (local : str) : str := xsd_prefix ++ local.
Definition s_integer : str := [105;110;116;101;103;101;114].
Definition s_string : str := [115;116;114;105;110;103].
Definition s_boolean : str := [98;111;111;108;101;97;110].
Definition s_true : str := [116;114;117;101].
Definition s_false : str := [102;97;108;115;101].
Definition s_illformed : str := [105;108;108;45;102;111;114;109;101;100].
Fixpoint strip_prefix (p s : str) : option str :=
  match p, s with
  | [], _ => Some s
  | x :: p', y :: s' => if N.eqb x y then strip_prefix p' s' else None
  | _ :: _, [] => None
  end.

(* str::parse::<isize>() / ::<BigInt>(): optional sign, at least one ASCII digit *)
Fixpoint parse_digits (s : str) (acc : Z) : option Z :=
  match s with
  | [] => Some acc
  | c :: s' => if (48 <=? c) && (c <=? 57) then parse_digits s' (10 * acc + Z.of_N (c - 48))%Z else None
  end.
Definition parse_int (s : str) : option Z :=
  match s with
  | [] => None
  | 45 :: d :: s' => option_map Z.opp (parse_digits (d :: s') 0%Z)
  | 43 :: d :: s' => parse_digits (d :: s') 0%Z
  | _ => parse_digits s 0%Z
  end.
(* SparqlNumber::try_parse_integer *)
Definition num_of_Z (z : Z) : cnum := if in_isize z then NativeInt trivF z else BigInt trivF z.
(* i.to_string() *)
Fixpoint digits (fuel : nat) (n : N) (acc : str) : str :=
  match fuel with
  | O => acc
  | S f => let acc' := (48 + n mod 10) :: acc in
           if n / 10 =? 0 then acc' else digits f (n / 10) acc'
  end.
Definition z_to_str (z : Z) : str :=
  match z with
  | Z0 => [48]
  | Zpos p => digits 200 (Npos p) []
  | Zneg p => 45 :: digits 200 (Npos p) []
  end.

(* SparqlValue *)
Inductive sval :=
| SNum (n : cnum)
| SStr (lex : str) (lang : option str)
| SBool (b : option bool)
| SOther.                              (* a recognised value that this evaluator does not model *)
(* EvalResult *)
Inductive cval := VTerm (t : term) | VVal (v : sval).

(* SparqlValue::try_from_literal *)
Definition value_of_term (t : term) : option sval :=
  match t with
  | LitLang lex tag => Some (SStr lex (Some tag))
  | LitDt lex dt =>
      match strip_prefix xsd_prefix dt with
      | None => None
      | Some local =>
          if str_eqb local s_integer then option_map (fun z => SNum (num_of_Z z)) (parse_int lex)
          else if str_eqb local s_string then Some (SStr lex None)
          else if str_eqb local s_boolean then
            Some (SBool (if str_eqb lex s_true || str_eqb lex [49] then Some true      (* "true" | "1" *)
                         else if str_eqb lex s_false || str_eqb lex [48] then Some false (* "false" | "0" *)
                         else None))
          else Some SOther
      end
  | _ => None
  end.
Definition as_value (v : cval) : option sval :=
  match v with VTerm t => value_of_term t | VVal s => Some s end.
Definition as_number (v : cval) : option cnum :=
  match as_value v with Some (SNum n) => Some n | _ => None end.
(* value_to_term: lexical_form + datatype *)
Definition term_of_value (s : sval) : term :=
  match s with
  | SNum (NativeInt _ z) | SNum (BigInt _ z) => LitDt (z_to_str z) (xsd s_integer)
  | SNum _ => LitDt [] []                      (* never produced by the generated forms *)
  | SStr lex (Some tag) => LitLang lex tag
  | SStr lex None => LitDt lex (xsd s_string)
  | SBool (Some true) => LitDt s_true (xsd s_boolean)
  | SBool (Some false) => LitDt s_false (xsd s_boolean)
  | SBool None => LitDt s_illformed (xsd s_boolean)
  | SOther => LitDt [] []
  end.
Definition c_into_term (v : cval) : term :=
  match v with VTerm t => t | VVal s => term_of_value s end.
(* SparqlValue::is_truthy / SparqlNumber::is_truthy *)
Definition sval_truthy (s : sval) : option bool :=
  match s with
  | SNum (NativeInt _ z) | SNum (BigInt _ z) => Some (negb (Z.eqb z 0))
  | SNum _ => None
  | SStr lex _ => Some (match lex with [] => false | _ => true end)
  | SBool (Some b) => Some b
  | SBool None => Some false
  | SOther => None
  end.
Definition c_is_truthy (v : cval) : option bool :=
  match as_value v with Some s => sval_truthy s | None => None end.
Definition is_literal (t : term) : bool :=
  match t with LitDt _ _ | LitLang _ _ => true | _ => false end.
Definition cmp_bool (a b : bool) : comparison :=
  match a, b with false, true => Lt | true, false => Gt | _, _ => Eq end.
(* SparqlValue::sparql_eq *)
Definition sval_eq (a b : sval) : option bool :=
  match a, b with
  | SNum x, SNum y => Some (num_eq trivF x y)
  | SStr s1 None, SStr s2 None => Some (str_eqb s1 s2)
  | SStr s1 (Some t1), SStr s2 (Some t2) => Some (str_eqb t1 t2 && str_eqb s1 s2)
  | SBool b1, SBool b2 => Some (opt_eqb Bool.eqb b1 b2)
  | _, _ => None
  end.
(* SparqlValue::partial_cmp *)
Definition sval_cmp (a b : sval) : option comparison :=
  match a, b with
  | SNum x, SNum y => num_cmp trivF x y
  | SStr s1 None, SStr s2 None => Some (str_cmp s1 s2)
  | SStr s1 (Some t1), SStr s2 (Some t2) => Some (then_cmp (str_cmp t1 t2) (str_cmp s1 s2))
  | SBool (Some b1), SBool (Some b2) => Some (cmp_bool b1 b2)
  | _, _ => None
  end.
(* EvalResult::sparql_eq / sparql_cmp *)
Definition c_eq (a b : cval) : option bool :=
  match as_value a, as_value b with
  | Some x, Some y => sval_eq x y
  | _, _ =>
      let s := c_into_term a in let o := c_into_term b in
      if teq s o then Some true
      else if is_literal s && is_literal o then None
      else Some false
  end.
Definition c_cmp (a b : cval) : option comparison :=
  match as_value a, as_value b with
  | Some x, Some y => sval_cmp x y
  | _, _ =>
      let s := c_into_term a in let o := c_into_term b in
      if is_literal s && is_literal o && teq s o then Some Eq else None
  end.

Inductive cexpr :=
| CVar (v : str)
| CConst (t : term)                       (* NamedNode / Literal *)
| CBound (v : str)
| CNot (e : cexpr)
| COr (a b : cexpr) | CAnd (a b : cexpr)
| CEqual (a b : cexpr) | CSameTerm (a b : cexpr)
| CGreater (a b : cexpr) | CGreaterOrEqual (a b : cexpr) | CLess (a b : cexpr) | CLessOrEqual (a b : cexpr)
| CAdd (a b : cexpr) | CSubtract (a b : cexpr) | CMultiply (a b : cexpr)
| CUnaryPlus (e : cexpr) | CUnaryMinus (e : cexpr)
| CAbs (e : cexpr).                       (* FunctionCall(Abs, [e]) *)

Definition vbool (b : bool) : cval := VVal (SBool (Some b)).
Definition cmp_with (f : comparison -> bool) (a b : option cval) : option cval :=
  match a, b with
  | Some x, Some y => option_map (fun o => vbool (f o)) (c_cmp x y)
  | _, _ => None
  end.
Definition arith (f : cnum -> cnum -> option cnum) (a b : option cval) : option cval :=
  match a, b with
  | Some x, Some y =>
      match as_number x, as_number y with
      | Some n, Some m => option_map (fun r => VVal (SNum r)) (f n m)
      | _, _ => None
      end
  | _, _ => None
  end.
(* ArcExpression::eval *)
Fixpoint ceval (e : cexpr) (mu : amap) : option cval :=
  match e with
  | CVar v => option_map VTerm (lookup v mu)
  | CConst t => Some (VTerm t)
  | CBound v => Some (vbool (match lookup v mu with Some _ => true | None => false end))
  | CNot a => match ceval a mu with
              | Some x => option_map (fun b => vbool (negb b)) (c_is_truthy x)
              | None => None
              end
  | COr a b =>
      (* an operand whose evaluation raises an error counts as an error operand (section 17.2);
         before the fix "|| and && follow the three-valued logic" it made the whole expression fail *)
      match (match ceval a mu with Some x => c_is_truthy x | None => None end),
            (match ceval b mu with Some y => c_is_truthy y | None => None end) with
      | Some p, Some q => Some (vbool (p || q))
      | Some true, None | None, Some true => Some (vbool true)
      | _, _ => None
      end
  | CAnd a b =>
      match (match ceval a mu with Some x => c_is_truthy x | None => None end),
            (match ceval b mu with Some y => c_is_truthy y | None => None end) with
      | Some p, Some q => Some (vbool (p && q))
      | Some false, None | None, Some false => Some (vbool false)
      | _, _ => None
      end
  | CEqual a b =>
      match ceval a mu, ceval b mu with
      | Some x, Some y => option_map vbool (c_eq x y)
      | _, _ => None
      end
  | CSameTerm a b =>
      match ceval a mu, ceval b mu with
      | Some x, Some y => Some (vbool (teq (c_into_term x) (c_into_term y)))
      | _, _ => None
      end
  | CGreater a b => cmp_with (fun o => match o with Gt => true | _ => false end) (ceval a mu) (ceval b mu)
  | CGreaterOrEqual a b => cmp_with (fun o => match o with Lt => false | _ => true end) (ceval a mu) (ceval b mu)
  | CLess a b => cmp_with (fun o => match o with Lt => true | _ => false end) (ceval a mu) (ceval b mu)
  | CLessOrEqual a b => cmp_with (fun o => match o with Gt => false | _ => true end) (ceval a mu) (ceval b mu)
  | CAdd a b => arith (add trivF) (ceval a mu) (ceval b mu)
  | CSubtract a b => arith (sub trivF) (ceval a mu) (ceval b mu)
  | CMultiply a b => arith (mul trivF) (ceval a mu) (ceval b mu)
  | CUnaryPlus a => match ceval a mu with
                    | Some x => option_map (fun n => VVal (SNum n)) (as_number x)
                    | None => None
                    end
  | CUnaryMinus a => match ceval a mu with
                     | Some x => match as_number x with
                                 | Some n => option_map (fun r => VVal (SNum r)) (neg trivF n)
                                 | None => None
                                 end
                     | None => None
                     end
  | CAbs a => match ceval a mu with
              | Some x => option_map (fun n => VVal (SNum (abs trivF n))) (as_number x)
              | None => None
              end
  end.

(* ORDER BY is modelled up to the order (C14 is about the order): the identity permutation *)
Definition CL : exprlib := mkL cexpr cval ceval c_is_truthy c_into_term unit (fun _ rows => rows).
Definition cpattern := pattern CL.
Definition cquery := query CL.
(* constructors whose expression argument fixes the library *)
Definition cFilter (e : cexpr) (inner : cpattern) : cpattern := @Filter CL e inner.
Definition cExtend (inner : cpattern) (v : str) (e : cexpr) : cpattern := @Extend CL inner v e.
Definition cOrderBy (inner : cpattern) (n : nat) : cpattern := @OrderBy CL inner (repeat tt n).

(* ---------- checkers for the generated cases ---------- *)
Definition row := list (option term).
Definition row_eqb (a b : row) : bool := list_eqb oteq a b.
Fixpoint remove_one (x : row) (l : list row) : option (list row) :=
  match l with
  | [] => None
  | y :: l' => if row_eqb x y then Some l'
               else match remove_one x l' with Some r => Some (y :: r) | None => None end
  end.
Fixpoint permb (a b : list row) : bool :=
  match a with
  | [] => match b with [] => true | _ => false end
  | x :: a' => match remove_one x b with Some b' => permb a' b' | None => false end
  end.
Definition same_set (a b : list str) : bool :=
  forallb (fun x => memb str_eqb x b) a && forallb (fun x => memb str_eqb x a) b
  && Nat.eqb (length a) (length b).

(* what the engine answered, as printed by the harness *)
Inductive observed :=
| ORows (vs : list str) (rows : list row) (in_order : bool)
| OBool (b : bool)
| OErr (e : err).
Definition err_eqb (a b : err) : bool :=
  match a, b with
  | NotImplemented x, NotImplemented y => ukind_eqb x y
  | NotImplementedFromNamed, NotImplementedFromNamed => true
  | NotImplementedForm, NotImplementedForm => true
  | Override x, Override y => str_eqb x y
  | _, _ => false
  end.
(* the model's bindings are read on the ENGINE's variable list (the order of the engine's list
   is the iteration order of a HashSet); the two lists must hold the same variables *)
Definition bindings_of (D : dataset) (q : cquery) : option (sum err (list str * list binding)) :=
  match q with
  | QSelect ds p | QAsk ds p =>
      match default_matcher ds with
      | None => Some (inl NotImplementedFromNamed)
      | Some gm => match select CL (ds_qm D) (ds_names D) p gm None with
                   | Ok vs rows => Some (inr (vs, rows))
                   | Err e => Some (inl e)
                   end
      end
  | _ => None
  end.
Definition query_ok (D : dataset) (q : cquery) (o : observed) : bool :=
  match o, q with
  | ORows evs erows in_order, QSelect _ _ =>
      match bindings_of D q with
      | Some (inr (mvs, mrows)) =>
          same_set evs mvs &&
          (let rows := rows_of evs mrows in
           if in_order then list_eqb row_eqb erows rows else permb erows rows)
      | _ => false
      end
  | OBool b, QAsk _ _ =>
      match run_query CL D q with ABool b' => Bool.eqb b b' | _ => false end
  | OErr e, _ =>
      match run_query CL D q with AErr e' => err_eqb e e' | _ => false end
  | _, _ => false
  end.
(* the same against the code before the fixes (used by Properties.v only) *)
Definition query0_rows (D : dataset) (q : cquery) : answer := run_query0 CL D q.
