(* C12/Back.v -- the reference reader without its counter.  Definitions only.

   `to_rdf base doc` (Model.v) numbers the blank nodes it creates for list cells and compound literals from
   `base` upwards, and `witness base doc` proposes, for each of them, the blank node of the input it stands
   for (the ghost annotations of the document).  The functions below compute directly what the reader's
   output becomes once renamed by the witness ([doc_back]), the list of the ghost annotations in the order
   in which the reader allocates ([doc_ghosts]), and the identifiers the document shows ([doc_vis]).
   BackProofs.v proves, for EVERY document, that `map (rename_q (witness base doc)) (to_rdf base doc)`
   is [doc_back doc], that `map snd (witness base doc)` is [doc_ghosts doc], that the keys of the witness
   are pairwise different and >= base, and that the identifiers below base in the reader's output are in
   [doc_vis doc] (or are one of the fixed predicates). *)
From Sophia.C12 Require Import Model.

Section Back.
Variable g : option N.
(* the term a value denotes and the quads it brings with it, suppressed nodes under their own names *)
Fixpoint val_back (v : jval) : N * list quad :=
  match v with
  | JRef id => (id, [])
  | JLit l => (l, [])
  | JComp b v d l =>
      (b, mkQ b c_value v g
          :: match l with Some l' => [mkQ b c_language l' g] | None => [] end
          ++ [mkQ b c_direction d g])
  | JList cs items =>
      let fix go (cs : list N) (l : list jval) : N * list quad :=
        match l with
        | [] => (c_nil, [])
        | x :: r =>
            let '(t, q1) := val_back x in
            let '(tl', q2) := go (tl cs) r in
            (hd 0 cs, mkQ (hd 0 cs) c_first t g :: mkQ (hd 0 cs) c_rest tl' g :: q1 ++ q2)
        end in
      go cs items
  end.
Definition vals_back (s p : N) (vs : list jval) : list quad :=
  flat_map (fun v => mkQ s p (fst (val_back v)) g :: snd (val_back v)) vs.
Definition props_back (s : N) (ps : list (N * list jval)) : list quad :=
  flat_map (fun e => vals_back s (fst e) (snd e)) ps.
Definition node_back (n : jnode) : list quad :=
  map (fun t => mkQ (j_id n) c_type t g) (j_types n) ++ props_back (j_id n) (j_props n).
Definition nodes_back (ns : list jnode) : list quad := flat_map node_back ns.
End Back.
Definition top_back (t : jtop) : list quad :=
  node_back None (j_node t)
  ++ match j_graph t with Some ns => nodes_back (Some (j_id (j_node t))) ns | None => [] end.
Definition doc_back (doc : list jtop) : list quad := flat_map top_back doc.

(* the ghost annotations, in the reader's allocation order *)
Fixpoint val_ghosts (v : jval) : list N :=
  match v with
  | JRef _ | JLit _ => []
  | JComp b _ _ _ => [b]
  | JList cs items =>
      let fix go (cs : list N) (l : list jval) : list N :=
        match l with
        | [] => []
        | x :: r => hd 0 cs :: val_ghosts x ++ go (tl cs) r
        end in
      go cs items
  end.
Definition vals_ghosts (vs : list jval) : list N := flat_map val_ghosts vs.
Definition props_ghosts (ps : list (N * list jval)) : list N := flat_map (fun e => vals_ghosts (snd e)) ps.
Definition node_ghosts (n : jnode) : list N := props_ghosts (j_props n).
Definition nodes_ghosts (ns : list jnode) : list N := flat_map node_ghosts ns.
Definition top_ghosts (t : jtop) : list N :=
  node_ghosts (j_node t) ++ match j_graph t with Some ns => nodes_ghosts ns | None => [] end.
Definition doc_ghosts (doc : list jtop) : list N := flat_map top_ghosts doc.

(* the identifiers a document shows (rdf:nil for every list) *)
Fixpoint val_vis (v : jval) : list N :=
  match v with
  | JRef id => [id]
  | JLit l => [l]
  | JComp _ v d l => v :: d :: match l with Some l' => [l'] | None => [] end
  | JList _ items =>
      c_nil :: (fix go (l : list jval) : list N :=
                  match l with [] => [] | x :: r => val_vis x ++ go r end) items
  end.
Definition vals_vis (vs : list jval) : list N := flat_map val_vis vs.
Definition props_vis (ps : list (N * list jval)) : list N := flat_map (fun e => fst e :: vals_vis (snd e)) ps.
Definition node_vis (n : jnode) : list N := j_id n :: j_types n ++ props_vis (j_props n).
Definition nodes_vis (ns : list jnode) : list N := flat_map node_vis ns.
Definition top_vis (t : jtop) : list N :=
  node_vis (j_node t) ++ match j_graph t with Some ns => nodes_vis ns | None => [] end.
Definition doc_vis (doc : list jtop) : list N := flat_map top_vis doc.

(* the predicates the reader introduces *)
Definition reader_consts : list N := [c_first; c_rest; c_type; c_value; c_direction; c_language].
