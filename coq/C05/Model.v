(* C05/Model.v -- sophia_c14n: RDFC-1.0 canonicalisation (c14n/src/rdfc10.rs), Heap's algorithm
   (_permutations.rs), canonical N-Quads serialisation (_cnq.rs), the term comparison of the final
   sort (_c14n_term.rs).  The hash function (hash.rs: HashFunction, initialize/update*/finalize
   followed by `hex`) is the Section variable [H : str -> str] mapping the concatenation of all
   `update` arguments (every argument is a Rust string, so it is given by its code points; UTF-8 is
   injective) to the lower-case hexadecimal digest.  Definitions only. *)
From Sophia.Common Require Export Prelude Term.
From Coq Require Uint63.

Definition quad : Type := term * term * term * option term.   (* Spog: ([s,p,o], g) *)

(* C14nError kinds + the panics reachable in rdfc10.rs + the model's own out-of-fuel value *)
Inductive err :=
| EBlankPred     (* Unsupported("RDFC-1.0 does not support blank node as predicate") *)
| EBadTerm       (* Unsupported("RDFC-1.0 does not support variables nor quoted triples") *)
| EToxicDepth    (* ToxicGraph("too many recursions ...") *)
| EToxicPerm     (* ToxicGraph("Too many permutations ...") *)
| EPredNotIri    (* panic: quad.p().iri().unwrap() in hash_related_bnode *)
| ENoId          (* panic: issued.get(..).unwrap() in step 6 / b2q.get(..).unwrap() *)
| EFuel.         (* model only: recursion fuel exhausted *)
Inductive res (A : Type) := Ok (a : A) | Err (e : err).
Arguments Ok {A} a.
Arguments Err {A} e.

Definition err_eqb (a b : err) : bool :=
  match a, b with
  | EBlankPred, EBlankPred | EBadTerm, EBadTerm | EToxicDepth, EToxicDepth
  | EToxicPerm, EToxicPerm | EPredNotIri, EPredNotIri | ENoId, ENoId | EFuel, EFuel => true
  | _, _ => false
  end.

(* ---------- string constants ---------- *)
Definition s_bn : str := [95;58].                 (* "_:" *)
Definition s_a : str := [95;58;97;32].            (* "_:a " *)
Definition s_z : str := [95;58;122;32].           (* "_:z " *)
Definition s_eol : str := [46;10].                (* ".\n" *)
Definition s_c14n : str := [99;49;52;110].        (* "c14n" *)
Definition s_b : str := [98].                     (* "b" *)
(* "http://www.w3.org/2001/XMLSchema#string" *)
Definition xsd_string : str :=
  [104;116;116;112;58;47;47;119;119;119;46;119;51;46;111;114;103;47;50;48;48;49;47;88;77;76;83;
   99;104;101;109;97;35;115;116;114;105;110;103].
Definition pos_s : N := 115.
Definition pos_p : N := 112.
Definition pos_o : N := 111.
Definition pos_g : N := 103.

Definition is_nil {A} (l : list A) : bool := match l with [] => true | _ => false end.
Definition str_ltb (a b : str) : bool := match str_cmp a b with Lt => true | _ => false end.
Definition str_leb (a b : str) : bool := match str_cmp a b with Gt => false | _ => true end.

(* ---------- format!("{}", usize) ---------- *)
Fixpoint rdigits (fuel : nat) (n : N) : str :=
  match fuel with
  | O => []
  | S f => (48 + n mod 10) :: (if n <? 10 then [] else rdigits f (n / 10))
  end.
Definition dec (n : N) : str := rev (rdigits (S (N.to_nat (N.size n))) n).

(* ---------- _cnq.rs: nq ---------- *)
Definition hexU (d : N) : N := if d <? 10 then 48 + d else 55 + d.   (* {:X} digit *)
Definition esc_char (c : N) : str :=
  if c =? 34 then [92;34]                       (* '"'  => \"  *)
  else if c =? 92 then [92;92]                  (* '\\' => \\  *)
  else if c =? 10 then [92;110]                 (* \n *)
  else if c =? 13 then [92;114]                 (* \r *)
  else if c =? 9 then [92;116]                  (* \t *)
  else if c =? 8 then [92;98]                   (* \b *)
  else if c =? 12 then [92;102]                 (* \f *)
  else if c =? 127 then [92;117;48;48;55;70]    (* \u007F *)
  else if c <=? 31 then [92;117;48;48; hexU (c / 16); hexU (c mod 16)]   (* format!("\\u{:04X}") *)
  else [c].
Definition esc (s : str) : str := flat_map esc_char s.

Fixpoint nq (t : term) : str :=
  match t with
  | Iri s => [60] ++ s ++ [62;32]
  | LitDt l dt =>
      [34] ++ esc l ++ [34]
      ++ (if str_eqb dt xsd_string then [] else [94;94;60] ++ dt ++ [62]) ++ [32]
  | LitLang l tag => [34] ++ esc l ++ [34;64] ++ tag ++ [32]
  | Bnode b => s_bn ++ b ++ [32]
  | Triple s p o => [60;60;32] ++ nq s ++ nq p ++ nq o ++ [62;62;32]
  | Var v => [63] ++ v ++ [32]
  end.

(* the serialised line of normalize_with *)
Definition nq_opt (g : option term) : str := match g with Some t => nq t | None => [] end.
Definition nq_line (q : quad) : str :=
  let '(s, p, o, g) := q in nq s ++ nq p ++ nq o ++ nq_opt g ++ s_eol.

(* ---------- sorting: insertion sort = what sort_unstable does for len <= 20, and for any
   length whenever the order is total with Leibniz antisymmetry (strings) ---------- *)
Fixpoint insert_by {A} (leb : A -> A -> bool) (x : A) (l : list A) : list A :=
  match l with
  | [] => [x]
  | y :: l' => if leb x y then x :: l else y :: insert_by leb x l'
  end.
Definition sort_by {A} (leb : A -> A -> bool) (l : list A) : list A :=
  fold_right (insert_by leb) [] l.

(* ---------- _c14n_term.rs cmp_c14n_terms + the comparator closure of normalize_with ---------- *)
Definition cmp_c14n (a b : option term) : comparison := str_cmp (nq_opt a) (nq_opt b).
Definition quad_cmp (q1 q2 : quad) : comparison :=
  let '(s1, p1, o1, g1) := q1 in
  let '(s2, p2, o2, g2) := q2 in
  then_cmp (cmp_c14n (Some s1) (Some s2)) (then_cmp (cmp_c14n (Some p1) (Some p2))
    (then_cmp (cmp_c14n (Some o1) (Some o2)) (cmp_c14n g1 g2))).
Definition quad_leb (q1 q2 : quad) : bool := match quad_cmp q1 q2 with Gt => false | _ => true end.

(* ---------- _permutations.rs: Heap's algorithm; output = the slices passed to f, in order,
   together with the final content of `values` ---------- *)
Section Heap.
Context {A : Type}.
Fixpoint set_nth (i : nat) (x : A) (l : list A) : list A :=
  match l, i with
  | [], _ => []
  | _ :: l', O => x :: l'
  | y :: l', S i' => y :: set_nth i' x l'
  end.
Definition swap (i j : nat) (l : list A) : list A :=    (* slice::swap (indices in range) *)
  match nth_error l i, nth_error l j with
  | Some x, Some y => set_nth j x (set_nth i y l)
  | _, _ => l
  end.
(* for i in i0 .. i0+cnt { permutations(size-1); swap } *)
Fixpoint heap_loop (rec : list A -> list (list A) * list A) (size : nat) (cnt i : nat)
         (v : list A) : list (list A) * list A :=
  match cnt with
  | O => ([], v)
  | S c =>
      let (o1, v1) := rec v in
      let v2 := if Nat.odd size then swap 0 (size - 1) v1 else swap i (size - 1) v1 in
      let (o2, v3) := heap_loop rec size c (S i) v2 in
      (o1 ++ o2, v3)
  end.
Fixpoint heap (size : nat) (v : list A) : list (list A) * list A :=
  match size with
  | O => ([], v)                       (* for i in 0..0 *)
  | S n =>
      match n with
      | O => ([v], v)                  (* size == 1 => f(values) *)
      | _ => heap_loop (heap n) size size 0 v
      end
  end.
(* for_each_permutation_of *)
Definition heap_perms (l : list A) : list (list A) :=
  if is_nil l then [] else fst (heap (length l) l).
End Heap.

(* ---------- BTreeMap<String-like, Vec<V>> as a key-sorted association list ---------- *)
Fixpoint bt_push {V} (k : str) (v : V) (m : list (str * list V)) : list (str * list V) :=
  match m with                                  (* entry(k).or_default().push(v) *)
  | [] => [(k, [v])]
  | (k', vs) :: m' =>
      match str_cmp k k' with
      | Lt => (k, [v]) :: m
      | Eq => (k', vs ++ [v]) :: m'
      | Gt => (k', vs) :: bt_push k v m'
      end
  end.
Fixpoint bt_get {V} (m : list (str * V)) (k : str) : option V :=
  match m with
  | [] => None
  | (k', v) :: m' => if str_eqb k' k then Some v else bt_get m' k
  end.

(* ---------- BnodeIssuer: the pairs (existing label, issued identifier) in issue order;
   issued_order = map fst, issued = the same pairs as a map ---------- *)
Definition issuer := list (str * str).
Definition iss_get (i : issuer) (b : str) : option str := bt_get i b.
(* issue: (issuer after, identifier, newly created?) *)
Definition issue (prefix : str) (i : issuer) (b : str) : issuer * str * bool :=
  match iss_get i b with
  | Some id => (i, id, false)
  | None => let id := prefix ++ dec (N.of_nat (length i)) in (i ++ [(b, id)], id, true)
  end.
Definition issue_ (prefix : str) (i : issuer) (b : str) : issuer := fst (fst (issue prefix i b)).

(* ---------- terms and quads ---------- *)
Definition bnode_id (t : term) : option str := match t with Bnode b => Some b | _ => None end.
Definition is_bad (t : term) : bool :=         (* is_triple() || is_variable() *)
  match t with Triple _ _ _ | Var _ => true | _ => false end.
Definition q_pred (q : quad) : term := let '(_, p, _, _) := q in p.
(* iter_spog(..).zip(["s","p","o","g"]) *)
Definition comps (q : quad) : list (N * term) :=
  let '(s, p, o, g) := q in
  [(pos_s, s); (pos_p, p); (pos_o, o)] ++ match g with Some t => [(pos_g, t)] | None => [] end.
Definition mem (b : str) (l : list str) : bool := existsb (str_eqb b) l.

Definition b2q_t := list (str * list quad).

(* Step 2, one quad: the component loop.  [once] = the repaired code (a quad is referenced once
   per blank node: a component is skipped when an earlier component of the same quad is the same
   blank node); [once = false] = the code before the repair (one push per occurrence). *)
Fixpoint step2_comps (once : bool) (q : quad) (seen : list str) (cs : list (N * term))
         (m : b2q_t) : res b2q_t :=
  match cs with
  | [] => Ok m
  | (_, c) :: cs' =>
      if is_bad c then Err EBadTerm
      else match bnode_id c with
           | Some b =>
               if once && mem b seen then step2_comps once q seen cs' m
               else step2_comps once q (b :: seen) cs' (bt_push b q m)
           | None => step2_comps once q seen cs' m
           end
  end.
Fixpoint step2 (once : bool) (d : list quad) (m : b2q_t) : res b2q_t :=
  match d with
  | [] => Ok m
  | q :: d' =>
      match bnode_id (q_pred q) with
      | Some _ => Err EBlankPred
      | None =>
          match step2_comps once q [] (comps q) m with
          | Err e => Err e
          | Ok m' => step2 once d' m'
          end
      end
  end.

(* which version of the crate: [v_once] = a quad is referenced once per blank node (repair of
   DESIGN.md section 4 row 27), [v_prune] = smaller_path follows RDFC-1.0 (second repair) *)
Record variant := mkVar { v_once : bool; v_prune : bool }.

Section Algo.
Variable H : str -> str.

(* ---------- hash_first_degree_quads ---------- *)
Definition nq_for_hash (ref : str) (t : term) : str :=
  match t with
  | Bnode b => if str_eqb b ref then s_a else s_z
  | _ => nq t
  end.
Definition h1d_line (ref : str) (q : quad) : str :=
  let '(s, p, o, g) := q in
  nq_for_hash ref s ++ nq_for_hash ref p ++ nq_for_hash ref o
  ++ match g with Some t => nq_for_hash ref t | None => [] end ++ s_eol.
Definition h1d (ref : str) (qs : list quad) : str :=
  H (concat (sort_by str_leb (map (h1d_line ref) qs))).

(* ---------- the canonicalisation state seen by hash_n_degree_quads ---------- *)
Record state := mkState {
  st_b2q : b2q_t;
  st_b2h : list (str * str);          (* memoised first-degree hashes *)
  st_canon : issuer;                  (* canonical issuer (prefix c14n) *)
  st_df1000 : option N;               (* depth_factor * 1000; None = no limit (not in the crate) *)
  st_plimit : option N;               (* permutation_limit; None = no limit (not in the crate) *)
  st_prune : bool                     (* model only: which smaller_path (true = repaired) *)
}.

(* smaller_path(chosen_path, path): "abandon this permutation".  [smaller_path_prefix] is the
   function before the repair (a shorter chosen path always wins, although a longer path can be
   smaller in code point order: _:b10 < _:b9); [smaller_path] is the repaired one, the rule of
   RDFC-1.0 steps 5.4.4.3 / 5.4.5.5: the path is at least as long as the chosen path and greater
   than it in code point order. *)
Definition smaller_path_prefix (p1 p2 : str) : bool :=
  match Nat.compare (length p1) (length p2) with
  | Lt => true
  | Eq => str_ltb p1 p2
  | Gt => false
  end.
Definition smaller_path (p1 p2 : str) : bool :=
  (length p1 <=? length p2)%nat && str_ltb p1 p2.
Definition prune_rule (repaired : bool) : str -> str -> bool :=
  if repaired then smaller_path else smaller_path_prefix.

(* hash_related_bnode *)
Definition hash_related (st : state) (related : str) (q : quad) (iss : issuer) (pos : N)
  : res str :=
  let pre :=
    if pos =? pos_g then Ok [pos]
    else match q_pred q with
         | Iri p => Ok ([pos] ++ [60] ++ p ++ [62])
         | _ => Err EPredNotIri
         end in
  match pre with
  | Err e => Err e
  | Ok input =>
      match iss_get (st_canon st) related with
      | Some cid => Ok (H (input ++ s_bn ++ cid))
      | None =>
          match iss_get iss related with
          | Some tid => Ok (H (input ++ s_bn ++ tid))
          | None =>
              match bt_get (st_b2h st) related with
              | Some h => Ok (H (input ++ h))
              | None => Err ENoId
              end
          end
      end
  end.

(* hash_n_degree_quads step 3: the map Hn *)
Fixpoint hn_comps (st : state) (ident : str) (iss : issuer) (q : quad) (cs : list (N * term))
         (hn : list (str * list str)) : res (list (str * list str)) :=
  match cs with
  | [] => Ok hn
  | (pos, c) :: cs' =>
      match bnode_id c with
      | Some b =>
          if str_eqb b ident then hn_comps st ident iss q cs' hn
          else match hash_related st b q iss pos with
               | Err e => Err e
               | Ok h => hn_comps st ident iss q cs' (bt_push h b hn)
               end
      | None => hn_comps st ident iss q cs' hn
      end
  end.
Fixpoint hn_quads (st : state) (ident : str) (iss : issuer) (qs : list quad)
         (hn : list (str * list str)) : res (list (str * list str)) :=
  match qs with
  | [] => Ok hn
  | q :: qs' =>
      match hn_comps st ident iss q (comps q) hn with
      | Err e => Err e
      | Ok hn' => hn_quads st ident iss qs' hn'
      end
  end.

(* step 5.4.4: the loop over one permutation *)
Fixpoint perm_ids (canon : issuer) (ic : issuer) (path : str) (rl : list str) (p : list str)
  : issuer * str * list str :=
  match p with
  | [] => (ic, path, rl)
  | r :: p' =>
      match iss_get canon r with
      | Some cid => perm_ids canon ic (path ++ s_bn ++ cid) rl p'
      | None =>
          let '(ic', id, new) := issue s_b ic r in
          perm_ids canon ic' (path ++ s_bn ++ id) (if new then rl ++ [r] else rl) p'
      end
  end.

Section Body.
(* the recursive call self.hash_n_degree_quads(related, &issuer_copy, depth + 1) *)
Variable rec : str -> issuer -> N -> res (str * issuer).
Variable st : state.

(* step 5.4.5; None = "skip to the next permutation" *)
Fixpoint perm_rec (chosen : str) (depth : N) (ic : issuer) (path : str) (rl : list str)
  : res (option (issuer * str)) :=
  match rl with
  | [] => Ok (Some (ic, path))
  | r :: rl' =>
      match rec r ic (depth + 1) with
      | Err e => Err e
      | Ok (h, ic2) =>
          let '(_, id, _) := issue s_b ic r in
          let path' := path ++ s_bn ++ id ++ [60] ++ h ++ [62] in
          if negb (is_nil chosen) && prune_rule (st_prune st) chosen path' then Ok None
          else perm_rec chosen depth ic2 path' rl'
      end
  end.

(* the closure passed to for_each_permutation_of; state = (chosen_path, chosen_issuer) *)
Definition one_perm (base : issuer) (depth : N) (acc : str * option issuer) (p : list str)
  : res (str * option issuer) :=
  let '(chosen, _) := acc in
  let '(ic, path, rl) := perm_ids (st_canon st) base [] [] p in
  if negb (is_nil chosen) && prune_rule (st_prune st) chosen path then Ok acc
  else match perm_rec chosen depth ic path rl with
       | Err e => Err e
       | Ok None => Ok acc
       | Ok (Some (ic', path')) =>
           if is_nil chosen || str_ltb path' chosen then Ok (path', Some ic') else Ok acc
       end.
Fixpoint all_perms (base : issuer) (depth : N) (acc : str * option issuer)
         (ps : list (list str)) : res (str * option issuer) :=
  match ps with
  | [] => Ok acc
  | p :: ps' =>
      match one_perm base depth acc p with
      | Err e => Err e
      | Ok acc' => all_perms base depth acc' ps'
      end
  end.

(* step 5: the loop over Hn; state = (data_to_hash, ret_issuer) *)
Fixpoint hn_groups (iss : issuer) (depth : N) (data : str) (ret : option issuer)
         (hn : list (str * list str)) : res (str * option issuer) :=
  match hn with
  | [] => Ok (data, ret)
  | (rh, bl) :: hn' =>
      let data1 := data ++ rh in
      if match st_plimit st with Some pl => pl <? N.of_nat (length bl) | None => false end
      then Err EToxicPerm
      else
        let base := match ret with Some r => r | None => iss end in
        match all_perms base depth ([], None) (heap_perms bl) with
        | Err e => Err e
        | Ok (chosen, chosen_iss) => hn_groups iss depth (data1 ++ chosen) chosen_iss hn'
        end
  end.

Definition hnd_body (ident : str) (iss : issuer) (depth : N) : res (str * issuer) :=
  if match st_df1000 st with
     | Some df => df * N.of_nat (length (st_b2q st)) <? depth * 1000
     | None => false
     end
  then Err EToxicDepth
  else
    match bt_get (st_b2q st) ident with
    | None => Err ENoId
    | Some qs =>
        match hn_quads st ident iss qs [] with
        | Err e => Err e
        | Ok hn =>
            match hn_groups iss depth [] None hn with
            | Err e => Err e
            | Ok (data, ret) => Ok (H data, match ret with Some r => r | None => iss end)
            end
        end
    end.
End Body.

Fixpoint hnd (fuel : nat) (st : state) (ident : str) (iss : issuer) (depth : N)
  : res (str * issuer) :=
  match fuel with
  | O => Err EFuel
  | S f => hnd_body (hnd f st) st ident iss depth
  end.

(* ---------- relabel_with ---------- *)
(* step 3 *)
Definition step3_b2h (b2q : b2q_t) : list (str * str) :=
  map (fun e => (fst e, h1d (fst e) (snd e))) b2q.
Definition step3_h2b (b2h : list (str * str)) : list (str * list str) :=
  fold_left (fun m e => bt_push (snd e) (fst e) m) b2h [].
(* step 4 *)
Fixpoint step4 (h2b : list (str * list str)) (canon : issuer)
  : list (str * list str) * issuer :=
  match h2b with
  | [] => ([], canon)
  | (h, bl) :: r =>
      match bl with
      | [b] => step4 r (issue_ s_c14n canon b)
      | _ => let (n, c) := step4 r canon in ((h, bl) :: n, c)
      end
  end.
(* step 5.2 *)
Fixpoint step5_paths (fuel : nat) (st : state) (ids : list str) : res (list (str * issuer)) :=
  match ids with
  | [] => Ok []
  | n :: ids' =>
      match hnd fuel st n (issue_ s_b [] n) 0 with
      | Err e => Err e
      | Ok r =>
          match step5_paths fuel st ids' with
          | Err e => Err e
          | Ok l => Ok (r :: l)
          end
      end
  end.
Definition issue_all (prefix : str) (i : issuer) (bs : list str) : issuer :=
  fold_left (issue_ prefix) bs i.
(* step 5.3 *)
Definition path_leb (a b : str * issuer) : bool := str_leb (fst a) (fst b).
Definition step5_issue (canon : issuer) (paths : list (str * issuer)) : issuer :=
  fold_left (fun c r => issue_all s_c14n c (map fst (snd r))) (sort_by path_leb paths) canon.
Definition with_canon (st : state) (c : issuer) : state :=
  mkState (st_b2q st) (st_b2h st) c (st_df1000 st) (st_plimit st) (st_prune st).
Fixpoint step5 (fuel : nat) (st : state) (h2b : list (str * list str)) : res issuer :=
  match h2b with
  | [] => Ok (st_canon st)
  | (_, ids) :: r =>
      match step5_paths fuel st ids with
      | Err e => Err e
      | Ok paths => step5 fuel (with_canon st (step5_issue (st_canon st) paths)) r
      end
  end.
(* step 6 *)
Definition relabel_t (issued : issuer) (t : term) : res term :=
  match t with
  | Bnode b => match iss_get issued b with Some id => Ok (Bnode id) | None => Err ENoId end
  | _ => Ok t
  end.
Definition relabel_q (issued : issuer) (q : quad) : res quad :=
  let '(s, p, o, g) := q in
  match relabel_t issued s, relabel_t issued p, relabel_t issued o with
  | Ok s', Ok p', Ok o' =>
      match g with
      | None => Ok (s', p', o', None)
      | Some t => match relabel_t issued t with Ok t' => Ok (s', p', o', Some t') | Err e => Err e end
      end
  | Err e, _, _ | _, Err e, _ | _, _, Err e => Err e
  end.
Fixpoint relabel_qs (issued : issuer) (d : list quad) : res (list quad) :=
  match d with
  | [] => Ok []
  | q :: d' =>
      match relabel_q issued q with
      | Err e => Err e
      | Ok q' => match relabel_qs issued d' with Err e => Err e | Ok l => Ok (q' :: l) end
      end
  end.

(* relabel_with: (relabelled quads in input order, issued identifiers in issue order).
   [v] selects the code: both repairs (impl_model below) or the code before them. *)
Definition relabel_with (v : variant) (fuel : nat) (df1000 plimit : option N) (d : list quad)
  : res (list quad * issuer) :=
  match step2 (v_once v) d [] with
  | Err e => Err e
  | Ok b2q =>
      let b2h := step3_b2h b2q in
      let (h2b, canon) := step4 (step3_h2b b2h) [] in
      match step5 fuel (mkState b2q b2h canon df1000 plimit (v_prune v)) h2b with
      | Err e => Err e
      | Ok issued =>
          match relabel_qs issued d with
          | Err e => Err e
          | Ok qs => Ok (qs, issued)
          end
      end
  end.

(* normalize_with: the bytes written *)
Definition serialize (qs : list quad) : str := concat (map nq_line (sort_by quad_leb qs)).
Definition normalize_with (v : variant) (fuel : nat) (df1000 plimit : option N) (d : list quad)
  : res (str * issuer) :=
  match relabel_with v fuel df1000 plimit d with
  | Err e => Err e
  | Ok (qs, issued) => Ok (serialize qs, issued)
  end.
End Algo.

(* the implementation after the two repairs (build/proposed/C06.diff), and before them *)
Definition impl_model (H : str -> str) := normalize_with H (mkVar true true).
Definition impl_model_prefix (H : str -> str) := normalize_with H (mkVar false false).

(* ---------- vocabulary of the statements ---------- *)
Definition comp_label (c : N * term) : list str :=
  match bnode_id (snd c) with Some b => [b] | None => [] end.
Definition bnodes_q (q : quad) : list str := flat_map comp_label (comps q).   (* with repetitions *)
Definition bnodes (d : list quad) : list str := flat_map bnodes_q d.
Definition rename_t (f : str -> str) (t : term) : term :=
  match t with Bnode b => Bnode (f b) | _ => t end.
Definition rename_q (f : str -> str) (q : quad) : quad :=
  let '(s, p, o, g) := q in (rename_t f s, rename_t f p, rename_t f o, option_map (rename_t f) g).
(* the identifier map as a function *)
Definition id_of (issued : issuer) (b : str) : str :=
  match iss_get issued b with Some id => id | None => b end.
Definition c14n_id (k : nat) : str := s_c14n ++ dec (N.of_nat k).
(* the domain of RDFC-1.0: no blank predicate, no quoted triple, no variable *)
Definition supported_q (q : quad) : bool :=
  match bnode_id (q_pred q) with Some _ => false | None => true end
  && forallb (fun c => negb (is_bad (snd c))) (comps q).
Definition supported (d : list quad) : bool := forallb supported_q d.
(* the first-degree hash of blank node b in dataset d (steps 2 and 3 of relabel_with) *)
Definition first_degree (H : str -> str) (once : bool) (d : list quad) (b : str) : option str :=
  match step2 once d [] with
  | Ok m => option_map (h1d H b) (bt_get m b)
  | Err _ => None
  end.
(* strictly increasing keys: the BTreeMap representation invariant *)
Fixpoint keys_sorted {V} (m : list (str * V)) : Prop :=
  match m with
  | [] => True
  | (k, _) :: r => match r with [] => True | (k', _) :: _ => str_cmp k k' = Lt end /\ keys_sorted r
  end.

(* ---------- harness-facing ---------- *)
(* the recorded hash table as a function; a miss gives "!" which is no hexadecimal digest *)
Definition tbl_H (tbl : list (str * str)) (x : str) : str :=
  match bt_get tbl x with Some d => d | None => [33] end.
(* C14nIdMap is a BTreeMap: pairs in label order *)
Definition pair_leb (a b : str * str) : bool := str_leb (fst a) (fst b).
Definition pair_eqb (a b : str * str) : bool := str_eqb (fst a) (fst b) && str_eqb (snd a) (snd b).
(* observed outcome: 0 = Ok, 1 = blank predicate, 2 = variable/quoted triple,
   3 = too many recursions, 4 = too many permutations, 5 = panic *)
Definition err_code (e : err) : N :=
  match e with
  | EBlankPred => 1 | EBadTerm => 2 | EToxicDepth => 3 | EToxicPerm => 4
  | EPredNotIri | ENoId => 5 | EFuel => 99
  end.
Definition outcome_eqb (r : res (str * issuer)) (code : N) (bytes : str) (idmap : list (str * str))
  : bool :=
  match r with
  | Ok (b, i) => (code =? 0) && str_eqb b bytes && list_eqb pair_eqb (sort_by pair_leb i) idmap
  | Err e => err_code e =? code
  end.
Definition fuel_for (d : list quad) : nat := S (S (3 * length d)).
(* impl vs model: [repaired] selects the repaired or the pre-repair model (the latter only for
   replaying the defects) *)
Definition impl_ok (repaired : bool) (tbl : list (str * str)) (df1000 plimit : N) (d : list quad)
           (code : N) (bytes : str) (idmap : list (str * str)) : bool :=
  outcome_eqb (normalize_with (tbl_H tbl) (mkVar repaired repaired) (fuel_for d)
                              (Some df1000) (Some plimit) d)
              code bytes idmap.

(* strings in generated case files are packed three code points (21 bits each) per primitive
   63-bit integer literal, 2097151 = padding (elaborating long list literals of N is slow) *)
Definition cp3 (w : Uint63.int) : list N :=
  let z := Z.to_N (Uint63.to_Z w) in
  [N.land z 2097151; N.land (N.shiftr z 21) 2097151; N.shiftr z 42].
Definition U (ws : list Uint63.int) : str :=
  filter (fun c => negb (c =? 2097151)) (flat_map cp3 ws).
