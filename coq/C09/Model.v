(* C09/Model.v -- executable model of sophia_iri:
   * the validators of iri/src/_regex.rs and the constructors of iri/src/_wrapper.rs: the two regular
     expressions are RE-GENERATED from the source on every run (gen/RegexSrc.v) and run by the
     derivative matcher of Regex.v (Regex::is_match on an anchored pattern = whole-string match);
   * the resolver behind Iri::resolve / BaseIri::resolve (iri/src/resolve.rs), i.e. the parser of the
     third-party crate oxiri 0.2.11 run with a base (IriParser::parse_relative, parse_relative_slash,
     parse_path::<true>, remove_last_segment), for references and bases that pass validation;
   * the harness-facing checkers.
   Definitions only. *)
From Sophia.Common Require Import Prelude.
From Sophia.gen Require Export RegexSrc IriWiring.
From Sophia.C09 Require Import Regex Rfc3987 Resolve.

(* ---------- the validators of iri/src/_regex.rs ---------- *)
Definition is_absolute_iri_ref (s : str) : bool := matchb iri_regex s.
Definition is_relative_iri_ref (s : str) : bool := matchb irelative_ref_regex s.
(* RegexSet::is_match: some member matches *)
Definition is_valid_iri_ref (s : str) : bool := matchb iri_regex s || matchb irelative_ref_regex s.
Definition is_valid_suffixed_iri_ref (ns : str) (suffix : option str) : bool :=
  match suffix with None => is_valid_iri_ref ns | Some x => is_valid_iri_ref (ns ++ x) end.
(* Iri::new / IriRef::new (iri/src/_wrapper.rs) *)
Definition iri_new_ok (s : str) : bool := is_absolute_iri_ref s.
Definition iriref_new_ok (s : str) : bool := is_valid_iri_ref s.

(* Namespace::new(ns) then .get(suffix) (api/src/ns/_namespace.rs): IriRef::new on the concatenation *)
Definition namespace_get_ok (ns suffix : str) : bool :=
  is_valid_iri_ref ns && is_valid_suffixed_iri_ref ns (Some suffix).

(* ---------- oxiri's resolution (what BaseIri::resolve runs) ---------- *)
Definition ends_with (suf s : str) : bool :=
  match strip_prefix (rev suf) (rev s) with Some _ => true | None => false end.
Definition starts_with (pre s : str) : bool :=
  match strip_prefix pre s with Some _ => true | None => false end.

(* IriParser::remove_last_segment on the path part of the output *)
Definition ox_remove_last (has_auth : bool) (p : str) : str :=
  if existsb (N.eqb k_slash) p then rev (drop_while not_slash (rev p))   (* keep up to the last "/" *)
  else if has_auth then [k_slash] else [].

(* parse_path::<true>, the branch taken at a "/", "?", "#" or at the end of the input:
   returns the new path and whether control falls through to the "//" check *)
Definition ox_close (has_auth : bool) (p : str) (at_slash : bool) : str * bool :=
  if ends_with [k_slash; k_dot; k_dot] p
  then (ox_remove_last has_auth (firstn (length p - 3) p), true)
  else if ends_with [k_slash; k_dot] p || str_eqb p [k_dot] then (removelast p, true)
  else if str_eqb p [k_dot; k_dot] then ([], true)
  else if at_slash then (p ++ [k_slash], false)
  else (p, true).
(* IriParseErrorKind::PathStartingWithTwoSlashes *)
Definition ox_ambiguous (has_auth : bool) (p : str) : bool :=
  negb has_auth && starts_with [k_slash; k_slash] p.

(* parse_path::<true>: result path and the unread rest of the reference ("?..." / "#..." / "").
   [check] = the parser's UNCHECKED parameter is off: the "//" test is performed and may fail. *)
Fixpoint ox_path (check has_auth : bool) (p : str) (inp : str) : option (str * str) :=
  match inp with
  | [] => let (p', _) := ox_close has_auth p false in
          if check && ox_ambiguous has_auth p' then None else Some (p', [])
  | c :: rest =>
      if N.eqb c k_slash then
        let (p', fall) := ox_close has_auth p true in
        if check && fall && ox_ambiguous has_auth p' then None else ox_path check has_auth p' rest
      else if N.eqb c k_qmark || N.eqb c k_hash then
        let (p', _) := ox_close has_auth p false in
        if check && ox_ambiguous has_auth p' then None else Some (p', inp)
      else ox_path check has_auth (p ++ [c]) rest
  end.

(* oxiri's Iri::resolve (check = true; None = Err(IriParseError)) and Iri::resolve_unchecked (check = false) *)
Definition resolve_gen (check : bool) (base ref : str) : option str :=
  let b := parse5 base in
  let r := parse5 ref in
  let pre := match p_scheme b with Some s => s ++ [k_colon] | None => [] end in          (* base[..scheme_end] *)
  let has_auth := match p_authority b with Some _ => true | None => false end in
  let pre_auth := pre ++ match p_authority b with Some a => k_slash :: k_slash :: a | None => [] end in
  let bq := match p_query b with Some q => k_qmark :: q | None => [] end in
  let finish (x : option (str * str)) := match x with Some (p, tail) => Some (pre_auth ++ p ++ tail) | None => None end in
  match p_scheme r with
  | Some _ => Some ref                                   (* parse_scheme: copied, no dot removal *)
  | None =>
    match ref with
    | [] => Some (pre_auth ++ p_path b ++ bq)
    | c :: rest =>
        if N.eqb c k_slash then
          match rest with
          | d :: _ => if N.eqb d k_slash then Some (pre ++ ref)    (* parse_relative_slash, "//": copied *)
                      else finish (ox_path check has_auth [k_slash] rest)
          | [] => finish (ox_path check has_auth [k_slash] rest)
          end
        else if N.eqb c k_qmark then Some (pre_auth ++ p_path b ++ ref)
        else if N.eqb c k_hash then Some (pre_auth ++ p_path b ++ bq ++ ref)
        else finish (ox_path check has_auth (ox_remove_last has_auth (p_path b)) ref)
    end
  end.

(* BaseIri::resolve / Iri::resolve on a typed (already validated) reference, iri/src/resolve.rs.
   Which of the two oxiri entry points is used is read from the source on every run
   (gen/IriWiring.v): today the checked one, whose Err is unwrapped by Resolvable::output_abs -- None
   is then a panic; with build/proposed/C09-resolve-optional.diff the unchecked one. *)
Definition resolve_impl (base ref : str) : option str := resolve_gen typed_resolve_is_checked base ref.

(* validation: the model (regenerated regexes) against the implementation's four verdicts, the
   hand-written grammar against the Rust oracle's two verdicts, and Namespace::new(ns).get(suffix)
   where ns/suffix are the string cut at [cut] *)
Definition val_ok (s : str) (abs rel iri iref o_iri o_rel : bool) (cut : N) (ns_ok get_ok : bool) : bool :=
  Bool.eqb (is_absolute_iri_ref s) abs && Bool.eqb (is_relative_iri_ref s) rel &&
  Bool.eqb (iri_new_ok s) iri && Bool.eqb (iriref_new_ok s) iref &&
  Bool.eqb (matchb IRI s) o_iri && Bool.eqb (matchb irelative_ref s) o_rel &&
  (let ns := firstn (N.to_nat cut) s in
   let suf := skipn (N.to_nat cut) s in
   Bool.eqb (is_valid_iri_ref ns) ns_ok &&
   Bool.eqb (namespace_get_ok ns suf) get_ok).

(* resolution: for a pair accepted by the implementation, Iri::resolve returned [obs] (None = it
   panicked); the model of the code must agree exactly.  (That the result is the one of RFC 3986 5.2
   and a valid IRI is the PROPERTY: it is checked by the harness oracle, and [spec_res_ok] evaluates
   the same in Coq.) *)
Definition res_ok (base ref : str) (obs : option str) : bool :=
  opt_eqb str_eqb (resolve_impl base ref) obs.
Definition spec_res_ok (base ref : str) (obs : option str) : bool :=
  match obs with
  | Some o => str_eqb (resolve base ref) o && matchb IRI o
  | None => false
  end.

(* ====================================================================================================
   the other public entry points of the anchored files (exercised by the widened harness)
   ==================================================================================================== *)

(* is_valid_iri_ref / is_valid_suffixed_iri_ref called directly (iri/src/_regex.rs), the suffixed form with
   the namespace = the first [cut] code points and with no suffix *)
Definition suffixed_ok (s : str) (cut : N) (valid suf_none suf_some : bool) : bool :=
  Bool.eqb (is_valid_iri_ref s) valid &&
  Bool.eqb (is_valid_suffixed_iri_ref s None) suf_none &&
  Bool.eqb (is_valid_suffixed_iri_ref (firstn (N.to_nat cut) s) (Some (skipn (N.to_nat cut) s))) suf_some.

(* BaseIri::new / BaseIriRef::new (iri/src/resolve.rs): the resolver's own parser (oxiri, third party) used
   as a recogniser.  Iri::as_base / to_base unwrap its verdict on a value accepted by the regexes, and in a
   dev build AsIri::as_iri / AsIriRef::as_iri_ref re-validate a BaseIri with the regexes: both are panic-free
   iff the two recognisers agree, which is what this definition claims (tied by testing only). *)
Definition base_iri_new_ok (s : str) : bool := is_absolute_iri_ref s.
Definition base_iriref_new_ok (s : str) : bool := is_valid_iri_ref s.
Definition basenew_ok (s : str) (ox_abs ox_ref : bool) : bool :=
  Bool.eqb (base_iri_new_ok s) ox_abs && Bool.eqb (base_iriref_new_ok s) ox_ref.

(* the components that BaseIri / BaseIriRef expose through Deref (scheme, authority, path, query,
   fragment, is_absolute): the split of RFC 3986 appendix B *)
Definition base_parts (s : str) : parts := parse5 s.
Definition is_some {A} (o : option A) : bool := match o with Some _ => true | None => false end.
Definition parts_eqb (a b : parts) : bool :=
  opt_eqb str_eqb (p_scheme a) (p_scheme b) && opt_eqb str_eqb (p_authority a) (p_authority b) &&
  str_eqb (p_path a) (p_path b) &&
  opt_eqb str_eqb (p_query a) (p_query b) && opt_eqb str_eqb (p_fragment a) (p_fragment b).
Definition parts_ok (s : str) (abs : bool) (sch auth : option str) (pth : str) (q f : option str) : bool :=
  Bool.eqb (is_some (p_scheme (base_parts s))) abs &&
  parts_eqb (base_parts s) (mk_parts sch auth pth q f).

(* Eq / Ord / PartialOrd (also against str) of the wrappers generated by wrap! (iri/src/_wrap_macro.rs):
   those of the wrapped text *)
Definition wrap_cmp (a b : str) : comparison := str_cmp a b.
Definition wrap_eqb (a b : str) : bool := match wrap_cmp a b with Eq => true | _ => false end.
Definition cmp_eqb (x y : comparison) : bool :=
  match x, y with Eq, Eq | Lt, Lt | Gt, Gt => true | _, _ => false end.
Definition cmp_ok (a b : str) (obs : comparison) : bool := cmp_eqb (wrap_cmp a b) obs.

(* $wid::new_unchecked (iri/src/_wrap_macro.rs): `if cfg!(debug_assertions) { Self::new(inner).unwrap() }`.
   The harness is a dev build. *)
Definition debug_assertions : bool := true.
Definition iriref_new_unchecked_ok (s : str) : bool := if debug_assertions then iriref_new_ok s else true.
Definition iri_new_unchecked_ok (s : str) : bool := if debug_assertions then iri_new_ok s else true.

(* BaseIriRef::resolve / resolve_into (iri/src/resolve.rs), hence IriRef::resolve: oxiri's entry point run on a
   base that may be relative; when the base has no scheme and the first segment of the reference (the part before
   the first "/", "?" or "#") has no ":", a result whose first segment contains ":" is preceded by "./"
   (needs_protection / first_segment / protect_first_segment, RFC 3986 4.2). *)
Definition seg_end (c : N) : bool := N.eqb c k_slash || N.eqb c k_qmark || N.eqb c k_hash.
Definition first_segment (s : str) : str := take_while (fun c => negb (seg_end c)) s.
Definition has_colon (s : str) : bool := existsb (N.eqb k_colon) s.
Definition needs_protection (base ref : str) : bool :=
  negb (is_some (p_scheme (base_parts base))) && negb (has_colon (first_segment ref)).
Definition protect_first_segment (o : str) : str :=
  if has_colon (first_segment o) then k_dot :: k_slash :: o else o.
Definition protect_result (base ref o : str) : str :=
  if needs_protection base ref then protect_first_segment o else o.

(* ... on a typed reference (Resolvable::output_rel): the result is wrapped with IriRef::new_unchecked.
   None = panic. *)
Definition resolve_rel_impl (base ref : str) : option str :=
  match resolve_impl base ref with
  | Some o => let o' := protect_result base ref o in
              if iriref_new_unchecked_ok o' then Some o' else None
  | None => None
  end.
Definition res_rel_ok (base ref : str) (obs : option str) : bool :=
  opt_eqb str_eqb (resolve_rel_impl base ref) obs.

(* BaseIri::resolve / resolve_into / BaseIriRef::resolve / resolve_into on a reference given as &str
   (impl Resolvable for &str): always oxiri's CHECKED entry point, which also validates the reference; its
   Err is returned (None), not unwrapped.  That oxiri rejects exactly the invalid references is the same
   recogniser claim as in base_iriref_new_ok.  (On an absolute base protect_result is the identity.) *)
Definition resolve_str_impl (base ref : str) : option str :=
  if is_valid_iri_ref ref then option_map (protect_result base ref) (resolve_gen true base ref) else None.
Definition res_str_ok (base ref : str) (obs : option str) : bool :=
  opt_eqb str_eqb (resolve_str_impl base ref) obs.

(* ====================================================================================================
   the serde entry points (iri/src/_serde.rs)
   ==================================================================================================== *)
(* impl Deserialize for Iri<T> / IriRef<T>: `T::deserialize(deserializer)?` then `Self::new(inner)`, whose Err becomes
   D::Error::invalid_value.  The inner deserialization of a string succeeds and gives the text (serde / the format,
   third party: tied by the generated cases only), so what is modelled is the validation.  None = Err. *)
Definition iri_deserialize (s : str) : option str := if iri_new_ok s then Some s else None.
Definition iriref_deserialize (s : str) : option str := if iriref_new_ok s then Some s else None.
(* impl Serialize: `self.as_str().serialize(serializer)` -- the text *)
Definition wrapper_serialize (t : str) : str := t.
(* Serialize then Deserialize of the value built from an accepted text (None when the text is not accepted) *)
Definition iri_roundtrip (s : str) : option str :=
  match iri_deserialize s with Some t => iri_deserialize (wrapper_serialize t) | None => None end.
Definition iriref_roundtrip (s : str) : option str :=
  match iriref_deserialize s with Some t => iriref_deserialize (wrapper_serialize t) | None => None end.
(* #[serde(untagged)] enum { Abs(Iri), Ref(IriRef) }: serde tries the variants in order; true = Abs *)
Definition untagged_abs_or_ref (s : str) : option (bool * str) :=
  match iri_deserialize s with
  | Some t => Some (true, t)
  | None => match iriref_deserialize s with Some t => Some (false, t) | None => None end
  end.
Definition opt_bool_eqb (a b : option bool) : bool :=
  match a, b with Some x, Some y => Bool.eqb x y | None, None => true | _, _ => false end.
(* observed: what Deserialize gave for Iri / IriRef, which variant the untagged enum chose, the two round trips *)
Definition serde_ok (s : str) (de_iri de_ref : option str) (cls : option bool) (rt_iri rt_ref : option str) : bool :=
  opt_eqb str_eqb (iri_deserialize s) de_iri && opt_eqb str_eqb (iriref_deserialize s) de_ref &&
  opt_bool_eqb (option_map fst (untagged_abs_or_ref s)) cls &&
  opt_eqb str_eqb (iri_roundtrip s) rt_iri && opt_eqb str_eqb (iriref_roundtrip s) rt_ref.
