(* C04/DocProofs.v -- the DOCUMENT-level ROUND TRIP of the pretty Turtle / TriG writer on the class of datasets that
   need no abbreviation of blank nodes (DocText.v), through the reference reader written from the W3C grammars
   (DocRead.v), built on the term theorem `read_wt` of TermProofs.v:
        read_doc (wt_doc absf pm base ind lab d) = Some (doc_quads d)
   for every indentation made of white space, every prefix map with valid distinct prefixes, every dataset of the
   class whose terms satisfy the hypotheses of the term theorem.
   Part A: white space, continuations, key words.      Part B: the structural layout and its reading, piece by piece
   (object list, predicate-object list, subject tree, graph, PREFIX lines, document).
   Part C: the writer of DocText.v (a state threaded through its functions) produces the structural layout.
   Part D: the document theorem.   Part E: bytes.   Part G: examples, and what happens outside the hypotheses.
   (What the document states is the dataset: DocStore.v.  When a blank node is labelled: DocClass.v.) *)
From Sophia.Common Require Import Prelude Term.
From Sophia.C04 Require Import Regex Grammar TermGrammar Model AtomsProofs TermRead TermText TermProofs DocRead DocText.
From Sophia.C04 Require Proofs TermShapes DocShapes.
From Sophia.C03 Require Model Proofs.

(* ===================================================================================== *)
(* Part A: white space, continuations, key words                                         *)
(* ===================================================================================== *)
Lemma ws_str_app a b : ws_str (a ++ b) = ws_str a && ws_str b.
Proof. apply forallb_app. Qed.

Lemma skip_ws_any w l : ws_str w = true -> skip (w ++ l) = skip l.
Proof.
  induction w as [|a w IH]; intro H; [reflexivity|].
  cbn [ws_str forallb] in H. apply andb_true_iff in H. destruct H as [Ha Hw].
  cbn [app]. unfold skip. cbn [skip_gen]. rewrite Ha. exact (IH Hw).
Qed.
Lemma skip_ws w c r : ws_str w = true -> tstart c = true -> skip (w ++ c :: r) = c :: r.
Proof. intros Hw Hc. rewrite (skip_ws_any w _ Hw). apply skip_tstart. exact Hc. Qed.
Lemma skip_ws1 d l : is_ws d = true -> skip (d :: l) = skip l.
Proof. intro H. unfold skip. cbn [skip_gen]. rewrite H. reflexivity. Qed.

(* a continuation that starts with a white space character and whose next token does not start with '@' or '^^' *)
Lemma stop_after_ws d l : is_ws d = true -> follows_lit (skip l) = false -> stop_ok (d :: l) = true.
Proof.
  intros Hd Hf. unfold stop_ok. rewrite (ws_delim d Hd), (skip_ws1 d l Hd), Hf. reflexivity.
Qed.
Lemma stop_ws_tok d w c r : is_ws d = true -> ws_str w = true -> tstart c = true -> stop_ok (d :: w ++ c :: r) = true.
Proof.
  intros Hd Hw Hc. apply stop_after_ws; [exact Hd|]. rewrite (skip_ws w c r Hw Hc). apply follows_tstart. exact Hc.
Qed.
Lemma stop_comma l : stop_ok (44 :: l) = true.
Proof. reflexivity. Qed.
Lemma stop_semi l : stop_ok (59 :: l) = true.
Proof. reflexivity. Qed.
Lemma stop_dot l : stop_ok (46 :: 10 :: l) = true.
Proof. reflexivity. Qed.

(* ---- one term, the fuel of the term reader being the length of the input ---- *)
Lemma depth_wt_at absf pm p t : (depth t <= length (wt_at absf pm p t))%nat.
Proof.
  unfold wt_at, wt_non_list_term. destruct (allows_coll p); [apply depth_le_len|].
  destruct t; try apply depth_le_len. cbn [depth]. lia.
Qed.
Theorem read_tm_wt absf pm p t rest : pm_ok pm = true -> wf_at p t = true -> stop_ok rest = true ->
  read_tm p pm (wt_at absf pm p t ++ rest) = Some (t, rest).
Proof.
  intros Hpm Hwf Hs. unfold read_tm. apply read_wt; try assumption.
  pose proof (depth_wt_at absf pm p t). rewrite app_length. lia.
Qed.

(* ---- the verb `a` ---- *)
Lemma kw_chars_a : all_in cls_pfx [97].
Proof. constructor; [vm_compute; reflexivity | constructor]. Qed.
Lemma read_verb_a pm rest : stop_ok rest = true -> read_tm TPred pm (97 :: rest) = Some (Iri rdf_type, rest).
Proof.
  intro Hs. pose proof (keyword_not_pname pm [97] rest kw_chars_a Hs) as K. cbn [app] in K.
  unfold read_tm. cbn [read_at].
  change (97 =? 60) with false. change (97 =? 95) with false. change (97 =? 34) with false.
  change (97 =? 40) with false. change (num_start 97) with false. cbn match.
  rewrite K. reflexivity.
Qed.

(* ---- the first character of a subject ---- *)
Lemma wt_subj_head absf pm t : pm_ok pm = true -> wf_at TSubj t = true ->
  exists c r, wt_at absf pm TSubj t = c :: r /\ tstart c = true /\ (c =? 125) = false.
Proof.
  intros Hpm Hwf. destruct t as [i|l|lex dt|lex tag|s pr o|v]; cbn [wf_at allows_lit andb] in Hwf; try discriminate.
  - unfold wt_at. cbn [allows_coll wt_term]. unfold wt_iri.
    destruct (str_eqb w_rdf_nil i); [exists 40, [41]; repeat split; reflexivity|].
    destruct (wt_plain_iri_spelling absf pm i Hwf) as [|pre n suf I E M].
    + exists 60, (i ++ [62]). repeat split; reflexivity.
    + destruct (pname_head pre suf (pm_ok_prefix pm pre n Hpm I)) as [c [r [Eh Hc]]].
      exists c, r. split; [exact Eh|]. split; [apply pn_start_facts; exact Hc|].
      destruct Hc as [->|H]; [reflexivity|]. apply N.eqb_neq. intro E'. rewrite E' in H. vm_compute in H. discriminate H.
  - exists 95, (58 :: l). repeat split; reflexivity.
  - exists 60, (60 :: 32 :: wt_at absf pm TQs s ++ [32] ++ wt_at absf pm TPred pr ++ [32] ++ wt_at absf pm TQo o ++ [32] ++ [62; 62]).
    repeat split; reflexivity.
Qed.

(* ---- key words are not taken for subjects ---- *)
Definition kw_letter (k : N) : Prop := inr k cls_pfx = true /\ inr (k + 32) cls_pfx = true.
Lemma strip_ci_split kw : Forall kw_letter kw -> forall l l', strip_ci kw l = Some l' ->
  exists k', l = k' ++ l' /\ all_in cls_pfx k'.
Proof.
  induction 1 as [|k kw [H1 H2] _ IH]; intros l l' E.
  - cbn [strip_ci] in E. injection E as <-. exists []. split; [reflexivity | constructor].
  - destruct l as [|c l]; [discriminate|]. cbn [strip_ci] in E.
    destruct ((c =? k) || (c =? k + 32)) eqn:Ec; [|discriminate].
    destruct (IH l l' E) as [k' [-> A]]. exists (c :: k'). split; [reflexivity|].
    constructor; [|exact A]. apply orb_true_iff in Ec. destruct Ec as [Ec|Ec]; apply N.eqb_eq in Ec; subst c; assumption.
Qed.
(* a prefixed name does not start with a key word followed by white space *)
Lemma kw_ws_pname kw x y : Forall kw_letter kw -> all_in cls_pfx x -> kw_ws kw (x ++ 58 :: y) = None.
Proof.
  intros K X. unfold kw_ws. destruct (strip_ci kw (x ++ 58 :: y)) as [[|c r]|] eqn:E; try reflexivity.
  destruct (is_ws c) eqn:W; [exfalso|reflexivity].
  destruct (strip_ci_split kw K _ _ E) as [k' [E' A]].
  apply (first_out cls_pfx) in E'; [| exact X | exact A | vm_compute; reflexivity | exact (delim_not_pfx c (ws_delim c W))].
  destruct E' as [_ [<- _]]. discriminate W.
Qed.
Lemma kw_letters_PREFIX : Forall kw_letter kw_PREFIX.
Proof. repeat (constructor; [split; vm_compute; reflexivity|]). constructor. Qed.
Lemma kw_letters_GRAPH : Forall kw_letter kw_GRAPH.
Proof. repeat (constructor; [split; vm_compute; reflexivity|]). constructor. Qed.

Lemma subj_not_kw absf pm t rest : pm_ok pm = true -> wf_at TSubj t = true ->
  kw_ws kw_PREFIX (wt_at absf pm TSubj t ++ rest) = None /\ kw_ws kw_GRAPH (wt_at absf pm TSubj t ++ rest) = None.
Proof.
  intros Hpm Hwf. destruct t as [i|l|lex dt|lex tag|s pr o|v]; cbn [wf_at allows_lit andb] in Hwf; try discriminate.
  - unfold wt_at. cbn [allows_coll wt_term]. unfold wt_iri.
    destruct (str_eqb w_rdf_nil i); [split; reflexivity|].
    destruct (wt_plain_iri_spelling absf pm i Hwf) as [|pre n suf I E M].
    + split; reflexivity.
    + pose proof (prefix_chars pre (pm_ok_prefix pm pre n Hpm I)) as P.
      rewrite <- !app_assoc. cbn [app].
      split; apply kw_ws_pname; [exact kw_letters_PREFIX | exact P | exact kw_letters_GRAPH | exact P].
  - split; reflexivity.
  - split; reflexivity.
Qed.

(* ===================================================================================== *)
(* Part B: the structural layout and its reading                                         *)
(* ===================================================================================== *)
(* The text of a subject tree, given the indentation strings of its predicate level (c1) and object level (c2):
   [tys] the objects of its rdf:type statements, [typ] the predicate of the first of them (what the writer keeps in
   `predicate` after " a "), [oth] the (predicate, object) pairs of its other statements, in store order. *)
Section Lay.
  Variable wterm : tpos -> term -> list N.
  Variables c1 c2 : list N.

  Fixpoint lay_objs_tail (os : list term) : list N :=
    match os with
    | [] => []
    | o :: os' => [44; 10] ++ c2 ++ wterm TObj o ++ lay_objs_tail os'
    end.
  (* the loop of write_properties, [prev] = `predicate` *)
  Fixpoint lay_rest (prev : option term) (qs : list (term * term)) : list N :=
    match qs with
    | [] => []
    | po :: qs' =>
        if negb (opt_eqb term_eqb (Some (fst po)) prev) then
          match prev with Some _ => [59] | None => [] end ++ [10] ++ c1 ++ wterm TPred (fst po) ++ [32] ++
          wterm TObj (snd po) ++ lay_rest (Some (fst po)) qs'
        else [44; 10] ++ c2 ++ wterm TObj (snd po) ++ lay_rest prev qs'
    end.
  Definition lay_props (tys : list term) (typ : term) (oth : list (term * term)) : list N :=
    match tys with
    | [] => lay_rest None oth
    | o :: tys' => [32; 97; 32] ++ wterm TObj o ++ lay_objs_tail tys' ++ lay_rest (Some typ) oth
    end.
End Lay.

Ltac len_lia := repeat (rewrite ?app_length in *; cbn [length] in * ); lia.
Ltac norm_app := repeat (rewrite <- ?app_assoc in *; cbn [app] in * ).

Section Reading.
  Variable absf : str -> bool.
  Variable pm : list (str * str).
  Hypothesis Hpm : pm_ok pm = true.
  Variables c1 c2 : str.
  Hypothesis Hc1 : ws_str c1 = true.
  Hypothesis Hc2 : ws_str c2 = true.

  Notation wt := (wt_at absf pm).

  (* a term after white space *)
  Lemma skip_to_term w p t tail : ws_str w = true -> wf_at p t = true -> skip (w ++ wt p t ++ tail) = wt p t ++ tail.
  Proof.
    intros Hw Hwf. destruct (wt_head absf pm p t Hpm Hwf) as [c [r [-> Hc]]]. cbn [app]. apply skip_ws; assumption.
  Qed.
  Lemma stop_ws_term d w p t tail : is_ws d = true -> ws_str w = true -> wf_at p t = true ->
    stop_ok (d :: w ++ wt p t ++ tail) = true.
  Proof.
    intros Hd Hw Hwf. destruct (wt_head absf pm p t Hpm Hwf) as [c [r [-> Hc]]]. cbn [app]. apply stop_ws_tok; assumption.
  Qed.

  Definition wf_po (po : term * term) : bool := wf_at TPred (fst po) && wf_at TObj (snd po).

  (* a predicate of the class is an IRI: equal to `predicate` in the sense of Term::eq means equal *)
  Lemma pred_same p v : wf_at TPred p = true -> opt_eqb term_eqb (Some p) (Some v) = true -> p = v.
  Proof.
    destruct p as [i|l|lex dt|lex tag|s pr o|x]; cbn [wf_at allows_bnode allows_lit allows_quoted andb]; try discriminate.
    intros _. cbn [opt_eqb]. destruct v; cbn [term_eqb]; try discriminate. intro E. apply str_eqb_eq in E. subst. reflexivity.
  Qed.

  (* ---- what follows an object: the rest of the loop of write_properties, then ".\n" ---- *)
  Lemma stop_rest v oth more : stop_ok (lay_rest wt c1 c2 (Some v) oth ++ 46 :: 10 :: more) = true.
  Proof.
    destruct oth as [|po oth]; [apply stop_dot|]. cbn [lay_rest].
    destruct (negb (opt_eqb term_eqb (Some (fst po)) (Some v))); reflexivity.
  Qed.
  Lemma stop_objs_tail os tail : stop_ok tail = true -> stop_ok (lay_objs_tail wt c2 os ++ tail) = true.
  Proof. intro H. destruct os; [exact H | reflexivity]. Qed.

  (* ---- objectList, continued: (',' object)*, then (';' verb objectList)*, then ".\n" ---- *)
  Theorem read_rest_ok oth : forall v more,
    forallb wf_po oth = true ->
    let X := lay_rest wt c1 c2 (Some v) oth ++ 46 :: 10 :: more in
    exists os X' prs,
      (forall f1, (length X < f1)%nat -> read_objs_tail f1 pm X = Some (os, X')) /\
      (forall f2, (length X < f2)%nat -> read_pol_tail f2 pm X' = Some (prs, 46 :: 10 :: more)) /\
      map (pair v) os ++ prs = oth.
  Proof.
    induction oth as [|po oth IH]; intros v more Hwf X.
    - exists [], X, []. subst X. cbn [lay_rest app] in *.
      repeat split; intros f L; (destruct f as [|f]; [lia|]); reflexivity.
    - cbn [forallb] in Hwf. apply andb_true_iff in Hwf. destruct Hwf as [Hpo Hwf].
      unfold wf_po in Hpo. apply andb_true_iff in Hpo. destruct Hpo as [Hp Ho].
      destruct po as [p o]. cbn [fst snd] in *.
      subst X. cbn [lay_rest fst snd] in *.
      destruct (IH p more Hwf) as [os [X' [prs [R1 [R2 E]]]]].
      set (Y := lay_rest wt c1 c2 (Some p) oth ++ 46 :: 10 :: more) in *.
      destruct (negb (opt_eqb term_eqb (Some p) (Some v))) eqn:Ch.
      + (* another predicate: ";" newline predicate " " object *)
        norm_app. fold Y.
        assert (LY : Nat.lt (length Y) (length (59 :: 10 :: c1 ++ wt TPred p ++ 32 :: wt TObj o ++ Y))).
        { cbn [length]. rewrite !app_length. cbn [length]. rewrite !app_length. lia. }
        exists [], (59 :: 10 :: c1 ++ wt TPred p ++ 32 :: wt TObj o ++ Y), ((p, o) :: map (pair p) os ++ prs).
        split; [intros f1 L; destruct f1 as [|f1]; [lia|]; reflexivity|]. split; [|rewrite E; reflexivity].
        intros f2 L. destruct f2 as [|f2]; [lia|].
        cbn [read_pol_tail]. change (skip (59 :: ?l)) with (59 :: l). change (59 =? 59) with true. cbn match.
        unfold read_vo.
        change (10 :: c1 ++ wt TPred p ++ 32 :: wt TObj o ++ Y) with ((10 :: c1) ++ wt TPred p ++ 32 :: wt TObj o ++ Y).
        rewrite (skip_to_term (10 :: c1) TPred p _ Hc1 Hp).
        destruct (stop_sp_term absf pm TObj o Y Hpm Ho) as [S1 K1].
        rewrite (read_tm_wt absf pm TPred p _ Hpm Hp S1).
        unfold read_objs. rewrite K1.
        rewrite (read_tm_wt absf pm TObj o Y Hpm Ho (stop_rest p oth more)).
        rewrite (R1 f2) by lia. rewrite (R2 f2) by lia. reflexivity.
      + (* the same predicate: "," newline object *)
        apply negb_false_iff in Ch. apply (pred_same p v Hp) in Ch. subst v.
        norm_app. fold Y.
        assert (LY : Nat.lt (length Y) (length (44 :: 10 :: c2 ++ wt TObj o ++ Y))).
        { cbn [length]. rewrite !app_length. lia. }
        exists (o :: os), X', prs. split; [|split; [|cbn [map app]; rewrite E; reflexivity]].
        * intros f1 L. destruct f1 as [|f1]; [lia|].
          cbn [read_objs_tail]. change (skip (44 :: ?l)) with (44 :: l). change (44 =? 44) with true. cbn match.
          change (10 :: c2 ++ wt TObj o ++ Y) with ((10 :: c2) ++ wt TObj o ++ Y).
          rewrite (skip_to_term (10 :: c2) TObj o _ Hc2 Ho).
          rewrite (read_tm_wt absf pm TObj o Y Hpm Ho (stop_rest p oth more)).
          rewrite (R1 f1) by lia. reflexivity.
        * intros f2 L. apply R2. lia.
  Qed.

  (* ---- PIECE 1: an object list, objectList ::= object (',' object)*, after any white space, before a continuation
          that is admissible after a term and does not go on with a comma ---- *)
  Definition no_comma (tail : str) : bool := match skip tail with c :: _ => negb (c =? 44) | [] => true end.
  Lemma read_objs_tail_ok os : forall tail f, forallb (wf_at TObj) os = true -> stop_ok tail = true -> no_comma tail = true ->
    (length (lay_objs_tail wt c2 os ++ tail) < f)%nat ->
    read_objs_tail f pm (lay_objs_tail wt c2 os ++ tail) = Some (os, tail).
  Proof.
    induction os as [|o os IH]; intros tail f Hwf Hs Hn L; (destruct f as [|f]; [lia|]).
    - cbn [lay_objs_tail app read_objs_tail]. unfold no_comma in Hn.
      destruct (skip tail) as [|c r]; [reflexivity|]. apply negb_true_iff in Hn. rewrite Hn. reflexivity.
    - cbn [forallb] in Hwf. apply andb_true_iff in Hwf. destruct Hwf as [Ho Hwf].
      cbn [lay_objs_tail] in *. norm_app.
      cbn [read_objs_tail]. change (skip (44 :: ?l)) with (44 :: l). change (44 =? 44) with true. cbn match.
      change (10 :: c2 ++ wt TObj o ++ lay_objs_tail wt c2 os ++ tail) with ((10 :: c2) ++ wt TObj o ++ lay_objs_tail wt c2 os ++ tail).
      rewrite (skip_to_term (10 :: c2) TObj o _ Hc2 Ho).
      rewrite (read_tm_wt absf pm TObj o _ Hpm Ho (stop_objs_tail os tail Hs)).
      rewrite IH; [reflexivity | exact Hwf | exact Hs | exact Hn |].
      cbn [length] in L. rewrite !app_length in L. rewrite app_length. lia.
  Qed.
  Theorem read_objects_ok w o os tail f :
    ws_str w = true -> forallb (wf_at TObj) (o :: os) = true -> stop_ok tail = true -> no_comma tail = true ->
    (length (w ++ wt TObj o ++ lay_objs_tail wt c2 os ++ tail) <= f)%nat ->
    read_objs f pm (w ++ wt TObj o ++ lay_objs_tail wt c2 os ++ tail) = Some (o :: os, tail).
  Proof.
    intros Hw Hwf Hs Hn L. cbn [forallb] in Hwf. apply andb_true_iff in Hwf. destruct Hwf as [Ho Hwf].
    unfold read_objs. rewrite (skip_to_term w TObj o _ Hw Ho).
    rewrite (read_tm_wt absf pm TObj o _ Hpm Ho (stop_objs_tail os tail Hs)).
    rewrite read_objs_tail_ok; [reflexivity | exact Hwf | exact Hs | exact Hn |].
    destruct (wt_head absf pm TObj o Hpm Ho) as [c [r [E _]]]. rewrite !app_length in L. rewrite E in L. cbn [length] in L.
    rewrite app_length. lia.
  Qed.

  (* the objects of the rdf:type statements, then the rest of the loop *)
  Lemma read_objs_tail_app tys : forall X os X',
    forallb (wf_at TObj) tys = true -> stop_ok X = true ->
    (forall f, (length X < f)%nat -> read_objs_tail f pm X = Some (os, X')) ->
    forall f, (length (lay_objs_tail wt c2 tys ++ X) < f)%nat ->
    read_objs_tail f pm (lay_objs_tail wt c2 tys ++ X) = Some (tys ++ os, X').
  Proof.
    induction tys as [|o tys IH]; intros X os X' Hwf Hs R f L.
    - cbn [lay_objs_tail app] in *. apply R. exact L.
    - destruct f as [|f]; [lia|].
      cbn [forallb] in Hwf. apply andb_true_iff in Hwf. destruct Hwf as [Ho Hwf].
      cbn [lay_objs_tail] in *. norm_app.
      cbn [read_objs_tail]. change (skip (44 :: ?l)) with (44 :: l). change (44 =? 44) with true. cbn match.
      change (10 :: c2 ++ wt TObj o ++ lay_objs_tail wt c2 tys ++ X) with ((10 :: c2) ++ wt TObj o ++ lay_objs_tail wt c2 tys ++ X).
      rewrite (skip_to_term (10 :: c2) TObj o _ Hc2 Ho).
      rewrite (read_tm_wt absf pm TObj o _ Hpm Ho (stop_objs_tail tys X Hs)).
      rewrite (IH X os X' Hwf Hs R); [reflexivity|].
      cbn [length] in L. rewrite !app_length in L. rewrite app_length. lia.
  Qed.

  (* ---- PIECE 2: the predicate-object list of a subject,
          predicateObjectList ::= verb objectList (';' verb objectList)*, up to the final ".\n" ---- *)
  Definition tree_pairs (tys : list term) (oth : list (term * term)) : list (term * term) :=
    map (pair (Iri rdf_type)) tys ++ oth.
  Theorem read_pol_ok tys oth more f :
    forallb (wf_at TObj) tys = true -> forallb wf_po oth = true -> tree_pairs tys oth <> [] ->
    let X := lay_props wt c1 c2 tys (Iri rdf_type) oth ++ 46 :: 10 :: more in
    (length X < f)%nat ->
    read_pol f pm X = Some (tree_pairs tys oth, 46 :: 10 :: more).
  Proof.
    intros Ht Ho Hne X L. subst X. unfold read_pol, read_vo, tree_pairs in *. destruct tys as [|t tys].
    - (* no rdf:type statement: newline predicate " " object ... *)
      destruct oth as [|[p o] oth]; [cbn in Hne; congruence|].
      cbn [forallb] in Ho. apply andb_true_iff in Ho. destruct Ho as [Hpo Ho].
      unfold wf_po in Hpo. cbn [fst snd] in Hpo. apply andb_true_iff in Hpo. destruct Hpo as [Hp Hob].
      cbn [lay_props lay_rest fst snd opt_eqb negb app map] in *.
      destruct (read_rest_ok oth p more Ho) as [os [X' [prs [R1 [R2 E]]]]].
      norm_app.
      set (Y := lay_rest wt c1 c2 (Some p) oth ++ 46 :: 10 :: more) in *.
      change (10 :: c1 ++ wt TPred p ++ 32 :: wt TObj o ++ Y) with ((10 :: c1) ++ wt TPred p ++ 32 :: wt TObj o ++ Y).
      rewrite (skip_to_term (10 :: c1) TPred p _ Hc1 Hp).
      destruct (stop_sp_term absf pm TObj o Y Hpm Hob) as [S1 K1].
      rewrite (read_tm_wt absf pm TPred p _ Hpm Hp S1).
      unfold read_objs. rewrite K1.
      rewrite (read_tm_wt absf pm TObj o Y Hpm Hob (stop_rest p oth more)).
      assert (LY : (length Y < f)%nat).
      { cbn [length] in L. rewrite !app_length in L. cbn [length] in L. rewrite !app_length in L. lia. }
      rewrite (R1 f LY), (R2 f LY). cbn [map app]. rewrite E. reflexivity.
    - (* " a " object ("," newline object)* ... *)
      cbn [forallb] in Ht. apply andb_true_iff in Ht. destruct Ht as [Hto Ht].
      cbn [lay_props map] in *.
      destruct (read_rest_ok oth (Iri rdf_type) more Ho) as [os [X' [prs [R1 [R2 E]]]]].
      norm_app.
      set (Y := lay_rest wt c1 c2 (Some (Iri rdf_type)) oth ++ 46 :: 10 :: more) in *.
      change (skip (32 :: 97 :: ?l)) with (97 :: l).
      destruct (stop_sp_term absf pm TObj t (lay_objs_tail wt c2 tys ++ Y) Hpm Hto) as [S1 K1].
      rewrite (read_verb_a pm _ S1).
      unfold read_objs. rewrite K1.
      assert (SY : stop_ok Y = true) by apply stop_rest.
      rewrite (read_tm_wt absf pm TObj t _ Hpm Hto (stop_objs_tail tys Y SY)).
      assert (LT : (length (lay_objs_tail wt c2 tys ++ Y) < f)%nat).
      { cbn [length] in L. rewrite !app_length in L. rewrite app_length. lia. }
      rewrite (read_objs_tail_app tys Y os X' Ht SY R1 f LT).
      assert (LY : (length Y < f)%nat) by (rewrite app_length in LT; lia).
      rewrite (R2 f LY). cbn [map app]. rewrite map_app, <- app_assoc, E. reflexivity.
  Qed.

  (* ---- PIECE 3: one subject tree, triples ::= subject predicateObjectList, up to the final ".\n" ---- *)
  Theorem read_tree_ok g s tys oth more f :
    wf_at TSubj s = true -> forallb (wf_at TObj) tys = true -> forallb wf_po oth = true -> tree_pairs tys oth <> [] ->
    let X := wt TSubj s ++ lay_props wt c1 c2 tys (Iri rdf_type) oth ++ 46 :: 10 :: more in
    (length X <= f)%nat ->
    read_triples f pm g X = Some (map (fun po => (g, s, fst po, snd po)) (tree_pairs tys oth), 46 :: 10 :: more).
  Proof.
    intros Hs Ht Ho Hne X L. subst X. unfold read_triples.
    assert (St : stop_ok (lay_props wt c1 c2 tys (Iri rdf_type) oth ++ 46 :: 10 :: more) = true).
    { destruct tys as [|t tys]; cbn [lay_props].
      - destruct oth as [|[p o] oth]; [unfold tree_pairs in Hne; cbn in Hne; congruence|].
        cbn [forallb] in Ho. apply andb_true_iff in Ho. destruct Ho as [Hpo _]. unfold wf_po in Hpo.
        cbn [fst snd] in Hpo. apply andb_true_iff in Hpo. destruct Hpo as [Hp _].
        cbn [lay_rest fst snd opt_eqb negb app]. rewrite <- !app_assoc. apply stop_ws_term; [reflexivity | exact Hc1 | exact Hp].
      - reflexivity. }
    rewrite (read_tm_wt absf pm TSubj s _ Hpm Hs St).
    rewrite read_pol_ok; [reflexivity | exact Ht | exact Ho | exact Hne |].
    destruct (wt_head absf pm TSubj s Hpm Hs) as [c [r [E _]]]. rewrite app_length, E in L. cbn [length] in L. lia.
  Qed.
End Reading.

(* ---- the structural document: subject trees, graph blocks ---- *)
(* a subject with the objects of its rdf:type statements and its other (predicate, object) pairs *)
Definition stree := (term * list term * list (term * term))%type.
Definition st_s (t : stree) : term := fst (fst t).
Definition st_tys (t : stree) : list term := snd (fst t).
Definition st_oth (t : stree) : list (term * term) := snd t.
(* a subject tree of the default graph, or `GRAPH g { trees }` *)
Inductive sitem := TopTree (t : stree) | TopBlock (g : term) (ts : list stree).

Section LayDoc.
  Variable wterm : tpos -> term -> list N.
  Variable ei : list N.                       (* the indentation string, encoded *)
  Definition lay_tree (cur : list N) (t : stree) : list N :=
    [10] ++ cur ++ wterm TSubj (st_s t) ++
    lay_props wterm (cur ++ ei) (cur ++ ei ++ ei) (st_tys t) (Iri w_rdf_type) (st_oth t) ++ [46; 10].
  Definition lay_trees (cur : list N) (ts : list stree) : list N := flat_map (lay_tree cur) ts.
  Definition lay_item (cur : list N) (it : sitem) : list N :=
    match it with
    | TopTree t => lay_tree cur t
    | TopBlock g ts =>
        [10] ++ cur ++ [71; 82; 65; 80; 72; 32] ++ wterm TGraph g ++ [32; 123] ++ lay_trees (cur ++ ei) ts ++ [125; 10]
    end.
  Definition lay_items (cur : list N) (its : list sitem) : list N := flat_map (lay_item cur) its.
End LayDoc.

Definition tree_rquads (g : option term) (t : stree) : list rquad :=
  map (fun po => (g, st_s t, fst po, snd po)) (tree_pairs (st_tys t) (st_oth t)).
Definition item_rquads (it : sitem) : list rquad :=
  match it with
  | TopTree t => tree_rquads None t
  | TopBlock g ts => flat_map (tree_rquads (Some g)) ts
  end.
Definition wf_tree (t : stree) : bool :=
  wf_at TSubj (st_s t) && forallb (wf_at TObj) (st_tys t) && forallb wf_po (st_oth t) &&
  negb (is_nil (tree_pairs (st_tys t) (st_oth t))).
Definition wf_item (it : sitem) : bool :=
  match it with
  | TopTree t => wf_tree t
  | TopBlock g ts => wf_at TGraph g && forallb wf_tree ts
  end.

Lemma rdf_type_same : w_rdf_type = rdf_type.
Proof. reflexivity. Qed.

Section ReadingDoc.
  Variable absf : str -> bool.
  Variable pm : list (str * str).
  Hypothesis Hpm : pm_ok pm = true.
  Variable ind : str.
  Hypothesis Hind : ws_str ind = true.
  Notation wt := (wt_at absf pm).

  Lemma wf_tree_parts t : wf_tree t = true ->
    wf_at TSubj (st_s t) = true /\ forallb (wf_at TObj) (st_tys t) = true /\ forallb wf_po (st_oth t) = true /\
    tree_pairs (st_tys t) (st_oth t) <> [].
  Proof.
    unfold wf_tree. intro H. apply andb_true_iff in H. destruct H as [H H4]. apply andb_true_iff in H. destruct H as [H H3].
    apply andb_true_iff in H. destruct H as [H1 H2]. repeat split; try assumption.
    intro E. rewrite E in H4. discriminate.
  Qed.

  (* one tree after white space, in a block or at top level *)
  Lemma read_tree_in g cur t w more f : ws_str cur = true -> ws_str w = true -> wf_tree t = true ->
    let X := w ++ lay_tree wt ind cur t ++ more in
    (length X <= f)%nat ->
    exists c r, skip X = c :: r /\ (c =? 125) = false /\
      kw_ws kw_PREFIX (c :: r) = None /\ kw_ws kw_GRAPH (c :: r) = None /\
      read_triples f pm g (c :: r) = Some (tree_rquads g t, 46 :: 10 :: more).
  Proof.
    intros Hcur Hw Hwf X L. destruct (wf_tree_parts t Hwf) as (Hs & Ht & Ho & Hne).
    subst X. unfold lay_tree in *. norm_app.
    assert (Hc1 : ws_str (cur ++ ind) = true) by (rewrite ws_str_app, Hcur, Hind; reflexivity).
    assert (Hc2 : ws_str (cur ++ ind ++ ind) = true) by (rewrite !ws_str_app, Hcur, Hind; reflexivity).
    set (P := lay_props wt (cur ++ ind) (cur ++ ind ++ ind) (st_tys t) (Iri w_rdf_type) (st_oth t)) in *.
    assert (Hw' : ws_str (w ++ 10 :: cur) = true) by (rewrite ws_str_app, Hw; cbn [ws_str forallb]; exact Hcur).
    pose proof (skip_to_term absf pm Hpm (w ++ 10 :: cur) TSubj (st_s t) (P ++ 46 :: 10 :: more) Hw' Hs) as K.
    norm_app. rewrite K.
    destruct (subj_not_kw absf pm (st_s t) (P ++ 46 :: 10 :: more) Hpm Hs) as [K1 K2].
    assert (RT := read_tree_ok absf pm Hpm (cur ++ ind) (cur ++ ind ++ ind) Hc1 Hc2 g (st_s t) (st_tys t) (st_oth t) more f Hs Ht Ho Hne).
    cbv zeta in RT. change (Iri rdf_type) with (Iri w_rdf_type) in RT. fold P in RT.
    destruct (wt_subj_head absf pm (st_s t) Hpm Hs) as [c [r [E [_ E125]]]].
    rewrite E in *. cbn [app] in *. exists c, (r ++ P ++ 46 :: 10 :: more).
    repeat split; try assumption. apply RT.
    len_lia.
  Qed.

  (* ---- PIECE 4: the inside of a graph block, triplesBlock? '}' ---- *)
  Theorem read_block_ok g cur ts : forall w more f, ws_str cur = true -> ws_str w = true -> forallb wf_tree ts = true ->
    let X := w ++ lay_trees wt ind cur ts ++ 125 :: 10 :: more in
    (length X < f)%nat ->
    read_block f pm (Some g) X = Some (flat_map (tree_rquads (Some g)) ts, 10 :: more).
  Proof.
    induction ts as [|t ts IH]; intros w more f Hcur Hw Hwf X L; subst X; (destruct f as [|f]; [lia|]).
    - cbn [lay_trees flat_map app read_block]. rewrite (skip_ws_any w _ Hw). reflexivity.
    - cbn [forallb] in Hwf. apply andb_true_iff in Hwf. destruct Hwf as [Ht Hwf].
      cbn [lay_trees flat_map] in *. fold (lay_trees wt ind cur ts) in *. norm_app.
      destruct (read_tree_in (Some g) cur t w (lay_trees wt ind cur ts ++ 125 :: 10 :: more) f Hcur Hw Ht) as [c [r [K [E125 [_ [_ RT]]]]]].
      { cbv zeta. len_lia. }
      cbv zeta in K. norm_app.
      cbn [read_block]. rewrite K, E125, RT.
      change (skip (46 :: ?l)) with (46 :: l). change (46 =? 46) with true. cbn match.
      change (10 :: lay_trees wt ind cur ts ++ 125 :: 10 :: more) with ([10] ++ lay_trees wt ind cur ts ++ 125 :: 10 :: more).
      rewrite IH; [reflexivity | exact Hcur | reflexivity | exact Hwf |].
      cbv zeta. unfold lay_tree in L. len_lia.
  Qed.

  (* ---- PIECE 5: the body of a document, (block)* ---- *)
  Theorem read_items_ok cur its : forall w f, ws_str cur = true -> ws_str w = true -> forallb wf_item its = true ->
    let X := w ++ lay_items wt ind cur its in
    (length X < f)%nat ->
    read_top f pm X = Some (flat_map item_rquads its).
  Proof.
    induction its as [|it its IH]; intros w f Hcur Hw Hwf X L; subst X; (destruct f as [|f]; [lia|]).
    - cbn [lay_items flat_map read_top]. rewrite (skip_ws_any w _ Hw). reflexivity.
    - cbn [forallb] in Hwf. apply andb_true_iff in Hwf. destruct Hwf as [Hit Hwf].
      cbn [lay_items flat_map] in *. fold (lay_items wt ind cur its) in *. destruct it as [t|g ts]; cbn [lay_item item_rquads wf_item] in *.
      + destruct (read_tree_in None cur t w (lay_items wt ind cur its) f Hcur Hw Hit) as [c [r [K [_ [K1 [K2 RT]]]]]].
        { cbv zeta. len_lia. }
        cbv zeta in K. norm_app.
        cbn [read_top]. rewrite K, K1, K2, RT.
        change (skip (46 :: ?l)) with (46 :: l). change (46 =? 46) with true. cbn match.
        change (10 :: lay_items wt ind cur its) with ([10] ++ lay_items wt ind cur its).
        rewrite IH; [reflexivity | exact Hcur | reflexivity | exact Hwf |].
        cbv zeta. unfold lay_tree in L. len_lia.
      + apply andb_true_iff in Hit. destruct Hit as [Hg Hts]. norm_app.
        assert (Hw' : ws_str (w ++ 10 :: cur) = true) by (rewrite ws_str_app, Hw; cbn [ws_str forallb]; exact Hcur).
        assert (Hci : ws_str (cur ++ ind) = true) by (rewrite ws_str_app, Hcur, Hind; reflexivity).
        set (B := lay_trees wt ind (cur ++ ind) ts ++ 125 :: 10 :: lay_items wt ind cur its) in *.
        cbn [read_top].
        replace (w ++ 10 :: cur ++ 71 :: 82 :: 65 :: 80 :: 72 :: 32 :: wt TGraph g ++ 32 :: 123 :: B)
          with ((w ++ 10 :: cur) ++ 71 :: 82 :: 65 :: 80 :: 72 :: 32 :: wt TGraph g ++ 32 :: 123 :: B) by (norm_app; reflexivity).
        rewrite (skip_ws (w ++ 10 :: cur) 71 _ Hw' eq_refl).
        change (kw_ws kw_PREFIX (71 :: ?l)) with (@None str).
        change (kw_ws kw_GRAPH (71 :: 82 :: 65 :: 80 :: 72 :: 32 :: ?l)) with (Some l). cbn match.
        pose proof (skip_to_term absf pm Hpm [] TGraph g (32 :: 123 :: B) eq_refl Hg) as KG. cbn [app] in KG. rewrite KG.
        rewrite (read_tm_wt absf pm TGraph g (32 :: 123 :: B) Hpm Hg eq_refl).
        change (skip (32 :: 123 :: B)) with (123 :: B). change (123 =? 123) with true. cbn match.
        unfold B. change (lay_trees wt ind (cur ++ ind) ts ++ 125 :: 10 :: lay_items wt ind cur its)
          with ([] ++ lay_trees wt ind (cur ++ ind) ts ++ 125 :: 10 :: lay_items wt ind cur its).
        rewrite read_block_ok; [| exact Hci | reflexivity | exact Hts |].
        * change (10 :: lay_items wt ind cur its) with ([10] ++ lay_items wt ind cur its).
          rewrite IH; [reflexivity | exact Hcur | reflexivity | exact Hwf |].
          cbv zeta. fold B in L. unfold B in L. len_lia.
        * cbv zeta. fold B in L. unfold B in L. len_lia.
  Qed.
End ReadingDoc.

(* ---- PIECE 6: the PREFIX lines, sparqlPrefix ::= "PREFIX" PNAME_NS IRIREF ---- *)
Definition decl_ok (e : str * str) : bool := prefix_ok (fst e) && iri_ok (snd e).

Lemma prefix_ok_cases p : prefix_ok p = true -> p = [] \/ matchb PN_PREFIX p = true.
Proof.
  unfold prefix_ok. intro H. apply orb_true_iff in H. destruct H as [H|H]; [left; destruct p; [reflexivity|discriminate] | right; exact H].
Qed.

Lemma read_prefix_line pre ns rest : prefix_ok pre = true -> iri_ok ns = true ->
  read_prefix_decl (pre ++ [58; 32; 60] ++ ns ++ [62; 10] ++ rest) = Some (pre, ns, 10 :: rest).
Proof.
  intros Hp Hn. apply prefix_ok_cases in Hp. unfold read_prefix_decl.
  set (tail := 32 :: 60 :: ns ++ 62 :: 10 :: rest).
  replace (pre ++ [58; 32; 60] ++ ns ++ [62; 10] ++ rest) with ((pre ++ [58]) ++ tail) by (unfold tail; norm_app; reflexivity).
  destruct (pname_head pre [] Hp) as [c [r [Eh Hc]]]. rewrite app_nil_r in Eh.
  assert (K : skip ((pre ++ [58]) ++ tail) = (pre ++ [58]) ++ tail).
  { rewrite Eh. cbn [app]. apply skip_tstart. apply pn_start_facts. exact Hc. }
  rewrite K. rewrite (pname_cut (pre ++ [58]) tail (DocShapes.pname_ns_build pre Hp) eq_refl).
  rewrite (split_colon_ok pre [] (prefix_chars pre Hp)).
  unfold tail. change (skip (32 :: 60 :: ?l)) with (60 :: l). change (60 =? 60) with true. cbn match.
  unfold iri_ok in Hn. rewrite (Sophia.C03.Proofs.rd_iri_body_ok ns (10 :: rest) Hn). reflexivity.
Qed.

Theorem read_prefixes_ok pmx : forall pm0 w body f, forallb decl_ok pmx = true -> ws_str w = true ->
  (length (w ++ w_prefixes (fun s => s) pmx ++ body) < f)%nat ->
  exists f' w', ws_str w' = true /\ (length (w' ++ body) < f')%nat /\
    read_top f pm0 (w ++ w_prefixes (fun s => s) pmx ++ body) = read_top f' (pm0 ++ pmx) (w' ++ body).
Proof.
  induction pmx as [|[pre ns] pmx IH]; intros pm0 w body f Hd Hw L.
  - exists f, w. cbn [w_prefixes flat_map app] in *. rewrite app_nil_r. auto.
  - cbn [forallb] in Hd. apply andb_true_iff in Hd. destruct Hd as [He Hd].
    unfold decl_ok in He. cbn [fst snd] in He. apply andb_true_iff in He. destruct He as [Hp Hn].
    destruct f as [|f]; [lia|].
    cbn [w_prefixes flat_map fst snd] in *. fold (w_prefixes (fun s : str => s) pmx) in *. norm_app.
    set (B := w_prefixes (fun s : str => s) pmx ++ body) in *.
    destruct (IH (pm0 ++ [(pre, ns)]) [10] body f Hd eq_refl) as [f' [w' [Hw' [L' R]]]].
    { fold B. cbn [app]. len_lia. }
    exists f', w'. split; [exact Hw'|]. split; [exact L'|].
    rewrite <- app_assoc in R. cbn [app] in R. rewrite <- R. fold B.
    cbn [read_top]. rewrite (skip_ws w 80 _ Hw eq_refl).
    change (kw_ws kw_PREFIX (80 :: 82 :: 69 :: 70 :: 73 :: 88 :: 32 :: ?l)) with (Some l). cbn match.
    pose proof (read_prefix_line pre ns B Hp Hn) as RL. norm_app. rewrite RL. reflexivity.
Qed.

(* ===================================================================================== *)
(* Part C: the writer produces the structural layout                                     *)
(* ===================================================================================== *)
Lemma firstn_unindent {A} (c e : list A) : firstn (length (c ++ e) - length e) (c ++ e) = c.
Proof.
  rewrite app_length. replace (length c + length e - length e)%nat with (length c + 0)%nat by lia.
  rewrite firstn_app_2. cbn [firstn]. apply app_nil_r.
Qed.
Lemma is_type_p q : is_type q = true -> tq_p q = Iri w_rdf_type.
Proof.
  unfold is_type. destruct (tq_p q); cbn [term_eqb]; try discriminate. intro E. apply str_eqb_eq in E. subst. reflexivity.
Qed.
Lemma filter_filter {A} (f g : A -> bool) l : filter f (filter g l) = filter (fun x => g x && f x) l.
Proof.
  induction l as [|x l IH]; [reflexivity|]. cbn [filter]. destruct (g x); cbn [filter andb]; [destruct (f x)|]; rewrite IH; reflexivity.
Qed.

Section WriterLayout.
  Variable enc : str -> list N.
  Variable wterm : tpos -> term -> list N.
  Variable indentation : str.
  Variable d : list tquad.
  Notation ei := (enc indentation).
  Notation St o i := {| l_out := o; l_ind := i |}.

  (* the subject tree of (g, s) *)
  Definition tys_of (g : option term) (s : term) : list term :=
    map tq_o (filter (fun q => m_subj s q && is_type q && m_g g q) d).
  Definition oth_of (qs : list tquad) : list (term * term) :=
    map (fun q => (tq_p q, tq_o q)) (filter (fun q => negb (is_type q)) qs).
  Definition tree_of (g : option term) (s : term) : stree := (s, tys_of g s, oth_of (group d g s)).

  Lemma unindent_St o c : unindent enc indentation (St o (c ++ ei)) = St o c.
  Proof. unfold unindent. cbn [l_out l_ind]. rewrite firstn_unindent. reflexivity. Qed.

  Lemma w_objects_tail_lay os : forall o i,
    w_objects_tail wterm os (St o i) = St (o ++ lay_objs_tail wterm i os) i.
  Proof.
    induction os as [|x os IH]; intros o i; cbn [w_objects_tail lay_objs_tail].
    - rewrite app_nil_r. reflexivity.
    - unfold w_object, newline, put. cbn [l_out l_ind]. rewrite IH. f_equal. norm_app. reflexivity.
  Qed.

  Lemma fold_prop_step_lay c1 qs : forall o prev,
    exists prev',
      fold_left (prop_step enc wterm indentation) qs
                (St o (match prev with None => c1 | Some _ => c1 ++ ei end), prev)
      = (St (o ++ lay_rest wterm c1 (c1 ++ ei) prev (oth_of qs))
            (match prev' with None => c1 | Some _ => c1 ++ ei end), prev').
  Proof.
    induction qs as [|q qs IH]; intros o prev.
    - exists prev. cbn [fold_left oth_of filter map lay_rest]. rewrite app_nil_r. reflexivity.
    - cbn [fold_left]. unfold prop_step at 2. cbn [fst snd]. unfold oth_of. cbn [filter]. unfold is_type at 1.
      destruct (term_eqb (Iri w_rdf_type) (tq_p q)) eqn:Ety; cbn [negb].
      + apply IH.
      + cbn [map lay_rest fst snd].
        destruct (negb (opt_eqb term_eqb (Some (tq_p q)) prev)) eqn:Ch.
        * destruct prev as [v|].
          -- change (put [59] (St o (c1 ++ ei))) with (St (o ++ [59]) (c1 ++ ei)). rewrite unindent_St.
             unfold w_object, indent, newline, put. cbn [l_out l_ind].
             destruct (IH ((((((o ++ [59]) ++ 10 :: c1) ++ wterm TPred (tq_p q)) ++ [32]) ++ wterm TObj (tq_o q))) (Some (tq_p q))) as [prev' R].
             exists prev'. rewrite R. f_equal. f_equal. norm_app. reflexivity.
          -- unfold w_object, indent, newline, put. cbn [l_out l_ind].
             destruct (IH (((((o ++ 10 :: c1) ++ wterm TPred (tq_p q)) ++ [32]) ++ wterm TObj (tq_o q))) (Some (tq_p q))) as [prev' R].
             exists prev'. rewrite R. f_equal. f_equal. norm_app. reflexivity.
        * destruct prev as [v|]; [|discriminate Ch].
          unfold w_object, newline, put. cbn [l_out l_ind].
          destruct (IH (((o ++ [44]) ++ 10 :: c1 ++ ei) ++ wterm TObj (tq_o q)) (Some v)) as [prev' R].
          exists prev'. rewrite R. f_equal. f_equal. norm_app. reflexivity.
  Qed.

  (* write_properties *)
  Theorem w_properties_lay g s o c :
    w_properties enc wterm indentation d g s (St o c)
    = St (o ++ lay_props wterm (c ++ ei) (c ++ ei ++ ei) (tys_of g s) (Iri w_rdf_type) (oth_of (group d g s))) c.
  Proof.
    unfold w_properties, tys_of. fold (group d g s).
    set (tq := filter (fun q => m_subj s q && is_type q && m_g g q) d).
    assert (Htq : forall q, In q tq -> is_type q = true).
    { intros q I. unfold tq in I. apply filter_In in I. destruct I as [_ I]. apply andb_true_iff in I. destruct I as [I _].
      apply andb_true_iff in I. destruct I as [_ I]. exact I. }
    rewrite (app_assoc c ei ei).
    destruct tq as [|q0 tq'].
    - cbn [map lay_props]. unfold indent. cbn [l_out l_ind].
      destruct (fold_prop_step_lay (c ++ ei) (group d g s) o None) as [prev' R]. rewrite R. cbn [fst snd].
      destruct prev'; rewrite !unindent_St; reflexivity.
    - cbn [map lay_props w_objects]. unfold w_object, indent, put. cbn [l_out l_ind]. rewrite w_objects_tail_lay.
      rewrite (is_type_p q0 (Htq q0 (or_introl eq_refl))).
      destruct (fold_prop_step_lay (c ++ ei) (group d g s) (((o ++ [32; 97; 32]) ++ wterm TObj (tq_o q0)) ++ lay_objs_tail wterm ((c ++ ei) ++ ei) (map tq_o tq')) (Some (Iri w_rdf_type))) as [prev' R].
      rewrite R. cbn [fst snd].
      destruct prev'; rewrite !unindent_St; f_equal; norm_app; reflexivity.
  Qed.

  (* write_tree, write_graph *)
  Lemma w_tree_lay g s o c :
    w_tree enc wterm indentation d g s (St o c) = St (o ++ lay_tree wterm ei c (tree_of g s)) c.
  Proof.
    unfold w_tree, newline. unfold put at 2 3. cbn [l_out l_ind]. rewrite w_properties_lay. unfold put. cbn [l_out l_ind].
    f_equal. unfold lay_tree, tree_of, st_s, st_tys, st_oth. cbn [fst snd]. norm_app. reflexivity.
  Qed.
  Lemma w_graph_lay g keys : forall o c,
    w_graph enc wterm indentation d g keys (St o c)
    = St (o ++ lay_trees wterm ei c (map (fun k => tree_of g (snd k)) keys)) c.
  Proof.
    unfold w_graph. induction keys as [|k keys IH]; intros o c; cbn [fold_left map lay_trees flat_map].
    - rewrite app_nil_r. reflexivity.
    - rewrite w_tree_lay, IH. f_equal. unfold lay_trees. norm_app. reflexivity.
  Qed.

  (* the named graphs, as structural items *)
  Fixpoint named_items (fuel : nat) (keys : list tkey) : list sitem :=
    match fuel with
    | O => []
    | S f =>
        match keys with
        | [] => []
        | k1 :: _ =>
            let run := take_while (fun k => gn_eqb (fst k1) (fst k)) keys in
            match fst k1 with
            | Some g => TopBlock g (map (fun k => tree_of (fst k1) (snd k)) run) :: named_items f (skipn (length run) keys)
            | None => []
            end
        end
    end.
  Definition has_g (k : tkey) : bool := negb (is_none (fst k)).
  Lemma forallb_skipn {A} (f : A -> bool) n : forall l, forallb f l = true -> forallb f (skipn n l) = true.
  Proof.
    induction n as [|n IH]; intros l H; [exact H|]. destruct l as [|x l]; [reflexivity|].
    cbn [forallb] in H. apply andb_true_iff in H. destruct H as [_ H]. cbn [skipn]. apply IH. exact H.
  Qed.
  Theorem w_named_lay fuel : forall keys o c, forallb has_g keys = true ->
    w_named enc wterm indentation d fuel keys (St o c)
    = Some (St (o ++ lay_items wterm ei c (named_items fuel keys)) c).
  Proof.
    induction fuel as [|f IH]; intros keys o c H; cbn [w_named named_items].
    - cbn [lay_items flat_map]. rewrite app_nil_r. reflexivity.
    - destruct keys as [|k1 keys]; [cbn [lay_items flat_map]; rewrite app_nil_r; reflexivity|].
      set (run := take_while (fun k => gn_eqb (fst k1) (fst k)) (k1 :: keys)).
      pose proof H as H1. cbn [forallb] in H1. apply andb_true_iff in H1. destruct H1 as [H1 _].
      unfold has_g in H1. destruct (fst k1) as [g|] eqn:Eg; [|discriminate].
      unfold newline, indent, put. cbn [l_out l_ind].
      rewrite w_graph_lay. rewrite unindent_St. cbn [l_out l_ind].
      rewrite IH by (apply forallb_skipn; exact H).
      f_equal. f_equal. cbn [lay_items flat_map lay_item]. fold (lay_items wterm ei c). norm_app. reflexivity.
  Qed.

  (* the whole body *)
  Definition doc_items : list sitem :=
    let keys := subject_keys d in
    let dflt := take_while (fun k => is_none (fst k)) keys in
    map (fun k => TopTree (tree_of None (snd k))) dflt ++ named_items (length keys) (skipn (length dflt) keys).
  Lemma lay_items_app cur a b : lay_items wterm ei cur (a ++ b) = lay_items wterm ei cur a ++ lay_items wterm ei cur b.
  Proof. unfold lay_items. apply flat_map_app. Qed.
  Lemma lay_items_trees cur ts : lay_items wterm ei cur (map TopTree ts) = lay_trees wterm ei cur ts.
  Proof. unfold lay_items, lay_trees. induction ts as [|t ts IH]; [reflexivity|]. cbn [map flat_map lay_item]. rewrite IH. reflexivity. Qed.
  Theorem w_all_lay base :
    forallb has_g (skipn (length (take_while (fun k => is_none (fst k)) (subject_keys d))) (subject_keys d)) = true ->
    w_all enc wterm indentation d base = Some (St (lay_items wterm ei (enc base) doc_items) (enc base)).
  Proof.
    intro H. unfold w_all, doc_items.
    set (keys := subject_keys d) in *. set (dflt := take_while (fun k => is_none (fst k)) keys) in *.
    rewrite lay_items_app. rewrite <- (map_map (fun k => tree_of None (snd k)) TopTree), lay_items_trees.
    destruct dflt as [|k0 dflt'] eqn:Ed.
    - cbn [map lay_trees flat_map app]. rewrite w_named_lay by exact H. reflexivity.
    - rewrite w_graph_lay. rewrite w_named_lay by exact H. reflexivity.
  Qed.
End WriterLayout.

(* ===================================================================================== *)
(* Part D: the document theorem                                                          *)
(* ===================================================================================== *)
(* ---- the subjects of the default graph come first ---- *)
Lemma dedup_first_incl l : forall prev k, In k (dedup_first prev l) -> In k l.
Proof.
  induction l as [|x l IH]; intros prev k I; [exact I|]. cbn [dedup_first] in I.
  match type of I with context [if ?b then _ else _] => destruct b end; [right; exact (IH _ _ I)|].
  destruct I as [->|I]; [left; reflexivity | right; exact (IH _ _ I)].
Qed.
Lemma take_while_incl {A} (f : A -> bool) l k : In k (take_while f l) -> In k l /\ f k = true.
Proof.
  induction l as [|x l IH]; intro I; [destruct I|]. cbn [take_while] in I. destruct (f x) eqn:E; [|destruct I].
  destruct I as [->|I]; [split; [left; reflexivity | exact E] | destruct (IH I); split; [right|]; assumption].
Qed.
Lemma skipn_incl {A} n : forall (l : list A) k, In k (skipn n l) -> In k l.
Proof.
  induction n as [|n IH]; intros l k I; [exact I|]. destruct l as [|x l]; [destruct I|]. right. exact (IH l k I).
Qed.
Lemma all_some_nones_first l : forallb (fun g : option term => negb (is_none g)) l = true -> nones_first l = true.
Proof.
  induction l as [|[x|] l IH]; intro H; [reflexivity| |discriminate]. cbn [forallb] in H.
  apply andb_true_iff in H. destruct H as [_ H]. exact H.
Qed.
Lemma nones_first_tail a l : nones_first (a :: l) = true -> nones_first l = true.
Proof. destruct a; cbn [nones_first]; [apply all_some_nones_first | exact (fun H => H)]. Qed.
Lemma nones_first_dedup l : forall prev, nones_first (map fst l) = true -> nones_first (map fst (dedup_first prev l)) = true.
Proof.
  induction l as [|x l IH]; intros prev H; [reflexivity|]. cbn [dedup_first].
  match goal with |- context [if ?b then _ else _] => destruct b end; [apply IH; exact (nones_first_tail _ _ H)|].
  cbn [map nones_first] in *. destruct (fst x); [|apply IH; exact H].
  apply forallb_forall. intros g I. apply in_map_iff in I. destruct I as [k [<- I]].
  apply dedup_first_incl in I. rewrite forallb_forall in H. apply H. apply in_map. exact I.
Qed.
Lemma nones_first_skip (l : list tkey) : nones_first (map fst l) = true ->
  forallb has_g (skipn (length (take_while (fun k => is_none (fst k)) l)) l) = true.
Proof.
  induction l as [|x l IH]; intro H; [reflexivity|]. cbn [take_while map nones_first] in *.
  destruct (fst x) eqn:E; cbn [is_none length skipn].
  - cbn [forallb]. unfold has_g at 1. rewrite E. cbn [is_none negb andb].
    apply forallb_forall. intros k I. rewrite forallb_forall in H. apply (H (fst k)). apply in_map. exact I.
  - apply IH. exact H.
Qed.
Lemma keys_has_g d : nones_first (map tq_g d) = true ->
  forallb has_g (skipn (length (take_while (fun k => is_none (fst k)) (subject_keys d))) (subject_keys d)) = true.
Proof.
  intro H. apply nones_first_skip. unfold subject_keys. apply nones_first_dedup.
  rewrite map_map. exact H.
Qed.

(* ---- the structural items of a well-formed dataset are well-formed ---- *)
Lemma gn_eqb_refl g : gn_eqb g g = true.
Proof. destruct g; [apply term_eqb_refl | reflexivity]. Qed.
Lemma wf_graph_eq g x : wf_at TGraph g = true -> term_eqb g x = true -> g = x.
Proof.
  destruct g as [i|l|lex dt|lex tag|s pr o|v]; cbn [wf_at allows_lit allows_quoted andb]; try discriminate;
    intros _; destruct x; cbn [term_eqb]; try discriminate; intro E; apply str_eqb_eq in E; subst; reflexivity.
Qed.

Section Items.
  Variable d : list tquad.
  Hypothesis Hd : forallb wf_quad d = true.

  Lemma wf_quad_parts q : In q d ->
    match tq_g q with Some g => wf_at TGraph g = true | None => True end /\
    wf_at TSubj (tq_s q) = true /\ wf_at TPred (tq_p q) = true /\ wf_at TObj (tq_o q) = true.
  Proof.
    intro Iq. pose proof Hd as H0. rewrite forallb_forall in H0. specialize (H0 q Iq). unfold wf_quad in H0.
    apply andb_true_iff in H0. destruct H0 as [H H4]. apply andb_true_iff in H. destruct H as [H H3].
    apply andb_true_iff in H. destruct H as [H1 H2]. repeat split; try assumption.
    destruct (tq_g q); [exact H1 | exact Logic.I].
  Qed.

  (* a key that comes from a quad of d *)
  Definition from_d (k : tkey) : Prop := exists q, In q d /\ key_of q = k.
  Lemma keys_from_d k : In k (subject_keys d) -> from_d k.
  Proof.
    unfold subject_keys. intro I. apply dedup_first_incl in I. apply in_map_iff in I.
    destruct I as [q [E I]]. exists q. auto.
  Qed.

  Lemma wf_tree_of g k : from_d k -> fst k = g -> wf_tree (tree_of d g (snd k)) = true.
  Proof.
    intros [q [I E]] Eg. subst g. destruct (wf_quad_parts q I) as (_ & Hs & _ & _).
    unfold key_of in E. subst k. cbn [fst snd].
    unfold wf_tree, tree_of, st_s, st_tys, st_oth. cbn [fst snd]. rewrite Hs. cbn [andb].
    assert (Ht : forallb (wf_at TObj) (tys_of d (tq_g q) (tq_s q)) = true).
    { unfold tys_of. apply forallb_forall. intros o Io. apply in_map_iff in Io. destruct Io as [q' [<- Iq]].
      apply filter_In in Iq. destruct Iq as [Iq _]. apply (wf_quad_parts q' Iq). }
    assert (Ho : forallb wf_po (oth_of (group d (tq_g q) (tq_s q))) = true).
    { unfold oth_of. apply forallb_forall. intros po Io. apply in_map_iff in Io. destruct Io as [q' [<- Iq]].
      apply filter_In in Iq. destruct Iq as [Iq _]. unfold group in Iq. apply filter_In in Iq. destruct Iq as [Iq _].
      destruct (wf_quad_parts q' Iq) as (_ & _ & Hp & Hob). unfold wf_po. cbn [fst snd]. rewrite Hp, Hob. reflexivity. }
    rewrite Ht, Ho. cbn [andb].
    assert (Ig : In q (group d (tq_g q) (tq_s q))).
    { unfold group. apply filter_In. split; [exact I|]. unfold m_subj, m_g. rewrite term_eqb_refl, gn_eqb_refl. reflexivity. }
    unfold tree_pairs. destruct (is_type q) eqn:Ety.
    - assert (It : In (tq_o q) (tys_of d (tq_g q) (tq_s q))).
      { unfold tys_of. apply in_map. apply filter_In. split; [exact I|]. unfold m_subj, m_g. rewrite term_eqb_refl, gn_eqb_refl, Ety. reflexivity. }
      destruct (tys_of d (tq_g q) (tq_s q)); [destruct It | reflexivity].
    - assert (Io : In (tq_p q, tq_o q) (oth_of (group d (tq_g q) (tq_s q)))).
      { unfold oth_of. apply (in_map (fun q0 => (tq_p q0, tq_o q0))). apply filter_In. split; [exact Ig|]. rewrite Ety. reflexivity. }
      destruct (oth_of (group d (tq_g q) (tq_s q))); [destruct Io|].
      destruct (map (pair (Iri rdf_type)) (tys_of d (tq_g q) (tq_s q))); reflexivity.
  Qed.

  Lemma wf_named_items fuel : forall keys, (forall k, In k keys -> from_d k) ->
    forallb wf_item (named_items d fuel keys) = true.
  Proof.
    induction fuel as [|f IH]; intros keys H; [reflexivity|]. cbn [named_items].
    destruct keys as [|k1 keys]; [reflexivity|].
    set (run := take_while (fun k => gn_eqb (fst k1) (fst k)) (k1 :: keys)).
    destruct (fst k1) as [g|] eqn:Eg; [|reflexivity].
    assert (Hg : wf_at TGraph g = true).
    { destruct (H k1 (or_introl eq_refl)) as [q [I E]]. pose proof (wf_quad_parts q I) as [G _].
      unfold key_of in E. subst k1. cbn [fst] in Eg. rewrite Eg in G. exact G. }
    cbn [forallb wf_item]. rewrite Hg. cbn [andb]. apply andb_true_iff. split.
    - apply forallb_forall. intros t It. apply in_map_iff in It. destruct It as [k [<- Ik]].
      apply take_while_incl in Ik. destruct Ik as [Ik Ek]. apply wf_tree_of; [apply H; exact Ik|].
      destruct (fst k) as [gk|]; [|discriminate Ek]. cbn [gn_eqb opt_eqb] in Ek.
      rewrite (wf_graph_eq g gk Hg Ek). reflexivity.
    - apply IH. intros k Ik. apply H. exact (skipn_incl _ _ _ Ik).
  Qed.

  Theorem wf_doc_items : forallb wf_item (doc_items d) = true.
  Proof.
    unfold doc_items. rewrite forallb_app. apply andb_true_iff. split.
    - apply forallb_forall. intros it I. apply in_map_iff in I. destruct I as [k [<- Ik]].
      apply take_while_incl in Ik. destruct Ik as [Ik Ek]. cbn [wf_item]. apply wf_tree_of; [apply keys_from_d; exact Ik|].
      destruct (fst k); [discriminate Ek | reflexivity].
    - apply wf_named_items. intros k Ik. apply keys_from_d. exact (skipn_incl _ _ _ Ik).
  Qed.
End Items.

(* ---- what the structural items state is doc_quads ---- *)
Lemma tree_rquads_of d g s :
  tree_rquads g (tree_of d g s) = map (fun q => (g, s, tq_p q, tq_o q)) (props_quads d g s).
Proof.
  unfold tree_rquads, tree_of, st_s, st_tys, st_oth, tree_pairs, props_quads. cbn [fst snd].
  rewrite !map_app. f_equal.
  - unfold tys_of, group. rewrite filter_filter, !map_map.
    rewrite (filter_ext (fun q => m_subj s q && is_type q && m_g g q) (fun x => m_subj s x && m_g g x && is_type x))
      by (intro q; destruct (m_subj s q), (is_type q), (m_g g q); reflexivity).
    apply map_ext_in. intros q I. apply filter_In in I. destruct I as [_ I]. apply andb_true_iff in I. destruct I as [_ I].
    cbn [fst snd]. rewrite (is_type_p q I). reflexivity.
  - unfold oth_of. rewrite map_map. reflexivity.
Qed.
Lemma named_items_quads d fuel : forall keys, forallb has_g keys = true ->
  flat_map item_rquads (named_items d fuel keys) = named_quads d fuel keys.
Proof.
  induction fuel as [|f IH]; intros keys H; [reflexivity|]. cbn [named_items named_quads].
  destruct keys as [|k1 keys]; [reflexivity|].
  pose proof H as H1. cbn [forallb] in H1. apply andb_true_iff in H1. destruct H1 as [H1 _].
  unfold has_g in H1. destruct (fst k1) as [g|] eqn:Eg; [|discriminate].
  cbn [flat_map item_rquads]. rewrite IH by (apply forallb_skipn; exact H). f_equal.
  unfold graph_quads. rewrite flat_map_concat_map, map_map, <- flat_map_concat_map.
  apply flat_map_ext. intro k. rewrite tree_rquads_of. reflexivity.
Qed.
Theorem doc_items_quads d : nones_first (map tq_g d) = true -> flat_map item_rquads (doc_items d) = doc_quads d.
Proof.
  intro H. unfold doc_items, doc_quads. rewrite flat_map_app. f_equal.
  - unfold graph_quads. rewrite flat_map_concat_map, map_map, <- flat_map_concat_map.
    apply flat_map_ext. intro k. cbn [item_rquads]. rewrite tree_rquads_of. reflexivity.
  - apply named_items_quads. apply keys_has_g. exact H.
Qed.

(* ---- THE DOCUMENT THEOREM (code points) ---- *)
Lemma doc_hyps_parts pm base ind d : doc_hyps pm base ind d = true ->
  pm_ok pm = true /\ ns_ok pm = true /\ ws_str base = true /\ ws_str ind = true /\ forallb wf_quad d = true /\
  nones_first (map tq_g d) = true.
Proof.
  unfold doc_hyps. intro H.
  apply andb_true_iff in H. destruct H as [H H6]. apply andb_true_iff in H. destruct H as [H H5].
  apply andb_true_iff in H. destruct H as [H H4]. apply andb_true_iff in H. destruct H as [H H3].
  apply andb_true_iff in H. destruct H as [H1 H2]. repeat split; assumption.
Qed.
Lemma decls_ok pm : pm_ok pm = true -> ns_ok pm = true -> forallb decl_ok pm = true.
Proof.
  unfold pm_ok, ns_ok. intros H1 H2. apply andb_true_iff in H1. destruct H1 as [H1 _].
  rewrite forallb_forall in *. intros e I. unfold decl_ok. rewrite (H1 e I), (H2 e I). reflexivity.
Qed.

(* the text of a document of the class, and its reading *)
Definition doc_text (absf : str -> bool) (pm : list (str * str)) (base ind : str) (d : list tquad) : str :=
  w_prefixes (fun s => s) pm ++ lay_items (wt_at absf pm) ind base (doc_items d).

Theorem wt_doc_text absf pm base ind lab d : nones_first (map tq_g d) = true -> in_class lab d = true ->
  wt_doc absf pm base ind lab d = Some (doc_text absf pm base ind d).
Proof.
  intros H C. unfold wt_doc, doc_gen. rewrite C.
  rewrite (w_all_lay (fun s => s) (wt_at absf pm) ind d base (keys_has_g d H)). reflexivity.
Qed.

Theorem read_doc_text absf pm base ind d : doc_hyps pm base ind d = true ->
  read_doc (doc_text absf pm base ind d) = Some (doc_quads d).
Proof.
  intro H. destruct (doc_hyps_parts pm base ind d H) as (Hpm & Hns & Hb & Hi & Hd & Hn).
  unfold read_doc, doc_text.
  destruct (read_prefixes_ok pm [] [] (lay_items (wt_at absf pm) ind base (doc_items d))
              (S (length (w_prefixes (fun s => s) pm ++ lay_items (wt_at absf pm) ind base (doc_items d))))
              (decls_ok pm Hpm Hns) eq_refl) as [f' [w' [Hw' [L' R]]]]; [cbn [app]; lia|].
  cbn [app] in R. rewrite R.
  rewrite (read_items_ok absf pm Hpm ind Hi base (doc_items d) w' f' Hb Hw' (wf_doc_items d Hd) L').
  rewrite (doc_items_quads d Hn). reflexivity.
Qed.

Theorem doc_roundtrip absf pm base ind lab d :
  doc_hyps pm base ind d = true -> in_class lab d = true ->
  exists text, wt_doc absf pm base ind lab d = Some text /\ read_doc text = Some (doc_quads d).
Proof.
  intros H C. exists (doc_text absf pm base ind d). split.
  - apply wt_doc_text; [|exact C]. apply (doc_hyps_parts pm base ind d H).
  - apply read_doc_text. exact H.
Qed.

(* ===================================================================================== *)
(* Part E: bytes                                                                         *)
(* ===================================================================================== *)
Notation utf8_app := Sophia.C03.Proofs.utf8_app.

Lemma wr_at_utf8 absf pm p t : wr_at absf pm p t = utf8 (wt_at absf pm p t).
Proof.
  unfold wr_at, wt_at, wr_non_list_term, wt_non_list_term. destruct (allows_coll p); [apply wr_term_utf8|].
  destruct t; try apply wr_term_utf8. apply wr_plain_iri_utf8.
Qed.

(* the byte-level layout is the UTF-8 encoding of the code-point-level one *)
Section BytesLayout.
  Variables wr wt : tpos -> term -> list N.
  Hypothesis Hw : forall p t, wr p t = utf8 (wt p t).

  Lemma lay_objs_tail_utf8 c2 os : lay_objs_tail wr (utf8 c2) os = utf8 (lay_objs_tail wt c2 os).
  Proof. induction os as [|o os IH]; [reflexivity|]. cbn [lay_objs_tail]. rewrite !utf8_app, Hw, IH. reflexivity. Qed.
  Lemma lay_rest_utf8 c1 c2 qs : forall prev, lay_rest wr (utf8 c1) (utf8 c2) prev qs = utf8 (lay_rest wt c1 c2 prev qs).
  Proof.
    induction qs as [|po qs IH]; intro prev; [reflexivity|]. cbn [lay_rest].
    destruct (negb (opt_eqb term_eqb (Some (fst po)) prev)); rewrite !utf8_app, !Hw, IH; [destruct prev|]; reflexivity.
  Qed.
  Lemma lay_props_utf8 c1 c2 tys typ oth :
    lay_props wr (utf8 c1) (utf8 c2) tys typ oth = utf8 (lay_props wt c1 c2 tys typ oth).
  Proof.
    unfold lay_props. destruct tys as [|o tys]; [apply lay_rest_utf8|].
    rewrite !utf8_app, Hw, lay_objs_tail_utf8, lay_rest_utf8. reflexivity.
  Qed.
  Lemma lay_tree_utf8 ei cur t : lay_tree wr (utf8 ei) (utf8 cur) t = utf8 (lay_tree wt ei cur t).
  Proof.
    unfold lay_tree. rewrite !utf8_app, Hw, <- lay_props_utf8, !utf8_app. reflexivity.
  Qed.
  Lemma lay_trees_utf8 ei cur ts : lay_trees wr (utf8 ei) (utf8 cur) ts = utf8 (lay_trees wt ei cur ts).
  Proof.
    unfold lay_trees. induction ts as [|t ts IH]; [reflexivity|]. cbn [flat_map]. rewrite utf8_app, lay_tree_utf8, IH. reflexivity.
  Qed.
  Lemma lay_items_utf8 ei cur its : lay_items wr (utf8 ei) (utf8 cur) its = utf8 (lay_items wt ei cur its).
  Proof.
    unfold lay_items. induction its as [|it its IH]; [reflexivity|]. cbn [flat_map]. rewrite utf8_app, IH. f_equal.
    destruct it as [t|g ts]; cbn [lay_item]; [apply lay_tree_utf8|].
    rewrite !utf8_app, Hw, <- (utf8_app cur ei), lay_trees_utf8. reflexivity.
  Qed.
End BytesLayout.
Lemma w_prefixes_utf8 pm : w_prefixes utf8 pm = utf8 (w_prefixes (fun s => s) pm).
Proof.
  induction pm as [|e pm IH]; [reflexivity|]. cbn [w_prefixes flat_map]. fold (w_prefixes utf8 pm). fold (w_prefixes (fun s : str => s) pm).
  rewrite !utf8_app, IH. reflexivity.
Qed.

(* what the real writer emits is the UTF-8 encoding of the text of the document *)
Theorem wr_doc_bytes absf pm base ind lab d : nones_first (map tq_g d) = true -> in_class lab d = true ->
  wr_doc absf pm base ind lab d = Some (utf8 (doc_text absf pm base ind d)).
Proof.
  intros H C. unfold wr_doc, doc_gen. rewrite C.
  rewrite (w_all_lay utf8 (wr_at absf pm) ind d base (keys_has_g d H)). cbn [l_out].
  unfold doc_text. rewrite utf8_app, w_prefixes_utf8.
  rewrite (lay_items_utf8 (wr_at absf pm) (wt_at absf pm) (wr_at_utf8 absf pm)). reflexivity.
Qed.
Corollary wr_doc_wt_doc absf pm base ind lab d : nones_first (map tq_g d) = true ->
  wr_doc absf pm base ind lab d = option_map utf8 (wt_doc absf pm base ind lab d).
Proof.
  intro H. destruct (in_class lab d) eqn:C.
  - rewrite (wr_doc_bytes absf pm base ind lab d H C), (wt_doc_text absf pm base ind lab d H C). reflexivity.
  - unfold wr_doc, wt_doc, doc_gen. rewrite C. reflexivity.
Qed.

(* ---- the text is a sequence of Unicode scalar values ---- *)
Lemma scalar_ws w : ws_str w = true -> scalar_str w = true.
Proof.
  unfold ws_str, scalar_str. intro H. rewrite forallb_forall in *. intros c I. specialize (H c I).
  destruct (ws_cases c H) as [->|[->|[->| ->]]]; reflexivity.
Qed.
Lemma scalar_wt_at absf pm p t : scalar_pm pm = true -> scalar_term t = true -> scalar_str (wt_at absf pm p t) = true.
Proof.
  intros Hp Ht. unfold wt_at, wt_non_list_term. destruct (allows_coll p); [apply scalar_wt; assumption|].
  destruct t; try (apply scalar_wt; assumption). apply scalar_plain; assumption.
Qed.

Definition scalar_po (po : term * term) : bool := scalar_term (fst po) && scalar_term (snd po).
Definition scalar_tree (t : stree) : bool :=
  scalar_term (st_s t) && forallb scalar_term (st_tys t) && forallb scalar_po (st_oth t).
Definition scalar_item (it : sitem) : bool :=
  match it with TopTree t => scalar_tree t | TopBlock g ts => scalar_term g && forallb scalar_tree ts end.

Section ScalarLayout.
  Variable absf : str -> bool.
  Variable pm : list (str * str).
  Hypothesis Hpm : scalar_pm pm = true.
  Notation wt := (wt_at absf pm).

  Lemma scalar_objs_tail c2 os : scalar_str c2 = true -> forallb scalar_term os = true ->
    scalar_str (lay_objs_tail wt c2 os) = true.
  Proof.
    intros Hc. induction os as [|o os IH]; intro H; [reflexivity|]. cbn [forallb] in H. apply andb_true_iff in H. destruct H as [Ho H].
    cbn [lay_objs_tail]. rewrite !scalar_app, Hc, (scalar_wt_at absf pm TObj o Hpm Ho), (IH H). reflexivity.
  Qed.
  Lemma scalar_rest c1 c2 qs : scalar_str c1 = true -> scalar_str c2 = true -> forallb scalar_po qs = true ->
    forall prev, scalar_str (lay_rest wt c1 c2 prev qs) = true.
  Proof.
    intros H1 H2. induction qs as [|po qs IH]; intros H prev; [reflexivity|].
    cbn [forallb] in H. apply andb_true_iff in H. destruct H as [Hpo H]. unfold scalar_po in Hpo. apply andb_true_iff in Hpo. destruct Hpo as [Hp Ho].
    cbn [lay_rest]. destruct (negb (opt_eqb term_eqb (Some (fst po)) prev)); rewrite !scalar_app, ?H1, ?H2,
      ?(scalar_wt_at absf pm TPred (fst po) Hpm Hp), (scalar_wt_at absf pm TObj (snd po) Hpm Ho), (IH H); [destruct prev|]; reflexivity.
  Qed.
  Lemma scalar_lay_tree ei cur t : scalar_str ei = true -> scalar_str cur = true -> scalar_tree t = true ->
    scalar_str (lay_tree wt ei cur t) = true.
  Proof.
    intros He Hc H. unfold scalar_tree in H. apply andb_true_iff in H. destruct H as [H H3]. apply andb_true_iff in H. destruct H as [H1 H2].
    assert (C1 : scalar_str (cur ++ ei) = true) by (rewrite scalar_app, Hc, He; reflexivity).
    assert (C2 : scalar_str (cur ++ ei ++ ei) = true) by (rewrite !scalar_app, Hc, He; reflexivity).
    unfold lay_tree. rewrite !scalar_app, Hc, (scalar_wt_at absf pm TSubj (st_s t) Hpm H1). cbn [andb].
    rewrite andb_true_r. unfold lay_props. destruct (st_tys t) as [|o tys]; [apply scalar_rest; assumption|].
    cbn [forallb] in H2. apply andb_true_iff in H2. destruct H2 as [Ho H2].
    rewrite !scalar_app, (scalar_wt_at absf pm TObj o Hpm Ho), (scalar_objs_tail _ tys C2 H2), (scalar_rest _ _ _ C1 C2 H3). reflexivity.
  Qed.
  Lemma scalar_lay_trees ei cur ts : scalar_str ei = true -> scalar_str cur = true -> forallb scalar_tree ts = true ->
    scalar_str (lay_trees wt ei cur ts) = true.
  Proof.
    intros He Hc. unfold lay_trees. induction ts as [|t ts IH]; intro H; [reflexivity|].
    cbn [forallb] in H. apply andb_true_iff in H. destruct H as [Ht H].
    cbn [flat_map]. rewrite scalar_app, (scalar_lay_tree ei cur t He Hc Ht), (IH H). reflexivity.
  Qed.
  Lemma scalar_lay_items ei cur its : scalar_str ei = true -> scalar_str cur = true -> forallb scalar_item its = true ->
    scalar_str (lay_items wt ei cur its) = true.
  Proof.
    intros He Hc. unfold lay_items. induction its as [|it its IH]; intro H; [reflexivity|].
    cbn [forallb] in H. apply andb_true_iff in H. destruct H as [Hit H].
    cbn [flat_map]. rewrite scalar_app, (IH H), andb_true_r.
    destruct it as [t|g ts]; cbn [lay_item scalar_item] in *; [apply scalar_lay_tree; assumption|].
    apply andb_true_iff in Hit. destruct Hit as [Hg Hts].
    assert (C1 : scalar_str (cur ++ ei) = true) by (rewrite scalar_app, Hc, He; reflexivity).
    rewrite !scalar_app, Hc, (scalar_wt_at absf pm TGraph g Hpm Hg), (scalar_lay_trees ei (cur ++ ei) ts He C1 Hts). reflexivity.
  Qed.
End ScalarLayout.
Lemma scalar_prefixes pm : scalar_pm pm = true -> scalar_str (w_prefixes (fun s => s) pm) = true.
Proof.
  unfold scalar_pm. induction pm as [|e pm IH]; intro H; [reflexivity|]. cbn [forallb] in H. apply andb_true_iff in H. destruct H as [He H].
  apply andb_true_iff in He. destruct He as [H1 H2].
  cbn [w_prefixes flat_map]. fold (w_prefixes (fun s : str => s) pm). rewrite !scalar_app, H1, H2, (IH H). reflexivity.
Qed.

(* the items of a dataset of scalar terms are made of scalar terms *)
Section ScalarItems.
  Variable d : list tquad.
  Hypothesis Hd : forallb scalar_quad d = true.
  Lemma scalar_quad_parts q : In q d ->
    match tq_g q with Some g => scalar_term g = true | None => True end /\
    scalar_term (tq_s q) = true /\ scalar_term (tq_p q) = true /\ scalar_term (tq_o q) = true.
  Proof.
    intro Iq. pose proof Hd as H0. rewrite forallb_forall in H0. specialize (H0 q Iq). unfold scalar_quad in H0.
    apply andb_true_iff in H0. destruct H0 as [H H4]. apply andb_true_iff in H. destruct H as [H H3].
    apply andb_true_iff in H. destruct H as [H1 H2]. repeat split; try assumption.
    destruct (tq_g q); [exact H1 | exact Logic.I].
  Qed.
  Lemma scalar_tree_of g k : from_d d k -> scalar_tree (tree_of d g (snd k)) = true.
  Proof.
    intros [q [I E]]. destruct (scalar_quad_parts q I) as (_ & Hs & _ & _). unfold key_of in E. subst k. cbn [snd].
    unfold scalar_tree, tree_of, st_s, st_tys, st_oth. cbn [fst snd]. rewrite Hs. cbn [andb]. apply andb_true_iff. split.
    - unfold tys_of. apply forallb_forall. intros o Io. apply in_map_iff in Io. destruct Io as [q' [<- Iq]].
      apply filter_In in Iq. destruct Iq as [Iq _]. apply (scalar_quad_parts q' Iq).
    - unfold oth_of. apply forallb_forall. intros po Io. apply in_map_iff in Io. destruct Io as [q' [<- Iq]].
      apply filter_In in Iq. destruct Iq as [Iq _]. unfold group in Iq. apply filter_In in Iq. destruct Iq as [Iq _].
      destruct (scalar_quad_parts q' Iq) as (_ & _ & Hp & Hob). unfold scalar_po. cbn [fst snd]. rewrite Hp, Hob. reflexivity.
  Qed.
  Lemma scalar_named_items fuel : forall keys, (forall k, In k keys -> from_d d k) ->
    forallb scalar_item (named_items d fuel keys) = true.
  Proof.
    induction fuel as [|f IH]; intros keys H; [reflexivity|]. cbn [named_items].
    destruct keys as [|k1 keys]; [reflexivity|].
    destruct (fst k1) as [g|] eqn:Eg; [|reflexivity].
    assert (Hg : scalar_term g = true).
    { destruct (H k1 (or_introl eq_refl)) as [q [I E]]. pose proof (scalar_quad_parts q I) as [G _].
      unfold key_of in E. subst k1. cbn [fst] in Eg. rewrite Eg in G. exact G. }
    cbn [forallb scalar_item]. rewrite Hg. cbn [andb]. apply andb_true_iff. split.
    - apply forallb_forall. intros t It. apply in_map_iff in It. destruct It as [k [<- Ik]].
      apply take_while_incl in Ik. destruct Ik as [Ik _]. apply scalar_tree_of. apply H. exact Ik.
    - apply IH. intros k Ik. apply H. exact (skipn_incl _ _ _ Ik).
  Qed.
  Lemma scalar_doc_items : forallb scalar_item (doc_items d) = true.
  Proof.
    unfold doc_items. rewrite forallb_app. apply andb_true_iff. split.
    - apply forallb_forall. intros it I. apply in_map_iff in I. destruct I as [k [<- Ik]].
      apply take_while_incl in Ik. destruct Ik as [Ik _]. cbn [scalar_item]. apply scalar_tree_of. apply keys_from_d. exact Ik.
    - apply scalar_named_items. intros k Ik. apply keys_from_d. exact (skipn_incl _ _ _ Ik).
  Qed.
End ScalarItems.

Theorem scalar_doc_text absf pm base ind d :
  scalar_pm pm = true -> ws_str base = true -> ws_str ind = true -> forallb scalar_quad d = true ->
  scalar_str (doc_text absf pm base ind d) = true.
Proof.
  intros Hp Hb Hi Hd. unfold doc_text. rewrite scalar_app, (scalar_prefixes pm Hp).
  apply (scalar_lay_items absf pm Hp ind base (doc_items d) (scalar_ws ind Hi) (scalar_ws base Hb) (scalar_doc_items d Hd)).
Qed.

(* ---- THE DOCUMENT THEOREM ON BYTES: decode the bytes of the writer, read ---- *)
Theorem doc_roundtrip_bytes absf pm base ind lab d :
  doc_hyps pm base ind d = true -> in_class lab d = true -> scalar_pm pm = true -> forallb scalar_quad d = true ->
  exists bytes, wr_doc absf pm base ind lab d = Some bytes /\ read_doc_bytes bytes = Some (doc_quads d).
Proof.
  intros H C Sp Sd. destruct (doc_hyps_parts pm base ind d H) as (Hpm & Hns & Hb & Hi & Hd & Hn).
  exists (utf8 (doc_text absf pm base ind d)). split; [apply wr_doc_bytes; assumption|].
  unfold read_doc_bytes. rewrite (Sophia.C03.Proofs.utf8_dec_utf8 _ (scalar_doc_text absf pm base ind d Sp Hb Hi Sd)).
  apply read_doc_text. exact H.
Qed.

(* ===================================================================================== *)
(* Part G: examples, and what happens outside the hypotheses                             *)
(* ===================================================================================== *)
Definition dx_ns : str := [117; 114; 110; 58; 120; 58].                       (* urn:x: *)
Definition dx_iri (c : N) : term := Iri (dx_ns ++ [c]).
Definition dx_pm : list (str * str) := [([101; 120], dx_ns)].                  (* PREFIX ex: <urn:x:> *)
(* ex:s a ex:C ; ex:p _:b , "chat"@en , 12 .   GRAPH _:b { _:b ex:q << ex:s ex:p _:b >> }   (in store order) *)
Definition dx_d : list tquad :=
  [ (None, dx_iri 115, Iri w_rdf_type, dx_iri 67);
    (None, dx_iri 115, dx_iri 112, Bnode [98]);
    (None, dx_iri 115, dx_iri 112, LitLang [99; 104; 97; 116] [101; 110]);
    (None, dx_iri 115, dx_iri 112, LitDt [49; 50] xsd_integer);
    (Some (Bnode [98]), Bnode [98], dx_iri 113, Triple (dx_iri 115) (dx_iri 112) (Bnode [98])) ].
(* the terms of dx_d (and rdf:first, rdf:nil, rdf:rest) in Term::cmp order *)
Definition dx_tab : list term :=
  [ Bnode [98]; Iri w_rdf_first; Iri w_rdf_nil; Iri w_rdf_rest; Iri w_rdf_type; dx_iri 67; dx_iri 112; dx_iri 113; dx_iri 115;
    LitLang [99; 104; 97; 116] [101; 110]; LitDt [49; 50] xsd_integer; Triple (dx_iri 115) (dx_iri 112) (Bnode [98]) ].
(* the text written for dx_d with the indentation "\t":
   PREFIX ex: <urn:x:>\n\nex:s a ex:C;\n\tex:p _:b,\n\t\t"chat"@en,\n\t\t12.\n\nGRAPH _:b {\n\t_:b\n\t\tex:q << ex:s ex:p _:b >>.\n}\n *)
Definition dx_text : str :=
  [80;82;69;70;73;88;32;101;120;58;32;60;117;114;110;58;120;58;62;10;
   10;101;120;58;115;32;97;32;101;120;58;67;59;10;9;101;120;58;112;32;95;58;98;44;10;9;9;34;99;104;97;116;34;64;101;110;44;10;9;9;49;50;46;10;
   10;71;82;65;80;72;32;95;58;98;32;123;10;9;95;58;98;10;9;9;101;120;58;113;32;60;60;32;101;120;58;115;32;101;120;58;112;32;95;58;98;32;62;62;46;10;125;10].

(* the hypotheses of the document theorem are satisfiable, with the plan computed by the model of build_labelled
   (the blank node is a graph name, hence labelled); the text; what is read back *)
Example doc_example :
  doc_hyps dx_pm [] [9] dx_d = true /\ store_sorted dx_d = true /\ covers dx_tab dx_d = true /\
  in_class (plan_lab dx_tab dx_d) dx_d = true /\
  wt_doc always dx_pm [] [9] (plan_lab dx_tab dx_d) dx_d = Some dx_text /\
  read_doc dx_text = Some (doc_quads dx_d) /\
  doc_quads dx_d = dx_d /\
  forallb scalar_quad dx_d = true /\ scalar_pm dx_pm = true /\
  doc_case_ok always dx_pm [] [9] dx_tab dx_d (utf8 dx_text) = true.
Proof. vm_compute. repeat split; reflexivity. Qed.

(* a blank node that is an object once and a subject is not labelled by the planning phase: the dataset is outside
   the class (the writer nests it in square brackets) and the model says so *)
Example outside_class_example :
  let d := [ (None, dx_iri 115, dx_iri 112, Bnode [98]); (None, Bnode [98], dx_iri 113, dx_iri 111) ] in
  let tab := [ Bnode [98]; Iri w_rdf_first; Iri w_rdf_nil; Iri w_rdf_rest; dx_iri 111; dx_iri 112; dx_iri 113; dx_iri 115 ] in
  in_class (plan_lab tab d) d = false /\ wt_doc always [] [] [32; 32] (plan_lab tab d) d = None /\
  doc_outside_ok always [] [] [32; 32] tab d = true.
Proof. vm_compute. repeat split; reflexivity. Qed.
(* a quoted triple that is a subject and is asserted in the same graph is annotated `{| |}`: outside the class *)
Example annotation_outside_class :
  let d := [ (None, dx_iri 97, dx_iri 98, dx_iri 99); (None, Triple (dx_iri 97) (dx_iri 98) (dx_iri 99), dx_iri 112, dx_iri 111) ] in
  in_class (fun _ => true) d = false.
Proof. vm_compute. reflexivity. Qed.

(* OUTSIDE THE HYPOTHESES *)
(* a subject of the default graph AFTER a named graph (not a store in order): next_graph's `g1.unwrap()` panics *)
Example unsorted_store_refuted :
  exists d, forallb wf_quad d = true /\ in_class (fun _ => true) d = true /\ nones_first (map tq_g d) = false /\
    wt_doc always [] [] [32; 32] (fun _ => true) d = None.
Proof.
  exists [ (Some (dx_iri 103), dx_iri 115, dx_iri 112, dx_iri 111); (None, dx_iri 115, dx_iri 112, dx_iri 111) ].
  vm_compute. repeat split; reflexivity.
Qed.
(* an indentation that is not white space (TurtleConfig::with_indentation refuses it): the document is not read back *)
Example indentation_refuted :
  exists ind d, ws_str ind = false /\ doc_hyps [] [] [] d = true /\ in_class (fun _ => true) d = true /\
    match wt_doc always [] [] ind (fun _ => true) d with Some text => read_doc text | None => None end <> Some (doc_quads d).
Proof.
  exists [120], [ (None, dx_iri 115, dx_iri 112, dx_iri 111) ]. vm_compute. repeat split; try reflexivity. discriminate.
Qed.
