(* C15/DirectProofs.v -- chains of adapters whose closures have a state (Direct.v):
   the stack of wrapped closures is "stage after stage, item after item"; a stage is called
   exactly on what the stages before it let through, in order (whatever the closures do and
   remember); the prefix / blame theorems of Proofs.v hold with the logs of all closures. *)
From Sophia.C15 Require Import Model Proofs Direct.

Section HP.
Variable St : Type.

(* the wrapped consumer = offer the item to the stages one after the other, then to the consumer *)
Lemma hwrap_hthrough chain (f : sink St) : forall x logs st,
  hwrap chain f x (logs, st) =
  let '(logs', o) := hthrough chain logs x in
  match o with
  | Some y => let '(st', oe) := f y st in ((logs', st'), oe)
  | None => ((logs', st), None)
  end.
Proof.
  induction chain as [|a c IH]; intros x logs st; simpl.
  - destruct (f x st); reflexivity.
  - destruct a as [p|m|m]; simpl.
    + destruct (p (hd [] logs) x); simpl; auto.
      rewrite IH. destruct (hthrough c (tl logs) x) as [l' [y|]]; simpl; auto.
      destruct (f y st); reflexivity.
    + rewrite IH. destruct (hthrough c (tl logs) (m (hd [] logs) x)) as [l' [y|]]; simpl; auto.
      destruct (f y st); reflexivity.
    + destruct (m (hd [] logs) x) as [z|]; simpl; auto.
      rewrite IH. destruct (hthrough c (tl logs) z) as [l' [y|]]; simpl; auto.
      destruct (f y st); reflexivity.
Qed.
End HP.

(* ---------- a stage only sees what the stages before it let through ---------- *)
Lemma hthrough_length chain : forall logs x,
  length logs = length chain -> length (fst (hthrough chain logs x)) = length chain.
Proof.
  induction chain as [|a c IH]; intros logs x H; simpl; auto.
  destruct logs as [|l logs]; simpl in *; try discriminate.
  destruct (hstep a l x) as [y|]; simpl.
  - specialize (IH logs y). destruct (hthrough c logs y) as [r o]; simpl in *. rewrite IH; auto.
  - lia.
Qed.

Lemma hrun_length chain xs : forall logs,
  length logs = length chain -> length (fst (hrun chain logs xs)) = length chain.
Proof.
  induction xs as [|x r IH]; intros logs H; simpl; auto.
  pose proof (hthrough_length chain logs x H) as H1.
  destruct (hthrough chain logs x) as [l1 o]; simpl in *.
  specialize (IH l1 H1). destruct (hrun chain l1 r) as [l2 ys]; simpl in *. exact IH.
Qed.

(* compositionality for one item: the second part of a chain is offered what the first part
   lets out, and nothing else; the logs of the first part do not depend on the second part *)
Theorem hthrough_app c1 c2 : forall l1 l2 x,
  length l1 = length c1 ->
  hthrough (c1 ++ c2) (l1 ++ l2) x =
  let '(l1', o) := hthrough c1 l1 x in
  match o with
  | None => (l1' ++ l2, None)
  | Some y => let '(l2', z) := hthrough c2 l2 y in (l1' ++ l2', z)
  end.
Proof.
  induction c1 as [|a c IH]; intros l1 l2 x H; simpl.
  - destruct l1; simpl in *; try discriminate. destruct (hthrough c2 l2 x); reflexivity.
  - destruct l1 as [|l l1]; simpl in *; try discriminate.
    destruct (hstep a l x) as [y|]; simpl; auto.
    rewrite IH by lia. destruct (hthrough c l1 y) as [r [w|]]; simpl; auto.
    destruct (hthrough c2 l2 w); reflexivity.
Qed.

(* ... and for a whole stream *)
Theorem hrun_app c1 c2 xs : forall l1 l2,
  length l1 = length c1 ->
  hrun (c1 ++ c2) (l1 ++ l2) xs =
  let '(l1', ys) := hrun c1 l1 xs in
  let '(l2', zs) := hrun c2 l2 ys in
  (l1' ++ l2', zs).
Proof.
  induction xs as [|x r IH]; intros l1 l2 H; simpl; auto.
  rewrite hthrough_app by exact H.
  pose proof (hthrough_length c1 l1 x H) as H1.
  destruct (hthrough c1 l1 x) as [l1' [y|]]; simpl in *.
  - destruct (hrun c1 l1' r) as [l1'' ys] eqn:E1; simpl.
    destruct (hthrough c2 l2 y) as [l2' z]. rewrite IH by exact H1. rewrite E1.
    destruct z as [z|]; simpl; destruct (hrun c2 l2' ys); reflexivity.
  - rewrite IH by exact H1. destruct (hrun c1 l1' r) as [l1'' ys]; simpl.
    destruct (hrun c2 l2 ys); reflexivity.
Qed.

Lemma hrun_single a xs : forall l, fst (hrun [a] [l] xs) = [l ++ xs].
Proof.
  induction xs as [|x r IH]; intros l; simpl.
  - rewrite app_nil_r. reflexivity.
  - destruct (hstep a l x) as [y|]; simpl;
      specialize (IH (l ++ [x])); destruct (hrun [a] [l ++ [x]] r) as [l2 ys]; simpl in *;
      rewrite IH, <- app_assoc; reflexivity.
Qed.

Lemma empties_length {A} (c : list A) : length (empties c) = length c.
Proof. unfold empties. apply map_length. Qed.
Lemma empties_app {A} (c1 c2 : list A) : empties (c1 ++ c2) = empties c1 ++ empties c2.
Proof. unfold empties. apply map_app. Qed.

(* THE LOG THEOREM: after any stream, the closure of the stage at position |c1| has been called
   exactly with what the chain c1 before it lets out of that stream, in that order -- whatever
   state the closures keep and whatever comes after the stage *)
Lemma hrun_head_log a c xs : forall logs,
  hd [] (fst (hrun (a :: c) logs xs)) = hd [] logs ++ xs.
Proof.
  induction xs as [|x r IH]; intros logs; simpl.
  - rewrite app_nil_r. reflexivity.
  - destruct (hstep a (hd [] logs) x) as [y|].
    + destruct (hthrough c (tl logs) y) as [rest' o].
      specialize (IH ((hd [] logs ++ [x]) :: rest')).
      destruct (hrun (a :: c) ((hd [] logs ++ [x]) :: rest') r) as [l2 ys]; simpl in *.
      rewrite IH, <- app_assoc. reflexivity.
    + specialize (IH ((hd [] logs ++ [x]) :: tl logs)).
      destruct (hrun (a :: c) ((hd [] logs ++ [x]) :: tl logs) r) as [l2 ys]; simpl in *.
      rewrite IH, <- app_assoc. reflexivity.
Qed.

Theorem stage_sees_what_passed_before c1 a c2 xs :
  nth (length c1) (fst (hrun (c1 ++ a :: c2) (empties (c1 ++ a :: c2)) xs)) []
  = snd (hrun c1 (empties c1) xs).
Proof.
  rewrite empties_app. rewrite hrun_app by apply empties_length.
  pose proof (hrun_length c1 xs (empties c1) (empties_length c1)) as HL.
  destruct (hrun c1 (empties c1) xs) as [l1 ys]; simpl in *.
  pose proof (hrun_head_log a c2 ys ([] :: empties c2)) as HS.
  destruct (hrun (a :: c2) ([] :: empties c2) ys) as [l2 zs]; simpl in *.
  rewrite app_nth2 by lia. rewrite HL, Nat.sub_diag.
  destruct l2; simpl in *; auto.
Qed.

(* what comes out of the whole chain is what the second part makes of what the first part lets out *)
Theorem chain_output_composes c1 c2 xs :
  snd (hrun (c1 ++ c2) (empties (c1 ++ c2)) xs)
  = snd (hrun c2 (empties c2) (snd (hrun c1 (empties c1) xs))).
Proof.
  rewrite empties_app. rewrite hrun_app by apply empties_length.
  destruct (hrun c1 (empties c1) xs) as [l1 ys]; simpl.
  destruct (hrun c2 (empties c2) ys); reflexivity.
Qed.

(* closures that ignore their state: the chain computes what the pure model of Model.v computes *)
Definition lift (a : adapter) : hadapter :=
  match a with
  | AFilter p => HFilter (fun _ => p)
  | AMap m => HMap (fun _ => m)
  | AFilterMap m => HFilterMap (fun _ => m)
  end.
Theorem stateless_is_model chain : forall logs x,
  snd (hthrough (map lift chain) logs x) = through chain x.
Proof.
  induction chain as [|a c IH]; intros logs x; simpl; auto.
  destruct a as [p|m|m]; simpl.
  - destruct (p x); simpl; auto. specialize (IH (tl logs) x).
    destruct (hthrough (map lift c) (tl logs) x); simpl in *; auto.
  - specialize (IH (tl logs) (m x)).
    destruct (hthrough (map lift c) (tl logs) (m x)); simpl in *; auto.
  - destruct (m x) as [y|]; simpl; auto. specialize (IH (tl logs) y).
    destruct (hthrough (map lift c) (tl logs) y); simpl in *; auto.
Qed.
Theorem stateless_run_is_fm chain xs : forall logs,
  snd (hrun (map lift chain) logs xs) = fm chain xs.
Proof.
  induction xs as [|x r IH]; intros logs; simpl; auto.
  pose proof (stateless_is_model chain logs x) as H.
  destruct (hthrough (map lift chain) logs x) as [l1 o]; simpl in *. subst o.
  specialize (IH l1). destruct (hrun (map lift chain) l1 r) as [l2 ys]; simpl in *. subst ys.
  unfold fm. simpl. destruct (through chain x); reflexivity.
Qed.

(* ---------- conversions ---------- *)
(* whatever precedes and whatever the graph names were: behind .to_triples().to_quads() every
   quad is in the default graph *)
Lemma tpart_default x : gname (tpart x) = 0.
Proof. unfold gname, tpart. apply N.div_small. apply N.mod_lt. discriminate. Qed.
Theorem to_triples_to_quads_default c xs :
  Forall (fun y => gname y = 0)
         (snd (hrun (c ++ [h_to_triples; h_to_quads]) (empties (c ++ [h_to_triples; h_to_quads])) xs)).
Proof.
  rewrite chain_output_composes.
  generalize (snd (hrun c (empties c) xs)) as ys. intros ys.
  generalize (empties [h_to_triples; h_to_quads]) as logs.
  induction ys as [|y r IH]; intros logs; simpl; auto.
  match goal with |- context [hrun ?c ?l r] => specialize (IH l); destruct (hrun c l r) as [l2 zs] end.
  simpl in *. constructor; auto. apply tpart_default.
Qed.
(* the other way round nothing is lost: .to_quads().to_triples() gives the triples back *)
Theorem to_quads_to_triples_identity xs : forall logs,
  Forall (fun x => x < 1000) xs ->
  snd (hrun [h_to_quads; h_to_triples] logs xs) = xs.
Proof.
  induction xs as [|x r IH]; intros logs H; simpl; auto.
  inversion H; subst.
  match goal with |- context [hrun ?c ?l r] => specialize (IH l H3); destruct (hrun c l r) as [l2 zs] end.
  simpl in *. rewrite IH. unfold tpart. rewrite N.mod_small by assumption. reflexivity.
Qed.

(* ---------- prefix before the fault, blame, and the logs at that point ---------- *)
Definition hsink chain (fault : option (nat * err)) : sink (hstate (list item)) :=
  hwrap chain (rec_sink fault).

(* a batch that the consumer survives *)
Lemma hfeed_ok chain fault items : forall logs tr,
  not_reached fault (length (tr ++ snd (hrun chain logs items))) ->
  feed _ (hsink chain fault) items (logs, tr)
  = ((fst (hrun chain logs items), tr ++ snd (hrun chain logs items)), None).
Proof.
  induction items as [|x r IH]; intros logs tr H; simpl.
  - rewrite app_nil_r. reflexivity.
  - unfold hsink at 1. rewrite hwrap_hthrough.
    simpl in H. destruct (hthrough chain logs x) as [l1 [y|]]; simpl in *.
    + specialize (IH l1 (tr ++ [y])). destruct (hrun chain l1 r) as [l2 ys]; simpl in *.
      assert (Hs : rec_sink fault y tr = (tr ++ [y], None)).
      { unfold rec_sink. destruct fault as [[j e]|]; auto.
        simpl in H. rewrite app_length in H. simpl in H.
        destruct (Nat.eqb_spec (length tr) j); auto. lia. }
      rewrite Hs. rewrite IH; rewrite <- app_assoc; [reflexivity | exact H].
    + specialize (IH l1 tr). destruct (hrun chain l1 r) as [l2 ys]; simpl in *.
      apply IH. exact H.
Qed.

(* a batch in which the consumer fails on the item y that the chain makes of x *)
Lemma hfeed_fail chain pre x y post j e : forall logs tr,
  snd (hthrough chain (fst (hrun chain logs pre)) x) = Some y ->
  length (tr ++ snd (hrun chain logs pre)) = j ->
  feed _ (hsink chain (Some (j, e))) (pre ++ x :: post) (logs, tr)
  = ((fst (hrun chain logs (pre ++ [x])), tr ++ snd (hrun chain logs (pre ++ [x]))), Some e).
Proof.
  induction pre as [|z pre IH]; intros logs tr Hx Hj; simpl in *.
  - unfold hsink at 1. rewrite hwrap_hthrough.
    destruct (hthrough chain logs x) as [l1 o]; simpl in *. subst o.
    unfold rec_sink. rewrite app_nil_r in Hj. rewrite Hj, Nat.eqb_refl. reflexivity.
  - unfold hsink at 1. rewrite hwrap_hthrough.
    destruct (hthrough chain logs z) as [l1 [w|]]; simpl in *.
    + specialize (IH l1 (tr ++ [w])).
      destruct (hrun chain l1 pre) as [l2 ys]; simpl in *.
      destruct (Nat.eqb_spec (length tr) j) as [Heq|Hne].
      { rewrite app_length in Hj. simpl in Hj. lia. }
      rewrite IH; auto.
      * destruct (hrun chain l1 (pre ++ [x])) as [l3 zs]; simpl. rewrite <- app_assoc. reflexivity.
      * rewrite <- app_assoc. exact Hj.
    + specialize (IH l1 tr).
      destruct (hrun chain l1 pre) as [l2 ys]; simpl in *.
      rewrite IH; auto. destruct (hrun chain l1 (pre ++ [x])) as [l3 zs]; reflexivity.
Qed.

Lemma hrun_items_app chain a : forall b logs,
  hrun chain logs (a ++ b) =
  let '(l1, ys) := hrun chain logs a in
  let '(l2, zs) := hrun chain l1 b in (l2, ys ++ zs).
Proof.
  induction a as [|x r IH]; intros b logs; simpl.
  - destruct (hrun chain logs b); reflexivity.
  - destruct (hthrough chain logs x) as [l1 o]. rewrite IH.
    destruct (hrun chain l1 r) as [l2 ys]. destruct (hrun chain l2 b) as [l3 zs].
    destruct o; reflexivity.
Qed.

Lemma hrec_prefix chain fault steps : forall logs tr tail,
  not_reached fault (length (tr ++ snd (hrun chain logs (items_of steps)))) ->
  try_for_each _ (clean steps ++ tail) [] (hsink chain fault) (logs, tr) =
  try_for_each _ tail [] (hsink chain fault)
    (fst (hrun chain logs (items_of steps)), tr ++ snd (hrun chain logs (items_of steps))).
Proof.
  induction steps as [|b steps IH]; intros logs tr tail H; simpl.
  - rewrite app_nil_r. reflexivity.
  - unfold items_of in *. simpl in *. rewrite hrun_items_app in *.
    pose proof (hfeed_ok chain fault b logs tr) as HF.
    destruct (hrun chain logs b) as [l1 ys]; simpl in *.
    specialize (IH l1 (tr ++ ys) tail).
    destruct (hrun chain l1 (concat steps)) as [l2 zs]; simpl in *.
    rewrite HF.
    + rewrite IH; rewrite <- app_assoc; [reflexivity | exact H].
    + destruct fault as [[j e]|]; simpl in *; auto. rewrite !app_length in *. lia.
Qed.

(* (a) the source fails in a step (after that step's own items): the consumer has seen what the
   chain lets out of the items before the failure, every closure has been called on exactly its
   share of them, nothing later was pulled, and the error is a source error with the value *)
Theorem direct_source_fault chain fault steps last e post :
  let r := hrun chain (empties chain) (items_of steps ++ last) in
  not_reached fault (length (snd r)) ->
  try_for_each _ (clean steps ++ (last, Some e) :: post) [] (hsink chain fault) (empties chain, [])
  = (post, (fst r, snd r), SourceError e).
Proof.
  intros r H. subst r. rewrite hrun_items_app in *.
  pose proof (hrec_prefix chain fault steps (empties chain) [] ((last, Some e) :: post)) as HP.
  destruct (hrun chain (empties chain) (items_of steps)) as [l1 ys]; simpl in *.
  pose proof (hfeed_ok chain fault last l1 ys) as HF.
  destruct (hrun chain l1 last) as [l2 zs]; simpl in *.
  rewrite HP.
  - rewrite HF; auto.
  - destruct fault as [[j e']|]; simpl in *; auto. rewrite !app_length in *. lia.
Qed.

(* (b) the consumer fails on its (j+1)-th item, which the chain made of x: the consumer saw what
   the chain lets out of the items up to x, y last; the closures were called on their share of
   the items up to x and on nothing behind x (rest of the batch, later steps); sink error *)
Theorem direct_sink_fault chain steps pre x y rest_of_batch oe post j e :
  let before := hrun chain (empties chain) (items_of steps ++ pre) in
  snd (hthrough chain (fst before) x) = Some y ->
  length (snd before) = j ->
  let r := hrun chain (empties chain) (items_of steps ++ pre ++ [x]) in
  try_for_each _ (clean steps ++ (pre ++ x :: rest_of_batch, oe) :: post) [] (hsink chain (Some (j, e)))
    (empties chain, [])
  = (post, (fst r, snd r), SinkError e) /\ snd r = snd before ++ [y].
Proof.
  intros before Hx Hj r. subst before r. rewrite !hrun_items_app in *.
  pose proof (hrec_prefix chain (Some (j, e)) steps (empties chain) []
                ((pre ++ x :: rest_of_batch, oe) :: post)) as HP.
  destruct (hrun chain (empties chain) (items_of steps)) as [l1 ys]; simpl in *.
  pose proof (hfeed_fail chain pre x y rest_of_batch j e l1 ys) as HF.
  rewrite hrun_items_app in *.
  destruct (hrun chain l1 pre) as [l2 zs]; simpl in *.
  rewrite HP.
  - rewrite HF; auto.
    destruct (hthrough chain l2 x) as [l3 o]; simpl in *. subst o. simpl.
    split; [reflexivity|]. rewrite <- app_assoc. reflexivity.
  - rewrite !app_length in *. lia.
Qed.

(* (c) no fault: everything the chain lets out, in order, each once; the logs of the whole stream *)
Theorem direct_no_fault chain fault steps :
  let r := hrun chain (empties chain) (items_of steps) in
  not_reached fault (length (snd r)) ->
  try_for_each _ (clean steps) [] (hsink chain fault) (empties chain, []) = ([], (fst r, snd r), Done).
Proof.
  intros r H. subst r. rewrite <- (app_nil_r (clean steps)).
  rewrite hrec_prefix by exact H. reflexivity.
Qed.

(* the iterators of map_* / filter_map_*, drained: nothing lost, errors in place, and every
   closure called on its share of ALL the items *)
Theorem hdrain_logs chain src : forall logs,
  fst (hdrain src chain logs) = fst (hrun chain logs (concat (map fst src))).
Proof.
  induction src as [|[items oe] rest IH]; intros logs; simpl; auto.
  rewrite hrun_items_app.
  destruct (hrun chain logs items) as [l1 ys]. specialize (IH l1).
  destruct (hdrain rest chain l1) as [l2 out]; simpl in *.
  destruct (hrun chain l1 (concat (map fst rest))) as [l3 zs]; simpl in *. exact IH.
Qed.
