(* C10/Model.v -- an ownership model of inmem::index::SimpleTermIndex and of the stores built on
   it.  Heap allocations (the Box<str> behind each owned MownStr) have identities; the keys of
   `t2i` OWN allocations.  Three designs of the index table `i2t` are modelled (`clone_mode`):
     Derived  the entries of `i2t` BORROW the text of the keys (transmuted to 'static), Clone is derived
              (the original code: a clone's table points into the original's keys);
     Rebuilt  the entries borrow, Clone rebuilds the table from the clone's own keys (first repair:
              stores are independent, but `get_term` hands out `&SimpleTerm<'static>`, and a
              `Clone::clone` of such a term keeps pointing into the store after the store is gone);
     Owned    every entry of `i2t` OWNS its own copy of the text (`i2t.push(key.clone())`), Clone clones
              both maps (the current code).
   Moving a store, std::mem::swap and hash-table growth move the SimpleTerm values but never the
   string allocations.  Definitions only. *)
From Sophia.Common Require Export Prelude.

Definition aid := N.                       (* allocation identity *)
Definition tid := N.                       (* the term (its content) *)

(* k_quoted: the term is a quoted triple; in the borrowing designs SimpleTerm::from_term_ref
   deep-copies those, so the i2t entry owns its own strings (s_self) instead of pointing into the key
   (the allocations of that deep copy are not tracked: s_ptrs = []) *)
Record key := mkKey { k_term : tid; k_owned : list aid; k_index : N; k_quoted : bool }.
(* one entry of i2t.  s_self = true: the entry OWNS the allocations s_ptrs (its own copy of the text);
   s_self = false: the entry borrows, s_ptrs are the allocations of the key it was made from *)
Record slot := mkSlot { s_term : tid; s_ptrs : list aid; s_self : bool }.
Definition slot_of (k : key) : slot :=
  if k_quoted k then mkSlot (k_term k) [] true else mkSlot (k_term k) (k_owned k) false.
Record store := mkStore { keys : list key; i2t : list slot }.
Record world := mkWorld { next : aid; freed : list aid; live : list (N * store) }.

Definition empty_store : store := mkStore [] [].
Definition init : world := mkWorld 0 [] [].

Fixpoint find_store (l : list (N * store)) (sid : N) : option store :=
  match l with [] => None | (k, s) :: r => if N.eqb k sid then Some s else find_store r sid end.
Fixpoint set_store (l : list (N * store)) (sid : N) (s : store) : list (N * store) :=
  match l with
  | [] => [(sid, s)]
  | (k, x) :: r => if N.eqb k sid then (k, s) :: r else (k, x) :: set_store r sid s
  end.
Fixpoint del_store (l : list (N * store)) (sid : N) : list (N * store) :=
  match l with [] => [] | (k, x) :: r => if N.eqb k sid then r else (k, x) :: del_store r sid end.

Fixpoint fresh (n : nat) (from : aid) : list aid :=
  match n with O => [] | S m => from :: fresh m (from + 1) end.

Definition has_term (s : store) (t : tid) : bool := existsb (fun k => N.eqb (k_term k) t) (keys s).

Inductive clone_mode := Derived | Rebuilt | Owned.

(* ensure_index: a new term gets fresh allocations (SimpleTerm::from_term copies the strings),
   the key owns them; `nstr` = number of strings of the term (>= 1).  Borrowing designs: i2t points
   to them.  Owned: `key.clone()` -- MownStr::clone of an owned string allocates -- i2t owns a second
   set of fresh allocations. *)
Definition ensure (m : clone_mode) (w : world) (s : store) (t : tid) (nstr : nat) (quoted : bool) : world * store :=
  if has_term s t then (w, s)
  else
    let a := fresh nstr (next w) in
    let k := mkKey t a (N.of_nat (length (i2t s))) quoted in
    match m with
    | Owned =>
        (mkWorld (next w + N.of_nat nstr + N.of_nat nstr) (freed w) (live w),
         mkStore (keys s ++ [k]) (i2t s ++ [mkSlot t (fresh nstr (next w + N.of_nat nstr)) true]))
    | _ =>
        (mkWorld (next w + N.of_nat nstr) (freed w) (live w),
         mkStore (keys s ++ [k]) (i2t s ++ [slot_of k]))
    end.

(* Clone of the keys: HashMap::clone clones every key; MownStr::clone of an OWNED string makes a
   fresh allocation *)
Fixpoint clone_keys (ks : list key) (from : aid) : list key * aid :=
  match ks with
  | [] => ([], from)
  | k :: r =>
      let n := length (k_owned k) in
      let '(r', nx) := clone_keys r (from + N.of_nat n) in
      (mkKey (k_term k) (fresh n from) (k_index k) (k_quoted k) :: r', nx)
  end.

Fixpoint key_at (ks : list key) (i : N) : option key :=
  match ks with [] => None | k :: r => if N.eqb (k_index k) i then Some k else key_at r i end.

Fixpoint rebuild (ks : list key) (n : nat) (i : N) : list slot :=
  match n with
  | O => []
  | S m => match key_at ks i with
           | Some k => slot_of k :: rebuild ks m (i + 1)
           | None => rebuild ks m (i + 1)
           end
  end.

(* Vec::clone of i2t, element-wise: an entry that owns its text gets fresh allocations, a borrowing
   one keeps its pointers *)
Fixpoint clone_slots (l : list slot) (from : aid) : list slot * aid :=
  match l with
  | [] => ([], from)
  | sl :: r =>
      if s_self sl then
        let n := length (s_ptrs sl) in
        let '(r', nx) := clone_slots r (from + N.of_nat n) in
        (mkSlot (s_term sl) (fresh n from) true :: r', nx)
      else
        let '(r', nx) := clone_slots r from in (sl :: r', nx)
  end.

(* Derived: #[derive(Clone)] clones i2t element-wise: MownStr::clone of a BORROWED string copies the
   pointer.  Rebuilt: i2t is rebuilt from the clone's own keys, in index order.  Owned: both maps are
   cloned, every string of both is a fresh allocation. *)
Definition clone_store (m : clone_mode) (w : world) (s : store) : world * store :=
  let '(ks, nx) := clone_keys (keys s) (next w) in
  match m with
  | Derived => (mkWorld nx (freed w) (live w), mkStore ks (i2t s))
  | Rebuilt => (mkWorld nx (freed w) (live w), mkStore ks (rebuild ks (length ks) 0))
  | Owned => let '(sls, nx2) := clone_slots (i2t s) nx in
             (mkWorld nx2 (freed w) (live w), mkStore ks sls)
  end.

(* what a store owns (and frees when dropped): the text of its keys and of the entries that own theirs *)
Definition slot_owned (sl : slot) : list aid := if s_self sl then s_ptrs sl else [].
Definition owned_by (s : store) : list aid := flat_map k_owned (keys s) ++ flat_map slot_owned (i2t s).

Inductive op :=
| New (sid : N)
| Insert (sid : N) (t : tid) (nstr : nat) (quoted : bool)
| Clone (src dst : N)
| Drop (sid : N)
| Swap (a b : N)            (* std::mem::swap / moves: stores change places, nothing else *)
| Grow (sid : N).           (* table growth / rehash: values move, allocations do not *)

Definition step (m : clone_mode) (w : world) (o : op) : world :=
  match o with
  | New sid =>
      match find_store (live w) sid with
      | None => mkWorld (next w) (freed w) (set_store (live w) sid empty_store)
      | Some _ => w
      end
  | Insert sid t n qd =>
      match find_store (live w) sid with
      | None => w
      | Some s => let '(w', s') := ensure m w s t (S n) qd in
                  mkWorld (next w') (freed w') (set_store (live w') sid s')
      end
  | Clone src dst =>
      match find_store (live w) src, find_store (live w) dst with
      | Some s, None => let '(w', s') := clone_store m w s in
                  mkWorld (next w') (freed w') (set_store (live w') dst s')
      | _, _ => w
      end
  | Drop sid =>
      match find_store (live w) sid with
      | None => w
      | Some s => mkWorld (next w) (freed w ++ owned_by s) (del_store (live w) sid)
      end
  | Swap a b =>
      match find_store (live w) a, find_store (live w) b with
      | Some _, Some _ =>
          mkWorld (next w) (freed w)
                  (map (fun p => (if N.eqb (fst p) a then b else if N.eqb (fst p) b then a else fst p, snd p)) (live w))
      | _, _ => w
      end
  | Grow _ => w
  end.

Definition run (m : clone_mode) (ops : list op) : world := fold_left (step m) ops init.

(* reading entry i of a store (get_term, every query) *)
Inductive rd := ReadOk (t : tid) | ReadFreed | ReadForeign | ReadOutOfRange.
Definition aid_in (a : aid) (l : list aid) : bool := existsb (N.eqb a) l.
Definition read (w : world) (s : store) (i : nat) : rd :=
  match nth_error (i2t s) i with
  | None => ReadOutOfRange
  | Some sl =>
      if existsb (fun a => aid_in a (freed w)) (s_ptrs sl) then ReadFreed
      else if s_self sl then ReadOk (s_term sl)
      else match key_at (keys s) (N.of_nat i) with
           | Some k => if list_eqb N.eqb (s_ptrs sl) (k_owned k) then ReadOk (s_term sl) else ReadForeign
           | None => ReadForeign
           end
  end.

(* what the verif_audit hook computes: for each index i, is there a key mapped to i, does i2t[i]
   hold that key's term, as an owned copy or as a borrow of that very key *)
Fixpoint audit_from (ks : list key) (i : N) (l : list slot) : list bool :=
  match l with
  | [] => []
  | sl :: r => match key_at ks i with
               | Some k => N.eqb (s_term sl) (k_term k) && (s_self sl || list_eqb N.eqb (s_ptrs sl) (k_owned k))
               | None => false
               end :: audit_from ks (i + 1) r
  end.

(* A term handed out by get_term is a `&SimpleTerm<'static>`; the caller may Clone::clone it and keep the
   clone (nothing ties it to the store any more).  MownStr::clone: an owned string is copied into a fresh
   allocation that now belongs to the caller; a borrowed one keeps pointing where it pointed. *)
Definition clone_term (w : world) (sl : slot) : world * slot :=
  if s_self sl then
    (mkWorld (next w + N.of_nat (length (s_ptrs sl))) (freed w) (live w),
     mkSlot (s_term sl) (fresh (length (s_ptrs sl)) (next w)) true)
  else (w, sl).
(* reading a term the caller kept *)
Definition read_term (w : world) (sl : slot) : rd :=
  if existsb (fun a => aid_in a (freed w)) (s_ptrs sl) then ReadFreed else ReadOk (s_term sl).
Definition audit (s : store) : list bool := audit_from (keys s) 0 (i2t s).

(* ---- compound operations of the harness, expressed in the op alphabet (definitions only) ----
   Clone::clone_from: the target's old content is dropped, then it is a clone of the source.
   std::mem::take / mem::replace: the content moves to a free slot, a fresh empty store stays.
   overwrite (`*slot = fresh`): drop, then a fresh empty store in the same slot.
   clone of a clone, the intermediate clone dropped.
   clone through a container that makes extra clones and drops them (vec![x; n], resize, array, tuple).
   from_triple_source / from_quad_source / collect_* / insert_all into a new store: the fold of the single
   inserts, from the empty store, over the terms of the source's statements in iteration order. *)
Definition clone_from_ops (src dst : N) : list op := [Drop dst; Clone src dst].
Definition take_ops (src dst : N) : list op := [New dst; Swap src dst].
Definition overwrite_ops (sid : N) : list op := [Drop sid; New sid].
Definition clone_chain_ops (src tmp dst : N) : list op := [Clone src tmp; Clone tmp dst; Drop tmp].
Definition clone_via_ops (src dst : N) (tmps : list N) : list op :=
  map (Clone src) tmps ++ [Clone src dst] ++ map Drop tmps.
Definition ins_of (dst : N) (x : tid * nat * bool) : op := Insert dst (fst (fst x)) (snd (fst x)) (snd x).
Definition collect_ops (dst : N) (ts : list (tid * nat * bool)) : list op := New dst :: map (ins_of dst) ts.

(* what a store returns, by index *)
Definition content (s : store) : list tid := map s_term (i2t s).
Definition terms_of (s : store) : list tid := map k_term (keys s).
(* the terms of a sequence, first occurrences only, after those already seen *)
Fixpoint add_new (seen : list tid) (ts : list tid) : list tid :=
  match ts with
  | [] => seen
  | t :: r => add_new (if existsb (fun x => N.eqb x t) seen then seen else seen ++ [t]) r
  end.

(* harness-facing: after the whole history, per live store: audit vector and content by index *)
Definition observe (w : world) : list (N * list bool * list tid) :=
  map (fun p => (fst p, audit (snd p), map s_term (i2t (snd p)))) (live w).
Definition obs_eqb (a b : N * list bool * list tid) : bool :=
  let '(i1, a1, c1) := a in let '(i2, a2, c2) := b in
  N.eqb i1 i2 && list_eqb Bool.eqb a1 a2 && list_eqb N.eqb c1 c2.
Fixpoint ins_obs (x : N * list bool * list tid) (l : list (N * list bool * list tid)) :=
  match l with
  | [] => [x]
  | y :: r => if fst (fst x) <=? fst (fst y) then x :: l else y :: ins_obs x r
  end.
Definition sort_obs l := fold_right ins_obs [] l.
Definition history_ok (ops : list op) (observed : list (N * list bool * list tid)) : bool :=
  list_eqb obs_eqb (sort_obs (observe (run Owned ops))) (sort_obs observed).
