(* C01/Graph.v -- GenericLightGraph / GenericFastGraph: invariant, abstraction, and the
   four required methods against the interface [impl_ok] (triples_matching: every arm). *)
From Coq Require Import Permutation Btauto.
From Sophia.C01 Require Import Model Sets Iters Refine.

(* ---------- generic helpers shared with Dataset.v ---------- *)
Lemma in_map_inj {A B} (f : A -> B) (P : A -> Prop) l r :
  (forall x y, P x -> P y -> f x = f y -> x = y) -> (forall x, In x l -> P x) -> P r ->
  (In (f r) (map f l) <-> In r l).
Proof.
  intros Hinj Hl Hr. split; [|apply in_map].
  intros H. apply in_map_iff in H. destruct H as (x & E & Hx).
  apply Hinj in E; auto. subst; auto.
Qed.
Lemma NoDup_map_inj_in {A B} (f : A -> B) (P : A -> Prop) l :
  (forall x y, P x -> P y -> f x = f y -> x = y) -> (forall x, In x l -> P x) ->
  NoDup l -> NoDup (map f l).
Proof.
  intros Hinj Hl Hn. induction Hn as [|x l Hx Hn IH]; simpl; constructor.
  - intros H. apply in_map_iff in H. destruct H as (y & E & Hy).
    apply Hinj in E; auto. + subst; auto. + apply Hl; right; auto. + apply Hl; left; auto.
  - apply IH. intros y Hy. apply Hl. right; auto.
Qed.
Lemma filter_single_in {A} (f : A -> bool) l r :
  NoDup l -> (forall x, In x l -> (f x = true <-> x = r)) -> In r l -> filter f l = [r].
Proof.
  intros Hn. induction Hn as [|x l Hx Hn IH]; intros Hf Hin; [destruct Hin|]. simpl.
  destruct Hin as [->|Hin].
  - assert (E : f r = true) by (apply Hf; [left|]; auto). rewrite E. f_equal.
    apply filter_none. intros y Hy. destruct (f y) eqn:Ey; auto.
    apply Hf in Ey; [|right; auto]. subst. tauto.
  - assert (E : f x = false).
    { destruct (f x) eqn:Ex; auto. apply Hf in Ex; [|left; auto]. subst. tauto. }
    rewrite E. apply IH; auto. intros y Hy. apply Hf. right; auto.
Qed.
Lemma filter_single_notin {A} (f : A -> bool) l r :
  (forall x, In x l -> (f x = true <-> x = r)) -> ~ In r l -> filter f l = [].
Proof.
  intros Hf Hn. apply filter_none. intros x Hx. destruct (f x) eqn:E; auto.
  apply Hf in E; auto. subst. tauto.
Qed.

(* an arm of the dispatch: scan index [ix] (the image of the primary under [perm]), keep the
   rows that pass [F], decode with [D]: this is the filter [Fm] of the primary decoded by [Dm] *)
Lemma arm_generic {A B} (perm : A -> A) ix prim (F Fm : A -> bool) (D Dm : A -> B) :
  Permutation ix (map perm prim) ->
  (forall r, In r prim -> F (perm r) = Fm r /\ (Fm r = true -> D (perm r) = Dm r)) ->
  Permutation (map D (filter F ix)) (map Dm (filter Fm prim)).
Proof.
  intros P H.
  eapply perm_trans; [apply Permutation_map, Permutation_filter, P|].
  rewrite filter_map_comm, map_map.
  rewrite (filter_ext_in' (fun x => F (perm x)) Fm) by (intros r Hr; apply H; auto).
  erewrite map_ext_in; [apply Permutation_refl|].
  intros r Hr. apply filter_In in Hr. destruct Hr as [Hr Hm]. apply H; auto.
Qed.

(* the extension relation between term indexes along ensure_index *)
Definition ti_ext (ti ti' : tindex) : Prop :=
  (forall i, i < tlen ti -> get_term ti' i = get_term ti i) /\ tlen ti <= tlen ti'
  /\ (forall t0 i0, get_index ti t0 = Some i0 -> get_index ti' t0 = Some i0).
Lemma ti_ext_refl ti : ti_ext ti ti.
Proof. repeat split; auto. lia. Qed.
Lemma ti_ext_trans a b c : ti_ext a b -> ti_ext b c -> ti_ext a c.
Proof.
  intros (A1 & A2 & A3) (B1 & B2 & B3). repeat split; auto; try lia.
  intros i Hi. rewrite B1 by lia. auto.
Qed.

Lemma ensure_step max ti t :
  TInv max ti ->
  match ensure_index max ti t with
  | (ti', Some i) => TInv max ti' /\ ti_ext ti ti' /\ get_index ti' t = Some i
                     /\ intern (Some max) (i2t ti) t = Some (i2t ti')
  | (ti', None) => ti' = ti /\ intern (Some max) (i2t ti) t = None
  end.
Proof.
  intros HI. destruct (ensure_index max ti t) as [ti' r] eqn:E.
  destruct (ensure_index_spec max ti t ti' r HI E) as (H1 & H2 & H3 & H4 & H5).
  destruct r as [i|]; [|exact H5]. destruct H5 as [H5 H6]. split; [exact H1|]. split; [unfold ti_ext; auto|]. auto.
Qed.

(* matching a constant = comparing indexes *)
Lemma const_known max ti m c i x :
  TInv max ti -> tm_wf m -> tm_const m = Some c -> get_index ti c = Some i -> x < tlen ti ->
  tm_pred m (get_term ti x) = (x =? i).
Proof.
  intros HI Hw Hc Hg Hx. rewrite (Hw c Hc).
  destruct HI as [HB _]. pose proof Hg as Hg'. apply HB in Hg'. destruct Hg' as [Hi Ht].
  destruct (N.eqb_spec x i) as [->|Hne].
  - rewrite Ht. apply N.eqb_refl.
  - apply N.eqb_neq. intros E. apply Hne.
    assert (get_index ti c = Some x) by (apply HB; auto). congruence.
Qed.
Lemma const_unknown max ti m c x :
  TInv max ti -> tm_wf m -> tm_const m = Some c -> get_index ti c = None -> x < tlen ti ->
  tm_pred m (get_term ti x) = false.
Proof.
  intros HI Hw Hc Hg Hx. rewrite (Hw c Hc). apply N.eqb_neq. intros E.
  destruct HI as [HB _]. assert (get_index ti c = Some x) by (apply HB; auto). congruence.
Qed.

(* ================================================================================== *)
Definition p_pos (t : t3) : t3 := let '(s, p, o) := t in (p, o, s).
Definition p_osp (t : t3) : t3 := let '(s, p, o) := t in (o, s, p).
Lemma p_pos_inj x y : p_pos x = p_pos y -> x = y.
Proof. destruct x as [[a b] c], y as [[a' b'] c']. simpl. congruence. Qed.
Lemma p_osp_inj x y : p_osp x = p_osp y -> x = y.
Proof. destruct x as [[a b] c], y as [[a' b'] c']. simpl. congruence. Qed.

Definition rows3_lt (n : N) (l : list t3) : Prop :=
  forall s p o, In (s, p, o) l -> s < n /\ p < n /\ o < n.

(* the invariant of theorem (1) for graphs *)
Definition GInv (fast : bool) (max : N) (st : gstore) : Prop :=
  TInv max (g_ti st)
  /\ ssorted key3 (g_spo st)
  /\ rows3_lt (tlen (g_ti st)) (g_spo st)
  /\ (fast = true -> image_of key3 p_pos (g_pos st) (g_spo st)
                     /\ image_of key3 p_osp (g_osp st) (g_spo st)).

Definition f3 (ti : tindex) (t : t3) : quad := q_of_t3 (dec3 ti t).
Definition P3 (n : N) (t : t3) : Prop := let '(s, p, o) := t in s < n /\ p < n /\ o < n.

Lemma f3_inj max ti x y : TInv max ti -> P3 (tlen ti) x -> P3 (tlen ti) y -> f3 ti x = f3 ti y -> x = y.
Proof.
  intros HI. destruct x as [[a b] c], y as [[a' b'] c']. unfold f3. simpl.
  intros (A1 & A2 & A3) (B1 & B2 & B3) E. inversion E.
  f_equal; [f_equal|]; eapply get_term_inj; eauto.
Qed.
Lemma rows3_P3 n l : rows3_lt n l -> forall x, In x l -> P3 n x.
Proof. intros H [[a b] c] Hin. apply H; auto. Qed.
Lemma g_all_f3 st : g_all st = map (f3 (g_ti st)) (g_spo st).
Proof. reflexivity. Qed.
Lemma f3_ext ti ti' l : ti_ext ti ti' -> rows3_lt (tlen ti) l -> map (f3 ti') l = map (f3 ti) l.
Proof.
  intros (E1 & _) Hl. apply map_ext_in. intros [[a b] c] Hin. destruct (Hl a b c Hin) as (A & B & C).
  unfold f3. simpl. rewrite !E1; auto.
Qed.
Lemma rows3_mono n n' l : n <= n' -> rows3_lt n l -> rows3_lt n' l.
Proof. intros Hn H s p o Hin. destruct (H s p o Hin) as (A & B & C). lia. Qed.

Lemma ginv_empty fast max : GInv fast max g_empty.
Proof.
  split; [apply tinv_empty|]. split; [exact I|]. split; [intros s p o []|].
  intros _. split; split; simpl; auto.
Qed.

Lemma ginv_set_ti fast max st ti' :
  GInv fast max st -> TInv max ti' -> ti_ext (g_ti st) ti' ->
  GInv fast max (g_set_ti st ti') /\ g_all (g_set_ti st ti') = g_all st.
Proof.
  intros (H1 & H2 & H3 & H4) HT Hext. split.
  - split; [exact HT|]. split; [exact H2|]. split; [|exact H4].
    simpl. eapply rows3_mono; [|exact H3]. destruct Hext as (_ & L & _). exact L.
  - rewrite !g_all_f3. simpl. apply f3_ext; auto.
Qed.

Lemma ginv_nodup fast max st : GInv fast max st -> NoDup (g_all st).
Proof.
  intros (H1 & H2 & H3 & H4). rewrite g_all_f3.
  eapply NoDup_map_inj_in with (P := P3 (tlen (g_ti st))).
  - intros x y. apply (f3_inj max); auto.
  - apply rows3_P3; auto.
  - eapply ssorted_nodup; eauto. apply key3_inj.
Qed.
Lemma g_all_norm st q : In q (g_all st) -> norm true q = q.
Proof.
  rewrite g_all_f3. intros H. apply in_map_iff in H. destruct H as ([[a b] c] & <- & _). reflexivity.
Qed.
(* every term of a stored triple is interned *)
Lemma g_all_interned fast max st q : GInv fast max st -> In q (g_all st) ->
  get_index (g_ti st) (qs q) <> None /\ get_index (g_ti st) (qp q) <> None /\ get_index (g_ti st) (qo q) <> None.
Proof.
  intros (H1 & H2 & H3 & H4). rewrite g_all_f3. intros H. apply in_map_iff in H.
  destruct H as ([[a b] c] & <- & Hin). destruct (H3 a b c Hin) as (A & B & C).
  destruct H1 as [HB _]. unfold f3. simpl.
  assert (Ha : get_index (g_ti st) (get_term (g_ti st) a) = Some a) by (apply HB; auto).
  assert (Hb : get_index (g_ti st) (get_term (g_ti st) b) = Some b) by (apply HB; auto).
  assert (Hc : get_index (g_ti st) (get_term (g_ti st) c) = Some c) by (apply HB; auto).
  rewrite Ha, Hb, Hc. repeat split; discriminate.
Qed.

Lemma f3_row max ti s p o i_s i_p i_o : TInv max ti ->
  get_index ti s = Some i_s -> get_index ti p = Some i_p -> get_index ti o = Some i_o ->
  f3 ti (i_s, i_p, i_o) = mkQ s p o None /\ P3 (tlen ti) (i_s, i_p, i_o).
Proof.
  intros [HB _] A B C. apply HB in A, B, C. destruct A as [A1 A2], B as [B1 B2], C as [C1 C2].
  unfold f3. simpl. rewrite A2, B2, C2. auto.
Qed.

(* ---------- insert ---------- *)
Theorem g_insert_ok fast max st q st' r :
  GInv fast max st -> g_insert fast max st q = (st', r) ->
  let q' := norm true q in
  let il := intern_list (Some max) (i2t (g_ti st)) (quad_terms q') in
  GInv fast max st' /\ i2t (g_ti st') = fst il /\
  (snd il = false -> r = None /\ g_all st' = g_all st) /\
  (snd il = true -> r = Some (negb (memq q' (g_all st))) /\
     Permutation (g_all st') (if memq q' (g_all st) then g_all st else g_all st ++ [q'])).
Proof.
  intros HI E. pose proof HI as (HT & HS & HR & HF).
  unfold g_insert in E. cbn [norm quad_terms qs qp qo qg app intern_list].
  pose proof (ensure_step max (g_ti st) (qs q) HT) as S1.
  destruct (ensure_index max (g_ti st) (qs q)) as [ti1 [i_s|]].
  2:{ destruct S1 as [-> S1]. rewrite S1. inversion E; subst.
      destruct (ginv_set_ti fast max st (g_ti st) HI HT (ti_ext_refl _)) as [G1 G2].
      split; [exact G1|]. split; [reflexivity|]. split; [intros _; split; [reflexivity | exact G2] | simpl; intros; discriminate]. }
  destruct S1 as (T1 & X1 & I1 & S1). rewrite S1.
  pose proof (ensure_step max ti1 (qp q) T1) as S2.
  destruct (ensure_index max ti1 (qp q)) as [ti2 [i_p|]].
  2:{ destruct S2 as [-> S2]. rewrite S2. inversion E; subst.
      destruct (ginv_set_ti fast max st ti1 HI T1 X1) as [G1 G2].
      split; [exact G1|]. split; [reflexivity|]. split; [intros _; split; [reflexivity | exact G2] | simpl; intros; discriminate]. }
  destruct S2 as (T2 & X2 & I2 & S2). rewrite S2.
  pose proof (ensure_step max ti2 (qo q) T2) as S3.
  destruct (ensure_index max ti2 (qo q)) as [ti3 [i_o|]].
  2:{ destruct S3 as [-> S3]. rewrite S3. inversion E; subst.
      destruct (ginv_set_ti fast max st ti2 HI T2 (ti_ext_trans _ _ _ X1 X2)) as [G1 G2].
      split; [exact G1|]. split; [reflexivity|]. split; [intros _; split; [reflexivity | exact G2] | simpl; intros; discriminate]. }
  destruct S3 as (T3 & X3 & I3 & S3). rewrite S3. cbn [fst snd].
  assert (X : ti_ext (g_ti st) ti3) by (eapply ti_ext_trans; [|exact X3]; eapply ti_ext_trans; eauto).
  assert (J1 : get_index ti3 (qs q) = Some i_s).
  { destruct X3 as (_ & _ & K3). destruct X2 as (_ & _ & K2). auto. }
  assert (J2 : get_index ti3 (qp q) = Some i_p) by (destruct X3 as (_ & _ & K3); auto).
  destruct (f3_row max ti3 _ _ _ _ _ _ T3 J1 J2 I3) as [Frow Prow].
  set (row := (i_s, i_p, i_o)) in *.
  set (q' := mkQ (qs q) (qp q) (qo q) None) in *.
  assert (HR3 : rows3_lt (tlen ti3) (g_spo st)).
  { eapply rows3_mono; [|exact HR]. destruct X as (_ & L & _). exact L. }
  assert (Habs : g_all st = map (f3 ti3) (g_spo st)).
  { rewrite g_all_f3. symmetry. apply f3_ext; auto. }
  assert (Hmem : memq q' (g_all st) = true <-> In row (g_spo st)).
  { rewrite memq_in, Habs, <- Frow.
    apply in_map_inj with (P := P3 (tlen ti3)); auto.
    - intros x y. apply (f3_inj max); auto.
    - apply rows3_P3; auto. }
  destruct (set_insert t3 key3 row (g_spo st)) as [spo' ch] eqn:Eins.
  destruct (set_insert_eq t3 key3 key3_inj row (g_spo st) spo' ch HS Eins) as (Hsorted & Hin' & Hflag & Hsame & Hadd).
  assert (Hch : ch = negb (memq q' (g_all st))).
  { destruct ch, (memq q' (g_all st)); simpl; auto.
    - exfalso. apply Hflag; auto. apply Hmem; auto.
    - assert (false = true); [|discriminate]. apply Hflag. intros Hin. apply Hmem in Hin. discriminate. }
  assert (Hrows : rows3_lt (tlen ti3) spo').
  { intros a b c Hin. apply Hin' in Hin.
    destruct Hin as [Hin|Hin]; [unfold row in Hin; inversion Hin; subst; exact Prow | apply HR3; auto]. }
  assert (Hperm : Permutation (map (f3 ti3) spo')
                    (if memq q' (g_all st) then g_all st else g_all st ++ [q'])).
  { destruct (memq q' (g_all st)) eqn:Em; simpl in Hch; subst ch.
    - rewrite (Hsame eq_refl), Habs. auto.
    - eapply perm_trans; [apply Permutation_map, (Hadd eq_refl)|]. simpl. rewrite Frow, Habs.
      apply Permutation_cons_append. }
  assert (Hgoal : forall st1, g_ti st1 = ti3 -> g_spo st1 = spo' ->
            (fast = true -> image_of key3 p_pos (g_pos st1) spo' /\ image_of key3 p_osp (g_osp st1) spo') ->
            GInv fast max st1 /\ i2t (g_ti st1) = i2t ti3 /\
            (true = false -> Some ch = None /\ g_all st1 = g_all st) /\
            (true = true -> Some ch = Some (negb (memq q' (g_all st))) /\
              Permutation (g_all st1) (if memq q' (g_all st) then g_all st else g_all st ++ [q']))).
  { intros st1 E1 E2 E3. split; [|split; [|split]].
    - split; [rewrite E1; auto|]. split; [rewrite E2; auto|]. split; [rewrite E1, E2; auto|].
      rewrite E2. auto.
    - rewrite E1. auto.
    - discriminate.
    - intros _. split; [congruence|]. rewrite g_all_f3, E1, E2. exact Hperm. }
  destruct fast.
  - destruct (HF eq_refl) as [Ipos Iosp]. destruct ch.
    + inversion E; subst st' r. apply Hgoal; auto. intros _. split.
      * apply (image_insert_eq t3 key3 key3_inj p_pos p_pos_inj (g_spo st) spo' (g_pos st) row); auto.
      * apply (image_insert_eq t3 key3 key3_inj p_osp p_osp_inj (g_spo st) spo' (g_osp st) row); auto.
    + inversion E; subst st' r. rewrite (Hsame eq_refl) in *. apply Hgoal; auto.
  - inversion E; subst st' r. apply Hgoal; auto. discriminate.
Qed.

(* ---------- remove ---------- *)
Lemma g_not_member fast max st q :
  GInv fast max st ->
  (get_index (g_ti st) (qs q) = None \/ get_index (g_ti st) (qp q) = None \/ get_index (g_ti st) (qo q) = None) ->
  memq (norm true q) (g_all st) = false.
Proof.
  intros HI H. destruct (memq (norm true q) (g_all st)) eqn:E; auto. apply memq_in in E.
  destruct (g_all_interned fast max st _ HI E) as (A & B & C). simpl in *. tauto.
Qed.

Theorem g_remove_ok fast max st q st' b :
  GInv fast max st -> g_remove fast st q = (st', b) ->
  let q' := norm true q in
  GInv fast max st' /\ i2t (g_ti st') = i2t (g_ti st) /\ b = memq q' (g_all st) /\
  Permutation (g_all st') (filter (fun x => negb (quad_eqb q' x)) (g_all st)).
Proof.
  intros HI E. pose proof HI as (HT & HS & HR & HF). cbn zeta.
  assert (Hnot : memq (norm true q) (g_all st) = false ->
     GInv fast max st /\ i2t (g_ti st) = i2t (g_ti st) /\ false = memq (norm true q) (g_all st) /\
     Permutation (g_all st) (filter (fun x => negb (quad_eqb (norm true q) x)) (g_all st))).
  { intros Hm. split; [exact HI|]. split; [reflexivity|]. split; [auto|]. rewrite filter_all; auto.
    intros x Hx. destruct (quad_eqb (norm true q) x) eqn:Eq; auto. apply quad_eqb_eq in Eq. subst.
    apply memq_in in Hx. congruence. }
  unfold g_remove in E.
  destruct (get_index (g_ti st) (qs q)) as [i_s|] eqn:I1.
  2:{ inversion E; subst. apply Hnot. eapply g_not_member; eauto. }
  destruct (get_index (g_ti st) (qp q)) as [i_p|] eqn:I2.
  2:{ inversion E; subst. apply Hnot. eapply g_not_member; eauto. }
  destruct (get_index (g_ti st) (qo q)) as [i_o|] eqn:I3.
  2:{ inversion E; subst. apply Hnot. eapply g_not_member; eauto. }
  destruct (f3_row max (g_ti st) _ _ _ _ _ _ HT I1 I2 I3) as [Frow Prow].
  set (row := (i_s, i_p, i_o)) in *.
  change (norm true q) with (mkQ (qs q) (qp q) (qo q) None) in *.
  set (q' := mkQ (qs q) (qp q) (qo q) None) in *.
  assert (Hmem : memq q' (g_all st) = true <-> In row (g_spo st)).
  { rewrite memq_in, g_all_f3, <- Frow.
    apply in_map_inj with (P := P3 (tlen (g_ti st))); auto.
    - intros x y. apply (f3_inj max); auto.
    - apply rows3_P3; auto. }
  destruct (set_remove t3 key3 row (g_spo st)) as [spo' ch] eqn:Erem.
  destruct (set_remove_eq t3 key3 key3_inj row (g_spo st) spo' ch HS Erem) as (Hsorted & Hincl & Hflag & Hsame & Hp & Hnotin).
  assert (Hch : ch = memq q' (g_all st)).
  { destruct ch, (memq q' (g_all st)); auto.
    - symmetry. apply Hmem. apply Hflag. auto.
    - apply Hflag. apply Hmem. auto. }
  destruct ch.
  - (* present *)
    specialize (Hp eq_refl).
    assert (Hrows : rows3_lt (tlen (g_ti st)) spo').
    { intros a b0 c Hin. apply HR. apply Hincl. auto. }
    assert (Hperm : Permutation (map (f3 (g_ti st)) spo') (filter (fun x => negb (quad_eqb q' x)) (g_all st))).
    { rewrite g_all_f3.
      eapply perm_trans; [|apply Permutation_filter, Permutation_map, Permutation_sym, Hp].
      simpl. rewrite Frow, quad_eqb_refl. simpl. rewrite filter_all; auto.
      intros x Hx. destruct (quad_eqb q' x) eqn:Eq; auto. apply quad_eqb_eq in Eq. subst x.
      exfalso. apply Hnotin. rewrite <- Frow in Hx.
      apply (in_map_inj (f3 (g_ti st)) (P3 (tlen (g_ti st)))) in Hx; auto.
      - intros x y. apply (f3_inj max); auto.
      - apply rows3_P3; auto. }
    assert (Hgoal : forall st1, g_ti st1 = g_ti st -> g_spo st1 = spo' ->
            (fast = true -> image_of key3 p_pos (g_pos st1) spo' /\ image_of key3 p_osp (g_osp st1) spo') ->
            GInv fast max st1 /\ i2t (g_ti st1) = i2t (g_ti st) /\ true = memq q' (g_all st) /\
            Permutation (g_all st1) (filter (fun x => negb (quad_eqb q' x)) (g_all st))).
    { intros st1 E1 E2 E3. split; [|split; [|split]]; auto.
      - split; [rewrite E1; auto|]. split; [rewrite E2; auto|]. split; [rewrite E1, E2; auto|].
        rewrite E2. auto.
      - rewrite E1; auto.
      - rewrite g_all_f3, E1, E2. exact Hperm. }
    destruct fast.
    + destruct (HF eq_refl) as [Ipos Iosp]. inversion E; subst st' b. apply Hgoal; auto.
      intros _. split.
      * apply (image_remove_eq t3 key3 key3_inj p_pos (g_spo st) spo' (g_pos st) row); auto.
      * apply (image_remove_eq t3 key3 key3_inj p_osp (g_spo st) spo' (g_osp st) row); auto.
    + inversion E; subst st' b. apply Hgoal; auto. discriminate.
  - (* absent: nothing changes *)
    rewrite (Hsame eq_refl) in *.
    assert (st' = st /\ b = false).
    { destruct fast; inversion E; subst; split; auto. destruct st; reflexivity. }
    destruct H as [-> ->]. apply Hnot. auto.
Qed.

(* ---------- triples_matching ---------- *)
Lemma range_map_filter {A B C} (key : A -> list N) (key_inj : forall x y, key x = key y -> x = y)
      (ix : list A) lo hi (proj : A -> B) (pr : B -> bool) (mk : B -> C) :
  ssorted key ix ->
  map mk (filter pr (map proj (set_range A key lo hi ix)))
  = map (fun t => mk (proj t)) (filter (fun t => between A key lo hi t && pr (proj t)) ix).
Proof.
  intros Hs. rewrite (set_range_filter A key key_inj) by auto.
  rewrite filter_map_comm, map_map, filter_filter. reflexivity.
Qed.

Lemma bc_arm ti ix lo hi bm cm back a0 :
  ssorted key3 ix ->
  (forall a b c, In (a, b, c) ix -> between t3 key3 lo hi (a, b, c) = true -> a = a0) ->
  bc_boxed ti (set_range t3 key3 lo hi ix) bm cm back
  = map (fun r => back (dec3 ti r)) (filter (fun t => between t3 key3 lo hi t && m3bc ti bm cm t) ix).
Proof.
  intros Hs Ha. rewrite (set_range_filter t3 key3 key3_inj) by auto.
  rewrite (bc_boxed_spec ti _ bm cm back a0).
  - rewrite filter_filter. reflexivity.
  - intros a b c Hin. apply filter_In in Hin. destruct Hin. eauto.
Qed.

Lemma rows3_image n perm ix spo :
  (forall s p o, let '(a, b, c) := perm (s, p, o) in (s < n /\ p < n /\ o < n) -> (a < n /\ b < n /\ c < n)) ->
  rows3_lt n spo -> Permutation ix (map perm spo) -> rows3_lt n ix.
Proof.
  intros Hp Hr P a b c Hin. eapply Permutation_in in Hin; [|exact P].
  apply in_map_iff in Hin. destruct Hin as ([[s p] o] & E & Hin).
  specialize (Hp s p o). rewrite E in Hp. apply Hp. apply Hr; auto.
Qed.

Lemma g_rhs st sm pm om gm :
  filter (qmatch true sm pm om gm) (g_all st)
  = map q_of_t3 (map (dec3 (g_ti st)) (filter (m3 (g_ti st) sm pm om) (g_spo st))).
Proof.
  unfold g_all. rewrite filter_map_comm, map_map. f_equal. apply filter_ext_in'.
  intros [[s p] o] _. unfold qmatch, m3. simpl. rewrite andb_true_r. reflexivity.
Qed.

Lemma empty_ok {A B} (f : A -> bool) (d : A -> B) l :
  (forall x, In x l -> f x = false) -> Permutation (@nil B) (map d (filter f l)).
Proof. intros H. rewrite filter_none; auto. Qed.

Section GQuery.
Variables (max : N) (st : gstore) (sm pm om : tmatcher).
Hypothesis Wsm : tm_wf sm.
Hypothesis Wpm : tm_wf pm.
Hypothesis Wom : tm_wf om.
Notation ti := (g_ti st).
Notation n := (tlen (g_ti st)).
Hypothesis HT : TInv max ti.
Hypothesis HS : ssorted key3 (g_spo st).
Hypothesis HR : rows3_lt n (g_spo st).

Lemma n_le_max : n <= max.
Proof. destruct HT; auto. Qed.

Lemma contains_arm3 si pi oi :
  (forall s p o, In (s, p, o) (g_spo st) -> m3 ti sm pm om (s, p, o) = (s =? si) && (p =? pi) && (o =? oi)) ->
  Permutation (if set_contains t3 key3 (si, pi, oi) (g_spo st)
               then [(get_term ti si, get_term ti pi, get_term ti oi)] else [])
              (map (dec3 ti) (filter (m3 ti sm pm om) (g_spo st))).
Proof.
  intros Hm.
  assert (Hf : forall x, In x (g_spo st) -> (m3 ti sm pm om x = true <-> x = (si, pi, oi))).
  { intros [[s p] o] Hin. rewrite Hm by auto. rewrite !andb_true_iff, !N.eqb_eq. split.
    - intros [[-> ->] ->]; auto.
    - intros E; inversion E; auto. }
  pose proof (set_contains_spec t3 key3 key3_inj (si, pi, oi) (g_spo st) HS) as Hc.
  destruct (set_contains t3 key3 (si, pi, oi) (g_spo st)).
  - rewrite (filter_single_in _ _ (si, pi, oi)); auto.
    + eapply ssorted_nodup; eauto. apply key3_inj.
    + apply Hc; auto.
  - rewrite (filter_single_notin _ _ (si, pi, oi)); auto.
    intros Hin. apply Hc in Hin. discriminate.
Qed.
End GQuery.

Ltac row_facts HT :=
  repeat match goal with
  | Hc : tm_const ?m = Some ?c, Hg : get_index ?ti ?c = Some ?i, W : tm_wf ?m
    |- context [tm_pred ?m (get_term ?ti ?x)] =>
      rewrite (const_known _ ti m c i x HT W Hc Hg) by lia
  | Hc : tm_const ?m = Some ?c, Hg : get_index ?ti ?c = None, W : tm_wf ?m
    |- context [tm_pred ?m (get_term ?ti ?x)] =>
      rewrite (const_unknown _ ti m c x HT W Hc Hg) by lia
  end.

Ltac eqs_from H :=
  repeat (rewrite andb_true_iff in H);
  repeat match type of H with _ /\ _ => let H1 := fresh in destruct H as [H H1]; try (apply N.eqb_eq in H1) end;
  try (apply N.eqb_eq in H).

Theorem fg_query_ok max st sm pm om :
  GInv true max st -> tm_wf sm -> tm_wf pm -> tm_wf om ->
  Permutation (fg_query max st sm pm om)
              (map (dec3 (g_ti st)) (filter (m3 (g_ti st) sm pm om) (g_spo st))).
Proof.
  intros (HT & HS & HR & HF) Wsm Wpm Wom. destruct (HF eq_refl) as [[Spos Ppos] [Sosp Posp]].
  pose proof (n_le_max max st HT) as Hle.
  assert (Rpos : rows3_lt (tlen (g_ti st)) (g_pos st)).
  { eapply rows3_image; [|exact HR|exact Ppos]. intros s p o. simpl. tauto. }
  assert (Rosp : rows3_lt (tlen (g_ti st)) (g_osp st)).
  { eapply rows3_image; [|exact HR|exact Posp]. intros s p o. simpl. tauto. }
  assert (Pspo : Permutation (g_spo st) (map (fun x => x) (g_spo st))) by (rewrite map_id; auto).
  unfold fg_query, early, bind_t.
  destruct (tm_const sm) as [sc|] eqn:Csm; cbn [option_map];
    [destruct (get_index (g_ti st) sc) as [si|] eqn:Gsm|];
  (destruct (tm_const pm) as [pc|] eqn:Cpm; cbn [option_map];
    [destruct (get_index (g_ti st) pc) as [pi|] eqn:Gpm|]);
  (destruct (tm_const om) as [oc|] eqn:Com; cbn [option_map];
    [destruct (get_index (g_ti st) oc) as [oi|] eqn:Gom|]);
  (* an unknown constant: nothing can match *)
  try (apply empty_ok; intros [[s p] o] Hin; destruct (HR s p o Hin) as (A & B & C);
       unfold m3; row_facts HT; rewrite ?andb_false_r; reflexivity).
  - (* s p o *)
    apply contains_arm3; auto.
    intros s p o Hin. destruct (HR s p o Hin) as (A & B & C). unfold m3. row_facts HT. reflexivity.
  - (* s p - : spo *)
    rewrite (range_map_filter key3 key3_inj) by auto.
    apply (arm_generic (fun x => x)); [exact Pspo|].
    intros [[s p] o] Hin. destruct (HR s p o Hin) as (A & B & C). unfold m3, third3. row_facts HT.
    rewrite (btw3_2 max) by lia. split; [btauto|]. intros Hm. eqs_from Hm. subst. reflexivity.
  - (* s - o : osp *)
    rewrite (range_map_filter key3 key3_inj) by auto.
    apply (arm_generic p_osp); [exact Posp|].
    intros [[s p] o] Hin. destruct (HR s p o Hin) as (A & B & C). unfold m3, third3, p_osp. row_facts HT.
    rewrite (btw3_2 max) by lia. split; [btauto|]. intros Hm. eqs_from Hm. subst. reflexivity.
  - (* s - - : spo *)
    rewrite (bc_arm _ _ _ _ _ _ _ si); auto.
    2:{ intros a b c Hin Hb. destruct (HR a b c Hin) as (A & B & C).
        rewrite (btw3_1 max) in Hb by lia. apply N.eqb_eq in Hb. auto. }
    apply (arm_generic (fun x => x)); [exact Pspo|].
    intros [[s p] o] Hin. destruct (HR s p o Hin) as (A & B & C). unfold m3, m3bc. row_facts HT.
    rewrite (btw3_1 max) by lia. split; [btauto|]. intros Hm. reflexivity.
  - (* - p o : pos *)
    rewrite (range_map_filter key3 key3_inj) by auto.
    apply (arm_generic p_pos); [exact Ppos|].
    intros [[s p] o] Hin. destruct (HR s p o Hin) as (A & B & C). unfold m3, third3, p_pos. row_facts HT.
    rewrite (btw3_2 max) by lia. split; [btauto|]. intros Hm. eqs_from Hm. subst. reflexivity.
  - (* - p - : pos *)
    rewrite (bc_arm _ _ _ _ _ _ _ pi); auto.
    2:{ intros a b c Hin Hb. destruct (Rpos a b c Hin) as (A & B & C).
        rewrite (btw3_1 max) in Hb by lia. apply N.eqb_eq in Hb. auto. }
    apply (arm_generic p_pos); [exact Ppos|].
    intros [[s p] o] Hin. destruct (HR s p o Hin) as (A & B & C). unfold m3, m3bc, p_pos. row_facts HT.
    rewrite (btw3_1 max) by lia. split; [btauto|]. intros Hm. reflexivity.
  - (* - - o : osp *)
    rewrite (bc_arm _ _ _ _ _ _ _ oi); auto.
    2:{ intros a b c Hin Hb. destruct (Rosp a b c Hin) as (A & B & C).
        rewrite (btw3_1 max) in Hb by lia. apply N.eqb_eq in Hb. auto. }
    apply (arm_generic p_osp); [exact Posp|].
    intros [[s p] o] Hin. destruct (HR s p o Hin) as (A & B & C). unfold m3, m3bc, p_osp. row_facts HT.
    rewrite (btw3_1 max) by lia. split; [btauto|]. intros Hm. reflexivity.
  - (* - - - *)
    rewrite spo_boxed_spec. apply Permutation_refl.
Qed.

Theorem lg_query_ok max st sm pm om :
  GInv false max st -> tm_wf sm -> tm_wf pm -> tm_wf om ->
  Permutation (lg_query max st sm pm om)
              (map (dec3 (g_ti st)) (filter (m3 (g_ti st) sm pm om) (g_spo st))).
Proof.
  intros (HT & HS & HR & HF) Wsm Wpm Wom.
  pose proof (n_le_max max st HT) as Hle.
  assert (Pspo : Permutation (g_spo st) (map (fun x => x) (g_spo st))) by (rewrite map_id; auto).
  unfold lg_query.
  destruct (tm_const sm) as [sc|] eqn:Csm.
  2:{ rewrite spo_boxed_spec. apply Permutation_refl. }
  destruct (get_index (g_ti st) sc) as [si|] eqn:Gsm.
  2:{ apply empty_ok; intros [[s p] o] Hin; destruct (HR s p o Hin) as (A & B & C);
      unfold m3; row_facts HT; rewrite ?andb_false_r; reflexivity. }
  destruct (tm_const pm) as [pc|] eqn:Cpm.
  2:{ rewrite (bc_arm _ _ _ _ _ _ _ si); auto.
      2:{ intros a b c Hin Hb. destruct (HR a b c Hin) as (A & B & C).
          rewrite (btw3_1 max) in Hb by lia. apply N.eqb_eq in Hb. auto. }
      apply (arm_generic (fun x => x)); [exact Pspo|].
      intros [[s p] o] Hin. destruct (HR s p o Hin) as (A & B & C). unfold m3, m3bc. row_facts HT.
      rewrite (btw3_1 max) by lia. split; [btauto|]. intros Hm. reflexivity. }
  destruct (get_index (g_ti st) pc) as [pi|] eqn:Gpm.
  2:{ apply empty_ok; intros [[s p] o] Hin; destruct (HR s p o Hin) as (A & B & C);
      unfold m3; row_facts HT; rewrite ?andb_false_r; reflexivity. }
  destruct (tm_const om) as [oc|] eqn:Com.
  2:{ rewrite (range_map_filter key3 key3_inj) by auto.
      apply (arm_generic (fun x => x)); [exact Pspo|].
      intros [[s p] o] Hin. destruct (HR s p o Hin) as (A & B & C). unfold m3, third3. row_facts HT.
      rewrite (btw3_2 max) by lia. split; [btauto|]. intros Hm. eqs_from Hm. subst. reflexivity. }
  destruct (get_index (g_ti st) oc) as [oi|] eqn:Gom.
  2:{ apply empty_ok; intros [[s p] o] Hin; destruct (HR s p o Hin) as (A & B & C);
      unfold m3; row_facts HT; rewrite ?andb_false_r; reflexivity. }
  apply contains_arm3; auto.
  intros s p o Hin. destruct (HR s p o Hin) as (A & B & C). unfold m3. row_facts HT. reflexivity.
Qed.

Theorem g_query_ok fast max st sm pm om gm :
  GInv fast max st -> tm_wf sm -> tm_wf pm -> tm_wf om ->
  Permutation (g_query fast max st sm pm om gm) (filter (qmatch true sm pm om gm) (g_all st)).
Proof.
  intros HI W1 W2 W3. rewrite g_rhs. unfold g_query. apply Permutation_map.
  destruct fast; [apply fg_query_ok | apply lg_query_ok]; auto.
Qed.

(* the graph stores satisfy the interface *)
Definition graph_ok (fast : bool) (max : N) : impl_ok (Some max) (graph_impl fast max).
Proof.
  refine (mkOk (Some max) (graph_impl fast max) (GInv fast max) (fun st => i2t (g_ti st)) _ _ _ _ _ _).
  - split; [apply ginv_empty | split; reflexivity].
  - intros s HI. eapply ginv_nodup; eauto.
  - intros s q HI Hin. eapply g_all_norm; eauto.
  - intros s q s' r HI E. exact (g_insert_ok fast max s q s' r HI E).
  - intros s q s' b HI E. exact (g_remove_ok fast max s q s' b HI E).
  - intros s sm pm om gm HI W1 W2 W3 W4. apply g_query_ok; auto.
Defined.
