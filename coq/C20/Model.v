(* C20/Model.v -- native Rust values as typed literals and back:
   api/src/term/_native_literal.rs (impl Term for i32/isize/usize/bool/str/f64, impl TryFromTerm
   for i32/isize/usize/bool/f64), the parts of core they rest on (integer Display / FromStr,
   bool FromStr, the grammar accepted by f64::from_str, flt2dec::digits_to_dec_str as used by
   `{}`), and the lexical spaces of XSD 1.1 part 2 as boolean recognisers.
   [fixed = true] is the code after the C20 repair, [fixed = false] the code before it.
   Definitions only. *)
From Sophia.Common Require Export Prelude Term.

(* ---------- characters ---------- *)
Definition is_digit (c : N) : bool := (48 <=? c) && (c <=? 57).
Definition is_sign (c : N) : bool := (c =? 43) || (c =? 45).
Definition is_e (c : N) : bool := (c =? 101) || (c =? 69).
Definition all_digits (s : str) : bool := forallb is_digit s.
Definition digits1 (s : str) : bool := match s with [] => false | _ => all_digits s end.
Definition strip_sign (s : str) : str :=
  match s with c :: r => if is_sign c then r else s | [] => [] end.
Definition is_nil {A} (l : list A) : bool := match l with [] => true | _ => false end.

Definition s_true : str := [116;114;117;101].
Definition s_false : str := [102;97;108;115;101].
Definition s_INF : str := [73;78;70].
Definition s_pINF : str := [43;73;78;70].
Definition s_mINF : str := [45;73;78;70].
Definition s_NaN : str := [78;97;78].
Definition s_inf : str := [105;110;102].
Definition s_minf : str := [45;105;110;102].
Definition s_nan : str := [110;97;110].
Definition s_infinity : str := [105;110;102;105;110;105;116;121].

(* ---------- XSD 1.1 part 2: lexical spaces ---------- *)
(* integer: [\-+]?[0-9]+ *)
Definition xsd_integer_lex (s : str) : bool := digits1 (strip_sign s).
(* boolean: true | false | 1 | 0 *)
Definition xsd_boolean_lex (s : str) : bool :=
  str_eqb s s_true || str_eqb s s_false || str_eqb s [49] || str_eqb s [48].
(* string: sequences of XML Char = #x9 | #xA | #xD | [#x20-#xD7FF] | [#xE000-#xFFFD] | [#x10000-#x10FFFF] *)
Definition xml_char (c : N) : bool :=
  (c =? 9) || (c =? 10) || (c =? 13) || ((32 <=? c) && (c <=? 55295))
  || ((57344 <=? c) && (c <=? 65533)) || ((65536 <=? c) && (c <=? 1114111)).
Definition xsd_string_lex (s : str) : bool := forallb xml_char s.

(* longest prefix of digits, and the rest *)
Fixpoint span_digits (s : str) : str * str :=
  match s with
  | c :: r => if is_digit c then let (i, t) := span_digits r in (c :: i, t) else ([], s)
  | [] => ([], [])
  end.
(* [0-9]+(\.[0-9]{0,})? | \.[0-9]+ *)
Definition mantissa_ok (s : str) : bool :=
  let (i, r) := span_digits s in
  match r with
  | [] => negb (is_nil i)
  | c :: f => (c =? 46) && all_digits f && negb (is_nil i && is_nil f)
  end.
(* decimal: (\+|-)?([0-9]+(\.[0-9]{0,})?|\.[0-9]+) *)
Definition xsd_decimal_lex (s : str) : bool := mantissa_ok (strip_sign s).
(* cut at the first 'e' / 'E' *)
Fixpoint split_exp (s : str) : str * option str :=
  match s with
  | [] => ([], None)
  | c :: r => if is_e c then ([], Some r) else let (m, e) := split_exp r in (c :: m, e)
  end.
(* ([0-9]+(\.[0-9]{0,})?|\.[0-9]+)([Ee](\+|-)?[0-9]+)? *)
Definition numeric_ok (s : str) : bool :=
  let (m, e) := split_exp s in
  mantissa_ok m && match e with None => true | Some x => digits1 (strip_sign x) end.
(* double, float: (\+|-)?(numeric) | (\+|-)?INF | NaN *)
Definition xsd_double_lex (s : str) : bool :=
  numeric_ok (strip_sign s) || str_eqb s s_INF || str_eqb s s_pINF || str_eqb s s_mINF || str_eqb s s_NaN.

(* XSD integer lexical-to-value mapping *)
Definition dstep (a : Z) (c : N) : Z := (a * 10 + (Z.of_N c - 48))%Z.
Definition dval (s : str) : Z := fold_left dstep s 0%Z.
Definition int_value (s : str) : Z :=
  match s with
  | c :: r => if c =? 45 then (- dval r)%Z else if c =? 43 then dval r else dval s
  | [] => 0%Z
  end.

(* ---------- namespace (api/src/ns.rs) ---------- *)
Definition xsd_ns : str :=
  [104;116;116;112;58;47;47;119;119;119;46;119;51;46;111;114;103;47;50;48;48;49;47;88;77;76;83;99;104;101;109;97;35].
Definition xsd (l : str) : str := xsd_ns ++ l.
Definition xsd_integer := xsd [105;110;116;101;103;101;114].
Definition xsd_long := xsd [108;111;110;103].
Definition xsd_int := xsd [105;110;116].
Definition xsd_short := xsd [115;104;111;114;116].
Definition xsd_byte := xsd [98;121;116;101].
Definition xsd_unsignedLong := xsd [117;110;115;105;103;110;101;100;76;111;110;103].
Definition xsd_unsignedInt := xsd [117;110;115;105;103;110;101;100;73;110;116].
Definition xsd_unsignedShort := xsd [117;110;115;105;103;110;101;100;83;104;111;114;116].
Definition xsd_unsignedByte := xsd [117;110;115;105;103;110;101;100;66;121;116;101].
Definition xsd_nonNegativeInteger := xsd [110;111;110;78;101;103;97;116;105;118;101;73;110;116;101;103;101;114].
Definition xsd_nonPositiveInteger := xsd [110;111;110;80;111;115;105;116;105;118;101;73;110;116;101;103;101;114].
Definition xsd_negativeInteger := xsd [110;101;103;97;116;105;118;101;73;110;116;101;103;101;114].
Definition xsd_positiveInteger := xsd [112;111;115;105;116;105;118;101;73;110;116;101;103;101;114].
Definition xsd_double := xsd [100;111;117;98;108;101].
Definition xsd_float := xsd [102;108;111;97;116].
Definition xsd_decimal := xsd [100;101;99;105;109;97;108].
Definition xsd_boolean := xsd [98;111;111;108;101;97;110].
Definition xsd_string := xsd [115;116;114;105;110;103].

(* value spaces of xsd:integer and the types derived from it (XSD 1.1 part 2, 3.4.13-3.4.25):
   (datatype, minInclusive, maxInclusive) *)
Definition xsd_int_facets : list (str * (option Z * option Z)) :=
  [ (xsd_integer, (None, None));
    (xsd_nonPositiveInteger, (None, Some 0%Z));
    (xsd_negativeInteger, (None, Some (-1)%Z));
    (xsd_long, (Some (-9223372036854775808)%Z, Some 9223372036854775807%Z));
    (xsd_int, (Some (-2147483648)%Z, Some 2147483647%Z));
    (xsd_short, (Some (-32768)%Z, Some 32767%Z));
    (xsd_byte, (Some (-128)%Z, Some 127%Z));
    (xsd_nonNegativeInteger, (Some 0%Z, None));
    (xsd_unsignedLong, (Some 0%Z, Some 18446744073709551615%Z));
    (xsd_unsignedInt, (Some 0%Z, Some 4294967295%Z));
    (xsd_unsignedShort, (Some 0%Z, Some 65535%Z));
    (xsd_unsignedByte, (Some 0%Z, Some 255%Z));
    (xsd_positiveInteger, (Some 1%Z, None)) ].
Fixpoint assoc {A} (k : str) (l : list (str * A)) : option A :=
  match l with [] => None | (k', v) :: r => if str_eqb k k' then Some v else assoc k r end.
Definition within (b : option Z * option Z) (v : Z) : bool :=
  match fst b with None => true | Some lo => (lo <=? v)%Z end
  && match snd b with None => true | Some hi => (v <=? hi)%Z end.
(* v belongs to the value space of the integer datatype dt *)
Definition in_value_space (dt : str) (v : Z) : bool :=
  match assoc dt xsd_int_facets with Some b => within b v | None => false end.

(* ---------- core::num: <int>::from_str (radix 10), Display ---------- *)
Inductive perr := PEmpty | PInvalidDigit | PPosOverflow | PNegOverflow.
Definition digit_val (c : N) : option Z := if is_digit c then Some (Z.of_N c - 48)%Z else None.
(* the checked loop: to_digit, then checked_mul, then checked_add / checked_sub *)
Fixpoint parse_pos (hi : Z) (s : str) (acc : Z) : perr + Z :=
  match s with
  | [] => inr acc
  | c :: r =>
      match digit_val c with
      | None => inl PInvalidDigit
      | Some d =>
          let m := (acc * 10)%Z in
          if (hi <? m)%Z then inl PPosOverflow
          else let a := (m + d)%Z in
               if (hi <? a)%Z then inl PPosOverflow else parse_pos hi r a
      end
  end.
Fixpoint parse_neg (lo : Z) (s : str) (acc : Z) : perr + Z :=
  match s with
  | [] => inr acc
  | c :: r =>
      match digit_val c with
      | None => inl PInvalidDigit
      | Some d =>
          let m := (acc * 10)%Z in
          if (m <? lo)%Z then inl PNegOverflow
          else let a := (m - d)%Z in
               if (a <? lo)%Z then inl PNegOverflow else parse_neg lo r a
      end
  end.
Definition parse_int (signed : bool) (lo hi : Z) (s : str) : perr + Z :=
  match s with
  | [] => inl PEmpty
  | [c] => if is_sign c then inl PInvalidDigit else parse_pos hi s 0%Z
  | c :: r =>
      if c =? 43 then parse_pos hi r 0%Z
      else if (c =? 45) && signed then parse_neg lo r 0%Z
      else parse_pos hi s 0%Z
  end.

(* decimal digits, least significant first *)
Fixpoint rdigits (fuel : nat) (n : N) : str :=
  match fuel with
  | O => []
  | S f => (48 + n mod 10) :: (if n <? 10 then [] else rdigits f (n / 10))
  end.
Definition print_nat (n : N) : str := rev (rdigits (S (N.to_nat (N.size n))) n).
Definition print_int (z : Z) : str :=
  if (z <? 0)%Z then 45 :: print_nat (Z.to_N (- z)) else print_nat (Z.to_N z).

(* bool::from_str *)
Definition parse_bool (s : str) : option bool :=
  if str_eqb s s_true then Some true else if str_eqb s s_false then Some false else None.
Definition print_bool (b : bool) : str := if b then s_true else s_false.

(* ---------- the native types ---------- *)
Inductive ity := I32 | Isize | Usize.      (* isize / usize are 64 bits wide *)
Definition ity_signed (t : ity) : bool := match t with Usize => false | _ => true end.
Definition ity_lo (t : ity) : Z :=
  match t with I32 => (-2147483648)%Z | Isize => (-9223372036854775808)%Z | Usize => 0%Z end.
Definition ity_hi (t : ity) : Z :=
  match t with I32 => 2147483647%Z | Isize => 9223372036854775807%Z | Usize => 18446744073709551615%Z end.
Definition in_ity (t : ity) (z : Z) : bool := (ity_lo t <=? z)%Z && (z <=? ity_hi t)%Z.

(* decoded f64 (flt2dec::decode): the finite non-zero case keeps mantissa and binary exponent *)
Inductive f64 := FNaN | FInf (neg : bool) | FZero (neg : bool) | FFin (neg : bool) (mant : N) (exp : Z).

Inductive native :=
| NInt (t : ity) (z : Z) | NBool (b : bool) | NStr (s : str) | NF64 (x : f64).

Definition zeros (n : nat) : str := repeat 48 n.
Definition sign_str (neg : bool) : str := if neg then [45] else [].
(* flt2dec::digits_to_dec_str with frac_digits = 0, after determine_sign (Sign::Minus):
   the value is 0.d1d2...dn * 10^exp *)
Definition render (neg : bool) (ds : str) (exp : Z) : str :=
  sign_str neg ++
  (if (exp <=? 0)%Z then [48; 46] ++ zeros (Z.to_nat (- exp)) ++ ds
   else if (exp <? Z.of_nat (length ds))%Z
        then firstn (Z.to_nat exp) ds ++ [46] ++ skipn (Z.to_nat exp) ds
        else ds ++ zeros (Z.to_nat exp - length ds)).

Section Float.
(* flt2dec::strategy::{grisu,dragon}::format_shortest: shortest digits and decimal exponent of a
   finite non-zero double.  Nothing is assumed about it here. *)
Variable digits_of : N -> Z -> str * Z.

(* <f64 as Display>::fmt without precision = float_to_decimal_common_shortest(.., Sign::Minus, 0) *)
Definition display_f64 (x : f64) : str :=
  match x with
  | FNaN => s_NaN
  | FInf neg => sign_str neg ++ s_inf
  | FZero neg => sign_str neg ++ [48]
  | FFin neg m e => let (ds, k) := digits_of m e in render neg ds k
  end.

(* impl Term for f64 :: lexical_form *)
Definition lexical_f64 (fixed : bool) (x : f64) : str :=
  if fixed then
    match x with
    | FInf false => s_INF
    | FInf true => s_mINF
    | _ => display_f64 x
    end
  else display_f64 x.

(* lexical_form / datatype of the six impls *)
Definition lexical_native (fixed : bool) (v : native) : str :=
  match v with
  | NInt _ z => print_int z
  | NBool b => print_bool b
  | NStr s => s
  | NF64 x => lexical_f64 fixed x
  end.
Definition datatype_native (v : native) : str :=
  match v with
  | NInt _ _ => xsd_integer | NBool _ => xsd_boolean | NStr _ => xsd_string | NF64 _ => xsd_double
  end.
(* what any faithful copy of the native term is (SimpleTerm::from_term, ArcTerm, a parsed N-Triples
   object): an untagged literal with that lexical form and datatype *)
Definition native_term (fixed : bool) (v : native) : term :=
  LitDt (lexical_native fixed v) (datatype_native v).
End Float.

(* ---------- TryFromTerm ---------- *)
Definition lexical_form (t : term) : option str :=
  match t with LitDt l _ | LitLang l _ => Some l | _ => None end.
Definition in_list (x : str) (l : list str) : bool := existsb (str_eqb x) l.

(* the white-lists, in source order *)
Definition wl_signed : list str :=
  [xsd_integer; xsd_long; xsd_int; xsd_short; xsd_unsignedLong; xsd_unsignedInt; xsd_unsignedShort;
   xsd_unsignedByte; xsd_nonNegativeInteger; xsd_nonPositiveInteger; xsd_negativeInteger;
   xsd_positiveInteger].
Definition wl_usize : list str :=
  [xsd_integer; xsd_long; xsd_int; xsd_short; xsd_unsignedLong; xsd_unsignedInt; xsd_unsignedShort;
   xsd_unsignedByte; xsd_nonNegativeInteger; xsd_positiveInteger].
Definition whitelist (t : ity) : list str := match t with Usize => wl_usize | _ => wl_signed end.
Definition wl_f64 : list str := [xsd_double; xsd_float; xsd_decimal].

Definition s_wrong_datatype : str := [119;114;111;110;103;32;100;97;116;97;116;121;112;101].
Definition s_not_a_literal : str := [110;111;116;32;97;32;108;105;116;101;114;97;108].
Definition s_out_of_range : str :=
  [111;117;116;32;111;102;32;116;104;101;32;114;97;110;103;101;32;111;102;32;116;104;101;32;100;97;116;97;116;121;112;101].
Definition s_not_in_lexical_space : str :=
  [110;111;116;32;105;110;32;116;104;101;32;108;101;120;105;99;97;108;32;115;112;97;99;101;32;111;102;32;116;104;101;32;100;97;116;97;116;121;112;101].

(* fn in_xsd_integer_range (post-fix): the table in source order; i128::MIN / i128::MAX bound
   nothing for values of a 64-bit type and are written None *)
Definition range_table : list (str * (option Z * option Z)) :=
  [ (xsd_long, (Some (-9223372036854775808)%Z, Some 9223372036854775807%Z));
    (xsd_int, (Some (-2147483648)%Z, Some 2147483647%Z));
    (xsd_short, (Some (-32768)%Z, Some 32767%Z));
    (xsd_byte, (Some (-128)%Z, Some 127%Z));
    (xsd_unsignedLong, (Some 0%Z, Some 18446744073709551615%Z));
    (xsd_unsignedInt, (Some 0%Z, Some 4294967295%Z));
    (xsd_unsignedShort, (Some 0%Z, Some 65535%Z));
    (xsd_unsignedByte, (Some 0%Z, Some 255%Z));
    (xsd_nonNegativeInteger, (Some 0%Z, None));
    (xsd_positiveInteger, (Some 1%Z, None));
    (xsd_nonPositiveInteger, (None, Some 0%Z));
    (xsd_negativeInteger, (None, Some (-1)%Z)) ].
Definition in_xsd_integer_range (dt : str) (v : Z) : bool :=
  match assoc dt range_table with None => true | Some b => within b v end.

(* impl TryFromTerm for i32 / isize / usize *)
Definition try_int (fixed : bool) (ty : ity) (t : term) : perr + Z :=
  let parse := parse_int (ity_signed ty) (ity_lo ty) (ity_hi ty) in
  match lexical_form t with
  | Some lex =>
      if in_list (datatype t) (whitelist ty) then
        match parse lex with
        | inr v => if negb fixed || in_xsd_integer_range (datatype t) v then inr v
                   else parse s_out_of_range
        | e => e
        end
      else parse s_wrong_datatype
  | None => parse s_not_a_literal
  end.

(* impl TryFromTerm for bool *)
Definition try_bool (t : term) : option bool :=
  match lexical_form t with
  | Some lex => if str_eqb (datatype t) xsd_boolean then parse_bool lex else parse_bool s_wrong_datatype
  | None => parse_bool s_not_a_literal
  end.

(* core::num::dec2flt: which strings f64::from_str / f32::from_str accept, and the class of the
   result (the numeric value itself is not modelled) *)
Inductive fres := RErr | RNaN | RInf (neg : bool) | RNum (neg : bool).
(* parse_number: digits [. digits] with at least one digit, then optionally [eE][+-]?digits+ *)
Definition rust_number_ok (s : str) : bool :=
  let (i, r) := span_digits s in
  let '(f, r2) := match r with
                  | c :: r' => if c =? 46 then span_digits r' else ([], r)
                  | [] => ([], [])
                  end in
  negb (is_nil i && is_nil f)
  && match r2 with [] => true | c :: x => is_e c && digits1 (strip_sign x) end.
Definition rust_parse_float (s : str) : fres :=
  match s with
  | [] => RErr
  | c :: r =>
      let neg := c =? 45 in
      let body := if is_sign c then r else s in
      if is_nil body then RErr
      else if rust_number_ok body then RNum neg
      else let l := lower body in
           if str_eqb l s_nan then RNaN
           else if str_eqb l s_inf || str_eqb l s_infinity then RInf neg
           else RErr
  end.

(* fn valid_xsd_float_chars (post-fix) *)
Definition float_char (decimal : bool) (c : N) : bool :=
  is_digit c || (c =? 43) || (c =? 45) || (c =? 46) || (negb decimal && is_e c).
Definition valid_xsd_float_chars (lex : str) (decimal : bool) : bool :=
  if str_eqb lex s_INF || str_eqb lex s_pINF || str_eqb lex s_mINF || str_eqb lex s_NaN
  then negb decimal else forallb (float_char decimal) lex.

(* impl TryFromTerm for f64 (the f32 detour for xsd:float accepts the same strings) *)
Definition try_f64 (fixed : bool) (t : term) : fres :=
  match lexical_form t with
  | Some lex =>
      let dt := datatype t in
      let decimal := str_eqb dt xsd_decimal in
      if negb (decimal || str_eqb dt xsd_float || str_eqb dt xsd_double)
      then rust_parse_float s_wrong_datatype
      else if fixed && negb (valid_xsd_float_chars lex decimal)
      then rust_parse_float s_not_in_lexical_space
      else rust_parse_float lex
  | None => rust_parse_float s_not_a_literal
  end.

(* the lexical space a float-ish datatype prescribes *)
Definition float_lex_of (dt : str) (lex : str) : bool :=
  if str_eqb dt xsd_decimal then xsd_decimal_lex lex else xsd_double_lex lex.

(* ---------- harness-facing checkers ---------- *)
Definition perr_code (e : perr) : N :=
  match e with PEmpty => 1 | PInvalidDigit => 2 | PPosOverflow => 3 | PNegOverflow => 4 end.
Definition ity_of (k : N) : ity := match k with 0 => I32 | 1 => Isize | _ => Usize end.
Definition no_digits (m : N) (e : Z) : str * Z := ([], 0%Z).
(* lexical form and datatype observed through the Term API *)
Definition int_term_ok (k : N) (z : Z) (lex dt : str) : bool :=
  str_eqb (print_int z) lex && str_eqb xsd_integer dt && in_ity (ity_of k) z.
Definition bool_term_ok (b : bool) (lex dt : str) : bool :=
  str_eqb (print_bool b) lex && str_eqb xsd_boolean dt.
Definition str_term_ok (s : str) (lex dt : str) : bool :=
  str_eqb (lexical_native no_digits true (NStr s)) lex && str_eqb xsd_string dt.
(* special doubles only: 0 NaN, 1 +inf, 2 -inf, 3 +0, 4 -0 *)
Definition f64_of_code (c : N) : f64 :=
  match c with 0 => FNaN | 1 => FInf false | 2 => FInf true | 3 => FZero false | _ => FZero true end.
Definition f64_term_ok (c : N) (lex dt : str) : bool :=
  str_eqb (lexical_f64 no_digits true (f64_of_code c)) lex && str_eqb xsd_double dt.
(* try_from_term: code 0 = Ok v, otherwise the IntErrorKind *)
Definition try_int_ok (k : N) (t : term) (code : N) (v : Z) : bool :=
  match try_int true (ity_of k) t with
  | inr z => N.eqb code 0 && Z.eqb z v
  | inl e => N.eqb code (perr_code e)
  end.
Definition try_bool_ok (t : term) (r : option bool) : bool := opt_eqb Bool.eqb (try_bool t) r.
(* class of the f64 result: 0 Err, 1 NaN, 2 +inf, 3 -inf, 4 number >= +0, 5 number <= -0 *)
Definition fres_code (r : fres) : N :=
  match r with RErr => 0 | RNaN => 1 | RInf false => 2 | RInf true => 3 | RNum false => 4 | RNum true => 5 end.
Definition try_f64_ok (t : term) (code : N) : bool := N.eqb (fres_code (try_f64 true t)) code.
(* the Rust recognisers of the harness oracle agree with the ones the theorems are about:
   bits = integer, boolean, decimal, double, string *)
Definition lex_ok (s : str) (i b d f x : bool) : bool :=
  Bool.eqb (xsd_integer_lex s) i && Bool.eqb (xsd_boolean_lex s) b && Bool.eqb (xsd_decimal_lex s) d
  && Bool.eqb (xsd_double_lex s) f && Bool.eqb (xsd_string_lex s) x.

(* ---------- a native term copied to another representation ---------- *)
(* What the harness observes of a copy (SimpleTerm, ArcTerm, GenericLiteral, a term of an in-memory
   graph, the object read back from a serialisation ...) is its image in Common/Term.v and the rank
   of its TermKind; a faithful copy is Term::eq to the native term and is a literal. *)
Definition reps_ok (v : term) (kinds : list N) (images : list term) : bool :=
  forallb (N.eqb (kind_rank (kind_of v))) kinds && forallb (term_eqb v) images.
Definition int_reps_ok (k : N) (z : Z) (kinds : list N) (images : list term) : bool :=
  reps_ok (native_term no_digits true (NInt (ity_of k) z)) kinds images.
Definition bool_reps_ok (b : bool) (kinds : list N) (images : list term) : bool :=
  reps_ok (native_term no_digits true (NBool b)) kinds images.
Definition str_reps_ok (s : str) (kinds : list N) (images : list term) : bool :=
  reps_ok (native_term no_digits true (NStr s)) kinds images.
(* special doubles only (codes of f64_of_code) *)
Definition f64_reps_ok (c : N) (kinds : list N) (images : list term) : bool :=
  reps_ok (native_term no_digits true (NF64 (f64_of_code c))) kinds images.

(* ---------- pretty Turtle / TriG: turtle/src/serializer/_pretty.rs, write_literal ---------- *)
(* INTEGER  sign? digits+ *)
Definition re_integer (s : str) : bool := digits1 (strip_sign s).
(* DECIMAL  sign? digits{0,} dot digits+ *)
Definition re_decimal (s : str) : bool :=
  let (_, r) := span_digits (strip_sign s) in
  match r with c :: f => (c =? 46) && digits1 f | [] => false end.
(* DOUBLE   sign? ( digits+ ( dot digits{0,} )? | dot digits+ ) [eE] sign? digits+ *)
Definition re_double (s : str) : bool :=
  let (m, e) := split_exp (strip_sign s) in
  mantissa_ok m && match e with Some x => digits1 (strip_sign x) | None => false end.
(* BOOLEAN  true | false *)
Definition re_boolean (s : str) : bool := str_eqb s s_true || str_eqb s s_false.
(* the literal is written as a bare token (no quotes, no datatype) *)
Definition written_bare (t : term) : bool :=
  match lexical_form t with
  | Some lex =>
      let dt := datatype t in
      (str_eqb dt xsd_integer && re_integer lex) || (str_eqb dt xsd_decimal && re_decimal lex)
      || (str_eqb dt xsd_double && re_double lex) || (str_eqb dt xsd_boolean && re_boolean lex)
  | None => false
  end.
(* what the Turtle grammar makes of a bare token (productions INTEGER, DECIMAL, DOUBLE,
   BooleanLiteral of RDF 1.1 Turtle 6.5): the datatype is chosen by the shape of the token *)
Definition read_bare (s : str) : option term :=
  if re_integer s then Some (LitDt s xsd_integer)
  else if re_decimal s then Some (LitDt s xsd_decimal)
  else if re_double s then Some (LitDt s xsd_double)
  else if re_boolean s then Some (LitDt s xsd_boolean)
  else None.
(* observed: the pretty serializer wrote the literal without quotes *)
Definition bare_ok (t : term) (observed : bool) : bool := Bool.eqb (written_bare t) observed.
