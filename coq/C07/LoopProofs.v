(* C07/LoopProofs.v -- what can be proved about the termination of the refinement loop of
   isomorphic_datasets.
   (a) if the number of colour classes never decreases along the run (in particular if no
       collision of XOR-combined hashes merges two classes) the loop stops within
       length bn1 + length bn2 (+1) rounds, so the fuel-bounded model answers Some;
   (b) for an ARBITRARY hash function the loop need not stop: an adversarial Hv and a
       three-statement dataset on which the class count oscillates 1,2,1,2,... forever;
   (c) the pinned statements strengthened by (a): a renamed and reordered copy is answered
       [Some true]; the answer does not depend on the fuel once it is [Some]. *)
From Sophia.C02 Require Import Model Proofs.
From Sophia.C07 Require Import Model Keys Isort Proofs LoopModel.
From Coq Require Import Permutation Sorted.

(* ---------- the number of classes is the number of distinct colours ---------- *)
Lemma insN_sorted k l : StronglySorted N.le l -> StronglySorted N.le (insN k l).
Proof.
  induction 1 as [|x l Hs IH Hf]; simpl.
  - repeat constructor.
  - destruct (N.leb_spec k x) as [Hle|Hgt].
    + constructor; [constructor; assumption|].
      constructor; [exact Hle|]. eapply Forall_impl; [|exact Hf]. intros; lia.
    + constructor; [exact IH|].
      assert (Hp : Permutation (k :: l) (insN k l)).
      { rewrite insN_g. apply ginsert_perm. }
      eapply Forall_perm; [exact Hp|]. constructor; [lia|exact Hf].
Qed.
Lemma sortN_sorted l : StronglySorted N.le (sortN l).
Proof. induction l as [|x l IH]; [constructor|]. apply insN_sorted. exact IH. Qed.
Lemma sortN_perm l : Permutation l (sortN l).
Proof. rewrite sortN_g. apply gsort_perm. Qed.

Lemma nds_nodup l : StronglySorted N.le l -> ndistinct_sorted l = length (nodup N.eq_dec l).
Proof.
  induction 1 as [|x l Hs IH Hf]; [reflexivity|].
  destruct l as [|y r]; [reflexivity|].
  change (ndistinct_sorted (x :: y :: r))
    with (if N.eqb x y then ndistinct_sorted (y :: r) else S (ndistinct_sorted (y :: r))).
  rewrite IH. cbn [nodup].
  destruct (N.eqb_spec x y) as [->|Hne].
  - destruct (in_dec N.eq_dec y (y :: r)) as [_|Hn]; [reflexivity|]. exfalso. apply Hn. left. reflexivity.
  - destruct (in_dec N.eq_dec x (y :: r)) as [Hi|_]; [|reflexivity]. exfalso.
    inversion Hf as [|? ? Hxy Hxr]; subst. inversion Hs as [|? ? _ Hyr]; subst.
    destruct Hi as [E|Hi]; [congruence|].
    rewrite Forall_forall in Hyr. specialize (Hyr x Hi). lia.
Qed.

Lemma nodup_length_perm (l l' : list N) : Permutation l l' ->
  length (nodup N.eq_dec l) = length (nodup N.eq_dec l').
Proof.
  intros Hp. apply Permutation_length. apply NoDup_Permutation; try apply NoDup_nodup.
  intros x. rewrite !nodup_In. split; apply Permutation_in; [|apply Permutation_sym]; exact Hp.
Qed.
Lemma nodup_length_le (l : list N) : (length (nodup N.eq_dec l) <= length l)%nat.
Proof.
  induction l as [|x l IH]; simpl; [lia|]. destruct (in_dec N.eq_dec x l); simpl; lia.
Qed.

Lemma nclasses_nodup c : nclasses c = length (nodup N.eq_dec (map snd c)).
Proof.
  unfold nclasses, colours. rewrite nds_nodup by apply sortN_sorted.
  apply nodup_length_perm. apply Permutation_sym. apply sortN_perm.
Qed.
Lemma nclasses_le_length c : (nclasses c <= length c)%nat.
Proof. rewrite nclasses_nodup, <- (map_length snd c). apply nodup_length_le. Qed.

(* a finer partition has at least as many classes *)
Lemma finer_more_classes (f f' : str -> N) (bn : list str) :
  (forall b b', In b bn -> In b' bn -> f' b = f' b' -> f b = f b') ->
  (length (nodup N.eq_dec (map f bn)) <= length (nodup N.eq_dec (map f' bn)))%nat.
Proof.
  induction bn as [|x r IH]; intros Hf; [simpl; lia|].
  assert (IHr := IH (fun b b' Hb Hb' => Hf b b' (or_intror Hb) (or_intror Hb'))).
  cbn [map nodup].
  destruct (in_dec N.eq_dec (f x) (map f r)) as [Hi|Hn].
  - destruct (in_dec N.eq_dec (f' x) (map f' r)); simpl; lia.
  - destruct (in_dec N.eq_dec (f' x) (map f' r)) as [Hi'|_]; [|simpl; lia].
    exfalso. apply Hn. apply in_map_iff in Hi' as [y [E Hy]]. apply in_map_iff. exists y. split; auto.
    apply Hf; simpl; auto.
Qed.

Section Loop.
Variable Hv : vquad -> N.
Variable d : list quad.
Variable bn : list str.

Lemma round_length c : length (round Hv d bn c) = length bn.
Proof. unfold round. apply map_length. Qed.
Lemma round_snd c : map snd (round Hv d bn c) = map (new_colour Hv d c) bn.
Proof. unfold round. rewrite map_map. reflexivity. Qed.
Lemma round_look c b : In b bn -> look (round Hv d bn c) b = new_colour Hv d c b.
Proof. apply (look_map (new_colour Hv d c)). Qed.

Lemma no_merge_b_spec c : no_merge_b Hv d bn c = true ->
  forall b b', In b bn -> In b' bn ->
  new_colour Hv d c b = new_colour Hv d c b' -> look c b = look c b'.
Proof.
  unfold no_merge_b. rewrite forallb_forall. intros H b b' Hb Hb' E.
  specialize (H b Hb). rewrite forallb_forall in H. specialize (H b' Hb').
  rewrite E, N.eqb_refl in H. simpl in H. apply N.eqb_eq. exact H.
Qed.

(* no merge at a colouring computed by make_map => the class count does not decrease *)
Lemma no_merge_mono c : no_merge_b Hv d bn (round Hv d bn c) = true ->
  (nclasses (round Hv d bn c) <= nclasses (round Hv d bn (round Hv d bn c)))%nat.
Proof.
  intros H. rewrite !nclasses_nodup, (round_snd (round Hv d bn c)).
  replace (map snd (round Hv d bn c)) with (map (look (round Hv d bn c)) bn).
  - apply finer_more_classes. apply no_merge_b_spec. exact H.
  - rewrite round_snd. apply map_ext_in. intros b Hb. apply round_look. exact Hb.
Qed.

Lemma no_merge_run_mono k : forall c, no_merge_run Hv d bn k c = true -> mono_run Hv d bn k c = true.
Proof.
  induction k as [|k IH]; intros c; simpl; auto.
  rewrite !andb_true_iff. intros [H1 H2]. split; [|apply IH; exact H2].
  apply Nat.leb_le. apply no_merge_mono. exact H1.
Qed.
End Loop.

(* ---------- (a) termination when the class counts never decrease ---------- *)
Lemma refine_S Hv f d1 d2 bn1 bn2 c1 c2 o1 o2 :
  refine Hv (S f) d1 d2 bn1 bn2 c1 c2 o1 o2 =
  let c1' := round Hv d1 bn1 c1 in
  let c2' := round Hv d2 bn2 c2 in
  let n1 := nclasses c1' in
  let n2 := nclasses c2' in
  if Nat.eqb n1 o1 && Nat.eqb n2 o2 then Some (str_eqb (colours c1') (colours c2'))
  else if Nat.eqb n1 (length c1') && Nat.eqb n2 (length c2') then Some (str_eqb (colours c1') (colours c2'))
  else refine Hv f d1 d2 bn1 bn2 c1' c2' n1 n2.
Proof. reflexivity. Qed.

(* the measure (length bn1 - old1) + (length bn2 - old2) strictly decreases at every round
   that does not break, and the loop breaks at the latest when it reaches 0 *)
Lemma refine_terminates_gen Hv d1 d2 bn1 bn2 : forall fuel k c1 c2 o1 o2,
  mono_run Hv d1 bn1 k c1 = true -> mono_run Hv d2 bn2 k c2 = true ->
  (o1 <= nclasses (round Hv d1 bn1 c1))%nat -> (o2 <= nclasses (round Hv d2 bn2 c2))%nat ->
  ((length bn1 - o1) + (length bn2 - o2) <= S k)%nat ->
  ((length bn1 - o1) + (length bn2 - o2) <= fuel)%nat -> (0 < fuel)%nat ->
  refine Hv fuel d1 d2 bn1 bn2 c1 c2 o1 o2 <> None.
Proof.
  induction fuel as [|f IH]; intros k c1 c2 o1 o2 M1 M2 I1 I2 Hk Hf Hpos; [lia|].
  rewrite refine_S. cbv zeta.
  pose proof (nclasses_le_length (round Hv d1 bn1 c1)) as L1. rewrite round_length in L1.
  pose proof (nclasses_le_length (round Hv d2 bn2 c2)) as L2. rewrite round_length in L2.
  rewrite !round_length.
  set (n1 := nclasses (round Hv d1 bn1 c1)) in *. set (n2 := nclasses (round Hv d2 bn2 c2)) in *.
  destruct (Nat.eqb n1 o1 && Nat.eqb n2 o2) eqn:E1; [discriminate|].
  destruct (Nat.eqb n1 (length bn1) && Nat.eqb n2 (length bn2)) eqn:E2; [discriminate|].
  assert (Hne : n1 <> o1 \/ n2 <> o2).
  { apply andb_false_iff in E1 as [E|E]; apply Nat.eqb_neq in E; auto. }
  assert (Hnd : n1 <> length bn1 \/ n2 <> length bn2).
  { apply andb_false_iff in E2 as [E|E]; apply Nat.eqb_neq in E; auto. }
  destruct k as [|k]; [lia|].
  simpl in M1, M2. apply andb_true_iff in M1 as [M1a M1b], M2 as [M2a M2b].
  apply Nat.leb_le in M1a, M2a. fold n1 in M1a. fold n2 in M2a.
  apply (IH k); auto; lia.
Qed.

Theorem refine_terminates Hv d1 d2 bn1 bn2 c1 c2 fuel :
  mono_run Hv d1 bn1 (length bn1 + length bn2) c1 = true ->
  mono_run Hv d2 bn2 (length bn1 + length bn2) c2 = true ->
  (S (length bn1 + length bn2) <= fuel)%nat ->
  refine Hv fuel d1 d2 bn1 bn2 c1 c2 0 0 <> None.
Proof.
  intros M1 M2 Hf. apply (refine_terminates_gen Hv d1 d2 bn1 bn2 fuel (length bn1 + length bn2)); auto; lia.
Qed.

(* the answer does not depend on the fuel once there is one: the fuel-bounded model and the
   unbounded loop agree whenever the latter stops *)
Lemma refine_fuel_mono Hv d1 d2 bn1 bn2 : forall f f' c1 c2 o1 o2 b,
  refine Hv f d1 d2 bn1 bn2 c1 c2 o1 o2 = Some b -> (f <= f')%nat ->
  refine Hv f' d1 d2 bn1 bn2 c1 c2 o1 o2 = Some b.
Proof.
  induction f as [|f IH]; intros f' c1 c2 o1 o2 b H Hle; [discriminate|].
  destruct f' as [|f']; [lia|]. rewrite refine_S in *. cbv zeta in *.
  destruct (_ && _); [exact H|]. destruct (_ && _); [exact H|].
  apply IH; [exact H|lia].
Qed.

Theorem iso_fuel_stable Hv teq tcmp f f' d1 d2 b :
  isomorphic Hv teq tcmp f d1 d2 = Some b -> (f <= f')%nat ->
  isomorphic Hv teq tcmp f' d1 d2 = Some b.
Proof.
  unfold isomorphic. intros H Hle.
  destruct (negb _); [exact H|]. destruct (negb _); [exact H|]. destruct (negb _); [exact H|].
  eapply refine_fuel_mono; eauto.
Qed.

Lemma mono_run_le Hv d bn : forall k k' c, (k' <= k)%nat ->
  mono_run Hv d bn k c = true -> mono_run Hv d bn k' c = true.
Proof.
  induction k as [|k IH]; intros k' c Hle H.
  - assert (k' = 0)%nat by lia. subst. reflexivity.
  - destruct k' as [|k']; [reflexivity|]. simpl in *.
    apply andb_true_iff in H as [H1 H2]. rewrite H1. simpl. apply IH; [lia|exact H2].
Qed.

(* the loop of isomorphic_datasets: the pre-checks answer Some false or both sides have the
   same number of blank nodes *)
Theorem iso_terminates Hv d1 d2 fuel :
  loop_mono Hv d1 = true -> loop_mono Hv d2 = true ->
  (enough_fuel d1 <= fuel)%nat ->
  isomorphic Hv iso_eqb iso_cmp fuel d1 d2 <> None.
Proof.
  unfold loop_mono, enough_fuel, isomorphic. intros M1 M2 Hf.
  destruct (negb _); [discriminate|]. destruct (negb _); [discriminate|].
  destruct (Nat.eqb_spec (length (bn_of (sort_q iso_cmp d1))) (length (bn_of (sort_q iso_cmp d2)))) as [E|E];
    simpl; [|discriminate].
  rewrite (bn_of_perm _ _ (sort_q_perm iso_cmp d1)) in Hf.
  apply refine_terminates.
  - eapply mono_run_le; [|exact M1]. lia.
  - eapply mono_run_le; [|exact M2]. lia.
  - lia.
Qed.

Corollary iso_decides Hv d1 d2 fuel :
  loop_mono Hv d1 = true -> loop_mono Hv d2 = true ->
  (enough_fuel d1 <= fuel)%nat ->
  exists b, isomorphic Hv iso_eqb iso_cmp fuel d1 d2 = Some b.
Proof.
  intros M1 M2 Hf. pose proof (iso_terminates Hv d1 d2 fuel M1 M2 Hf) as H.
  destruct (isomorphic Hv iso_eqb iso_cmp fuel d1 d2) as [b|]; [exists b; reflexivity|congruence].
Qed.

Lemma loop_no_merge_mono Hv d : loop_no_merge Hv d = true -> loop_mono Hv d = true.
Proof. unfold loop_no_merge, loop_mono. apply no_merge_run_mono. Qed.

(* a dataset without blank nodes never enters a second round, whatever the hash function *)
Lemma loop_mono_ground Hv d : bn_of (sort_q iso_cmp d) = [] -> loop_mono Hv d = true.
Proof. unfold loop_mono. intros ->. reflexivity. Qed.

(* ---------- (c) the condition is invariant under renaming and reordering ---------- *)
Lemma mono_run_rename Hv pi s1 s2 :
  Permutation s2 (map (rename_q pi) s1) -> inj_on pi (flat_map bnodes_q s1) ->
  forall k c1 c2, Inv pi s1 c1 c2 ->
  mono_run Hv s2 (bn_of s2) k c2 = mono_run Hv s1 (bn_of s1) k c1.
Proof.
  intros Hp Hi. induction k as [|k IH]; intros c1 c2 HI; [reflexivity|]. simpl.
  pose proof (round_inv Hv pi s1 s2 Hp Hi c1 c2 HI) as HI'.
  pose proof (round_inv Hv pi s1 s2 Hp Hi _ _ HI') as HI''.
  unfold nclasses.
  rewrite (round_colours Hv pi s1 s2 Hp Hi c1 c2 HI).
  rewrite (round_colours Hv pi s1 s2 Hp Hi _ _ HI').
  f_equal. apply IH. exact HI'.
Qed.

Lemma sorted_copy_perm pi d1 d2 : Permutation d2 (map (rename_q pi) d1) ->
  Permutation (sort_q iso_cmp d2) (map (rename_q pi) (sort_q iso_cmp d1)).
Proof.
  intros Hp. eapply perm_trans; [apply Permutation_sym; apply sort_q_perm|].
  eapply perm_trans; [exact Hp|]. apply Permutation_map. apply sort_q_perm.
Qed.
Lemma sorted_inj pi d1 : inj_on pi (flat_map bnodes_q d1) ->
  inj_on pi (flat_map bnodes_q (sort_q iso_cmp d1)).
Proof.
  intros Hi x y Hx Hy. apply Hi.
  - eapply Permutation_in; [apply flat_map_perm_top; apply Permutation_sym; apply sort_q_perm|]; exact Hx.
  - eapply Permutation_in; [apply flat_map_perm_top; apply Permutation_sym; apply sort_q_perm|]; exact Hy.
Qed.

Theorem loop_mono_rename Hv pi d1 d2 :
  Permutation d2 (map (rename_q pi) d1) -> inj_on pi (flat_map bnodes_q d1) ->
  loop_mono Hv d2 = loop_mono Hv d1.
Proof.
  intros Hp Hi. unfold loop_mono.
  pose proof (sorted_copy_perm pi d1 d2 Hp) as Hps. pose proof (sorted_inj pi d1 Hi) as His.
  rewrite (bn_len pi _ _ Hps His).
  apply (mono_run_rename Hv pi _ _ Hps His). apply init_inv; assumption.
Qed.

(* no false negative, strengthened: under the termination condition on ONE side the answer
   on a renamed and reordered copy is Some true for every sufficient fuel *)
Theorem iso_true_on_copies (Hv : vquad -> N) (pi : str -> str) (d1 d2 : list quad) fuel :
  Forall wfq d1 ->
  Permutation d2 (map (rename_q pi) d1) ->
  inj_on pi (flat_map bnodes_q d1) ->
  loop_mono Hv d1 = true ->
  (enough_fuel d1 <= fuel)%nat ->
  isomorphic Hv iso_eqb iso_cmp fuel d1 d2 = Some true.
Proof.
  intros W Hp Hi M Hf.
  pose proof (iso_no_false_negative Hv pi d1 d2 fuel W Hp Hi) as Hnf.
  assert (M2 : loop_mono Hv d2 = true) by (rewrite (loop_mono_rename Hv pi d1 d2 Hp Hi); exact M).
  destruct (iso_decides Hv d1 d2 fuel M M2 Hf) as [[|] E]; [exact E|congruence].
Qed.

(* ---------- (b) an adversarial hash function: the loop never stops ---------- *)
Lemma adv_round_0 : round Hadv adv_s adv_bn adv_c0 = adv_cA. Proof. reflexivity. Qed.
Lemma adv_round_A : round Hadv adv_s adv_bn adv_cA = adv_cB. Proof. reflexivity. Qed.
Lemma adv_round_B : round Hadv adv_s adv_bn adv_cB = adv_cA. Proof. vm_compute. reflexivity. Qed.
Lemma adv_n_A : nclasses adv_cA = 1%nat. Proof. vm_compute. reflexivity. Qed.
Lemma adv_n_B : nclasses adv_cB = 2%nat. Proof. vm_compute. reflexivity. Qed.
Lemma adv_len_A : length adv_cA = 3%nat. Proof. vm_compute. reflexivity. Qed.
Lemma adv_len_B : length adv_cB = 3%nat. Proof. vm_compute. reflexivity. Qed.

Lemma adv_oscillates : forall fuel,
  refine Hadv fuel adv_s adv_s adv_bn adv_bn adv_cA adv_cA 1 1 = None
  /\ refine Hadv fuel adv_s adv_s adv_bn adv_bn adv_cB adv_cB 2 2 = None.
Proof.
  induction fuel as [|f [IHA IHB]]; [split; reflexivity|]. split.
  - rewrite refine_S. cbv zeta. rewrite adv_round_A, adv_n_B, adv_len_B. exact IHB.
  - rewrite refine_S. cbv zeta. rewrite adv_round_B, adv_n_A, adv_len_A. exact IHA.
Qed.

Lemma adv_never_stops : forall fuel, isomorphic Hadv iso_eqb iso_cmp fuel adv_d adv_d = None.
Proof.
  intros fuel. unfold isomorphic.
  replace (negb (Nat.eqb (length adv_d) (length adv_d))) with false by reflexivity.
  fold adv_s.
  replace (negb (all2 (quad_eqb iso_eqb) adv_s adv_s)) with false by (vm_compute; reflexivity).
  fold adv_bn.
  replace (negb (Nat.eqb (length adv_bn) (length adv_bn))) with false by (vm_compute; reflexivity).
  fold adv_c0. destruct fuel as [|f]; [reflexivity|].
  rewrite refine_S. cbv zeta. rewrite adv_round_0, adv_n_A, adv_len_A.
  apply (proj1 (adv_oscillates f)).
Qed.

Theorem termination_refuted_for_adversarial_hash :
  exists (Hv : vquad -> N) (d : list quad),
    Forall wfq d /\ forall fuel, isomorphic Hv iso_eqb iso_cmp fuel d d = None.
Proof.
  exists Hadv, adv_d. split; [repeat constructor|]. apply adv_never_stops.
Qed.

(* the same, on the loop itself: with this hash neither break condition ever holds *)
Theorem refine_never_stops_for_adversarial_hash :
  exists (Hv : vquad -> N) (d : list quad) (bn : list str),
    forall fuel, refine Hv fuel d d bn bn (init_colouring d bn) (init_colouring d bn) 0 0 = None.
Proof.
  exists Hadv, adv_s, adv_bn. intros [|f]; [reflexivity|].
  fold adv_c0. rewrite refine_S. cbv zeta. rewrite adv_round_0, adv_n_A, adv_len_A.
  apply (proj1 (adv_oscillates f)).
Qed.

(* and it violates the termination condition, as it must *)
Example adv_not_mono : loop_mono Hadv adv_d = false.
Proof. vm_compute. reflexivity. Qed.

(* ---------- (b') the same with a hash function injective on the views ---------- *)
Lemma adv2_round_0 : round Hinj adv2_s adv2_bn adv2_c0 = adv2_cA. Proof. reflexivity. Qed.
Lemma adv2_round_A : round Hinj adv2_s adv2_bn adv2_cA = adv2_cB. Proof. reflexivity. Qed.
Lemma adv2_round_B : round Hinj adv2_s adv2_bn adv2_cB = adv2_cA. Proof. vm_compute. reflexivity. Qed.
Lemma adv2_n_A : nclasses adv2_cA = 1%nat. Proof. vm_compute. reflexivity. Qed.
Lemma adv2_n_B : nclasses adv2_cB = 2%nat. Proof. vm_compute. reflexivity. Qed.
Lemma adv2_len_A : length adv2_cA = 3%nat. Proof. vm_compute. reflexivity. Qed.
Lemma adv2_len_B : length adv2_cB = 3%nat. Proof. vm_compute. reflexivity. Qed.

Lemma adv2_oscillates : forall fuel,
  refine Hinj fuel adv2_s adv2_s adv2_bn adv2_bn adv2_cA adv2_cA 1 1 = None
  /\ refine Hinj fuel adv2_s adv2_s adv2_bn adv2_bn adv2_cB adv2_cB 2 2 = None.
Proof.
  induction fuel as [|f [IHA IHB]]; [split; reflexivity|]. split.
  - rewrite refine_S. cbv zeta. rewrite adv2_round_A, adv2_n_B, adv2_len_B. exact IHB.
  - rewrite refine_S. cbv zeta. rewrite adv2_round_B, adv2_n_A, adv2_len_A. exact IHA.
Qed.
Lemma adv2_never_stops : forall fuel, isomorphic Hinj iso_eqb iso_cmp fuel adv2_d adv2_d = None.
Proof.
  intros fuel. unfold isomorphic.
  replace (negb (Nat.eqb (length adv2_d) (length adv2_d))) with false by reflexivity.
  fold adv2_s.
  replace (negb (all2 (quad_eqb iso_eqb) adv2_s adv2_s)) with false by (vm_compute; reflexivity).
  fold adv2_bn.
  replace (negb (Nat.eqb (length adv2_bn) (length adv2_bn))) with false by (vm_compute; reflexivity).
  fold adv2_c0. destruct fuel as [|f]; [reflexivity|].
  rewrite refine_S. cbv zeta. rewrite adv2_round_0, adv2_n_A, adv2_len_A.
  apply (proj1 (adv2_oscillates f)).
Qed.

(* the views hashed for the blank nodes of adv2_d, under ANY colouring *)
Lemma adv2_views c b q : In b (bn_of adv2_d) -> In q adv2_d -> has_bnode b q = true ->
  exists pp o, (pp = 112 \/ pp = 113) /\ (o = 49 \/ o = 50 \/ o = 51)
    /\ view_q c b q = (VB (look c b) true, VA (Iri [pp]), VA (Iri [o]), None).
Proof.
  intros Hb Hq. simpl in Hb, Hq.
  repeat (destruct Hb as [<-|Hb]; [|]); try contradiction;
  repeat (destruct Hq as [<-|Hq]; [|]); try contradiction;
  intros Hh; try (vm_compute in Hh; discriminate Hh);
  eexists; eexists; (split; [|split; [|reflexivity]]); auto.
Qed.
Lemma Hinj_injective_on_shape col col' pp pp' o o' :
  (pp = 112 \/ pp = 113) -> (pp' = 112 \/ pp' = 113) ->
  (o = 49 \/ o = 50 \/ o = 51) -> (o' = 49 \/ o' = 50 \/ o' = 51) ->
  Hinj (VB col true, VA (Iri [pp]), VA (Iri [o]), None)
  = Hinj (VB col' true, VA (Iri [pp']), VA (Iri [o']), None) ->
  col = col' /\ pp = pp' /\ o = o'.
Proof.
  intros Hp Hp' Ho Ho'. unfold Hinj, adv_target.
  destruct (col =? 5), (col' =? 5);
  destruct Hp as [->| ->], Hp' as [->| ->];
  destruct Ho as [->|[->| ->]], Ho' as [->|[->| ->]];
  cbn [N.eqb Pos.eqb]; intros E; lia.
Qed.

Theorem Hinj_injective_on_views c c' b b' q q' :
  In b (bn_of adv2_d) -> In q adv2_d -> has_bnode b q = true ->
  In b' (bn_of adv2_d) -> In q' adv2_d -> has_bnode b' q' = true ->
  Hinj (view_q c b q) = Hinj (view_q c' b' q') -> view_q c b q = view_q c' b' q'.
Proof.
  intros Hb Hq Hh Hb' Hq' Hh'.
  destruct (adv2_views c b q Hb Hq Hh) as (pp & o & Hp & Ho & ->).
  destruct (adv2_views c' b' q' Hb' Hq' Hh') as (pp' & o' & Hp' & Ho' & ->).
  intros E. destruct (Hinj_injective_on_shape _ _ _ _ _ _ Hp Hp' Ho Ho' E) as (-> & -> & ->). reflexivity.
Qed.

(* injectivity of the hash on every view that can occur does not give termination *)
Theorem termination_refuted_for_view_injective_hash :
  exists (Hv : vquad -> N) (d : list quad),
    Forall wfq d
    /\ (forall c c' b b' q q',
          In b (bn_of d) -> In q d -> has_bnode b q = true ->
          In b' (bn_of d) -> In q' d -> has_bnode b' q' = true ->
          Hv (view_q c b q) = Hv (view_q c' b' q') -> view_q c b q = view_q c' b' q')
    /\ forall fuel, isomorphic Hv iso_eqb iso_cmp fuel d d = None.
Proof.
  exists Hinj, adv2_d. split; [repeat constructor|]. split.
  - apply Hinj_injective_on_views.
  - apply adv2_never_stops.
Qed.

(* ---------- the condition is satisfiable ---------- *)
(* a two-cycle with a blank graph name (the dataset of Proofs.nonvacuous), FNV stand-in *)
Definition ex_cycle : list quad :=
  [mkQ (Bnode [97]) (Iri [112]) (Bnode [98]) (Some (Bnode [103]));
   mkQ (Bnode [98]) (Iri [112]) (Bnode [97]) None].
Example no_merge_satisfiable : loop_no_merge Hfnv ex_cycle = true.
Proof. vm_compute. reflexivity. Qed.
(* an injective toy hash on the views that occur: the views of ex_cycle's statements are
   told apart by (own colour, colour of the other node, which statement) *)
Definition Htoy (v : vquad) : N :=
  match v with
  | (VB a x, _, VB b y, g) =>
      let bit (t : bool) := if t then 1 else 0 in
      2 + 2 * (bit x + 2 * (bit y + 2 * (match g with Some _ => 1 | None => 0 end + 2 * (a + 1024 * b))))
  | _ => 0
  end.
Example no_merge_satisfiable_toy :
  loop_no_merge Htoy ex_cycle = true
  /\ isomorphic Htoy iso_eqb iso_cmp (enough_fuel ex_cycle) ex_cycle ex_cycle = Some true.
Proof. split; vm_compute; reflexivity. Qed.
