(* C12/RoundTripValues.v -- what a rendered value stands for: the term it denotes, the quads it brings (all of the
   input), the ghosts it hides (each once; where they sit in the parent forest) and the identifiers it shows
   (none of them suppressed anywhere). *)
From Coq Require Import Permutation.
From Sophia.C12 Require Import Model Proofs Back BackProofs RoundTripFacts.

Section Values.
Variable info : N -> tinfo.
Variable o : opts.
Variable d : list quad.
Hypothesis Hwf : wf_info info.
Notation s := (process info o d).
Notation D := (filter (is_jsonld info) d).
Notation L := (list_nodes info o (process info o d)).
Notation C := (compounds info o (process info o d)).
Notation cv := (convert info (process info o d) (list_nodes info o (process info o d)) (compounds info o (process info o d))).
Notation hh := (hgt info o d).
Notation BB := (Bnd info o d).
Notation dsc := (desc info o d).
Notation HI' := (HI info o d).

Lemma ids_D x : In x (ids_of D) -> In x (ids_of d).
Proof.
  unfold ids_of. rewrite !in_flat_map. intros [q [Hq Hx]]. apply filter_In in Hq as [Hq _]. eauto.
Qed.
Lemma quad_ids q : In q D -> In (qs q) (ids_of d) /\ In (qo q) (ids_of d) /\ (forall g, qg q = Some g -> In g (ids_of d)).
Proof.
  intros Hq. repeat split; [| |intros g Eg]; apply ids_D; unfold ids_of; apply in_flat_map; exists q; (split; [exact Hq|]); simpl; auto.
  rewrite Eg. simpl. auto.
Qed.
Lemma quad_kinds q : In q D -> is_iri info (qp q) = true /\ is_object info (qo q) = true.
Proof.
  intros Hq. pose proof (inv_jsonld _ _ _ _ HI' q Hq) as H. unfold is_jsonld in H.
  apply andb_true_iff in H as [H _]. apply andb_true_iff in H as [H H3]. apply andb_true_iff in H as [_ H2]. auto.
Qed.
Lemma lit_not_blank x : is_lit info x = true -> is_blank info x = false.
Proof. unfold is_lit, is_blank. destruct (kind info x); congruence. Qed.
Lemma iri_not_blank x : is_iri info x = true -> is_blank info x = false.
Proof. unfold is_iri, is_blank. destruct (kind info x); congruence. Qed.

(* ---------- compound literals ---------- *)
Record cfacts (kc : nkey) : Prop := mkCf {
  cf_blank : is_blank info (snd kc) = true;
  cf_unmarked : aget nkey_eqb L kc = None;
  cf_up : exists pk pp, aget N.eqb (uparent s) (snd kc) = Some (Some (pk, pp)) /\ fst pk = fst kc;
  cf_subj : forall q, In q D -> qs q = snd kc ->
      qg q = fst kc /\ is_lit info (qo q) = true /\ (qp q = c_value \/ qp q = c_direction \/ qp q = c_language);
  cf_nograph : forall q, In q D -> qg q <> Some (snd kc);
  cf_val : exists v dd, get_prop (get_node s kc) (PIri c_value) = Some [OLit v]
      /\ get_prop (get_node s kc) (PIri c_direction) = Some [OLit dd]
      /\ In (mkQ (snd kc) c_value v (fst kc)) D /\ In (mkQ (snd kc) c_direction dd (fst kc)) D
      /\ (get_prop (get_node s kc) (PIri c_language) = None
          \/ exists l, get_prop (get_node s kc) (PIri c_language) = Some [OLit l]
                       /\ In (mkQ (snd kc) c_language l (fst kc)) D)
}.

Lemma lit_quad kc p l : get_prop (get_node s kc) (PIri p) = Some [OLit l] -> In (mkQ (snd kc) p l (fst kc)) D.
Proof.
  intros E. assert (Hin : In (OLit l) (pat (nodes s) kc (PIri p))) by (eapply get_prop_In; eauto; simpl; auto).
  apply (sound_iri _ _ _ _ HI') in Hin as [q [Hq [Ek [Ep Ex]]]].
  assert (Eo : qo q = l) by (rewrite <- (term_of_obj info q), <- Ex; reflexivity).
  rewrite (quad_eta q) in Hq. rewrite Ep, Eo in Hq. rewrite Ek. exact Hq.
Qed.

Lemma C_facts kc : In kc C -> cfacts kc.
Proof.
  intros Hin. pose proof (compounds_sound info o d kc Hin) as [Hc [Hb [Hcl [_ [Hsub Hng]]]]].
  unfold compounds in Hin. rewrite Hc in Hin. apply filter_In in Hin as [_ Hf].
  apply andb_true_iff in Hf as [_ Hro]. unfold referenced_once in Hro. apply andb_true_iff in Hro as [_ Hu].
  pose proof Hcl as Hcl'. unfold is_compound_literal in Hcl'. rewrite !andb_true_iff in Hcl'.
  destruct Hcl' as [[[[Hl2 Hl3] Hdir] Hval] Hlang]. apply Nat.leb_le in Hl2, Hl3.
  apply one_lit_inv in Hdir as [ld [Hdir _]]. apply one_lit_inv in Hval as [lv [Hval _]].
  assert (Hsubj : forall q, In q D -> qs q = snd kc ->
            qg q = fst kc /\ is_lit info (qo q) = true /\ (qp q = c_value \/ qp q = c_direction \/ qp q = c_language)).
  { intros q Hq Es. destruct (Hsub q Hq Es) as [H1 [H2 [H3 _]]]. auto. }
  constructor; auto.
  - (* not marked: a marked node has an rdf:first quad *)
    destruct (aget nkey_eqb L kc) as [pk|] eqn:E; [|reflexivity]. exfalso.
    destruct (lf_fr _ _ _ _ _ (L_facts info o d kc pk E)) as [f [r [Hf' _]]].
    destruct (Hsubj _ Hf' eq_refl) as [_ [_ [H|[H|H]]]]; discriminate.
  - destruct (aget N.eqb (uparent s) (snd kc)) as [[[pk pp]|]|] eqn:Eu; try discriminate.
    exists pk, pp. split; [reflexivity|]. destruct (gkey_eqb_spec (fst pk) (fst kc)); [assumption|discriminate].
  - exists lv, ld. split; [exact Hval|]. split; [exact Hdir|].
    split; [apply lit_quad; exact Hval|]. split; [apply lit_quad; exact Hdir|].
    apply orb_true_iff in Hlang as [Hlen|Hlang].
    + left. apply Nat.eqb_eq in Hlen.
      destruct (get_prop (get_node s kc) (PIri c_language)) as [v'|] eqn:El; [|reflexivity]. exfalso.
      assert (Hk : In (PIri c_language) [PIri c_direction; PIri c_value]).
      { eapply keys_bounded; [| |rewrite Hlen; simpl; lia|exact El].
        - repeat constructor; simpl; intuition discriminate.
        - intros x [<-|[<-|[]]]; eapply (aget_Some_in _ pkey_eqb_spec); eauto. }
      destruct Hk as [Hk|[Hk|[]]]; discriminate.
    + right. apply one_lit_inv in Hlang as [ll [Hlang _]]. exists ll. split; [exact Hlang|]. apply lit_quad. exact Hlang.
Qed.

Lemma C_parent kc : In kc C ->
  exists pk pp, aget N.eqb (uparent s) (snd kc) = Some (Some (pk, pp)) /\ fst pk = fst kc
     /\ (exists q, In q D /\ qo q = snd kc /\ skey q = pk /\ qp q = pp)
     /\ (forall q, In q D -> qo q = snd kc -> skey q = pk /\ qp q = pp).
Proof.
  intros H. destruct (cf_up _ (C_facts kc H)) as [pk [pp [Eu Eg]]].
  destruct (up_quads info o d _ _ _ Eu) as [_ [H1 H2]]. exists pk, pp. auto.
Qed.

(* ---------- suppressed nodes ---------- *)
Definition supp (k : nkey) : Prop := is_marked L k = true \/ In k C.
Definition ghostly (b : N) : Prop := exists g, supp (g, b).

Lemma supp_suppressed k : supp k <-> suppressed L C k = true.
Proof.
  unfold supp, suppressed, is_comp. rewrite orb_true_iff, existsb_nkey. tauto.
Qed.
Lemma supp_blank k : supp k -> is_blank info (snd k) = true.
Proof.
  intros [H|H].
  - apply is_marked_inv in H as [pk H]. exact (lf_blank _ _ _ _ _ (L_facts info o d k pk H)).
  - exact (cf_blank _ (C_facts k H)).
Qed.
Lemma ghostly_blank b : ghostly b -> is_blank info b = true.
Proof. intros [g H]. apply (supp_blank _ H). Qed.

(* the quads whose object is a suppressed node are in that node's graph *)
Lemma supp_object_graph k q : supp k -> In q D -> qo q = snd k -> qg q = fst k.
Proof.
  intros [H|H] Hq Eo.
  - apply is_marked_inv in H as [pk H]. destruct (L_parent info o d k pk H) as [pp [_ [Hall _]]].
    destruct (Hall q Hq Eo) as [E _]. rewrite <- (lf_graph _ _ _ _ _ (L_facts info o d k pk H)), <- E. reflexivity.
  - destruct (C_parent k H) as [pk [pp [_ [Eg [_ Hall]]]]]. destruct (Hall q Hq Eo) as [E _]. rewrite <- Eg, <- E. reflexivity.
Qed.
(* so are the quads whose subject it is, and there is one *)
Lemma supp_subject_graph k q : supp k -> In q D -> qs q = snd k -> qg q = fst k.
Proof.
  intros [H|H] Hq Es.
  - apply is_marked_inv in H as [pk H]. exact (lf_subj _ _ _ _ _ (L_facts info o d k pk H) q Hq Es).
  - destruct (cf_subj _ (C_facts k H) q Hq Es) as [E _]. exact E.
Qed.
Lemma supp_has_quad k : supp k -> exists q, In q D /\ qs q = snd k /\ qg q = fst k.
Proof.
  intros [H|H].
  - apply is_marked_inv in H as [pk H]. destruct (lf_fr _ _ _ _ _ (L_facts info o d k pk H)) as [f [r [Hf _]]].
    eexists. split; [exact Hf|]. simpl. auto.
  - destruct (cf_val _ (C_facts k H)) as [v [dd [_ [_ [Hv _]]]]]. eexists. split; [exact Hv|]. simpl. auto.
Qed.
Lemma supp_graph_unique g1 g2 b : supp (g1, b) -> supp (g2, b) -> g1 = g2.
Proof.
  intros H1 H2. destruct (supp_has_quad _ H1) as [q [Hq [Es Eg]]]. simpl in *.
  pose proof (supp_subject_graph _ q H2 Hq Es) as E. simpl in E. congruence.
Qed.
Lemma supp_nograph k q : supp k -> In q D -> qg q <> Some (snd k).
Proof.
  intros [H|H] Hq.
  - apply is_marked_inv in H as [pk H]. exact (lf_nograph _ _ _ _ _ (L_facts info o d k pk H) q Hq).
  - exact (cf_nograph _ (C_facts k H) q Hq).
Qed.

(* ---------- the cell a ghost belongs to ---------- *)
Definition up (k : nkey) : nkey :=
  match aget N.eqb (uparent s) (snd k) with Some (Some (pk, _)) => pk | _ => k end.
Definition cellof (kb : nkey) : nkey := if is_marked L kb then kb else up kb.

Lemma cellof_marked k pk : aget nkey_eqb L k = Some pk -> cellof k = k.
Proof. intros H. unfold cellof. rewrite (is_marked_L _ _ _ _ _ H). reflexivity. Qed.
Lemma up_of_quad k q : supp k -> In q D -> qo q = snd k -> up k = skey q.
Proof.
  intros Hs Hq Eo. unfold up. destruct Hs as [H|H].
  - apply is_marked_inv in H as [pk H]. destruct (lf_up _ _ _ _ _ (L_facts info o d k pk H)) as [pp [Eu _]].
    rewrite Eu. destruct (up_quads info o d _ _ _ Eu) as [_ [_ Hall]]. destruct (Hall q Hq Eo). congruence.
  - destruct (C_parent k H) as [pk [pp [Eu [_ [_ Hall]]]]]. rewrite Eu. destruct (Hall q Hq Eo). congruence.
Qed.
Lemma L_of_quad k pk q : aget nkey_eqb L k = Some pk -> In q D -> qo q = snd k -> skey q = pk /\ qg q = fst k.
Proof.
  intros H Hq Eo. destruct (L_parent info o d k pk H) as [pp [_ [Hall _]]]. destruct (Hall q Hq Eo) as [E _].
  split; [exact E|]. rewrite <- (lf_graph _ _ _ _ _ (L_facts info o d k pk H)), <- E. reflexivity.
Qed.

(* ---------- values ---------- *)
(* x is stored for predicate p of node a because of a quad of the input *)
Definition valq (x : robj) (a : nkey) (p : N) : Prop :=
  exists q, In q D /\ skey q = a /\ qp q = p /\ x = obj_of info q.
(* enough fuel for the lists nested below a marked node *)
Definition fuel_ok (f : nat) (x : robj) : Prop :=
  forall k pk, x = ONode k -> aget nkey_eqb L k = Some pk -> (BB < f + hh k)%nat.

(* where the ghosts of the rendering of x sit: x itself when it is a compound literal; otherwise x is a marked
   node and the ghost's cell is one of its descendants in the parent forest *)
Inductive gclass (x : robj) (kb : nkey) : Prop :=
| gc_comp : x = ONode kb -> aget nkey_eqb L kb = None -> In kb C -> gclass x kb
| gc_list k pk : x = ONode k -> aget nkey_eqb L k = Some pk -> dsc (cellof kb) k -> supp kb -> gclass x kb.

Record vprops (g : gkey) (x : robj) (v : jval) : Prop := mkVp {
  vp_term : fst (val_back g v) = term_of x;
  vp_aux : forall q, In q (snd (val_back g v)) -> In q D;
  vp_vis : forall id, In id (val_vis v) -> In id (ids_of d) /\ ~ ghostly id;
  vp_nodup : NoDup (val_ghosts v);
  vp_ghosts : forall b, In b (val_ghosts v) -> gclass x (g, b)
}.

Lemma back_cons g c cs x r :
  val_back g (JList (c :: cs) (x :: r)) =
  (c, mkQ c c_first (fst (val_back g x)) g :: mkQ c c_rest (fst (val_back g (JList cs r))) g
      :: snd (val_back g x) ++ snd (val_back g (JList cs r))).
Proof. rewrite !val_back_list. apply list_back_cons. Qed.
Lemma ghosts_cons c cs x r : val_ghosts (JList (c :: cs) (x :: r)) = c :: val_ghosts x ++ val_ghosts (JList cs r).
Proof. reflexivity. Qed.
Lemma vis_cons id c cs x r :
  In id (val_vis (JList (c :: cs) (x :: r))) <-> id = c_nil \/ In id (val_vis x) \/ In id (list_vis r).
Proof. rewrite val_vis_list, list_vis_cons. simpl. rewrite in_app_iff. intuition. Qed.
Lemma vis_tail id cs r : In id (list_vis r) -> In id (val_vis (JList cs r)).
Proof. rewrite val_vis_list. simpl. auto. Qed.

Lemma skey_eta q : skey q = (qg q, qs q).
Proof. reflexivity. Qed.

(* values that are not marked nodes: no recursion *)
Lemma value_props_base x a p f : valq x a p ->
  (forall k pk, x = ONode k -> aget nkey_eqb L k = Some pk -> False) ->
  vprops (fst a) x (cv f x).
Proof.
  intros [q [Hq [Ea [Ep Ex]]]] Hnm. subst a. simpl fst.
  destruct (quad_ids q Hq) as [_ [Hido _]]. destruct (quad_kinds q Hq) as [_ Hobj].
  unfold obj_of in Ex. destruct (is_lit info (qo q)) eqn:Elit; subst x.
  - (* literal *)
    replace (cv f (OLit (qo q))) with (JLit (qo q)) by (destruct f; reflexivity).
    constructor; simpl; [reflexivity|tauto| |constructor|tauto].
    intros id [<-|[]]. split; [exact Hido|]. intros Hg. apply ghostly_blank in Hg.
    rewrite (lit_not_blank _ Elit) in Hg. discriminate.
  - set (k := (qg q, qo q)).
    assert (Hcv : cv f (ONode k) =
      if qo q =? c_nil then JList [] []
      else if negb (is_blank info (qo q)) then JRef (qo q)
      else if is_marked L k then match f with O => JList [] [] | S f' =>
             JList (map snd (cells s (S (length (nodes s))) k))
                   (map (fun c => cv f' (first_val (get_node s c))) (cells s (S (length (nodes s))) k)) end
      else if is_comp C k then
        JComp (qo q) (lit_val (get_prop (get_node s k) (PIri c_value))) (lit_val (get_prop (get_node s k) (PIri c_direction)))
              (match get_prop (get_node s k) (PIri c_language) with Some _ as ov => Some (lit_val ov) | None => None end)
      else JRef (qo q)) by (destruct f; reflexivity).
    rewrite Hcv. clear Hcv.
    destruct (N.eqb_spec (qo q) c_nil) as [Enil|Hnn].
    { constructor; simpl; [symmetry; exact Enil|tauto| |constructor|tauto].
      intros id [<-|[]]. split; [rewrite <- Enil; exact Hido|]. intros Hg. apply ghostly_blank in Hg.
      rewrite (nil_not_blank info Hwf) in Hg. discriminate. }
    destruct (is_blank info (qo q)) eqn:Eb; simpl negb; cbv iota.
    2:{ constructor; simpl; [reflexivity|tauto| |constructor|tauto].
        intros id [<-|[]]. split; [exact Hido|]. intros Hg. apply ghostly_blank in Hg. congruence. }
    destruct (is_marked L k) eqn:Em.
    { exfalso. apply is_marked_inv in Em as [pk Em]. eapply Hnm; eauto. }
    destruct (is_comp C k) eqn:Ec.
    + (* compound literal *)
      unfold is_comp in Ec. apply existsb_nkey in Ec.
      pose proof (C_facts k Ec) as F. destruct (cf_val _ F) as [v [dd [Ev [Ed [Qv [Qd Hl]]]]]].
      rewrite Ev, Ed. simpl lit_val.
      assert (Hlitkind : forall q', In q' D -> qs q' = qo q -> In (qo q') (ids_of d) /\ ~ ghostly (qo q')).
      { intros q' Hq' Es. destruct (quad_ids q' Hq') as [_ [H1 _]]. split; [exact H1|].
        destruct (cf_subj _ F q' Hq' Es) as [_ [Hl' _]]. intros Hg. apply ghostly_blank in Hg.
        rewrite (lit_not_blank _ Hl') in Hg. discriminate. }
      assert (Hg1 : gclass (ONode k) (qg q, qo q)) by (apply gc_comp; [reflexivity|exact (cf_unmarked _ F)|exact Ec]).
      destruct Hl as [El|[l [El Ql]]]; rewrite El.
      * constructor; simpl.
        -- reflexivity.
        -- intros q' [<-|[<-|[]]]; assumption.
        -- intros id [<-|[<-|[]]]; [apply (Hlitkind _ Qv eq_refl)|apply (Hlitkind _ Qd eq_refl)].
        -- constructor; [tauto|constructor].
        -- intros b [<-|[]]. exact Hg1.
      * constructor; simpl.
        -- reflexivity.
        -- intros q' [<-|[<-|[<-|[]]]]; assumption.
        -- intros id [<-|[<-|[<-|[]]]]; [apply (Hlitkind _ Qv eq_refl)|apply (Hlitkind _ Qd eq_refl)|apply (Hlitkind _ Ql eq_refl)].
        -- constructor; [tauto|constructor].
        -- intros b [<-|[]]. exact Hg1.
    + (* an ordinary blank node *)
      constructor; simpl; [reflexivity|tauto| |constructor|tauto].
      intros id [<-|[]]. split; [exact Hido|]. intros [g' Hs].
      pose proof (supp_object_graph _ q Hs Hq eq_refl) as Eg. simpl in Eg. subst g'.
      destruct Hs as [Hs|Hs]; [change (is_marked L k = true) in Hs; rewrite Em in Hs; discriminate|].
      change (In k C) in Hs. unfold is_comp in Ec. apply existsb_nkey in Hs. rewrite Ec in Hs. discriminate.
Qed.

(* the properties of the rendering of the rest of a chain (r = rdf:nil: nothing) *)
Record rprops (g : gkey) (k : nkey) (r : N) (v : jval) : Prop := mkRp {
  rp_term : fst (val_back g v) = r;
  rp_aux : forall q, In q (snd (val_back g v)) -> In q D;
  rp_vis : forall id, In id (val_vis v) -> In id (ids_of d) /\ ~ ghostly id;
  rp_nodup : NoDup (val_ghosts v);
  rp_ghosts : forall b, In b (val_ghosts v) ->
     aget nkey_eqb L (g, r) = Some k /\ dsc (cellof (g, b)) (g, r) /\ supp (g, b)
}.

(* a marked cell in front of the rendering of its item and of the rest of its chain *)
Lemma cons_props k pk f0 r item cs' items' :
  aget nkey_eqb L k = Some pk ->
  In (mkQ (snd k) c_first f0 (fst k)) D -> In (mkQ (snd k) c_rest r (fst k)) D ->
  vprops (fst k) (obj_of info (mkQ (snd k) c_first f0 (fst k))) item ->
  rprops (fst k) k r (JList cs' items') ->
  vprops (fst k) (ONode k) (JList (snd k :: cs') (item :: items')).
Proof.
  intros HL Qf Qr VI RP. set (g := fst k) in *. set (qf := mkQ (snd k) c_first f0 g) in *.
  assert (Ek : (g, snd k) = k) by (symmetry; apply nkey_eta).
  destruct (h_step info o d k pk HL) as [Ehk Hbk].
  assert (Hsk : supp k) by (left; eapply is_marked_L; eauto).
  (* the ghosts of the item sit below k *)
  assert (GI : forall b, In b (val_ghosts item) -> dsc (cellof (g, b)) k /\ supp (g, b) /\ (g, b) <> k
               /\ (forall r', aget nkey_eqb L (g, r') = Some k -> dsc (cellof (g, b)) (g, r') -> r' = f0 /\ is_marked L (g, f0) = true)).
  { intros b Hb. destruct (vp_ghosts _ _ _ VI b Hb) as [Ex Hu Hc|k1 pk1 Ex H1 Hd Hs].
    - (* the item is a compound literal *)
      unfold obj_of in Ex. destruct (is_lit info (qo qf)); [discriminate|]. injection Ex as Ef0. simpl in Ef0.
      assert (Eup : cellof (g, b) = k).
      { unfold cellof, is_marked. rewrite Hu. rewrite (up_of_quad (g, b) qf (or_intror Hc) Qf); [exact Ek|simpl; congruence]. }
      rewrite Eup. split; [apply desc_refl|]. split; [right; exact Hc|]. split.
      + intros E. rewrite E in Hu. congruence.
      + intros r' Hr' Hd. exfalso. apply (desc_h info o d) in Hd. destruct (h_step info o d _ _ Hr'). lia.
    - (* the item is a marked list *)
      unfold obj_of in Ex. destruct (is_lit info (qo qf)); [discriminate|]. injection Ex as Ek1. simpl in Ek1.
      assert (Epk1 : pk1 = k).
      { destruct (L_of_quad k1 pk1 qf H1 Qf) as [E _]; [rewrite <- Ek1; reflexivity|]. rewrite <- E. exact Ek. }
      subst pk1. destruct (h_step info o d k1 k H1) as [Eh1 _].
      split; [eapply desc_up; eauto|]. split; [exact Hs|]. split.
      + intros E. rewrite E in Hd. rewrite (cellof_marked _ _ HL) in Hd. apply (desc_h info o d) in Hd. lia.
      + intros r' Hr' Hd'. destruct (h_step info o d _ _ Hr') as [Ehr _].
        assert (E : k1 = (g, r')) by (eapply (desc_same_height info o d); eauto; lia).
        subst k1. injection E as E. split; [congruence|]. eapply is_marked_L; exact H1. }
  constructor.
  - rewrite back_cons. reflexivity.
  - rewrite back_cons. cbn [snd]. intros q [<-|[<-|Hq]].
    + rewrite (vp_term _ _ _ VI), term_of_obj. exact Qf.
    + rewrite (rp_term _ _ _ _ RP). exact Qr.
    + apply in_app_iff in Hq as [Hq|Hq]; [apply (vp_aux _ _ _ VI)|apply (rp_aux _ _ _ _ RP)]; exact Hq.
  - intros id Hid. apply vis_cons in Hid as [->|[Hid|Hid]].
    + apply (rp_vis _ _ _ _ RP). rewrite val_vis_list. simpl. auto.
    + apply (vp_vis _ _ _ VI). exact Hid.
    + apply (rp_vis _ _ _ _ RP). apply vis_tail. exact Hid.
  - rewrite ghosts_cons. constructor.
    + rewrite in_app_iff. intros [Hb|Hb].
      * destruct (GI _ Hb) as [_ [_ [Hne _]]]. apply Hne. exact Ek.
      * destruct (rp_ghosts _ _ _ _ RP _ Hb) as [Hr [Hd _]]. rewrite Ek, (cellof_marked _ _ HL) in Hd.
        apply (desc_h info o d) in Hd. destruct (h_step info o d _ _ Hr). lia.
    + apply NoDup_app_intro; [exact (vp_nodup _ _ _ VI)|exact (rp_nodup _ _ _ _ RP)|].
      intros b Hb1 Hb2. destruct (rp_ghosts _ _ _ _ RP _ Hb2) as [Hr [Hd _]].
      destruct (GI _ Hb1) as [_ [_ [_ Hx]]]. destruct (Hx r Hr Hd) as [Er Hm].
      (* the rdf:first and rdf:rest objects of k would be the same marked node *)
      subst r. destruct (L_parent info o d _ _ Hr) as [pp [_ [Hall _]]].
      destruct (Hall _ Qf eq_refl) as [_ E1]. destruct (Hall _ Qr eq_refl) as [_ E2]. unfold qf in E1. simpl in E1, E2. rewrite <- E2 in E1. discriminate.
  - rewrite ghosts_cons. intros b [<-|Hb].
    + rewrite Ek. apply (gc_list _ _ k pk); auto. rewrite (cellof_marked _ _ HL). apply desc_refl.
    + apply in_app_iff in Hb as [Hb|Hb].
      * destruct (GI _ Hb) as [Hd [Hs _]]. apply (gc_list _ _ k pk); auto.
      * destruct (rp_ghosts _ _ _ _ RP _ Hb) as [Hr [Hd Hs]]. apply (gc_list _ _ k pk); auto. eapply desc_up; eauto.
Qed.

Lemma rprops_nil g k : In c_nil (ids_of d) -> rprops g k c_nil (JList [] []).
Proof.
  intros Hn. constructor; simpl; [reflexivity|tauto| |constructor|tauto].
  intros id [<-|[]]. split; [exact Hn|]. intros Hg. apply ghostly_blank in Hg. rewrite (nil_not_blank info Hwf) in Hg. discriminate.
Qed.

(* the rendering of a marked node, with enough fuel *)
Lemma marked_props : forall k pk, aget nkey_eqb L k = Some pk ->
  forall f, (BB < f + hh k)%nat -> vprops (fst k) (ONode k) (cv f (ONode k)).
Proof.
  apply (marked_ind info o d (fun k => forall f, (BB < f + hh k)%nat -> vprops (fst k) (ONode k) (cv f (ONode k)))).
  intros k pk HL IH f Hf. destruct (h_step info o d k pk HL) as [Ehk Hbk].
  destruct f as [|f1]; [lia|].
  destruct (lf_fr _ _ _ _ _ (L_facts info o d k pk HL)) as [f0 [r [Qf [Qr [_ [Er [Ef _]]]]]]].
  set (qf := mkQ (snd k) c_first f0 (fst k)) in *.
  assert (Ek : (fst k, snd k) = k) by (symmetry; apply nkey_eta).
  (* the item *)
  assert (VI : vprops (fst k) (obj_of info qf) (cv f1 (first_val (get_node s k)))).
  { rewrite Ef. destruct (obj_of info qf) as [l|k1] eqn:Ex.
    - rewrite <- Ex. replace (fst k) with (fst (skey qf)) by reflexivity. eapply value_props_base.
      + exists qf. auto.
      + intros k' pk' E. rewrite Ex in E. discriminate.
    - destruct (aget nkey_eqb L k1) as [pk1|] eqn:H1.
      + apply obj_of_node in Ex as [_ Ek1]. simpl in Ek1.
        assert (Epk1 : pk1 = k).
        { destruct (L_of_quad k1 pk1 qf H1 Qf) as [E _]; [rewrite Ek1; reflexivity|]. rewrite <- E. exact Ek. }
        subst pk1. destruct (h_step info o d k1 k H1) as [Eh1 _].
        replace (fst k) with (fst k1) by (rewrite Ek1; reflexivity). apply (IH k1 H1). lia.
      + rewrite <- Ex. replace (fst k) with (fst (skey qf)) by reflexivity. eapply value_props_base.
        * exists qf. auto.
        * intros k' pk' E H'. rewrite Ex in E. injection E as <-. congruence. }
  destruct (convert_marked info o d Hwf k pk f1 HL) as [r' [Er' Hcase]].
  rewrite Er in Er'. injection Er' as <-.
  destruct Hcase as [[Hnil Hcv]|[Hnn [Hr [cs' [items' [Hcr Hcv]]]]]]; rewrite Hcv.
  - apply (cons_props k pk f0 r); auto. subst r. apply rprops_nil.
    destruct (quad_ids _ Qr) as [_ [H _]]. exact H.
  - apply (cons_props k pk f0 r); auto.
    destruct (h_step info o d _ _ Hr) as [Ehr _].
    assert (VR : vprops (fst k) (ONode (fst k, r)) (cv (S f1) (ONode (fst k, r)))).
    { apply (IH (fst k, r) Hr). lia. }
    rewrite Hcr in VR. destruct VR as [V1 V2 V3 V4 V5]. constructor; auto.
    intros b Hb. destruct (V5 b Hb) as [Ex Hu _|k2 pk2 Ex H2 Hd Hs].
    + injection Ex as Ex. rewrite <- Ex in Hu. congruence.
    + injection Ex as <-. auto.
Qed.

(* every rendered value *)
Theorem value_props x a p f : valq x a p -> fuel_ok f x -> vprops (fst a) x (cv f x).
Proof.
  intros Hv Hf. destruct x as [l|k].
  - apply (value_props_base _ a p); [exact Hv|]. intros k pk E. discriminate.
  - destruct (aget nkey_eqb L k) as [pk|] eqn:HL.
    + destruct Hv as [q [Hq [Ea [_ Ex]]]]. symmetry in Ex. apply obj_of_node in Ex as [_ Ek].
      replace (fst a) with (fst k) by (rewrite Ek, <- Ea; reflexivity).
      apply (marked_props k pk HL). apply (Hf k pk); auto.
    + apply (value_props_base _ a p); [exact Hv|]. intros k' pk' E H'. injection E as <-. congruence.
Qed.
End Values.
