(* C17/Model.v -- iri/src/relativize.rs (Relativizer::new, relativize, longest_common_prefix)
   and the resolver it must invert: sophia_iri::resolve::BaseIri::resolve, i.e. oxiri 0.2.11
   IriParser::parse with a base (parse_scheme_start, parse_scheme, parse_relative,
   parse_relative_slash, parse_relative_path, parse_path<REMOVE_DOT_SEGMENTS>, remove_last_segment).
   Also RFC 3986 section 5.2 (parse, merge, remove_dot_segments, recompose) as a specification
   against which the oxiri model is compared.   Definitions only.

   STRINGS ARE LISTS OF UTF-8 BYTES here ([str = list N], every element < 256), and every offset
   is a BYTE offset ([nat]), exactly as in the Rust code: [longest_common_prefix] compares
   [s.bytes()], all the fields of [Relativizer] are byte offsets and [&iri[k..]] panics when [k]
   is not a character boundary.  Why a byte list is a faithful image of a [&str] for this code:
   every delimiter the code looks for (':' '/' '?' '#' '.') is ASCII, and in UTF-8 no byte of a
   multi-byte character is < 128, so [find]/[rfind]/[starts_with]/[split] on the characters of a
   string and on its bytes give the same offsets; [is_ascii_alphabetic] &c. are false on every
   byte >= 128 just as they are false on every non-ASCII character.  The one place where bytes and
   characters differ is the longest common prefix, which can stop INSIDE a character (two
   characters sharing their first bytes); that is why slicing is modelled with the character
   boundary test of [str::is_char_boundary] (continuation bytes 0x80..0xBF) and a [Panic] result.
   A code-point model would have hidden exactly that.

   Not modelled: the validation of code points / percent escapes / IP literals / ports done by
   oxiri (errors on invalid references); the model is the parser's behaviour on references whose
   characters are all accepted (the harness only feeds such references). *)
From Sophia.Common Require Export Prelude.

Definition c_slash : N := 47.
Definition c_qm : N := 63.
Definition c_hash : N := 35.
Definition c_colon : N := 58.
Definition c_dot : N := 46.

Definition is_alpha (c : N) : bool := ((65 <=? c) && (c <=? 90)) || ((97 <=? c) && (c <=? 122)).
Definition is_digit (c : N) : bool := (48 <=? c) && (c <=? 57).
(* c.is_ascii_alphanumeric() || c == '+' || c == '-' || c == '.' *)
Definition is_scheme_char (c : N) : bool :=
  is_alpha c || is_digit c || (c =? 43) || (c =? 45) || (c =? 46).
Definition is_slash (c : N) : bool := c =? c_slash.
Definition is_qh (c : N) : bool := (c =? c_qm) || (c =? c_hash).       (* ['?', '#'] *)
Definition is_delim (c : N) : bool := is_slash c || is_qh c.           (* '/' | '?' | '#' *)

Definition is_cont (c : N) : bool := (128 <=? c) && (c <? 192).
Local Open Scope nat_scope.
(* ---------- &str primitives on byte lists ---------- *)
Definition hd_is (P : N -> bool) (s : str) : bool :=                   (* s.starts_with(P) *)
  match s with x :: _ => P x | [] => false end.

Fixpoint starts_with (p s : str) : bool :=
  match p, s with
  | [], _ => true
  | x :: p', y :: s' => (N.eqb x y) && starts_with p' s'
  | _ :: _, [] => false
  end.

Fixpoint strip_prefix (p s : str) : option str :=
  match p, s with
  | [], _ => Some s
  | x :: p', y :: s' => if N.eqb x y then strip_prefix p' s' else None
  | _ :: _, [] => None
  end.

Fixpoint find_if (P : N -> bool) (s : str) : option nat :=            (* s.find(P) *)
  match s with
  | [] => None
  | x :: s' => if P x then Some O else option_map S (find_if P s')
  end.
Definition find_or_len (P : N -> bool) (s : str) : nat :=              (* .find(P).unwrap_or(s.len()) *)
  match find_if P s with Some i => i | None => length s end.

Fixpoint rfind (c : N) (s : str) : option nat :=                       (* s.rfind(c) *)
  match s with
  | [] => None
  | x :: s' => match rfind c s' with
               | Some i => Some (S i)
               | None => if N.eqb x c then Some O else None
               end
  end.

Definition slice (a b : nat) (s : str) : str := firstn (b - a) (skipn a s).   (* &s[a..b], a<=b<=len *)

(* str::split(c): at least one piece *)
Fixpoint split_on (c : N) (s : str) : list str :=
  match s with
  | [] => [[]]
  | x :: s' =>
      if N.eqb x c then [] :: split_on c s'
      else match split_on c s' with
           | [] => [[x]]              (* unreachable *)
           | p :: ps => (x :: p) :: ps
           end
  end.

(* fn longest_common_prefix: s1.bytes().zip(s2.bytes()).take_while(|(b1,b2)| b1 == b2).count() *)
Fixpoint lcp (a b : str) : nat :=
  match a, b with
  | x :: a', y :: b' => if N.eqb x y then S (lcp a' b') else O
  | _, _ => O
  end.

(* str::is_char_boundary *)
Definition is_char_boundary (s : str) (k : nat) : bool :=
  match k with
  | O => true
  | _ => match nth_error s k with
         | Some c => negb (is_cont c)
         | None => Nat.eqb k (length s)
         end
  end.
(* &s[k..]: None = panic (k beyond the end or inside a character) *)
Definition slice_from (s : str) (k : nat) : option str :=
  if is_char_boundary s k then Some (skipn k s) else None.

(* ---------- oxiri: positions of an absolute IRI (IriParser without base, on valid input) ---------- *)
(* parse_scheme: scheme characters up to ':' *)
Fixpoint scheme_scan (s : str) : option nat :=
  match s with
  | [] => None
  | c :: s' => if N.eqb c c_colon then Some O
               else if is_scheme_char c then option_map S (scheme_scan s') else None
  end.
(* parse_scheme_start: only when the first character is ASCII alphabetic *)
Definition scheme_len (s : str) : option nat := if hd_is is_alpha s then scheme_scan s else None.

Record positions := mkpos { scheme_end : nat; authority_end : nat; path_end : nat; query_end : nat }.

(* scheme_end is just after ':'; "//" opens an authority which ends at the first '/', '?', '#'
   (parse_authority/parse_host/parse_port: a valid userinfo, host or port contains none of them);
   the path ends at the first '?' or '#'; the query at the first '#'. *)
Definition positions_of (s : str) : option positions :=
  match scheme_len s with
  | None => None
  | Some k =>
      let se := S k in
      let ae := match strip_prefix [c_slash; c_slash] (skipn se s) with
                | Some rest => se + 2 + find_or_len is_delim rest
                | None => se
                end in
      let pe := ae + find_or_len is_qh (skipn ae s) in
      let qe := match skipn pe s with
                | c :: rest => if N.eqb c c_qm then pe + 1 + find_or_len (N.eqb c_hash) rest else pe
                | [] => pe
                end in
      Some (mkpos se ae pe qe)
  end.

(* Iri::scheme / authority / path *)
Definition ox_scheme (s : str) (p : positions) : str := firstn (scheme_end p - 1) s.
Definition ox_authority (s : str) (p : positions) : option str :=
  if authority_end p <? scheme_end p + 2 then None
  else Some (slice (scheme_end p + 2) (authority_end p) s).
Definition ox_path (s : str) (p : positions) : str := slice (authority_end p) (path_end p) s.

(* ---------- iri/src/relativize.rs ---------- *)
Record relz := mkrelz {
  z_base : str; z_query_end : nat; z_path_end : nat; z_slashes : list nat; z_pseudoroot : nat;
  z_path_begin : nat; z_has_authority : bool      (* the last two fields are added by the fix *)
}.

(* for _ in 0..=parents { let i = s[path_begin..pos].rfind('/').unwrap_or(0);
                          if i > 0 { pos = i + path_begin; slashes.push(pos) } else { break } } *)
Fixpoint slashes_loop (fuel : nat) (s : str) (path_begin pos : nat) : list nat :=
  match fuel with
  | O => []
  | S f =>
      match rfind c_slash (slice path_begin pos s) with
      | Some (S i) => (S i + path_begin) :: slashes_loop f s path_begin (S i + path_begin)
      | _ => []
      end
  end.

(* Relativizer::new(base, parents); None when BaseIri::new(base) fails (no scheme) *)
Definition new (s : str) (parents : nat) : option relz :=
  match positions_of s with
  | None => None
  | Some p =>
      let path_begin := length (ox_scheme s p) + 1
                        + match ox_authority s p with Some a => length a + 2 | None => 0 end in
      let path_end0 := path_begin + length (ox_path s p) in
      let query_end := match find_if (N.eqb c_hash) (skipn path_end0 s) with
                       | Some i => i + path_end0 | None => length s end in
      let path_end := match find_if (N.eqb c_qm) (slice path_end0 query_end s) with
                      | Some i => i + path_end0 | None => query_end end in
      let sl := slashes_loop (S parents) s path_begin path_end in
      let has_root := hd_is is_slash (skipn path_begin s) in
      let '(sl', pseudoroot) :=
        if parents <? length sl then (removelast sl, last sl O + 1)
        else if has_root then (sl, path_begin + 1) else (sl, path_begin) in
      Some (mkrelz s query_end path_end sl' pseudoroot path_begin
              (match ox_authority s p with Some _ => true | None => false end))
  end.

Inductive res := Panic | Ret (o : option str).

Definition dotdot_slash : str := [c_dot; c_dot; c_slash].
Fixpoint repeat_str (p : str) (n : nat) : str :=
  match n with O => [] | S n' => p ++ repeat_str p n' end.

(* iri.len() == k || iri[k..].starts_with(P): None = slicing panic *)
Definition rest_is (P : N -> bool) (iri : str) (k : nat) : option bool :=
  if Nat.eqb (length iri) k then Some true else option_map (hd_is P) (slice_from iri k).
Definition emit_from (iri : str) (k : nat) (pre : str) : res :=
  match slice_from iri k with Some r => Ret (Some (pre ++ r)) | None => Panic end.

(* self.slashes.iter().copied().enumerate().find(|(_, slash)| lcp > *slash)
     .map(|(nb, slash)| (nb, slash + 1)).unwrap_or((self.slashes.len(), self.pseudoroot)) *)
Fixpoint find_cut (l : nat) (sl : list nat) (nb : nat) (pseudoroot : nat) : nat * nat :=
  match sl with
  | [] => (nb, pseudoroot)
  | slash :: sl' => if slash <? l then (nb, slash + 1) else find_cut l sl' (S nb) pseudoroot
  end.

Definition is_dot_seg (seg : str) : bool := str_eqb seg [c_dot] || str_eqb seg [c_dot; c_dot].
Definition has_dot_seg (path : str) : bool := existsb is_dot_seg (split_on c_slash path).
Definition first_seg (path : str) : str := hd [] (split_on c_slash path).
Definition has_colon (seg : str) : bool := existsb (N.eqb c_colon) seg.

(* Relativizer::relativize AFTER the fix (build/proposed/C17.diff) *)
Definition relativize_z (z : relz) (iri : str) : res :=
  let l := lcp (z_base z) iri in
  match (if z_query_end z <=? l then rest_is (N.eqb c_hash) iri (z_query_end z) else Some false) with
  | None => Panic
  | Some true => emit_from iri (z_query_end z) []
  | Some false =>
    match (if z_path_end z <=? l then option_map (hd_is (N.eqb c_qm)) (slice_from iri (z_path_end z))
           else Some false) with
    | None => Panic
    | Some true => emit_from iri (z_path_end z) []
    | Some false =>
      if z_pseudoroot z <=? l then
        let '(nb, cut) := find_cut l (z_slashes z) 0 (z_pseudoroot z) in
        match slice_from iri cut with
        | None => Panic
        | Some suffix =>
            let path := firstn (find_or_len is_qh suffix) suffix in
            if has_dot_seg path then Ret None
            else if hd_is is_slash path then
              if Nat.eqb cut (z_path_begin z) && negb (starts_with [c_slash; c_slash] path)
              then Ret (Some suffix) else Ret None
            else if z_has_authority z && Nat.eqb (z_path_begin z) (z_path_end z) then Ret None
            else if 0 <? nb then Ret (Some (repeat_str dotdot_slash nb ++ suffix))
            else if match path with [] => true | _ => false end || has_colon (first_seg path)
            then Ret (Some ([c_dot; c_slash] ++ suffix))
            else Ret (Some suffix)
        end
      else Ret None
    end
  end.

(* Relativizer::relativize BEFORE the fix (the text in the original tree).  Not modelled here: the
   debug assertion of IriRef::new_unchecked, which makes a dev-profile build panic when the
   produced text is not a syntactically valid IRI reference (e.g. ":/x"). *)
Fixpoint prefix_loop (l : nat) (iri : str) (sl : list nat) (nb : nat) (k : res) : res :=
  match sl with
  | [] => k
  | slash :: sl' =>
      if slash <? l then
        match nb with
        | O => match rest_is is_qh iri (slash + 1) with
               | None => Panic
               | Some true => emit_from iri (slash + 1) [c_dot; c_slash]
               | Some false => emit_from iri (slash + 1) []
               end
        | _ => emit_from iri (slash + 1) (repeat_str dotdot_slash nb)
        end
      else prefix_loop l iri sl' (S nb) k
  end.

Definition relativize_prefix_z (z : relz) (iri : str) : res :=
  let l := lcp (z_base z) iri in
  if z_query_end z <=? l then emit_from iri (z_query_end z) []
  else if z_path_end z <? l then emit_from iri (z_path_end z) []
  else
    match (if Nat.eqb l (z_path_end z) then rest_is is_qh iri (z_path_end z) else Some false) with
    | None => Panic
    | Some true => emit_from iri (z_path_end z) []
    | Some false =>
      if z_pseudoroot z <=? l then
        prefix_loop l iri (z_slashes z) 0
          (match z_slashes z with
           | [] =>
               match option_map (hd_is is_slash) (slice_from iri (z_pseudoroot z - 1)) with
               | None => Panic
               | Some true =>
                   match rest_is is_qh iri (z_pseudoroot z) with
                   | None => Panic
                   | Some true => emit_from iri (z_pseudoroot z) [c_dot; c_slash]
                   | Some false => emit_from iri (z_pseudoroot z) []
                   end
               | Some false => emit_from iri (z_pseudoroot z) []
               end
           | _ => emit_from iri (z_pseudoroot z) (repeat_str dotdot_slash (length (z_slashes z)))
           end)
      else Ret None
    end.

(* the two entry points on strings; an invalid base gives Ret None (BaseIri::new fails) *)
Definition relativize (b : str) (parents : nat) (iri : str) : res :=
  match new b parents with Some z => relativize_z z iri | None => Ret None end.
Definition relativize_prefix (b : str) (parents : nat) (iri : str) : res :=
  match new b parents with Some z => relativize_prefix_z z iri | None => Ret None end.

(* number of leading "../" of a reference *)
Fixpoint parents_of_fuel (fuel : nat) (r : str) : nat :=
  match fuel with
  | O => O
  | S f => match strip_prefix dotdot_slash r with
           | Some r' => S (parents_of_fuel f r')
           | None => O
           end
  end.
Definition parents_of (r : str) : nat := parents_of_fuel (length r) r.

(* ---------- oxiri: resolution (IriParser::parse with a base) ---------- *)
(* The output buffer is kept REVERSED and restricted to the path (output[authority_end..]):
   [rout] is the reversed path written so far. *)
Fixpoint drop_seg (rout : str) : str :=           (* truncate after the last '/' ([] if none) *)
  match rout with
  | [] => []
  | c :: r' => if N.eqb c c_slash then rout else drop_seg r'
  end.
(* fn remove_last_segment; ha = (authority_end > scheme_end) *)
Definition rls (ha : bool) (rout : str) : str :=
  match drop_seg rout with
  | [] => if ha then [c_slash] else []
  | l => l
  end.

(* the dot-segment part of parse_path::<true> at a segment end: Some = a dot segment was removed *)
Definition dot_fix (ha : bool) (rout : str) : option str :=
  match strip_prefix [c_dot; c_dot; c_slash] rout with     (* output_path.ends_with("/..") *)
  | Some r => Some (rls ha r)
  | None =>
      match strip_prefix [c_dot; c_slash] rout with        (* ends_with("/.") *)
      | Some r => Some (c_slash :: r)
      | None => if str_eqb rout [c_dot] then Some []       (* == "." *)
                else if str_eqb rout [c_dot; c_dot] then Some []   (* == ".." *)
                else None
      end
  end.

(* PathStartingWithTwoSlashes: path starts with "//" and authority_end == scheme_end *)
Definition two_slash_err (ha : bool) (rout : str) : bool :=
  negb ha && starts_with [c_slash; c_slash] (rev rout).

(* parse_relative_path::<true> followed by parse_path::<true> (the former copies characters up to
   the first delimiter, which is what the latter does too); result = path ++ '?query' ++ '#frag'
   or None for PathStartingWithTwoSlashes.  parse_query / parse_fragment copy verbatim. *)
Fixpoint pp_rm (ha : bool) (rout : str) (inp : str) : option str :=
  match inp with
  | [] =>
      let r' := match dot_fix ha rout with Some r' => r' | None => rout end in
      if two_slash_err ha r' then None else Some (rev r')
  | c :: inp' =>
      if N.eqb c c_slash then
        match dot_fix ha rout with
        | Some r' => if two_slash_err ha r' then None else pp_rm ha r' inp'
        | None => pp_rm ha (c_slash :: rout) inp'
        end
      else if is_qh c then
        let r' := match dot_fix ha rout with Some r' => r' | None => rout end in
        if two_slash_err ha r' then None else Some (rev r' ++ c :: inp')
      else pp_rm ha (c :: rout) inp'
  end.

(* BaseIri::resolve(r) = oxiri Iri::resolve: None = error (NoScheme for a leading ':' or
   PathStartingWithTwoSlashes), or the base is not an absolute IRI *)
Definition resolve (b r : str) : option str :=
  match positions_of b with
  | None => None
  | Some p =>
      let ha := scheme_end p <? authority_end p in
      if hd_is (N.eqb c_colon) r then None
      else match scheme_len r with
      | Some _ => Some r                  (* absolute reference: copied, dot segments are NOT removed *)
      | None =>
          match r with
          | [] => Some (firstn (query_end p) b)
          | c :: r' =>
              if N.eqb c c_slash then
                if hd_is is_slash r' then Some (firstn (scheme_end p) b ++ r)    (* "//authority..." copied *)
                else option_map (app (firstn (authority_end p) b)) (pp_rm ha [c_slash] r')
              else if N.eqb c c_qm then Some (firstn (path_end p) b ++ r)
              else if N.eqb c c_hash then Some (firstn (query_end p) b ++ r)
              else option_map (app (firstn (authority_end p) b))
                     (pp_rm ha (rls ha (rev (ox_path b p))) r)
          end
      end
  end.

(* ---------- RFC 3986 section 5.2 (the specification) ---------- *)
Record parts := mkparts {
  p_scheme : option str; p_auth : option str; p_path : str; p_query : option str; p_frag : option str }.

(* appendix B (the five-group regular expression: scheme up to ':', authority after "//" up to
   the next '/', '?' or '#', path up to '?' or '#', query up to '#', fragment), with the scheme
   syntax of section 3.1 (ALPHA followed by ALPHA / DIGIT / '+' / '-' / '.') *)
Definition parse_ref (s : str) : parts :=
  let '(sch, s1) := match scheme_len s with
                    | Some k => (Some (firstn k s), skipn (S k) s)
                    | None => (None, s) end in
  let '(au, s2) := match strip_prefix [c_slash; c_slash] s1 with
                   | Some rest => let k := find_or_len is_delim rest in (Some (firstn k rest), skipn k rest)
                   | None => (None, s1) end in
  let kp := find_or_len is_qh s2 in
  let path := firstn kp s2 in
  let s3 := skipn kp s2 in
  let '(q, s4) := match s3 with
                  | c :: rest => if N.eqb c c_qm then
                                   let k := find_or_len (N.eqb c_hash) rest in (Some (firstn k rest), skipn k rest)
                                 else (None, s3)
                  | [] => (None, s3) end in
  let f := match s4 with _ :: rest => Some rest | [] => None end in
  mkparts sch au path q f.

(* 5.2.4; "remove the last segment and its preceding '/' (if any) from the output buffer" *)
Definition rfc_remove_last (out : str) : str :=
  match rfind c_slash out with Some i => firstn i out | None => [] end.
Fixpoint rds (fuel : nat) (inp out : str) : str :=
  match fuel with
  | O => out ++ inp
  | S f =>
      match inp with
      | [] => out
      | _ =>
        if starts_with [c_dot; c_dot; c_slash] inp then rds f (skipn 3 inp) out            (* A *)
        else if starts_with [c_dot; c_slash] inp then rds f (skipn 2 inp) out              (* A *)
        else if starts_with [c_slash; c_dot; c_slash] inp then rds f (skipn 2 inp) out     (* B *)
        else if str_eqb inp [c_slash; c_dot] then rds f [c_slash] out                      (* B *)
        else if starts_with [c_slash; c_dot; c_dot; c_slash] inp
             then rds f (skipn 3 inp) (rfc_remove_last out)                                (* C *)
        else if str_eqb inp [c_slash; c_dot; c_dot] then rds f [c_slash] (rfc_remove_last out)  (* C *)
        else if str_eqb inp [c_dot] || str_eqb inp [c_dot; c_dot] then rds f [] out        (* D *)
        else                                                                               (* E *)
          let '(lead, rest) := match inp with
                               | c :: t => if N.eqb c c_slash then ([c], t) else ([], inp)
                               | [] => ([], []) end in
          let k := find_or_len is_slash rest in
          rds f (skipn k rest) (out ++ lead ++ firstn k rest)
      end
  end.
Definition remove_dot_segments (p : str) : str := rds (S (length p)) p [].

(* 5.2.3 *)
Definition rfc_merge (b : parts) (rpath : str) : str :=
  match p_auth b, p_path b with
  | Some _, [] => c_slash :: rpath
  | _, bp => match rfind c_slash bp with
             | Some i => firstn (S i) bp ++ rpath
             | None => rpath
             end
  end.

(* 5.3 *)
Definition recompose (p : parts) : str :=
  (match p_scheme p with Some s => s ++ [c_colon] | None => [] end)
  ++ (match p_auth p with Some a => [c_slash; c_slash] ++ a | None => [] end)
  ++ p_path p
  ++ (match p_query p with Some q => c_qm :: q | None => [] end)
  ++ (match p_frag p with Some f => c_hash :: f | None => [] end).

(* 5.2.2 (strict) *)
Definition resolve_rfc (b r : str) : str :=
  let B := parse_ref b in
  let R := parse_ref r in
  recompose
    match p_scheme R with
    | Some _ => mkparts (p_scheme R) (p_auth R) (remove_dot_segments (p_path R)) (p_query R) (p_frag R)
    | None =>
        match p_auth R with
        | Some _ => mkparts (p_scheme B) (p_auth R) (remove_dot_segments (p_path R)) (p_query R) (p_frag R)
        | None =>
            match p_path R with
            | [] => mkparts (p_scheme B) (p_auth B) (p_path B)
                      (match p_query R with Some q => Some q | None => p_query B end) (p_frag R)
            | c :: _ =>
                mkparts (p_scheme B) (p_auth B)
                  (if N.eqb c c_slash then remove_dot_segments (p_path R)
                   else remove_dot_segments (rfc_merge B (p_path R)))
                  (p_query R) (p_frag R)
            end
        end
    end.

(* where oxiri and RFC 3986 are expected to coincide: the base has an authority and a path free of
   dot segments, and a reference carrying its own scheme or authority has a path free of dot
   segments (oxiri copies such references without normalising them; it never touches the dot
   segments of the base either) *)
Definition rfc_class (b r : str) : bool :=
  let B := parse_ref b in
  let R := parse_ref r in
  match p_scheme B, p_auth B with
  | Some _, Some _ =>
      negb (has_dot_seg (p_path B))
      && match p_scheme R, p_auth R with
         | None, None => true
         | _, _ => negb (has_dot_seg (p_path R))
         end
  | _, _ => false
  end.

(* ---------- validity predicates (boolean) ---------- *)
(* the byte list is the content of a &str: lead bytes followed by the right number of continuation
   bytes (all that matters for character boundaries; overlong forms and surrogates are not
   excluded).  [run m s] scans s with m continuation bytes pending. *)
Definition lead_len (c : N) : option nat :=
  if (c <? 128)%N then Some 0 else if (c <? 192)%N then None else if (c <? 224)%N then Some 1
  else if (c <? 240)%N then Some 2 else if (c <? 248)%N then Some 3 else None.
Fixpoint run (m : nat) (s : str) : option nat :=
  match s with
  | [] => Some m
  | c :: s' => match m with
               | O => match lead_len c with Some k => run k s' | None => None end
               | S m' => if is_cont c then run m' s' else None
               end
  end.
Definition utf8_ok (s : str) : bool := match run 0 s with Some O => true | _ => false end.

(* an absolute IRI as far as the structure goes: it has a scheme *)
Definition abs_iri (s : str) : bool := match positions_of s with Some _ => true | None => false end.

(* ---------- additions (round 4): IRIs that are EQUIVALENT to the base under some normalisation
   (scheme / host letter case, percent-encoding case, default port, ...) but not identical to it.
   relativize compares BYTES: whenever it returns a reference, the IRI starts with the scheme and
   the authority of the base byte for byte (proved: relativize_some_shares_root). ---------- *)
(* equivalent up to ASCII letter case (Prelude: str_eqb_ci = str::eq_ignore_ascii_case) yet not identical *)
Definition case_variant (a b : str) : bool := str_eqb_ci a b && negb (str_eqb a b).

(* the IRI starts with "scheme:" and "//authority" of the base, byte for byte *)
Definition shares_root (b iri : str) : bool :=
  match positions_of b with
  | Some p => starts_with (firstn (authority_end p) b) iri
  | None => false
  end.
Definition shares_root_ok (b iri : str) (code : N) : bool :=
  if N.eqb code 1%N then shares_root b iri else true.

(* Iri::query / Iri::fragment (oxiri) *)
Definition ox_query (s : str) (p : positions) : option str :=
  if path_end p <? query_end p then Some (slice (path_end p + 1) (query_end p) s) else None.
Definition ox_fragment (s : str) (p : positions) : option str :=
  if query_end p <? length s then Some (skipn (query_end p + 1) s) else None.
(* the five components BaseIri reports for the base (Relativizer::new reads scheme, authority, path) *)
Definition components_ok (b sch : str) (au : option str) (path : str) (q f : option str) : bool :=
  match positions_of b with
  | Some p => str_eqb (ox_scheme b p) sch && opt_eqb str_eqb (ox_authority b p) au
              && str_eqb (ox_path b p) path && opt_eqb str_eqb (ox_query b p) q
              && opt_eqb str_eqb (ox_fragment b p) f
  | None => false
  end.
(* RFC 3986 section 5.3 applied to the components oxiri reports *)
Definition ox_recompose (s : str) (p : positions) : str :=
  recompose (mkparts (Some (ox_scheme s p)) (ox_authority s p) (ox_path s p) (ox_query s p) (ox_fragment s p)).

(* ---------- harness-facing checkers ---------- *)
Definition res_code (r : res) : N * str :=
  match r with Panic => (2%N, []) | Ret None => (0%N, []) | Ret (Some x) => (1%N, x) end.
(* code: 0 = None, 1 = Some out, 2 = panic *)
Definition relativize_ok (b iri : str) (parents : N) (code : N) (out : str) : bool :=
  let '(c, o) := res_code (relativize b (N.to_nat parents) iri) in (N.eqb c code) && str_eqb o out.
Definition relativize_prefix_ok (b iri : str) (parents : N) (code : N) (out : str) : bool :=
  let '(c, o) := res_code (relativize_prefix b (N.to_nat parents) iri) in (N.eqb c code) && str_eqb o out.
(* ok = BaseIri::resolve returned Ok(out) *)
Definition resolve_ok (b r : str) (ok : bool) (out : str) : bool :=
  match resolve b r with
  | Some x => ok && str_eqb x out
  | None => negb ok
  end.
Definition resolve_rfc_ok (b r : str) (ok : bool) (out : str) : bool :=
  if rfc_class b r && ok then str_eqb (resolve_rfc b r) out else true.
(* a whole case: relativize, then resolve the produced reference with both resolver models *)
Definition case_ok (b iri : str) (parents : N) (code : N) (out : str) (back_ok : bool) (back : str) : bool :=
  relativize_ok b iri parents code out
  && (if N.eqb code 1%N then resolve_ok b out back_ok back && resolve_rfc_ok b out back_ok back else true).
