(* C13/Proofs.v -- the evaluator of exec.rs (after fixes c, d, e) returns the multiset of
   solutions of the SPARQL 1.1 algebra, for every expression library. *)
From Sophia.C13 Require Import Model Maps BgpProofs.
From Coq Require Import Permutation.

(* ---------- datasets ---------- *)
Lemma oteq_sym a b : oteq a b = oteq b a.
Proof.
  destruct (oteq a b) eqn:E; symmetry.
  - apply oteq_eq in E. subst. apply oteq_eq. reflexivity.
  - destruct (oteq b a) eqn:E'; [|reflexivity]. apply oteq_eq in E'. subst.
    assert (oteq a a = true) by (apply oteq_eq; reflexivity). congruence.
Qed.
Lemma map_fst_filter_and {A B} (f : A * B -> bool) (h : A -> bool) (D : list (A * B)) :
  map fst (filter (fun q => f q && h (fst q)) D) = filter h (map fst (filter f D)).
Proof.
  induction D as [|q D IH]; [reflexivity|]. cbn [filter].
  destruct (f q); cbn [andb map filter].
  - destruct (h (fst q)); cbn [map]; rewrite IH; reflexivity.
  - exact IH.
Qed.
Lemma ds_qm_single D m g : ds_qm D m [g] = qmG (graph_of D g) m [g].
Proof.
  unfold ds_qm, qmG, graph_of, gm_matches.
  rewrite <- (map_fst_filter_and (fun q => oteq g (snd q)) (matches3 m)). f_equal.
  apply filter_ext. intros q. cbn [memb]. rewrite orb_false_r, (oteq_sym (snd q) g). reflexivity.
Qed.
Lemma graph_of_NoDup D g : NoDup D -> NoDup (graph_of D g).
Proof.
  intros H. unfold graph_of. apply NoDup_map_inj_on; [|apply NoDup_filter; exact H].
  intros [t1 g1] [t2 g2] H1 H2. apply filter_In in H1 as [_ H1]. apply filter_In in H2 as [_ H2].
  simpl in *. apply oteq_eq in H1, H2. intros ->. congruence.
Qed.
Lemma ins_term_perm x l : Permutation (ins_term x l) (x :: l).
Proof.
  induction l as [|y l IH]; simpl; [apply Permutation_refl|].
  destruct (term_cmp x y); try apply Permutation_refl.
  eapply perm_trans; [apply perm_skip, IH | apply perm_swap].
Qed.
Lemma sort_terms_perm l : Permutation (sort_terms l) l.
Proof.
  induction l as [|x l IH]; simpl; [constructor|].
  eapply perm_trans; [apply ins_term_perm | apply perm_skip, IH].
Qed.
Lemma ds_names_perm D : Permutation (ds_names D) (graph_names_set D).
Proof. apply sort_terms_perm. Qed.
Lemma ds_names_NoDup D : NoDup (ds_names D).
Proof.
  eapply Permutation_NoDup; [apply Permutation_sym, ds_names_perm|]. apply (dedupb_NoDup _ teq_eq).
Qed.

(* ---------- generic list facts ---------- *)
Lemma map_filter_comm {A B} (g : A -> B) (f : B -> bool) l :
  map g (filter (fun x => f (g x)) l) = filter f (map g l).
Proof.
  induction l as [|x l IH]; simpl; [reflexivity|]. destruct (f (g x)); simpl; rewrite IH; reflexivity.
Qed.
Lemma map_eq_pointwise {A B} (f g : A -> B) l : map f l = map g l -> forall x, In x l -> f x = g x.
Proof.
  induction l as [|y l IH]; simpl; intros E x; [intros []|].
  injection E as E1 E2. intros [<-|H]; auto.
Qed.
Lemma NoDup_map_factor {A B C} (g : A -> B) (h : B -> C) l :
  NoDup (map (fun x => h (g x)) l) -> NoDup (map g l).
Proof.
  induction l as [|x l IH]; simpl; intros H; [constructor|].
  inversion H as [|? ? Hx Hl]; subst. constructor; [|auto].
  intros Hin. apply Hx. apply in_map_iff in Hin as [y [E Hy]]. apply in_map_iff. exists y.
  split; [congruence | auto].
Qed.
Lemma flat_map_map_comm {A B C} (g : B -> C) (f : A -> list B) l :
  map g (flat_map f l) = flat_map (fun x => map g (f x)) l.
Proof. induction l as [|x l IH]; simpl; [reflexivity|]. rewrite map_app, IH. reflexivity. Qed.

Section WithLib.
Variable L : exprlib.
(* sort_unstable_by returns a permutation of its input (std contract; the order itself is C14) *)
Hypothesis sorter_perm : forall c l, Permutation (sorter L c l) l.

Notation pattern := (pattern L).
Notation select := (select L).

(* ---------- rows and solution mappings ---------- *)
Lemma bv_extend_row v e b : bv (extend_row L v e b) = extend_mu L v e (bv b).
Proof. unfold extend_row, extend_mu. destruct (eval_expr L e (bv b)); reflexivity. Qed.
Lemma bv_join_var v n b : option_map bv (join_var v n b) = join_var_mu v n (bv b).
Proof.
  unfold join_var, join_var_mu. destruct (lookup v (bv b)); [destruct (teq t n)|]; reflexivity.
Qed.
Lemma map_bv_join v n rows :
  map bv (filter_map (join_var v n) rows) = filter_map (join_var_mu v n) (map bv rows).
Proof.
  rewrite map_filter_map, filter_map_map. apply filter_map_ext. intros; apply bv_join_var.
Qed.

(* every row of a result is a well-formed map whose keys are among the result's variables *)
Definition row_inv (vs : list str) (r : binding) : Prop :=
  sortedb (bv r) = true /\ (forall k, lookup k (bv r) <> None -> In k vs).
Lemma row_inv_mono vs vs' r : (forall k, In k vs -> In k vs') -> row_inv vs r -> row_inv vs' r.
Proof. intros H [H1 H2]. split; auto. Qed.
Lemma In_add_var v vs k : In k (add_var v vs) <-> k = v \/ In k vs.
Proof.
  unfold add_var. destruct (memb str_eqb v vs) eqn:E.
  - apply (memb_In _ str_eqb_eq) in E. split; [auto|]. intros [->|H]; auto.
  - rewrite in_app_iff. simpl. split; [intros [H|[<-|[]]]; auto | intros [->|H]; auto].
Qed.

(* the key used by DISTINCT determines the solution mapping *)
Lemma row_key_bv vs r1 r2 : row_inv vs r1 -> row_inv vs r2 ->
  (row_key vs r1 = row_key vs r2 <-> bv r1 = bv r2).
Proof.
  intros [S1 K1] [S2 K2]. unfold row_key. split; [|intros ->; reflexivity].
  intros E. apply amap_ext; auto. intros k.
  destruct (lookup k (bv r1)) eqn:E1.
  - assert (Hin : In k vs) by (apply K1; congruence).
    rewrite <- E1. exact (map_eq_pointwise _ _ _ E k Hin).
  - destruct (lookup k (bv r2)) eqn:E2; [|reflexivity].
    assert (Hin : In k vs) by (apply K2; congruence).
    pose proof (map_eq_pointwise _ _ _ E k Hin) as H. simpl in H. congruence.
Qed.

Definition keyeq := list_eqb_spec oteq oteq_eq.
Lemma dedup_rows_spec vs rows : forall seen,
  (forall r, In r (dedup_rows vs seen rows) -> In r rows /\ ~ In (row_key vs r) seen)
  /\ NoDup (map (row_key vs) (dedup_rows vs seen rows))
  /\ (forall r, In r rows -> ~ In (row_key vs r) seen ->
        In (row_key vs r) (map (row_key vs) (dedup_rows vs seen rows))).
Proof.
  induction rows as [|x rows IH]; intros seen; simpl.
  - split; [intros r []|]. split; [constructor | intros r []].
  - destruct (memb (list_eqb oteq) (row_key vs x) seen) eqn:M.
    + apply (memb_In _ keyeq) in M. destruct (IH seen) as [A [B C]].
      split; [intros r H; apply A in H as [H1 H2]; auto|]. split; [auto|].
      intros r [<-|H] Hn; [contradiction | auto].
    + apply (memb_false _ keyeq) in M. destruct (IH (row_key vs x :: seen)) as [A [B C]].
      split; [|split].
      * intros r [<-|H]; [auto|]. apply A in H as [H1 H2]. split; [auto|].
        intros H3. apply H2. right. exact H3.
      * simpl. constructor; [|exact B]. intros H. apply in_map_iff in H as [r [E H]].
        apply A in H as [_ H]. apply H. left. auto.
      * intros r [<-|H] Hn; [left; reflexivity|]. simpl.
        destruct (list_eqb oteq (row_key vs x) (row_key vs r)) eqn:E.
        -- apply keyeq in E. left. exact E.
        -- right. apply C; auto. intros [H1|H1]; [|contradiction].
           assert (list_eqb oteq (row_key vs x) (row_key vs r) = true) by (apply keyeq; exact H1).
           congruence.
Qed.

Lemma distinct_correct vs rows spec_rows :
  Forall (row_inv vs) rows -> Permutation (map bv rows) spec_rows ->
  Permutation (map bv (dedup_rows vs [] rows)) (dedupb amap_eqb spec_rows).
Proof.
  intros Hinv Hp. rewrite Forall_forall in Hinv.
  destruct (dedup_rows_spec vs rows []) as [A [B C]].
  apply NoDup_Permutation.
  - apply (NoDup_map_factor bv (fun mu => map (fun v => lookup v mu) vs)). exact B.
  - apply (dedupb_NoDup _ amap_eqb_eq).
  - intros mu. rewrite (dedupb_In _ amap_eqb_eq). split.
    + intros H. apply in_map_iff in H as [r [<- H]]. apply A in H as [H _].
      eapply Permutation_in; [exact Hp|]. apply in_map. exact H.
    + intros H. apply (Permutation_in _ (Permutation_sym Hp)) in H.
      apply in_map_iff in H as [r [<- H]].
      pose proof (C r H (fun x => x)) as H'. apply in_map_iff in H' as [r' [E H']].
      apply in_map_iff. exists r'. split; [|exact H'].
      apply (row_key_bv vs); auto. apply Hinv. apply A in H' as [H' _]. exact H'.
Qed.

(* ---------- graph_rec ---------- *)
Definition res_rows (r : result) : list binding := match r with Ok _ rows => rows | Err _ => [] end.
Definition res_vars (r : result) : list str := match r with Ok vs _ => vs | Err _ => [] end.
Lemma graph_rec_ok sel var names b vs rows :
  graph_rec sel var names b = Ok vs rows ->
  (forall n, In n names -> exists vsn rowsn, sel [Some n] b = Ok vsn rowsn)
  /\ rows = flat_map (fun n => filter_map (join_var var n) (res_rows (sel [Some n] b))) names
  /\ vs = match names with [] => [] | n :: _ => add_var var (res_vars (sel [Some n] b)) end.
Proof.
  revert vs rows. induction names as [|n names IH]; intros vs rows; simpl.
  - intros E. injection E as <- <-. split; [intros n []|]. auto.
  - destruct (sel [Some n] b) as [vsn rowsn|e] eqn:E1; [|discriminate].
    destruct (graph_rec sel var names b) as [vs2 rows2|e] eqn:E2; [|discriminate].
    intros E. injection E as <- <-. destruct (IH _ _ eq_refl) as [A [B _]].
    split; [|split].
    + intros n' [<-|H]; [eauto | auto].
    + simpl. rewrite B. reflexivity.
    + reflexivity.
Qed.
Lemma graph_rec_all_ok sel var names b :
  (forall n, In n names -> exists vsn rowsn, sel [Some n] b = Ok vsn rowsn) ->
  exists vs rows, graph_rec sel var names b = Ok vs rows.
Proof.
  induction names as [|n names IH]; intros H; simpl; [eauto|].
  destruct (H n (or_introl eq_refl)) as [vsn [rowsn ->]].
  destruct IH as [vs [rows ->]]; [intros; apply H; right; auto|]. eauto.
Qed.
Lemma graph_rec_err sel var names b e :
  graph_rec sel var names b = Err e -> exists n, In n names /\ sel [Some n] b = Err e.
Proof.
  induction names as [|n names IH]; simpl; [discriminate|].
  destruct (sel [Some n] b) as [vsn rowsn|e'] eqn:E1.
  - destruct (graph_rec sel var names b) as [vs2 rows2|e'] eqn:E2; [discriminate|].
    intros E. injection E as ->. destruct (IH eq_refl) as [n' [H1 H2]]. eauto.
  - intros E. injection E as ->. eauto.
Qed.

Section OverDataset.
Variable qm : matcher3 -> list (option term) -> list triple.
Variable gnames : list term.
Notation sel := (select qm gnames).

(* the variable list does not depend on the data *)
Lemma select_vars p : forall gm vs rows, sel p gm None = Ok vs rows -> vs = out_vars L p.
Proof.
  induction p as [ps|e p IHp|p1 IHp1 p2 IHp2|name p IHp|p IHp v e|p IHp crit|p IHp pvs|p IHp|p IHp start len|k]; intros gm vs0 rows; simpl.
  - unfold bgp. intros E; injection E as <- _; reflexivity.
  - destruct (sel p gm None) eqn:E; [|discriminate]. intros H; injection H as <- _. eauto.
  - destruct (sel p1 gm None) eqn:E1; [|discriminate].
    destruct (sel p2 gm None) eqn:E2; [|discriminate].
    intros H; injection H as <- _. rewrite (IHp1 _ _ _ E1), (IHp2 _ _ _ E2). reflexivity.
  - destruct name as [i|v]; simpl.
    + unfold only_if_named. destruct (sel p [Some (Iri i)] None) eqn:E; [|discriminate].
      destruct (memb teq (Iri i) gnames); intros H; injection H as <- _; eauto.
    + destruct (sel p [] None) as [vs1 rows1|] eqn:E; [|discriminate].
      destruct gnames as [|n names] eqn:EG.
      * intros H; injection H as <- _. rewrite (IHp _ _ _ E). reflexivity.
      * intros H. apply graph_rec_ok in H as [A [_ ->]].
        destruct (A n (or_introl eq_refl)) as [vsn [rowsn En]]. rewrite En. simpl.
        rewrite (IHp _ _ _ En). reflexivity.
  - destruct (sel p gm None) eqn:E; [|discriminate].
    destruct (memb str_eqb v vs); [discriminate|]. intros H; injection H as <- _.
    rewrite (IHp _ _ _ E). reflexivity.
  - destruct (sel p gm None) eqn:E; [|discriminate]. intros H; injection H as <- _. eauto.
  - destruct (sel p gm None) eqn:E; [|discriminate]. intros H; injection H as <- _. reflexivity.
  - destruct (sel p gm None) eqn:E; [|discriminate]. intros H; injection H as <- _. eauto.
  - destruct (sel p gm None) eqn:E; [|discriminate]. intros H; injection H as <- _. eauto.
  - discriminate.
Qed.

(* success is a syntactic property: only supported operators, no BIND overriding a variable *)
Lemma select_ok_of_supported p : forall gm,
  supported L p = true -> no_override L p = true -> exists vs rows, sel p gm None = Ok vs rows.
Proof.
  induction p as [ps|e p IHp|p1 IHp1 p2 IHp2|name p IHp|p IHp v e|p IHp crit|p IHp pvs|p IHp|p IHp start len|k]; intros gm; simpl.
  - intros _ _. unfold bgp. eauto.
  - intros S N. destruct (IHp gm S N) as [vs [rows ->]]. eauto.
  - rewrite !andb_true_iff. intros [S1 S2] [N1 N2].
    destruct (IHp1 gm S1 N1) as [vs1 [rows1 ->]], (IHp2 gm S2 N2) as [vs2 [rows2 ->]]. eauto.
  - intros S N. destruct name as [i|v]; simpl.
    + destruct (IHp [Some (Iri i)] S N) as [vs [rows ->]]. simpl.
      destruct (memb teq (Iri i) gnames); eauto.
    + destruct (IHp [] S N) as [vs [rows ->]]. destruct gnames as [|n names]; [eauto|].
      apply graph_rec_all_ok. intros n' _. apply IHp; auto.
  - rewrite andb_true_iff, negb_true_iff. intros S [N1 N2].
    destruct (IHp gm S N1) as [vs [rows E]]. rewrite E.
    rewrite (select_vars _ _ _ _ E), N2. eauto.
  - intros S N. destruct (IHp gm S N) as [vs [rows ->]]. eauto.
  - intros S N. destruct (IHp gm S N) as [vs [rows ->]]. eauto.
  - intros S N. destruct (IHp gm S N) as [vs [rows ->]]. eauto.
  - intros S N. destruct (IHp gm S N) as [vs [rows ->]]. eauto.
  - discriminate.
Qed.

Lemma select_err p : forall gm e, sel p gm None = Err e ->
  (exists k, e = NotImplemented k /\ supported L p = false)
  \/ (exists v, e = Override v /\ no_override L p = false).
Proof.
  assert (OR : forall a b, a = false -> a && b = false) by (intros; subst; reflexivity).
  assert (OR' : forall a b, b = false -> a && b = false) by (intros; subst; apply andb_false_r).
  induction p as [ps|e p IHp|p1 IHp1 p2 IHp2|name p IHp|p IHp v e|p IHp crit|p IHp pvs|p IHp|p IHp start len|k]; intros gm e0; simpl.
  - discriminate.
  - destruct (sel p gm None) eqn:E; [discriminate|]. intros H; injection H as <-. eauto.
  - destruct (sel p1 gm None) eqn:E1.
    + destruct (sel p2 gm None) eqn:E2; [discriminate|]. intros H; injection H as <-.
      destruct (IHp2 _ _ E2) as [[k [-> H]]|[v [-> H]]]; [left|right]; eauto.
    + intros H; injection H as <-.
      destruct (IHp1 _ _ E1) as [[k [-> H]]|[v [-> H]]]; [left|right]; eauto.
  - destruct name as [i|v]; simpl.
    + unfold only_if_named. destruct (sel p [Some (Iri i)] None) eqn:E.
      * destruct (memb teq (Iri i) gnames); discriminate.
      * intros H; injection H as <-. eauto.
    + destruct (sel p [] None) as [vs1 rows1|] eqn:E.
      * destruct gnames as [|n names]; [discriminate|]. intros H.
        apply graph_rec_err in H as [n' [_ H]]. eauto.
      * intros H; injection H as <-. eauto.
  - destruct (sel p gm None) eqn:E.
    + destruct (memb str_eqb v vs) eqn:M; [|discriminate]. intros H; injection H as <-.
      right. exists v. split; [reflexivity|]. apply OR'.
      rewrite <- (select_vars _ _ _ _ E), M. reflexivity.
    + intros H; injection H as <-.
      destruct (IHp _ _ E) as [[k [-> H]]|[v' [-> H]]]; [left|right]; eauto.
  - destruct (sel p gm None) eqn:E; [discriminate|]. intros H; injection H as <-. eauto.
  - destruct (sel p gm None) eqn:E; [discriminate|]. intros H; injection H as <-. eauto.
  - destruct (sel p gm None) eqn:E; [discriminate|]. intros H; injection H as <-. eauto.
  - destruct (sel p gm None) eqn:E; [discriminate|]. intros H; injection H as <-. eauto.
  - intros H; injection H as <-. left. eauto.
Qed.
End OverDataset.

(* ---------- the main theorem ---------- *)
Lemma names_mem D x : memb teq x (ds_names D) = memb teq x (graph_names_set D).
Proof.
  destruct (memb teq x (graph_names_set D)) eqn:E.
  - apply (memb_In _ teq_eq). apply (memb_In _ teq_eq) in E.
    eapply Permutation_in; [apply Permutation_sym, ds_names_perm | exact E].
  - apply (memb_false _ teq_eq). apply (memb_false _ teq_eq) in E. intros H. apply E.
    eapply Permutation_in; [apply ds_names_perm | exact H].
Qed.
Lemma vars_of_atoms_In k l : In k (vars_of_atoms l) <-> In (AV k) l.
Proof.
  unfold vars_of_atoms. rewrite filter_map_In. split.
  - intros [[v|b] [H E]]; [injection E as <-; exact H | discriminate].
  - intros H. exists (AV k). auto.
Qed.

Lemma first_vars (sel : list (option term) -> option binding -> result) v nm ovs :
  nm <> [] ->
  (forall n', In n' nm -> exists rowsn, sel [Some n'] None = Ok ovs rowsn) ->
  match nm with [] => [] | n0 :: _ => add_var v (res_vars (sel [Some n0] None)) end = add_var v ovs.
Proof.
  destruct nm as [|n0 nm]; [congruence|]. intros _ H.
  destruct (H n0 (or_introl eq_refl)) as [rows ->]. reflexivity.
Qed.

Lemma In_firstn {A} n (l : list A) x : In x (firstn n l) -> In x l.
Proof.
  revert l; induction n as [|n IH]; intros [|y l]; simpl; try tauto. intros [H|H]; auto.
Qed.
Lemma In_skipn {A} n (l : list A) x : In x (skipn n l) -> In x l.
Proof.
  revert l; induction n as [|n IH]; intros [|y l]; simpl; try tauto. intros H; auto.
Qed.
Lemma In_slice {A} start len (l : list A) x : In x (slice start len l) -> In x l.
Proof.
  unfold slice. destruct len as [n|]; intros H.
  - apply In_firstn in H. eapply In_skipn; eauto.
  - eapply In_skipn; eauto.
Qed.
Lemma dedupb_perm {A} (eqb : A -> A -> bool) (eqb_eq : forall x y, eqb x y = true <-> x = y) l l' :
  Permutation l l' -> Permutation (dedupb eqb l) (dedupb eqb l').
Proof.
  intros H. apply NoDup_Permutation; try apply (dedupb_NoDup _ eqb_eq).
  intros x. rewrite !(dedupb_In _ eqb_eq). split; apply Permutation_in; [|apply Permutation_sym]; exact H.
Qed.

(* the engine returns an admissible answer (relational form: every supported pattern,
   including OFFSET / LIMIT anywhere) *)
Theorem select_answers D : NoDup D -> forall p g vs rows,
  select (ds_qm D) (ds_names D) p [g] None = Ok vs rows ->
  answers L D p g (map bv rows) /\ Forall (row_inv vs) rows.
Proof.
  intros HD.
  induction p as [ps|e p IHp|p1 IHp1 p2 IHp2|name p IHp|p IHp v e|p IHp crit|p IHp pvs|p IHp
                 |p IHp start len|k]; intros g vs0 rows0; simpl.
  - (* Bgp *)
    unfold bgp. intros E. injection E as <- <-.
    rewrite (bgp_rec_ext _ (qmG (graph_of D g)) [g] (fun m => ds_qm_single D m g)).
    split.
    + unfold spec_bgp. apply Permutation_map. apply bgp_rec_is_spec. apply graph_of_NoDup, HD.
    + apply Forall_forall. intros r Hin.
      apply (bgp_rec_spec (graph_of D g) [g] ps empty_binding wfbind_empty) in Hin
        as [Hw [_ [Hd _]]].
      unfold wfbind in Hw. apply andb_true_iff in Hw as [Hw _]. split; [exact Hw|].
      intros k Hk. unfold populate_variables. simpl. apply (dedupb_In _ str_eqb_eq).
      apply vars_of_atoms_In. apply (Hd (AV k)) in Hk as [Hk|Hk]; [|exact Hk].
      exfalso. apply Hk. reflexivity.
  - (* Filter *)
    destruct (select _ _ p [g] None) as [vs rows|] eqn:E; [|discriminate].
    intros H; injection H as <- <-. destruct (IHp _ _ _ E) as [P F]. split.
    + exists (map bv rows). split; [exact P|].
      rewrite (map_filter_comm bv (filter_keep L e)). apply Permutation_refl.
    + rewrite Forall_forall in *. intros r Hin. apply filter_In in Hin as [Hin _]. auto.
  - (* Union *)
    destruct (select _ _ p1 [g] None) as [lv li|] eqn:E1; [|discriminate].
    destruct (select _ _ p2 [g] None) as [rv ri|] eqn:E2; [|discriminate].
    intros H; injection H as <- <-.
    destruct (IHp1 _ _ _ E1) as [P1 F1], (IHp2 _ _ _ E2) as [P2 F2]. split.
    + exists (map bv li), (map bv ri). split; [exact P1|]. split; [exact P2|].
      rewrite map_app. apply Permutation_refl.
    + apply Forall_app. split; eapply Forall_impl; try eassumption; intros r; apply row_inv_mono;
        intros k Hk; rewrite in_app_iff.
      * left. exact Hk.
      * destruct (memb str_eqb k lv) eqn:M; [left; apply (memb_In _ str_eqb_eq); exact M|].
        right. apply filter_In. split; [exact Hk | rewrite M; reflexivity].
  - (* Graph *)
    destruct name as [i|v]; simpl.
    + unfold only_if_named.
      destruct (select _ _ p [Some (Iri i)] None) as [vs rows|] eqn:E; [|discriminate].
      rewrite names_mem. destruct (IHp _ _ _ E) as [P F].
      destruct (memb teq (Iri i) (graph_names_set D)); intros H; injection H as <- <-.
      * auto.
      * split; [reflexivity | constructor].
    + destruct (select _ _ p [] None) as [vs1 rows1|] eqn:E0; [|discriminate].
      pose proof (ds_names_perm D) as Hperm.
      destruct (ds_names D) as [|n names] eqn:EN.
      * intros H; injection H as <- <-. apply Permutation_nil in Hperm. split; [|constructor].
        exists (fun _ => []). rewrite Hperm. split; [intros n []|]. constructor.
      * rewrite <- EN in *. intros H. apply graph_rec_ok in H as [A [-> ->]].
        set (f := fun n => map bv (res_rows (select (ds_qm D) (ds_names D) p [Some n] None))).
        assert (Hn : forall n', In n' (ds_names D) -> exists rowsn,
                   select (ds_qm D) (ds_names D) p [Some n'] None = Ok (out_vars L p) rowsn).
        { intros n' Hin. destruct (A n' Hin) as [vsn [rowsn En]]. exists rowsn.
          rewrite <- (select_vars _ _ _ _ _ _ En). exact En. }
        split.
        -- exists f. split.
           ++ intros n' Hin. apply (Permutation_in _ (Permutation_sym Hperm)) in Hin.
              destruct (Hn n' Hin) as [rowsn En]. unfold f. rewrite En. simpl.
              apply (IHp _ _ _ En).
           ++ rewrite flat_map_map_comm.
              eapply perm_trans; [|apply Permutation_flat_map_l, Hperm].
              apply Permutation_flat_map_f. intros n' Hin. unfold f.
              rewrite map_bv_join. apply Permutation_refl.
        -- apply Forall_forall. intros r Hin. apply in_flat_map in Hin as [n' [Hn' Hin]].
           destruct (Hn n' Hn') as [rowsn En]. rewrite En in Hin. simpl in Hin.
           apply filter_map_In in Hin as [r0 [Hr0 J]].
           destruct (IHp _ _ _ En) as [_ F]. rewrite Forall_forall in F.
           destruct (F r0 Hr0) as [S K].
           rewrite (first_vars (select (ds_qm D) (ds_names D) p) v (ds_names D) (out_vars L p));
             [|rewrite EN; discriminate | exact Hn].
           unfold join_var in J. destruct (lookup v (bv r0)) as [other|] eqn:Lk.
           ++ destruct (teq other n'); [|discriminate]. injection J as <-. split; [exact S|].
              intros k Hk. apply In_add_var. right. auto.
           ++ injection J as <-. simpl. split; [apply sorted_insert; exact S|].
              intros k. cbn [bv]. rewrite lookup_insert. intros Hk. apply In_add_var.
              destruct (str_eqb_spec k v); [left; assumption | right; auto].
  - (* Extend *)
    destruct (select _ _ p [g] None) as [vs rows|] eqn:E; [|discriminate].
    destruct (memb str_eqb v vs); [discriminate|].
    intros H; injection H as <- <-. destruct (IHp _ _ _ E) as [P F]. split.
    + exists (map bv rows). split; [exact P|].
      rewrite !map_map. rewrite (map_ext _ (fun b => extend_mu L v e (bv b)) (bv_extend_row v e)).
      apply Permutation_refl.
    + rewrite Forall_forall in *. intros r Hin. apply in_map_iff in Hin as [r0 [<- Hin]].
      destruct (F r0 Hin) as [S K]. unfold row_inv. rewrite bv_extend_row. unfold extend_mu.
      destruct (eval_expr L e (bv r0)).
      * split; [apply sorted_insert; exact S|]. intros k. rewrite lookup_insert, in_app_iff.
        destruct (str_eqb_spec k v); [right; left; auto | left; auto].
      * split; [exact S|]. intros k Hk. rewrite in_app_iff. left. auto.
  - (* OrderBy *)
    destruct (select _ _ p [g] None) as [vs rows|] eqn:E; [|discriminate].
    intros H; injection H as <- <-. destruct (IHp _ _ _ E) as [P F]. split.
    + exists (map bv rows). split; [exact P | apply Permutation_map, sorter_perm].
    + eapply Permutation_Forall; [apply Permutation_sym, sorter_perm | exact F].
  - (* Project *)
    destruct (select _ _ p [g] None) as [vs rows|] eqn:E; [|discriminate].
    intros H; injection H as <- <-. destruct (IHp _ _ _ E) as [P F]. split.
    + exists (map bv rows). split; [exact P|]. rewrite !map_map. apply Permutation_refl.
    + rewrite Forall_forall in *. intros r Hin. apply in_map_iff in Hin as [r0 [<- Hin]].
      destruct (F r0 Hin) as [S K]. split; simpl.
      * apply sorted_restrict. exact S.
      * intros k. rewrite lookup_restrict. destruct (memb str_eqb k pvs) eqn:M; [|congruence].
        intros _. apply (memb_In _ str_eqb_eq). exact M.
  - (* Distinct *)
    destruct (select _ _ p [g] None) as [vs rows|] eqn:E; [|discriminate].
    intros H; injection H as <- <-. destruct (IHp _ _ _ E) as [P F]. split.
    + exists (map bv rows). split; [exact P|]. apply distinct_correct; [assumption | apply Permutation_refl].
    + rewrite Forall_forall in *. intros r Hin.
      destruct (dedup_rows_spec vs rows []) as [A _]. apply A in Hin as [Hin _]. auto.
  - (* Slice *)
    destruct (select _ _ p [g] None) as [vs rows|] eqn:E; [|discriminate].
    intros H; injection H as <- <-. destruct (IHp _ _ _ E) as [P F]. split.
    + exists (map bv rows). split; [exact P|]. unfold slice.
      destruct len; rewrite ?skipn_map, ?firstn_map; reflexivity.
    + rewrite Forall_forall in *. intros r Hin. apply In_slice in Hin. auto.
  - discriminate.
Qed.

(* without OFFSET / LIMIT the admissible answers are exactly the orderings of [spec] *)
Theorem answers_spec D p : forall g rows,
  slice_free L p = true -> answers L D p g rows -> Permutation rows (spec L D p g).
Proof.
  induction p as [ps|e p IHp|p1 IHp1 p2 IHp2|name p IHp|p IHp v e|p IHp crit|p IHp pvs|p IHp
                 |p IHp start len|k]; intros g rows SF; simpl in SF |- *.
  - auto.
  - intros [l [A P]]. eapply perm_trans; [exact P|]. apply Permutation_filter. auto.
  - apply andb_true_iff in SF as [SF1 SF2]. intros [l1 [l2 [A1 [A2 P]]]].
    eapply perm_trans; [exact P|]. apply Permutation_app; auto.
  - destruct name as [i|v].
    + destruct (memb teq (Iri i) (graph_names_set D)); [auto | intros ->; constructor].
    + intros [f [A P]]. eapply perm_trans; [exact P|]. apply Permutation_flat_map_f.
      intros n Hin. apply Permutation_filter_map. auto.
  - intros [l [A P]]. eapply perm_trans; [exact P|]. apply Permutation_map. auto.
  - intros [l [A P]]. eapply perm_trans; [exact P|]. auto.
  - intros [l [A P]]. eapply perm_trans; [exact P|]. apply Permutation_map. auto.
  - intros [l [A P]]. eapply perm_trans; [exact P|]. apply (dedupb_perm _ amap_eqb_eq). auto.
  - discriminate.
  - intros [].
Qed.
(* [spec] itself is an admissible answer of every supported pattern *)
Theorem spec_answers D p : forall g, supported L p = true -> answers L D p g (spec L D p g).
Proof.
  induction p as [ps|e p IHp|p1 IHp1 p2 IHp2|name p IHp|p IHp v e|p IHp crit|p IHp pvs|p IHp
                 |p IHp start len|k]; intros g S; simpl in S |- *;
    try (eexists; split; [apply IHp; exact S | try apply Permutation_refl; reflexivity]).
  - apply Permutation_refl.
  - apply andb_true_iff in S as [S1 S2]. eexists; eexists. split; [apply IHp1; exact S1|].
    split; [apply IHp2; exact S2 | apply Permutation_refl].
  - destruct name as [i|v].
    + destruct (memb teq (Iri i) (graph_names_set D)); [apply IHp; exact S | reflexivity].
    + exists (fun n => spec L D p (Some n)). split; [intros; apply IHp; exact S | apply Permutation_refl].
  - discriminate.
Qed.

Theorem select_correct D : NoDup D -> forall p g vs rows,
  slice_free L p = true ->
  select (ds_qm D) (ds_names D) p [g] None = Ok vs rows ->
  Permutation (map bv rows) (spec L D p g) /\ Forall (row_inv vs) rows.
Proof.
  intros HD p g vs rows SF E. destruct (select_answers D HD p g vs rows E) as [A F].
  split; [apply answers_spec; assumption | exact F].
Qed.
End WithLib.

(* ====================================================================================== *)
(* Pinned statements                                                                       *)
(* ====================================================================================== *)
Section Pinned.
Variable L : exprlib.
Hypothesis sorter_perm : forall c l, Permutation (sorter L c l) l.

(* (1) SELECT: for a query without dataset clause whose pattern has no OFFSET/LIMIT, the rows
   returned are, up to order, the solutions of the algebra read on the result's variables *)
Definition mu_row (vs : list str) (mu : amap) : list (option term) := map (fun v => lookup v mu) vs.
Theorem select_query_correct D p vs rows :
  NoDup D -> slice_free L p = true ->
  run_query L D (QSelect None p) = ARows vs rows ->
  vs = out_vars L p /\ Permutation rows (map (mu_row vs) (spec L D p None)).
Proof.
  intros HD SF. simpl.
  destruct (select L (ds_qm D) (ds_names D) p [None] None) as [vs0 rows0|] eqn:E; [|discriminate].
  intros H; injection H as <- <-. split; [eapply select_vars; eauto|].
  destruct (select_correct L sorter_perm D HD _ _ _ _ SF E) as [P _].
  unfold rows_of. change (row_key vs0) with (fun b => mu_row vs0 (bv b)).
  rewrite <- map_map. apply Permutation_map. exact P.
Qed.

(* the same for EVERY supported pattern (OFFSET / LIMIT anywhere): the rows are an admissible
   answer in the sense of [answers], read on the result's variables, in the engine's order *)
Theorem select_query_answers D p vs rows :
  NoDup D -> run_query L D (QSelect None p) = ARows vs rows ->
  vs = out_vars L p /\ exists sols, answers L D p None sols /\ rows = map (mu_row vs) sols.
Proof.
  intros HD. simpl.
  destruct (select L (ds_qm D) (ds_names D) p [None] None) as [vs0 rows0|] eqn:E; [|discriminate].
  intros H; injection H as <- <-. split; [eapply select_vars; eauto|].
  destruct (select_answers L sorter_perm D HD _ _ _ _ E) as [A _].
  exists (map bv rows0). split; [exact A|]. unfold rows_of. rewrite map_map. reflexivity.
Qed.
Theorem ask_query_answers D p b :
  NoDup D -> run_query L D (QAsk None p) = ABool b ->
  exists sols, answers L D p None sols /\ b = match sols with [] => false | _ => true end.
Proof.
  intros HD. simpl.
  destruct (select L (ds_qm D) (ds_names D) p [None] None) as [vs0 rows0|] eqn:E; [|discriminate].
  intros H; injection H as <-.
  destruct (select_answers L sorter_perm D HD _ _ _ _ E) as [A _].
  exists (map bv rows0). split; [exact A|]. destruct rows0; reflexivity.
Qed.

(* ASK answers whether the algebra has a solution *)
Theorem ask_query_correct D p b :
  NoDup D -> slice_free L p = true ->
  run_query L D (QAsk None p) = ABool b ->
  b = match spec L D p None with [] => false | _ => true end.
Proof.
  intros HD SF. simpl.
  destruct (select L (ds_qm D) (ds_names D) p [None] None) as [vs0 rows0|] eqn:E; [|discriminate].
  intros H; injection H as <-.
  destruct (select_correct L sorter_perm D HD _ _ _ _ SF E) as [P _].
  destruct rows0 as [|r rows0].
  - apply Permutation_nil in P. rewrite P. reflexivity.
  - destruct (spec L D p None) eqn:S; [|reflexivity].
    apply Permutation_sym, Permutation_nil in P. discriminate.
Qed.

(* OFFSET / LIMIT: the engine slices its own sequence of rows; at the top of a slice-free
   pattern this is a slice of SOME ordering of the algebra's solutions *)
Theorem slice_operator qm gnames p start len gm b :
  select L qm gnames (Slice p start len) gm b =
  match select L qm gnames p gm b with
  | Ok vs rows => Ok vs (slice start len rows)
  | Err e => Err e
  end.
Proof. reflexivity. Qed.
Lemma map_slice {A B} (f : A -> B) s l (x : list A) : map f (slice s l x) = slice s l (map f x).
Proof. unfold slice. destruct l; rewrite ?skipn_map, ?firstn_map; reflexivity. Qed.
Theorem slice_top_correct D p start len g vs rows :
  NoDup D -> slice_free L p = true ->
  select L (ds_qm D) (ds_names D) (Slice p start len) [g] None = Ok vs rows ->
  exists ordering, Permutation ordering (spec L D p g) /\ map bv rows = slice start len ordering.
Proof.
  intros HD SF. simpl.
  destruct (select L (ds_qm D) (ds_names D) p [g] None) as [vs0 rows0|] eqn:E; [|discriminate].
  intros H; injection H as <- <-.
  destruct (select_correct L sorter_perm D HD _ _ _ _ SF E) as [P _].
  exists (map bv rows0). split; [exact P | apply map_slice].
Qed.

(* (2) unsupported operators and query forms: an explicit error, never rows *)
Theorem unsupported_is_error D ds p :
  supported L p = false ->
  (exists e, run_query L D (QSelect ds p) = AErr e) /\ (exists e, run_query L D (QAsk ds p) = AErr e).
Proof.
  intros U. simpl. destruct (default_matcher ds) as [gm|]; [|eauto].
  destruct (select L (ds_qm D) (ds_names D) p gm None) as [vs rows|e] eqn:E; [|eauto].
  exfalso.
  assert (H : forall q gm0 vs0 rows0, select L (ds_qm D) (ds_names D) q gm0 None = Ok vs0 rows0 ->
              supported L q = true).
  { clear. induction q as [ps|e p IHp|p1 IHp1 p2 IHp2|name p IHp|p IHp v e|p IHp crit|p IHp pvs|p IHp
                          |p IHp start len|k]; intros gm vs rows; simpl; try reflexivity.
    - destruct (select _ _ _ p gm None) eqn:E; [eauto | discriminate].
    - destruct (select _ _ _ p1 gm None) eqn:E1; [|discriminate].
      destruct (select _ _ _ p2 gm None) eqn:E2; [|discriminate].
      intros _. rewrite (IHp1 _ _ _ E1), (IHp2 _ _ _ E2). reflexivity.
    - destruct name as [i|v]; simpl.
      + unfold only_if_named. destruct (select _ _ _ p [Some (Iri i)] None) eqn:E; [eauto | discriminate].
      + destruct (select _ _ _ p [] None) eqn:E; [eauto | discriminate].
    - destruct (select _ _ _ p gm None) eqn:E; [eauto | discriminate].
    - destruct (select _ _ _ p gm None) eqn:E; [eauto | discriminate].
    - destruct (select _ _ _ p gm None) eqn:E; [eauto | discriminate].
    - destruct (select _ _ _ p gm None) eqn:E; [eauto | discriminate].
    - destruct (select _ _ _ p gm None) eqn:E; [eauto | discriminate].
    - discriminate. }
  rewrite (H _ _ _ _ E) in U. discriminate.
Qed.
Theorem error_is_explicit D p gm e :
  select L (ds_qm D) (ds_names D) p gm None = Err e ->
  (exists k, e = NotImplemented k /\ supported L p = false)
  \/ (exists v, e = Override v /\ no_override L p = false).
Proof. apply select_err. Qed.
Theorem supported_succeeds D p gm :
  supported L p = true -> no_override L p = true ->
  exists vs rows, select L (ds_qm D) (ds_names D) p gm None = Ok vs rows.
Proof. apply select_ok_of_supported. Qed.
Theorem other_forms_not_implemented D ds named p :
  run_query L D QConstruct = AErr NotImplementedForm
  /\ run_query L D QDescribe = AErr NotImplementedForm
  /\ run_query L D (QSelect (Some (ds, Some named)) p) = AErr NotImplementedFromNamed
  /\ run_query L D (QAsk (Some (ds, Some named)) p) = AErr NotImplementedFromNamed.
Proof. repeat split. Qed.

(* (3) the evaluator only ever asks the dataset for the quads of at most ONE graph: two
   datasets that answer alike for graph matchers with at most one entry are indistinguishable *)
Theorem graph_matcher_at_most_one qm1 qm2 gnames p :
  (forall m gm, length gm <= 1 -> qm1 m gm = qm2 m gm)%nat ->
  forall gm b, (length gm <= 1)%nat ->
  select L qm1 gnames p gm b = select L qm2 gnames p gm b.
Proof.
  intros H.
  induction p as [ps|e p IHp|p1 IHp1 p2 IHp2|name p IHp|p IHp v e|p IHp crit|p IHp pvs|p IHp
                 |p IHp start len|k]; intros gm b Hl; simpl;
    try (rewrite (IHp gm b Hl); reflexivity); try reflexivity.
  - unfold bgp. f_equal. apply bgp_rec_ext. intros m. apply H. exact Hl.
  - rewrite (IHp1 gm b Hl), (IHp2 gm b Hl). reflexivity.
  - assert (G : forall names, graph_rec (select L qm1 gnames p) match name with NConst i => i | NVar v => v end names b
                 = graph_rec (select L qm2 gnames p) match name with NConst i => i | NVar v => v end names b).
    { induction names as [|n names IHn]; simpl; [reflexivity|].
      rewrite (IHp [Some n] b) by (simpl; auto). rewrite IHn. reflexivity. }
    destruct name as [i|v]; simpl.
    + rewrite (IHp [Some (Iri i)] b) by (simpl; auto). reflexivity.
    + destruct (match b with Some b0 => lookup v (bv b0) | None => None end) as [nm|].
      * rewrite (IHp [Some nm] b) by (simpl; auto). reflexivity.
      * rewrite (IHp [] b) by (simpl; auto). rewrite G. reflexivity.
Qed.

(* populate_bindings_term never reaches its unwrap()/debug_assert on a non-matching term:
   every triple handed to it by bgp_rec was accepted by the matchers built from the pattern *)
Theorem populate_no_panic D tp b gm m :
  In m (ds_qm D (build3 tp b) gm) -> shape_ok3 tp m = true.
Proof.
  unfold ds_qm. intros H. apply in_map_iff in H as [[t g] [<- H]]. apply filter_In in H as [_ H].
  apply andb_true_iff in H as [_ H]. simpl in *. eapply matches3_shape; eauto.
Qed.
End Pinned.
