(* C07/Model.v -- isomorphic_datasets (isomorphism/src/dataset.rs), IsoTerm's Eq/Ord
   (iso_term.rs, after the fix that makes them ignore blank node labels inside quoted triples)
   and the parameterised hashing of hash.rs.  The 64-bit hash is a parameter [Hv] of the whole
   development: any function of the "view" of a quad (the quad with each blank node replaced by
   its current colour and a flag saying whether it is the node being hashed).  Definitions only. *)
From Sophia.Common Require Export Prelude Term.

Record quad := mkQ { qs : term; qp : term; qo : term; qg : option term }.

(* ---------- IsoTerm: every blank node equals every other ---------- *)
Fixpoint iso_eqb (a b : term) : bool :=
  match a, b with
  | Bnode _, Bnode _ => true
  | Triple s1 p1 o1, Triple s2 p2 o2 => iso_eqb s1 s2 && iso_eqb p1 p2 && iso_eqb o1 o2
  | _, _ => term_eqb a b
  end.
Fixpoint iso_cmp (a b : term) : comparison :=
  match a, b with
  | Bnode _, Bnode _ => Eq
  | Triple s1 p1 o1, Triple s2 p2 o2 =>
      then_cmp (iso_cmp s1 s2) (then_cmp (iso_cmp p1 p2) (iso_cmp o1 o2))
  | _, _ => term_cmp a b
  end.
(* the pre-fix versions only looked at the top-level kind *)
Definition iso_eqb_prefix (a b : term) : bool :=
  match a, b with Bnode _, Bnode _ => true | _, _ => term_eqb a b end.
Definition iso_cmp_prefix (a b : term) : comparison :=
  match a, b with Bnode _, Bnode _ => Eq | _, _ => term_cmp a b end.

Section Iso.
Variable teq : term -> term -> bool.          (* iso_eqb or its pre-fix version *)
Variable tcmp : term -> term -> comparison.   (* iso_cmp or its pre-fix version *)

Definition gn_eqb (a b : option term) : bool := opt_eqb teq a b.     (* eq_gn *)
Definition quad_eqb (a b : quad) : bool :=                            (* cmp_quads *)
  teq (qs a) (qs b) && teq (qp a) (qp b) && teq (qo a) (qo b) && gn_eqb (qg a) (qg b).
(* derived Ord on ([IsoTerm;3], Option<IsoTerm>): lexicographic, None < Some *)
Definition gn_cmp (a b : option term) : comparison :=
  match a, b with
  | None, None => Eq | None, Some _ => Lt | Some _, None => Gt
  | Some x, Some y => tcmp x y
  end.
Definition quad_cmp (a b : quad) : comparison :=
  then_cmp (tcmp (qs a) (qs b)) (then_cmp (tcmp (qp a) (qp b))
           (then_cmp (tcmp (qo a) (qo b)) (gn_cmp (qg a) (qg b)))).

(* sort_unstable: any sorted permutation; modelled by insertion sort (what follows only uses the
   sorted list as a multiset of index-free quads, see b2q/make_map below) *)
Fixpoint insert_q (x : quad) (l : list quad) : list quad :=
  match l with
  | [] => [x]
  | y :: l' => match quad_cmp x y with Gt => y :: insert_q x l' | _ => x :: l end
  end.
Definition sort_q (l : list quad) : list quad := fold_right insert_q [] l.
End Iso.

(* ---------- blank nodes of a term / quad (Term::constituents + bnode_id) ---------- *)
Fixpoint bnodes_t (t : term) : list str :=
  match t with
  | Bnode b => [b]
  | Triple s p o => bnodes_t s ++ bnodes_t p ++ bnodes_t o
  | _ => []
  end.
Definition bnodes_q (q : quad) : list str :=
  bnodes_t (qs q) ++ bnodes_t (qp q) ++ bnodes_t (qo q)
  ++ match qg q with Some g => bnodes_t g | None => [] end.
Definition has_bnode (b : str) (q : quad) : bool := existsb (str_eqb b) (bnodes_q q).

Fixpoint dedup (l : list str) : list str :=
  match l with
  | [] => []
  | x :: r => if existsb (str_eqb x) r then dedup r else x :: dedup r
  end.
(* keys of make_b2q_map *)
Definition bn_of (d : list quad) : list str := dedup (flat_map bnodes_q d).

(* ---------- colourings ---------- *)
Definition colouring := list (str * N).
Fixpoint look (c : colouring) (b : str) : N :=
  match c with [] => 0 | (k, v) :: r => if str_eqb k b then v else look r b end.

(* what hash_quad_with feeds to the hasher, as a tree: blank node -> (colour, is it the context
   node); quoted triple -> subtree; any other term -> itself up to Term::eq (Term::hash is a
   function of the Term::eq class, property C02) *)
Inductive vterm := VB (colour : N) (ctx : bool) | VT (s p o : vterm) | VA (t : term).
Fixpoint view_t (c : colouring) (ctx : str) (t : term) : vterm :=
  match t with
  | Bnode b => VB (look c b) (str_eqb b ctx)
  | Triple s p o => VT (view_t c ctx s) (view_t c ctx p) (view_t c ctx o)
  | _ => VA (canon t)
  end.
Definition vquad := (vterm * vterm * vterm * option vterm)%type.
Definition view_q (c : colouring) (ctx : str) (q : quad) : vquad :=
  (view_t c ctx (qs q), view_t c ctx (qp q), view_t c ctx (qo q),
   match qg q with Some g => Some (view_t c ctx g) | None => None end).

Section Refine.
Variable Hv : vquad -> N.      (* DefaultHasher over the byte stream: an arbitrary function *)

Definition xor_all (l : list N) : N := fold_right N.lxor 0 l.

(* make_map: digest(b) = XOR over the quads containing b of hash_quad_with(quad, map, b) *)
Definition new_colour (d : list quad) (c : colouring) (b : str) : N :=
  xor_all (map (fun q => Hv (view_q c b q)) (filter (has_bnode b) d)).
Definition round (d : list quad) (bn : list str) (c : colouring) : colouring :=
  map (fun b => (b, new_colour d c b)) bn.
(* initial colours: number of quads the node occurs in *)
Definition init_colouring (d : list quad) (bn : list str) : colouring :=
  map (fun b => (b, N.of_nat (length (filter (has_bnode b) d)))) bn.

(* make_equivalence_classes: colour -> how many nodes; compared as finite maps, i.e. as the
   multiset of colours; its len() is the number of distinct colours *)
Fixpoint insN (k : N) (l : list N) : list N :=
  match l with [] => [k] | x :: l' => if k <=? x then k :: l else x :: insN k l' end.
Definition sortN (l : list N) : list N := fold_right insN [] l.
Definition colours (c : colouring) : list N := sortN (map snd c).
Fixpoint ndistinct_sorted (l : list N) : nat :=
  match l with
  | x :: ((y :: _) as r) => if N.eqb x y then ndistinct_sorted r else S (ndistinct_sorted r)
  | [_] => 1
  | [] => 0
  end.
Definition nclasses (c : colouring) : nat := ndistinct_sorted (colours c).

(* the refinement loop; None = fuel exhausted (the real loop has no bound) *)
Fixpoint refine (fuel : nat) (d1 d2 : list quad) (bn1 bn2 : list str)
                (c1 c2 : colouring) (old1 old2 : nat) : option bool :=
  match fuel with
  | O => None
  | S f =>
      let c1' := round d1 bn1 c1 in
      let c2' := round d2 bn2 c2 in
      let n1 := nclasses c1' in
      let n2 := nclasses c2' in
      if Nat.eqb n1 old1 && Nat.eqb n2 old2 then Some (str_eqb (colours c1') (colours c2'))
      else if Nat.eqb n1 (length c1') && Nat.eqb n2 (length c2') then Some (str_eqb (colours c1') (colours c2'))
      else refine f d1 d2 bn1 bn2 c1' c2' n1 n2
  end.

Variable teq : term -> term -> bool.
Variable tcmp : term -> term -> comparison.

Fixpoint all2 {A} (f : A -> A -> bool) (a b : list A) : bool :=
  match a, b with
  | x :: a', y :: b' => f x y && all2 f a' b'
  | _, _ => true          (* zip stops at the shorter list; lengths were compared before *)
  end.

Definition isomorphic (fuel : nat) (d1 d2 : list quad) : option bool :=
  if negb (Nat.eqb (length d1) (length d2)) then Some false else
  let s1 := sort_q tcmp d1 in
  let s2 := sort_q tcmp d2 in
  if negb (all2 (quad_eqb teq) s1 s2) then Some false else
  let bn1 := bn_of s1 in
  let bn2 := bn_of s2 in
  if negb (Nat.eqb (length bn1) (length bn2)) then Some false else
  refine fuel s1 s2 bn1 bn2 (init_colouring s1 bn1) (init_colouring s2 bn2) 0 0.
End Refine.

(* blank node renaming, everywhere a blank node can occur *)
Fixpoint rename_t (pi : str -> str) (t : term) : term :=
  match t with
  | Bnode b => Bnode (pi b)
  | Triple s p o => Triple (rename_t pi s) (rename_t pi p) (rename_t pi o)
  | _ => t
  end.
Definition rename_q (pi : str -> str) (q : quad) : quad :=
  mkQ (rename_t pi (qs q)) (rename_t pi (qp q)) (rename_t pi (qo q))
      (match qg q with Some g => Some (rename_t pi g) | None => None end).

(* ---------- an executable stand-in for SipHash used only to RUN the model ---------- *)
Definition mask64 : N := 18446744073709551615.
Definition fnv_step (h x : N) : N := N.land ((N.lxor h x) * 1099511628211) mask64.
Definition fnv (l : list N) : N := fold_left fnv_step l 14695981039346656037.
Fixpoint ser_vt (v : vterm) : list N :=
  match v with
  | VB c ctx => [1; (if ctx then 1 else 0); c]
  | VT s p o => [2] ++ ser_vt s ++ ser_vt p ++ ser_vt o ++ [3]
  | VA t => 4 :: hash_stream t
  end.
Definition Hfnv (v : vquad) : N :=
  let '(s, p, o, g) := v in
  fnv (ser_vt s ++ [5] ++ ser_vt p ++ [5] ++ ser_vt o ++ [5]
       ++ match g with Some x => 6 :: ser_vt x | None => [7] end).

Definition iso_run (d1 d2 : list quad) : option bool :=
  isomorphic Hfnv iso_eqb iso_cmp 64 d1 d2.
Definition iso_ok (d1 d2 : list quad) (answer : bool) : bool :=
  match iso_run d1 d2 with Some b => Bool.eqb b answer | None => false end.
