(* C13/FuncModel.v -- the built-in FUNCTION CALLS of the expression layer, implementation side,
   definitions only: sparql/src/function.rs `call_function`, arm by arm, with the accessors of
   expression.rs it relies on (as_iri, as_literal, as_string_lit, as_xsd_string, as_number,
   as_xsd_date_time), SparqlNumber::{abs, ceil, floor, round, coerce_to_double} of
   value/_number.rs, and the FunctionCall arm of ArcExpression::eval.

   Conventions.
   * A string is a list of Unicode scalar values (Prelude.str).  Wherever function.rs indexes or
     slices a `str` by BYTE offsets (`lex.len()`, `&lex[s..e]`, `&txt[pos + delim.len()..]`) the
     model computes the same byte offsets through the UTF-8 length of each character ([ulen],
     [blen]) and slices exactly like `str::index` does: a PANIC unless both offsets fall on
     character boundaries and start <= end <= len ([bslice]).
   * The methods of `str` that function.rs calls (chars, find, contains, starts_with, ends_with,
     eq_ignore_ascii_case, char::to_uppercase / to_lowercase) are modelled by their documented
     contract: `find` returns the BYTE offset of the first occurrence.
   * A call returns [fout]: a value, an expression error (`None`), or a panic (`unreachable!()` on
     a wrong number of arguments, slicing off a character boundary).  The arms that go through
     `todo()` print a line on stderr and return `None`: they are ordinary expression errors.
   * sub_str is the code AFTER the fix (fn:substring literally, in f64 arithmetic, over
     characters); the code as found is kept as [sub_str0] (byte offsets, f64::round, isize
     arithmetic that overflows in the dev profile) for the `_refuted` witnesses.
   * SparqlNumber::{ceil, floor, round} are the code AFTER the fix 5a72fb8 (with_scale_round
     towards +INF / -INF, fn:round through xpath_round); the arms as found are kept as
     [num_ceil0], [num_floor0], [num_round0] for the `_refuted` witnesses.
   * Abstract, shared with the specification (record [flib]; FuncConcrete.v gives the instance the
     model is run with): the exact value of a double ([d_view]), the four roundings of a float or
     double to an integral value, Unicode's per-character case mappings, IriRef::new (the
     IRI-reference grammar of RFC 3987: property C09), the civil-time fields of a dateTime.
   * BNODE and RAND are not functions of their arguments: the fresh label / the random double are
     explicit inputs ([lbl], [rnd]). *)
From Coq Require Import String Ascii.
From Sophia.C13 Require Export ExprImpl.
Arguments SNum {X}. Arguments SStr {X}. Arguments SBool {X}. Arguments SDT {X}.
Arguments VTerm {X}. Arguments VVal {X}.

(* ------------------------------------------------------------------------------------ *)
(* 0. spargebra::algebra::Function                                                       *)
(* ------------------------------------------------------------------------------------ *)
Inductive func :=
| FnStr | FnLang | FnLangMatches | FnDatatype | FnIri | FnBNode | FnRand
| FnAbs | FnCeil | FnFloor | FnRound
| FnConcat | FnSubStr | FnStrLen | FnReplace | FnUCase | FnLCase | FnEncodeForUri
| FnContains | FnStrStarts | FnStrEnds | FnStrBefore | FnStrAfter
| FnYear | FnMonth | FnDay | FnHours | FnMinutes | FnSeconds | FnTimezone | FnTz | FnNow
| FnUuid | FnStrUuid | FnMd5 | FnSha1 | FnSha256 | FnSha384 | FnSha512
| FnStrLang | FnStrDt
| FnIsIri | FnIsBlank | FnIsLiteral | FnIsNumeric | FnRegex
| FnTriple | FnSubject | FnPredicate | FnObject | FnIsTriple
| FnCustom (iri : str).

(* the arms of call_function that compute something (the others are `todo(..)`) *)
Definition implemented (f : func) : bool :=
  match f with
  | FnReplace | FnTimezone | FnTz | FnNow | FnUuid | FnStrUuid | FnMd5 | FnSha1 | FnSha256
  | FnSha384 | FnSha512 | FnStrLang | FnStrDt | FnRegex | FnSubject | FnPredicate | FnObject
  | FnCustom _ => false
  | _ => true
  end.
(* the numbers of arguments spargebra's parser produces for each function (every other number
   reaches an `unreachable!()`) *)
Definition arity_ok (f : func) (n : nat) : bool :=
  match f with
  | FnRand | FnNow | FnUuid | FnStrUuid => Nat.eqb n 0
  | FnBNode => Nat.leb n 1
  | FnConcat | FnCustom _ => true
  | FnLangMatches | FnContains | FnStrStarts | FnStrEnds | FnStrBefore | FnStrAfter
  | FnStrLang | FnStrDt => Nat.eqb n 2
  | FnSubStr | FnRegex => Nat.eqb n 2 || Nat.eqb n 3
  | FnReplace => Nat.eqb n 3 || Nat.eqb n 4
  | FnTriple => Nat.eqb n 3
  | _ => Nat.eqb n 1
  end.

Inductive fout (A : Type) := FVal (a : A) | FErr | FPanic.
Arguments FVal {A}. Arguments FErr {A}. Arguments FPanic {A}.
Definition fopt {A} (o : option A) : fout A := match o with Some a => FVal a | None => FErr end.
Definition fbind {A B} (o : fout A) (f : A -> fout B) : fout B :=
  match o with FVal a => f a | FErr => FErr | FPanic => FPanic end.

(* ------------------------------------------------------------------------------------ *)
(* 1. UTF-8 byte offsets                                                                 *)
(* ------------------------------------------------------------------------------------ *)
(* char::len_utf8 *)
Definition ulen (ch : N) : N :=
  if ch <? 128 then 1 else if ch <? 2048 then 2 else if ch <? 65536 then 3 else 4.
(* str::len *)
Fixpoint blen (s : str) : N := match s with [] => 0 | ch :: r => ulen ch + blen r end.
(* split at a byte offset, if it is a character boundary (str::is_char_boundary) *)
Fixpoint bsplit (s : str) (off : N) : option (str * str) :=
  if off =? 0 then Some ([], s)
  else match s with
       | [] => None
       | ch :: r =>
           if off <? ulen ch then None
           else match bsplit r (off - ulen ch) with
                | Some (a, b) => Some (ch :: a, b)
                | None => None
                end
       end.
(* &s[a..b] *)
Definition bslice (s : str) (a b : N) : fout str :=
  if b <? a then FPanic
  else match bsplit s a with
       | None => FPanic
       | Some (_, rest) => match bsplit rest (b - a) with
                           | None => FPanic
                           | Some (mid, _) => FVal mid
                           end
       end.
(* str::find(&str): byte offset of the first occurrence *)
Fixpoint rust_find (needle hay : str) : option N :=
  match strip_pre needle hay with
  | Some _ => Some 0
  | None => match hay with
            | [] => None
            | ch :: r => option_map (fun off => ulen ch + off) (rust_find needle r)
            end
  end.
Definition rust_contains (hay needle : str) : bool := is_some (rust_find needle hay).
Definition rust_starts_with (hay needle : str) : bool := is_some (strip_pre needle hay).
Definition rust_ends_with (hay needle : str) : bool := is_some (strip_pre (rev needle) (rev hay)).

(* ------------------------------------------------------------------------------------ *)
(* 2. numbers as the rounding code sees them                                             *)
(* ------------------------------------------------------------------------------------ *)
(* the exact value of an f64: NaN, an infinity, or m * 2^e *)
Inductive xrat := RNaN | RInf (neg : bool) | RFin (m e : Z).
(* an integral f64 / an extended integer *)
Inductive xint := INaN | IInf (neg : bool) | IFin (z : Z).
Inductive rmode := RCeil | RFloor | RAway | RHalfUp.
Definition pow2 (e : Z) : Z := (2 ^ e)%Z.
(* f64::ceil, floor, round (ties away from zero) and fn:round (ties towards +infinity) *)
Definition rat_round (md : rmode) (m e : Z) : Z :=
  if (0 <=? e)%Z then (m * pow2 e)%Z
  else
    let d := pow2 (- e) in
    match md with
    | RFloor => (m / d)%Z
    | RCeil => (- ((- m) / d))%Z
    | RHalfUp => ((2 * m + d) / (2 * d))%Z
    | RAway => let q := (Z.abs m / d)%Z in
               let q' := if (d <=? 2 * (Z.abs m mod d))%Z then (q + 1)%Z else q in
               if (m <? 0)%Z then (- q')%Z else q'
    end.
Definition xround (md : rmode) (x : xrat) : xint :=
  match x with RNaN => INaN | RInf s => IInf s | RFin m e => IFin (rat_round md m e) end.
(* `as usize`, `as isize` of an integral f64: saturating, NaN is 0 *)
Definition usize_max : Z := (2 ^ 64 - 1)%Z.
Definition sat_usize (x : xint) : Z :=
  match x with
  | INaN => 0%Z | IInf true => 0%Z | IInf false => usize_max
  | IFin z => Z.max 0 (Z.min z usize_max)
  end.
Definition sat_isize (x : xint) : Z :=
  match x with
  | INaN => 0%Z | IInf true => isize_min | IInf false => isize_max
  | IFin z => Z.max isize_min (Z.min z isize_max)
  end.
(* `x - 1.0` on an integral f64: exact up to 2^53; above, the difference is rounded to the
   nearest representable number, ties to even (spacing 2 below 2^54, at least 4 beyond); below
   one the result is not positive, which is all the subsequent `as usize` looks at *)
Definition fsub1 (x : xint) : xint :=
  match x with
  | IFin z =>
      if (z <=? 2 ^ 53)%Z then IFin (z - 1)
      else if (z <? 2 ^ 54)%Z then (if Z.even (z / 2) then IFin z else IFin (z - 2))
      else IFin z
  | _ => x
  end.

(* decimals m * 10^-s: the integer nearest to / below / above *)
Definition dfloor (d : dec) : Z := (fst d / pow10 (snd d))%Z.
Definition dceil (d : dec) : Z := (- ((- fst d) / pow10 (snd d)))%Z.
Definition dround_up (d : dec) : Z := ((2 * fst d + pow10 (snd d)) / (2 * pow10 (snd d)))%Z.
(* BigDecimal::round(0) = with_scale_round(0, RoundingMode::HalfEven) *)
Definition dround_even (d : dec) : Z :=
  let p := pow10 (snd d) in
  let q := (fst d / p)%Z in
  let r := (fst d mod p)%Z in
  if (2 * r <? p)%Z then q else if (p <? 2 * r)%Z then (q + 1)%Z
  else if Z.even q then q else (q + 1)%Z.
Definition dec_half : dec := (5%Z, 1).

(* ------------------------------------------------------------------------------------ *)
(* 3. LanguageTag::new: ^[A-Za-z][A-Za-z0-9]*(-[A-Za-z0-9]+)*$                          *)
(* ------------------------------------------------------------------------------------ *)
Definition is_alnum (ch : N) : bool := is_alpha ch || is_digit ch.
Fixpoint dash_segments (cur : str) (s : str) : list str :=
  match s with
  | [] => [rev cur]
  | ch :: r => if is_minus ch then rev cur :: dash_segments [] r else dash_segments (ch :: cur) r
  end.
Definition lang_tag_ok (s : str) : bool :=
  match dash_segments [] s with
  | first :: rest =>
      match first with ch :: _ => is_alpha ch | [] => false end && forallb is_alnum first
      && forallb (fun g => negb (is_nil g) && forallb is_alnum g) rest
  | [] => false
  end.
(* ------------------------------------------------------------------------------------ *)
(* 4. what stays abstract                                                                *)
(* ------------------------------------------------------------------------------------ *)
Record flib (X : xlib) := mkFL {
  d_view : dbl X -> xrat;                     (* the exact value of an f64 *)
  d_rnd : rmode -> dbl X -> dbl X;            (* f64::ceil / floor / round, fn:round *)
  f_rnd : rmode -> flt X -> flt X;            (* the same on f32 *)
  to_upper : N -> list N;                     (* char::to_uppercase (Unicode SpecialCasing) *)
  to_lower : N -> list N;                     (* char::to_lowercase *)
  iri_ref_ok : str -> bool;                   (* IriRef::new: RFC 3987 IRI-reference *)
  iri_abs_ok : str -> bool;                   (* RFC 3987 IRI (with a scheme): specification only *)
  dt_fields : dtv X -> Z * Z * Z * Z * Z;     (* Datelike / Timelike: year, month, day, hour, minute *)
  dt_nanos : dtv X -> Z                       (* second * 10^9 + nanosecond *)
}.
Arguments d_view {X}. Arguments d_rnd {X}. Arguments f_rnd {X}. Arguments to_upper {X}.
Arguments to_lower {X}. Arguments iri_ref_ok {X}. Arguments iri_abs_ok {X}.
Arguments dt_fields {X}. Arguments dt_nanos {X}.

Section Func.
Variable X : xlib.
Variable Y : flib X.
Variable c : cfg.

Notation cvalX := (cval X).
Notation FLX := (FL X).

(* ---------- expression.rs: the accessors of EvalResult used by call_function ---------- *)
(* as_string_lit: a language-tagged string, an xsd:string, or a computed string *)
Definition as_string_lit (v : cvalX) : option (str * option str) :=
  match v with
  | VTerm (LitLang lex tag) => Some (lex, Some tag)
  | VTerm (LitDt lex dt) => if str_eqb dt xsd_string_iri then Some (lex, None) else None
  | VTerm _ => None
  | VVal (SStr lex tag) => Some (lex, tag)
  | VVal _ => None
  end.
(* as_xsd_string *)
Definition as_xsd_string (v : cvalX) : option str :=
  match v with
  | VTerm (LitDt lex dt) => if str_eqb dt xsd_string_iri then Some lex else None
  | VTerm _ => None
  | VVal (SStr lex None) => Some lex
  | VVal _ => None
  end.
(* as_xsd_date_time *)
Definition as_xsd_date_time (v : cvalX) : option (dtv X) :=
  match as_value X c v with Some (SDT (Some d)) => Some d | _ => None end.
Definition vstrl (lex : str) (tag : option str) : cvalX := VVal (SStr lex tag).
Definition vnum (n : inum X) : cvalX := VVal (SNum n).
Definition vint (z : Z) : cvalX := vnum (num_of_int X z).       (* SparqlNumber::from(isize) *)
(* Option<&LanguageTag> == Option<&LanguageTag>: LanguageTag::eq ignores the ASCII case *)
Definition tag_eq (a b : option str) : bool := opt_eqb str_eqb_ci a b.

(* ---------- value/_number.rs ---------- *)
Definition d_le (a b : dbl X) : bool := match d_cmp X a b with Some Lt | Some Eq => true | _ => false end.
Definition d_lt (a b : dbl X) : bool := match d_cmp X a b with Some Lt => true | _ => false end.
Definition d_eq (a b : dbl X) : bool := match d_cmp X a b with Some Eq => true | _ => false end.
Definition d_zero : dbl X := d_of_Z X 0%Z.
Definition d_one : dbl X := d_of_Z X 1%Z.
Definition d_mhalf : dbl X := d_of_dec X ((-5)%Z, 1).
(* pub(crate) fn xpath_round(x: f64) -> f64 {
       let r = x.round();
       if x < 0.0 && r - x == -0.5 { (r + 1.0).copysign(x) } else { r } }
   (copysign with a negative x: minus the absolute value) *)
Definition xpath_round (x : dbl X) : dbl X :=
  let r := d_rnd Y RAway x in
  if d_lt x d_zero && d_eq (d_sub X r x) d_mhalf then d_neg X (d_abs X (d_add X r d_one)) else r.
(* SparqlNumber::ceil / floor / round *)
Definition num_ceil (n : inum X) : inum X :=
  match n with
  | Decimal _ d => Decimal FLX (dec_of_int (dceil d))        (* with_scale_round(0, RoundingMode::Ceiling) *)
  | Float _ f => Float FLX (f_rnd Y RCeil f)
  | Double _ d => Double FLX (d_rnd Y RCeil d)
  | _ => n
  end.
Definition num_floor (n : inum X) : inum X :=
  match n with
  | Decimal _ d => Decimal FLX (dec_of_int (dfloor d))       (* with_scale_round(0, RoundingMode::Floor) *)
  | Float _ f => Float FLX (f_rnd Y RFloor f)
  | Double _ d => Double FLX (d_rnd Y RFloor d)
  | _ => n
  end.
Definition num_round (n : inum X) : inum X :=
  match n with
  | Decimal _ d => Decimal FLX (dec_of_int (dfloor (dadd d dec_half)))   (* (inner + 0.5).with_scale_round(0, Floor) *)
  | Float _ f => Float FLX (f_of_dbl X (xpath_round (d_of_flt X f)))     (* xpath_round(f64::from(x)) as f32 *)
  | Double _ d => Double FLX (xpath_round d)
  | _ => n
  end.
(* the arms as found (before 5a72fb8): (inner +- 0.5).round(0) / inner.round(0) with BigDecimal's
   half-even rounding; f32::round / f64::round *)
Definition num_ceil0 (n : inum X) : inum X :=
  match n with Decimal _ d => Decimal FLX (dec_of_int (dround_even (dadd d dec_half))) | _ => num_ceil n end.
Definition num_floor0 (n : inum X) : inum X :=
  match n with Decimal _ d => Decimal FLX (dec_of_int (dround_even (dsub d dec_half))) | _ => num_floor n end.
Definition num_round0 (n : inum X) : inum X :=
  match n with
  | Decimal _ d => Decimal FLX (dec_of_int (dround_even d))
  | Float _ f => Float FLX (f_rnd Y RAway f)
  | Double _ d => Double FLX (d_rnd Y RAway d)
  | _ => n
  end.

(* ---------- function.rs: the helpers ---------- *)
(* check_compatible (17.4.3.1.2) *)
Definition check_compatible (t1 t2 : option str) : bool :=
  match t1, t2 with
  | _, None => true
  | Some a, Some b => str_eqb_ci a b
  | None, Some _ => false
  end.
(* concat *)
Definition concat (args : list (str * option str)) : cvalX :=
  let lex := flat_map fst args in
  let tag1 := match args with a :: _ => snd a | [] => None end in
  let tag := match args with
             | _ :: ((_ :: _) as rest) => if forallb (fun x => tag_eq (snd x) tag1) rest then tag1 else None
             | _ => tag1
             end in
  vstrl lex tag.
(* lang_matches *)
Definition star : str := [42].
Definition lang_matches (tag range : str) : fout cvalX :=
  if negb (lang_tag_ok tag) then FErr                               (* LanguageTag::new(tag).ok()? *)
  else if str_eqb range star then FVal (vbool X true)
  else if negb (lang_tag_ok range) then FErr
  else
    if blen range <=? blen tag then
      fbind (bslice tag 0 (blen range)) (fun pre =>                  (* tag[..range.len()] *)
        if str_eqb_ci pre range then
          if blen tag =? blen range then FVal (vbool X true)
          else fbind (bslice tag (blen range) (blen tag)) (fun rest =>   (* tag[range.len()..] *)
                 FVal (vbool X (match rest with ch :: _ => is_minus ch | [] => false end)))
        else FVal (vbool X false))
    else FVal (vbool X false).
(* sub_str (after the fix a02a275): fn:substring in f64 arithmetic over the characters *)
Fixpoint select_chars (sel : Z -> bool) (p : Z) (s : str) : str :=
  match s with
  | [] => []
  | ch :: r => if sel p then ch :: select_chars sel (p + 1)%Z r else select_chars sel (p + 1)%Z r
  end.
(* `start <= p && p < end` with p = (i + 1) as f64; without a length end = f64::INFINITY, and
   p < INFINITY holds for every p (a usize converts to a finite f64) *)
Definition pos_in (st : dbl X) (en : option (dbl X)) (p : Z) : bool :=
  d_le st (d_of_Z X p) && match en with Some e => d_lt (d_of_Z X p) e | None => true end.
Definition sub_str (lex : str) (tag : option str) (start : dbl X) (len : option (dbl X)) : cvalX :=
  let st := xpath_round start in
  let en := option_map (fun l => d_add X st (xpath_round l)) len in
  vstrl (select_chars (pos_in st en) 1%Z lex) tag.

(* sub_str as found (before the fix): offsets computed in characters, applied to BYTES *)
Definition sub_str0 (lex : str) (tag : option str) (start : xrat) (len : option xrat) : fout cvalX :=
  match start with
  | RNaN => FErr
  | _ =>
      let n := Z.of_N (blen lex) in
      let whole_tail :=
        let s := Z.min (sat_usize (fsub1 (xround RAway start))) n in
        fbind (bslice lex (Z.to_N s) (Z.to_N n)) (fun sub => FVal (vstrl sub tag)) in
      match len with
      | Some RNaN => FErr
      | None | Some (RInf false) => whole_tail
      | Some l =>
          let s_signed := (sat_isize (xround RAway start) - 1)%Z in
          if negb (in_isize s_signed) then FPanic                     (* attempt to subtract with overflow *)
          else
            let s := Z.min (Z.max s_signed 0) n in
            let sum := (s_signed + sat_isize (xround RAway l))%Z in
            if negb (in_isize sum) then FPanic                        (* attempt to add with overflow *)
            else
              let e := Z.min (Z.max (Z.max sum 0) s) n in
              fbind (bslice lex (Z.to_N s) (Z.to_N e)) (fun sub => FVal (vstrl sub tag))
      end
  end.
(* encode_for_uri: every UTF-8 byte *)
Definition unreserved (b : N) : bool :=
  is_alpha b || is_digit b || (b =? 45) || (b =? 95) || (b =? 46) || (b =? 126).
Definition hex_digit (v : N) : N := if v <? 10 then 48 + v else 65 + v - 10.
Definition encode_byte (b : N) : list N :=
  if unreserved b then [b] else [37; hex_digit (b / 16); hex_digit (b mod 16)].
Definition encode_for_uri (s : str) : cvalX := vstrl (flat_map encode_byte (utf8 s)) None.
(* strbefore / strafter *)
Definition strbefore (h : str) (ht : option str) (n : str) : fout cvalX :=
  let found := rust_find n h in
  fbind (bslice h 0 (match found with Some off => off | None => 0 end)) (fun sub =>
    FVal (vstrl sub (match found with Some _ => ht | None => None end))).
Definition strafter (h : str) (ht : option str) (n : str) : fout cvalX :=
  match rust_find n h with
  | Some pos => fbind (bslice h (pos + blen n) (blen h)) (fun sub => FVal (vstrl sub ht))
  | None => FVal (vstrl [] None)
  end.
(* triple *)
Definition triple_fn (s p o : cvalX) : fout cvalX :=
  match s, p with
  | VTerm s', VTerm p' =>
      match s' with
      | Iri _ | Bnode _ =>
          match p' with
          | Iri _ => FVal (VTerm (Triple s' p' (as_term X c o)))
          | _ => FErr
          end
      | _ => FErr
      end
  | _, _ => FErr
  end.

(* ---------- function.rs: call_function ---------- *)
Definition arg1 (args : list cvalX) (f : cvalX -> fout cvalX) : fout cvalX :=
  match args with [a] => f a | _ => FPanic end.                  (* let [arg] = .. else unreachable!() *)
Definition arg2 (args : list cvalX) (f : cvalX -> cvalX -> fout cvalX) : fout cvalX :=
  match args with [a; b] => f a b | _ => FPanic end.
Definition str2 (args : list cvalX)
           (f : str -> option str -> str -> option str -> fout cvalX) : fout cvalX :=
  arg2 args (fun a b =>
    match as_string_lit a with
    | None => FErr
    | Some (h, ht) => match as_string_lit b with
                      | None => FErr
                      | Some (n, nt) => f h ht n nt
                      end
    end).
Definition compat2 (args : list cvalX) (f : str -> option str -> str -> fout cvalX) : fout cvalX :=
  str2 args (fun h ht n nt => if check_compatible ht nt then f h ht n else FErr).
Definition num1 (args : list cvalX) (f : inum X -> cvalX) : fout cvalX :=
  arg1 args (fun a => match as_number X c a with Some n => FVal (f n) | None => FErr end).
Definition date1 (args : list cvalX) (f : dtv X -> cvalX) : fout cvalX :=
  arg1 args (fun a => match as_xsd_date_time a with Some d => FVal (f d) | None => FErr end).
Fixpoint all_some {A} (l : list (option A)) : option (list A) :=
  match l with
  | [] => Some []
  | Some x :: r => option_map (cons x) (all_some r)
  | None :: _ => None
  end.

(* [lbl]: the identifier drawn by uuid::Uuid::now_v7(); [rnd]: the f64 drawn by rand::random *)
Definition call_function (lbl : str) (rnd : option (dbl X)) (f : func) (args : list cvalX) : fout cvalX :=
  match f with
  | FnStr => arg1 args (fun a => fopt (call_fn1 X c FStr a))
  | FnLang => arg1 args (fun a => fopt (call_fn1 X c FLang a))
  | FnDatatype => arg1 args (fun a => fopt (call_fn1 X c FDatatype a))
  | FnIri =>
      arg1 args (fun a =>
        match a with
        | VTerm (Iri i) => FVal (VTerm (Iri i))
        | _ => match as_xsd_string a with
               | Some st => if iri_ref_ok Y st then FVal (VTerm (Iri st)) else FErr
               | None => FErr
               end
        end)
  | FnBNode =>
      match rev args with                                              (* arguments.pop() *)
      | [] => FVal (VTerm (Bnode lbl))
      | a :: _ => match as_xsd_string a with Some _ => FVal (VTerm (Bnode lbl)) | None => FErr end
      end
  | FnRand => match rnd with Some d => FVal (vnum (Double FLX d)) | None => FErr end
  | FnAbs => num1 args (fun n => vnum (abs FLX n))
  | FnCeil => num1 args (fun n => vnum (num_ceil n))
  | FnFloor => num1 args (fun n => vnum (num_floor n))
  | FnRound => num1 args (fun n => vnum (num_round n))
  | FnConcat =>
      match all_some (map as_string_lit args) with
      | Some l => FVal (concat l)
      | None => FErr
      end
  | FnLangMatches =>
      arg2 args (fun t r =>
        match as_xsd_string t with
        | None => FErr
        | Some tag => match as_xsd_string r with
                      | None => FErr
                      | Some range => lang_matches tag range
                      end
        end)
  | FnSubStr =>
      match args with
      | [src; st] =>
          match as_string_lit src with
          | None => FErr
          | Some (lex, tag) =>
              match as_number X c st with
              | None => FErr
              | Some n => FVal (sub_str lex tag (to_dbl FLX n) None)
              end
          end
      | [src; st; ln] =>
          match as_string_lit src with
          | None => FErr
          | Some (lex, tag) =>
              match as_number X c st with
              | None => FErr
              | Some n =>
                  match as_number X c ln with
                  | None => FErr
                  | Some l => FVal (sub_str lex tag (to_dbl FLX n) (Some (to_dbl FLX l)))
                  end
              end
          end
      | _ => FPanic
      end
  | FnStrLen =>
      arg1 args (fun a => match as_string_lit a with
                          | Some (lex, _) => FVal (vint (Z.of_nat (length lex)))
                          | None => FErr
                          end)
  | FnUCase =>
      arg1 args (fun a => match as_string_lit a with
                          | Some (lex, tag) => FVal (vstrl (flat_map (to_upper Y) lex) tag)
                          | None => FErr
                          end)
  | FnLCase =>
      arg1 args (fun a => match as_string_lit a with
                          | Some (lex, tag) => FVal (vstrl (flat_map (to_lower Y) lex) tag)
                          | None => FErr
                          end)
  | FnEncodeForUri =>
      arg1 args (fun a => match as_string_lit a with
                          | Some (lex, _) => FVal (encode_for_uri lex)
                          | None => FErr
                          end)
  | FnContains => compat2 args (fun h _ n => FVal (vbool X (rust_contains h n)))
  | FnStrStarts => compat2 args (fun h _ n => FVal (vbool X (rust_starts_with h n)))
  | FnStrEnds => compat2 args (fun h _ n => FVal (vbool X (rust_ends_with h n)))
  | FnStrBefore => compat2 args strbefore
  | FnStrAfter => compat2 args strafter
  | FnYear => date1 args (fun d => let '(y, _, _, _, _) := dt_fields Y d in vint y)
  | FnMonth => date1 args (fun d => let '(_, m, _, _, _) := dt_fields Y d in vint m)
  | FnDay => date1 args (fun d => let '(_, _, dd, _, _) := dt_fields Y d in vint dd)
  | FnHours => date1 args (fun d => let '(_, _, _, h, _) := dt_fields Y d in vint h)
  | FnMinutes => date1 args (fun d => let '(_, _, _, _, mi) := dt_fields Y d in vint mi)
  | FnSeconds => date1 args (fun d => vnum (Decimal FLX (dec_of_big (dt_nanos Y d, 9%Z))))
  | FnIsIri => arg1 args (fun a => fopt (call_fn1 X c FIsIri a))
  | FnIsBlank => arg1 args (fun a => fopt (call_fn1 X c FIsBlank a))
  | FnIsLiteral => arg1 args (fun a => fopt (call_fn1 X c FIsLiteral a))
  | FnIsNumeric => arg1 args (fun a => fopt (call_fn1 X c FIsNumeric a))
  | FnTriple => match args with [s; p; o] => triple_fn s p o | _ => FPanic end
  | FnIsTriple =>
      arg1 args (fun a => FVal (vbool X (match a with VTerm (Triple _ _ _) => true | _ => false end)))
  (* todo(..): eprintln!("Function not implemented: ..") and None *)
  | FnReplace | FnTimezone | FnTz | FnNow | FnUuid | FnStrUuid | FnMd5 | FnSha1 | FnSha256
  | FnSha384 | FnSha512 | FnStrLang | FnStrDt | FnRegex | FnSubject | FnPredicate | FnObject
  | FnCustom _ => FErr
  end.

(* ------------------------------------------------------------------------------------ *)
(* 5. expressions with function calls (expression.rs: ArcExpression::eval)               *)
(* ------------------------------------------------------------------------------------ *)
(* the old fragment [XE e] is evaluated by ExprImpl.i_eval; the operators are repeated over
   the new syntax so that calls can be nested under them *)
Inductive cmpop := CGt | CGe | CLt | CLe.
Inductive arop := AAdd | ASub | AMul | ADiv.
Inductive fexpr :=
| XE (e : expr)
| XCall (f : func) (args : list fexpr)
| XNot (a : fexpr) | XOr (a b : fexpr) | XAnd (a b : fexpr)
| XEq (a b : fexpr) | XSame (a b : fexpr)
| XCmp (o : cmpop) (a b : fexpr)
| XAr (o : arop) (a b : fexpr)
| XIf (cnd t e : fexpr)
| XCoalesce (l : list fexpr).
Definition cmp_pred (o : cmpop) : comparison -> bool :=
  match o with CGt => p_gt | CGe => p_ge | CLt => p_lt | CLe => p_le end.
Definition ar_impl (o : arop) : inum X -> inum X -> option (inum X) :=
  match o with AAdd => add FLX | ASub => sub FLX | AMul => mul FLX | ADiv => div FLX end.

(* an evaluation: a value, an expression error, or a panic of the thread *)
Definition ev := fout cvalX.
Definition ev_opt (r : ev) : option cvalX := match r with FVal v => Some v | _ => None end.
Definition is_panic {A} (r : fout A) : bool := match r with FPanic => true | _ => false end.
(* a panic anywhere unwinds the whole evaluation *)
Definition with2 (a b : ev) (f : option cvalX -> option cvalX -> option cvalX) : ev :=
  if is_panic a || is_panic b then FPanic else fopt (f (ev_opt a) (ev_opt b)).
(* arguments.iter().map_while(|e| e.eval(..)).collect(): evaluation stops at the first error *)
Fixpoint eval_args (rs : list ev) : fout (list cvalX) :=
  match rs with
  | [] => FVal []
  | r :: rest => fbind r (fun v => fbind (eval_args rest) (fun vs => FVal (v :: vs)))
  end.
Fixpoint first_val (rs : list ev) : ev :=
  match rs with
  | [] => FErr
  | FVal v :: _ => FVal v
  | FPanic :: _ => FPanic
  | FErr :: rest => first_val rest
  end.
Definition path_code (path : list N) : str := flat_map (fun i => [95; 48 + i]) path.

(* [ent] = (label of the fresh blank node at the root, the random double); a call nested at
   [path] draws the label [fst ent ++ path_code path] *)
Variable ent : str * option (dbl X).
Fixpoint fi_eval (e : fexpr) (mu : amap) (path : list N) {struct e} : ev :=
  match e with
  | XE e0 => fopt (i_eval X c e0 mu)
  | XCall f args =>
      let fix go (l : list fexpr) (i : N) : list ev :=
        match l with
        | [] => []
        | a :: r => fi_eval a mu (i :: path) :: go r (i + 1)
        end in
      fbind (eval_args (go args 0)) (call_function (fst ent ++ path_code path) (snd ent) f)
  | XNot a =>
      fbind (fi_eval a mu (0 :: path)) (fun v => fopt (option_map (fun b => vbool X (negb b)) (c_truthy X c v)))
  | XOr a b =>
      with2 (fi_eval a mu (0 :: path)) (fi_eval b mu (1 :: path)) (fun x y =>
        match truthy_of X c x, truthy_of X c y with
        | Some p, Some q => Some (vbool X (p || q))
        | Some true, None | None, Some true => Some (vbool X true)
        | _, _ => None
        end)
  | XAnd a b =>
      with2 (fi_eval a mu (0 :: path)) (fi_eval b mu (1 :: path)) (fun x y =>
        match truthy_of X c x, truthy_of X c y with
        | Some p, Some q => Some (vbool X (p && q))
        | Some false, None | None, Some false => Some (vbool X false)
        | _, _ => None
        end)
  | XEq a b =>
      fbind (fi_eval a mu (0 :: path)) (fun x => fbind (fi_eval b mu (1 :: path)) (fun y =>
        fopt (option_map (vbool X) (c_eq X c x y))))
  | XSame a b =>
      fbind (fi_eval a mu (0 :: path)) (fun x => fbind (fi_eval b mu (1 :: path)) (fun y =>
        FVal (vbool X (term_eqb (into_term X c x) (into_term X c y)))))
  | XCmp o a b =>
      fbind (fi_eval a mu (0 :: path)) (fun x => fbind (fi_eval b mu (1 :: path)) (fun y =>
        fopt (cmp_arm X c (cmp_pred o) (Some x) (Some y))))
  | XAr o a b =>
      fbind (fi_eval a mu (0 :: path)) (fun x => fbind (fi_eval b mu (1 :: path)) (fun y =>
        fopt (arith_arm X c (ar_impl o) (Some x) (Some y))))
  | XIf cnd t e' =>
      fbind (fi_eval cnd mu (0 :: path)) (fun v =>
        match c_truthy X c v with
        | Some true => fi_eval t mu (1 :: path)
        | Some false => fi_eval e' mu (2 :: path)
        | None => if fix_if c then FErr else fi_eval e' mu (2 :: path)
        end)
  | XCoalesce l =>
      let fix go (l : list fexpr) (i : N) : list ev :=
        match l with
        | [] => []
        | a :: r => fi_eval a mu (i :: path) :: go r (i + 1)
        end in
      first_val (go l 0)
  end.

(* does the expression call a function without implementation? *)
Fixpoint all_supported (e : fexpr) : bool :=
  match e with
  | XE _ => true
  | XCall f args =>
      implemented f && (fix go (l : list fexpr) : bool :=
                          match l with [] => true | a :: r => all_supported a && go r end) args
  | XNot a => all_supported a
  | XOr a b | XAnd a b | XEq a b | XSame a b | XCmp _ a b | XAr _ a b => all_supported a && all_supported b
  | XIf a b d => all_supported a && all_supported b && all_supported d
  | XCoalesce l => (fix go (l : list fexpr) : bool :=
                      match l with [] => true | a :: r => all_supported a && go r end) l
  end.

(* every call has a number of arguments that spargebra's parser produces *)
Fixpoint arities_ok (e : fexpr) : bool :=
  match e with
  | XE _ => true
  | XCall f args =>
      arity_ok f (length args) && (fix go (l : list fexpr) : bool :=
                                     match l with [] => true | a :: r => arities_ok a && go r end) args
  | XNot a => arities_ok a
  | XOr a b | XAnd a b | XEq a b | XSame a b | XCmp _ a b | XAr _ a b => arities_ok a && arities_ok b
  | XIf a b d => arities_ok a && arities_ok b && arities_ok d
  | XCoalesce l => (fix go (l : list fexpr) : bool :=
                      match l with [] => true | a :: r => arities_ok a && go r end) l
  end.

(* what a query  SELECT ?r { <bgp for mu> BIND(e AS ?r) }  /  ASK { <bgp> FILTER(e) }  does *)
Inductive qres := QRows (bound : option term) (kept : bool) | QPanic.
Definition fi_query (e : fexpr) (mu : amap) : qres :=
  match fi_eval e mu [] with
  | FPanic => QPanic
  | r => QRows (option_map (into_term X c) (ev_opt r))
               (match bind (ev_opt r) (c_truthy X c) with Some true => true | _ => false end)
  end.
Definition qres_eqb (a b : qres) : bool :=
  match a, b with
  | QRows t1 k1, QRows t2 k2 => oteq t1 t2 && Bool.eqb k1 k2
  | QPanic, QPanic => true
  | _, _ => false
  end.
(* checker for the generated cases *)
Definition fexpr_ok (e : fexpr) (mu : amap) (observed : qres) : bool :=
  qres_eqb (fi_query e mu) observed.
(* SELECT ?s { ?s <tag:v> ?a . ... FILTER(e) } over several rows: which rows survive *)
Definition frows_ok (e : fexpr) (rows : list (amap * bool)) : bool :=
  forallb (fun r => match fi_query e (fst r) with
                    | QRows _ kept => Bool.eqb kept (snd r)
                    | QPanic => false
                    end) rows.
End Func.
